package core

import (
	"bytes"
	"go/ast"
	"go/printer"
	"go/token"
	"go/types"
	"npverif/internal/facts"
	"sort"
	"strings"

	"golang.org/x/tools/go/types/typeutil"
)

// Callee resolves the statically named callee of a call (function, method or
// interface method), through type information only.
func Callee(info *types.Info, call *ast.CallExpr) *types.Func {
	fn, _ := typeutil.Callee(info, call).(*types.Func)
	return fn
}

// IsBuiltinCall reports whether call invokes the named builtin.
func IsBuiltinCall(info *types.Info, call *ast.CallExpr, name string) bool {
	id, ok := ast.Unparen(call.Fun).(*ast.Ident)
	if !ok || id.Name != name {
		return false
	}
	_, isB := info.ObjectOf(id).(*types.Builtin)
	return isB
}

// IsConversion reports whether call is a type conversion.
func IsConversion(info *types.Info, call *ast.CallExpr) bool {
	tv, ok := info.Types[call.Fun]
	return ok && tv.IsType()
}

// Impls returns, for an interface method, the concrete methods of module types
// implementing the interface; for a concrete function, the function itself.
func (p *Program) Impls(fn *types.Func) []*types.Func {
	if fn == nil {
		return nil
	}
	sig, _ := fn.Type().(*types.Signature)
	if sig == nil || sig.Recv() == nil {
		return []*types.Func{fn}
	}
	iface, ok := sig.Recv().Type().Underlying().(*types.Interface)
	if !ok {
		return []*types.Func{fn}
	}
	var out []*types.Func
	for _, n := range p.Named {
		if _, isIface := n.Underlying().(*types.Interface); isIface {
			continue
		}
		for _, t := range []types.Type{n, types.NewPointer(n)} {
			if types.Implements(t, iface) {
				ms := types.NewMethodSet(t)
				if m := ms.Lookup(fn.Pkg(), fn.Name()); m != nil {
					if f, ok := m.Obj().(*types.Func); ok {
						out = append(out, f)
					}
				}
				break
			}
		}
	}
	return out
}

// CalleesOf lists every function object referenced (called or taken as a
// value) in the body of f, including inside function literals, with interface
// methods expanded to their module implementations. External callees are
// included as-is.
func (p *Program) CalleesOf(f *FuncDecl) []*types.Func {
	if p.astCalls == nil {
		p.astCalls = map[*types.Func][]*types.Func{}
	}
	if c, ok := p.astCalls[f.Obj]; ok {
		return c
	}
	seen := map[*types.Func]bool{}
	var out []*types.Func
	add := func(fn *types.Func) {
		for _, g := range p.Impls(fn) {
			if !seen[g] {
				seen[g] = true
				out = append(out, g)
			}
		}
		if fn != nil && !seen[fn] && !p.IsModuleFunc(fn) {
			seen[fn] = true
			out = append(out, fn)
		}
	}
	info := f.Pkg.TypesInfo
	ast.Inspect(f.Decl.Body, func(n ast.Node) bool {
		switch x := n.(type) {
		case *ast.Ident:
			if fn, ok := info.Uses[x].(*types.Func); ok {
				add(fn)
			}
		}
		return true
	})
	sort.Slice(out, func(i, j int) bool { return out[i].FullName() < out[j].FullName() })
	p.astCalls[f.Obj] = out
	return out
}

// Reachable returns the set of functions (module functions are followed,
// external ones are recorded as leaves) reachable from the given roots.
func (p *Program) Reachable(roots ...*types.Func) map[*types.Func]bool {
	seen := map[*types.Func]bool{}
	var work []*types.Func
	for _, r := range roots {
		for _, g := range p.Impls(r) {
			if !seen[g] {
				seen[g] = true
				work = append(work, g)
			}
		}
	}
	for len(work) > 0 {
		fn := work[len(work)-1]
		work = work[:len(work)-1]
		fd := p.ByObj[fn]
		if fd == nil {
			continue
		}
		for _, c := range p.CalleesOf(fd) {
			if !seen[c] {
				seen[c] = true
				work = append(work, c)
			}
		}
	}
	return seen
}

// CallPath returns one call chain from `from` to `to` over module functions (for diagnostics).
func (p *Program) CallPath(from, to *types.Func) []string {
	type item struct {
		fn   *types.Func
		prev *item
	}
	seen := map[*types.Func]bool{from: true}
	queue := []*item{{fn: from}}
	for len(queue) > 0 {
		it := queue[0]
		queue = queue[1:]
		if it.fn == to {
			var path []string
			for x := it; x != nil; x = x.prev {
				path = append([]string{FuncKey(x.fn)}, path...)
			}
			return path
		}
		fd := p.ByObj[it.fn]
		if fd == nil {
			continue
		}
		for _, c := range p.CalleesOf(fd) {
			if !seen[c] {
				seen[c] = true
				queue = append(queue, &item{fn: c, prev: it})
			}
		}
	}
	return nil
}

// CallSite is one call expression in a source function.
type CallSite struct {
	In     *FuncDecl
	Call   *ast.CallExpr
	Callee *types.Func
}

// CallSites returns every call in production code whose resolved callee satisfies match.
func (p *Program) CallSites(match func(*types.Func) bool) []CallSite {
	var out []CallSite
	for _, f := range p.Funcs {
		f := f
		ast.Inspect(f.Decl.Body, func(n ast.Node) bool {
			if call, ok := n.(*ast.CallExpr); ok {
				if fn := Callee(f.Pkg.TypesInfo, call); fn != nil && match(fn) {
					out = append(out, CallSite{In: f, Call: call, Callee: fn})
				}
			}
			return true
		})
	}
	return out
}

// CallsIn returns the calls inside node n (of function f) whose callee satisfies match.
func CallsIn(info *types.Info, n ast.Node, match func(*types.Func) bool) []*ast.CallExpr {
	var out []*ast.CallExpr
	if n == nil {
		return nil
	}
	ast.Inspect(n, func(m ast.Node) bool {
		if call, ok := m.(*ast.CallExpr); ok {
			if fn := Callee(info, call); fn != nil && match(fn) {
				out = append(out, call)
			}
		}
		return true
	})
	return out
}

// IsFunc builds a matcher for one fully specified function/method.
func IsFunc(pkgPath, recv, name string) func(*types.Func) bool {
	return func(fn *types.Func) bool {
		if fn == nil || fn.Name() != name || fn.Pkg() == nil || fn.Pkg().Path() != pkgPath {
			return false
		}
		sig, _ := fn.Type().(*types.Signature)
		return RecvTypeName(sig) == recv
	}
}

// ExprStr prints an expression exactly (types.ExprString elides literals).
func ExprStr(e ast.Node) string {
	if e == nil {
		return ""
	}
	var buf bytes.Buffer
	_ = printer.Fprint(&buf, token.NewFileSet(), e)
	s := buf.String()
	if len(s) > 160 {
		s = s[:157] + "..."
	}
	return strings.Join(strings.Fields(s), " ")
}

// IsNil reports whether e is the predeclared nil.
func IsNil(info *types.Info, e ast.Expr) bool {
	tv, ok := info.Types[ast.Unparen(e)]
	return ok && tv.IsNil()
}

// IsConst reports whether e is a compile-time constant or nil.
func IsConst(info *types.Info, e ast.Expr) bool {
	tv, ok := info.Types[ast.Unparen(e)]
	return ok && (tv.Value != nil || tv.IsNil())
}

// ConstString returns the string value of a constant expression.
func ConstString(info *types.Info, e ast.Expr) (string, bool) {
	tv, ok := info.Types[ast.Unparen(e)]
	if !ok || tv.Value == nil {
		return "", false
	}
	s := tv.Value.ExactString()
	if len(s) >= 2 && s[0] == '"' {
		// constant.StringVal without importing go/constant twice
		return strings.Trim(tv.Value.String(), "\""), true
	}
	return s, true
}

// FieldOf returns the struct field selected by a selector expression, if any.
func FieldOf(info *types.Info, e ast.Expr) *types.Var {
	se, ok := ast.Unparen(e).(*ast.SelectorExpr)
	if !ok {
		return nil
	}
	if sel := info.Selections[se]; sel != nil && sel.Kind() == types.FieldVal {
		v, _ := sel.Obj().(*types.Var)
		return v
	}
	return nil
}

// FieldOwner returns "pkgpath.Type" of the struct that declares field v,
// searching module types and the given extra named types.
func FieldOwnerName(sel *types.Selection) string {
	if sel == nil {
		return ""
	}
	t := sel.Recv()
	for {
		if pt, ok := t.(*types.Pointer); ok {
			t = pt.Elem()
			continue
		}
		break
	}
	// walk the implicit path to the struct that really owns the field
	idx := sel.Index()
	for i := 0; i < len(idx)-1; i++ {
		st, ok := t.Underlying().(*types.Struct)
		if !ok {
			break
		}
		t = st.Field(idx[i]).Type()
		if pt, ok := t.(*types.Pointer); ok {
			t = pt.Elem()
		}
	}
	if nt, ok := t.(*types.Named); ok {
		if nt.Obj().Pkg() != nil {
			return nt.Obj().Pkg().Path() + "." + nt.Obj().Name()
		}
		return nt.Obj().Name()
	}
	return t.String()
}

// RootIdent returns the identifier at the root of a selector/index/star chain.
func RootIdent(e ast.Expr) *ast.Ident {
	for {
		switch x := ast.Unparen(e).(type) {
		case *ast.Ident:
			return x
		case *ast.SelectorExpr:
			e = x.X
		case *ast.IndexExpr:
			e = x.X
		case *ast.StarExpr:
			e = x.X
		case *ast.SliceExpr:
			e = x.X
		case *ast.UnaryExpr:
			e = x.X
		case *ast.TypeAssertExpr:
			e = x.X
		case *ast.CallExpr:
			// method call on a receiver chain: x.f().g -> root x
			if se, ok := ast.Unparen(x.Fun).(*ast.SelectorExpr); ok {
				e = se.X
				continue
			}
			return nil
		default:
			return nil
		}
	}
}

// NamedOf returns the named type behind t (through pointers), or nil.
func NamedOf(t types.Type) *types.Named {
	for t != nil {
		switch x := t.(type) {
		case *types.Pointer:
			t = x.Elem()
		case *types.Named:
			return x
		default:
			return nil
		}
	}
	return nil
}

// TypeIs reports whether t (through pointers) is the named type pkgPath.name.
func TypeIs(t types.Type, pkgPath, name string) bool {
	nt := NamedOf(t)
	return nt != nil && nt.Obj().Name() == name && nt.Obj().Pkg() != nil && nt.Obj().Pkg().Path() == pkgPath
}

// IsErrorType reports whether t is the predeclared error interface.
func IsErrorType(t types.Type) bool {
	return t != nil && types.Identical(t, types.Universe.Lookup("error").Type())
}

// Terminates reports whether a statement list always leaves the enclosing
// block abruptly (return, continue, break, goto, panic or an if/switch all of
// whose arms do).
func Terminates(info *types.Info, stmts []ast.Stmt) bool {
	if len(stmts) == 0 {
		return false
	}
	return stmtTerminates(info, stmts[len(stmts)-1])
}

func stmtTerminates(info *types.Info, s ast.Stmt) bool {
	switch x := s.(type) {
	case *ast.ReturnStmt:
		return true
	case *ast.BranchStmt:
		return x.Tok == token.CONTINUE || x.Tok == token.BREAK || x.Tok == token.GOTO
	case *ast.BlockStmt:
		return Terminates(info, x.List)
	case *ast.ExprStmt:
		if call, ok := x.X.(*ast.CallExpr); ok {
			if IsBuiltinCall(info, call, "panic") {
				return true
			}
			if fn := Callee(info, call); fn != nil && fn.Pkg() != nil {
				full := fn.Pkg().Path() + "." + fn.Name()
				switch full {
				case "os.Exit", "log.Fatal", "log.Fatalf", "log.Fatalln", "log.Panic", "log.Panicf", "log.Panicln":
					return true
				}
			}
		}
	case *ast.IfStmt:
		if x.Else == nil {
			return false
		}
		return Terminates(info, x.Body.List) && stmtTerminates(info, x.Else)
	case *ast.SwitchStmt:
		hasDefault := false
		for _, cc := range x.Body.List {
			cl := cc.(*ast.CaseClause)
			if cl.List == nil {
				hasDefault = true
			}
			if !Terminates(info, cl.Body) {
				return false
			}
			// a break inside a case leaves the switch only
			if len(cl.Body) > 0 {
				if b, ok := cl.Body[len(cl.Body)-1].(*ast.BranchStmt); ok && b.Tok == token.BREAK && b.Label == nil {
					return false
				}
			}
		}
		return hasDefault
	}
	return false
}

// InlineBool resolves a call to a one-line boolean helper of the module
// (`func f(...) bool { return <expr> }`) for facts.InlineHook.
func (p *Program) InlineBool(info *types.Info, call *ast.CallExpr) *facts.InlineBody {
	fn := Callee(info, call)
	if fn == nil || !p.IsModuleFunc(fn) {
		return nil
	}
	fd := p.ByObj[fn]
	if fd == nil || fd.Decl.Body == nil || len(fd.Decl.Body.List) == 0 || len(fd.Decl.Body.List) > 4 {
		return nil
	}
	sig := fn.Type().(*types.Signature)
	if sig.Variadic() || sig.Results().Len() != 1 {
		return nil
	}
	if b, ok := sig.Results().At(0).Type().Underlying().(*types.Basic); !ok || b.Kind() != types.Bool {
		return nil
	}
	pure := func(e ast.Expr) bool {
		okp := true
		ast.Inspect(e, func(n ast.Node) bool {
			if _, isLit := n.(*ast.FuncLit); isLit {
				okp = false
			}
			return okp
		})
		return okp
	}
	// guard clauses `if c { return e }` followed by the final `return e`
	list := fd.Decl.Body.List
	var clauses []facts.InlineClause
	for i, st := range list {
		if i == len(list)-1 {
			break
		}
		ifs, isIf := st.(*ast.IfStmt)
		if !isIf || ifs.Init != nil || ifs.Else != nil || len(ifs.Body.List) != 1 {
			return nil
		}
		r, isRet := ifs.Body.List[0].(*ast.ReturnStmt)
		if !isRet || len(r.Results) != 1 || !pure(ifs.Cond) || !pure(r.Results[0]) {
			return nil
		}
		clauses = append(clauses, facts.InlineClause{Cond: ifs.Cond, Result: r.Results[0]})
	}
	ret, ok := list[len(list)-1].(*ast.ReturnStmt)
	if !ok || len(ret.Results) != 1 || !pure(ret.Results[0]) {
		return nil
	}
	ib := &facts.InlineBody{Expr: ret.Results[0], Guards: clauses, Info: fd.Pkg.TypesInfo, Recv: sig.Recv()}
	for i := 0; i < sig.Params().Len(); i++ {
		ib.Params = append(ib.Params, sig.Params().At(i))
	}
	return ib
}

// Stable renders a node like ExprStr, but with every identifier that names a local variable, parameter, receiver or
// named result replaced by its type in angle quotes (`‹*eval.PolicyEngine›.podsMap[‹string›]`). Constructs built
// this way - and the exception / justification tables keyed by them - do not change when a local is renamed.
func Stable(info *types.Info, e ast.Node) string {
	if e == nil {
		return ""
	}
	type sv struct {
		id   *ast.Ident
		name string
	}
	var saved []sv
	q := func(pk *types.Package) string { return pk.Name() }
	ast.Inspect(e, func(n ast.Node) bool {
		id, ok := n.(*ast.Ident)
		if !ok || id.Name == "_" {
			return true
		}
		if o := info.ObjectOf(id); o != nil {
			// a renamed function or field is written under its reference name
			if rn := RefName(o); rn != id.Name && rn != "" {
				switch ov := o.(type) {
				case *types.Func:
					saved = append(saved, sv{id, id.Name})
					id.Name = rn
					return true
				case *types.Var:
					if ov.IsField() {
						saved = append(saved, sv{id, id.Name})
						id.Name = rn
						return true
					}
				}
			}
		}
		v, ok := info.ObjectOf(id).(*types.Var)
		if !ok || v.IsField() || v.Pkg() == nil || v.Parent() == nil || v.Parent() == v.Pkg().Scope() {
			return true
		}
		saved = append(saved, sv{id, id.Name})
		id.Name = "‹" + types.TypeString(v.Type(), q) + "›"
		return true
	})
	s := ExprStr(e)
	for _, x := range saved {
		x.id.Name = x.name
	}
	return s
}
