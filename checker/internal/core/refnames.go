package core

import (
	"crypto/sha1"
	"encoding/json"
	"fmt"
	"go/ast"
	"go/token"
	"go/types"
	"os"
	"path/filepath"
	"sort"
	"strings"
)

// Reference names. Rules find "the" function or field they talk about by its name on the tree the rules were written
// against. A maintainer may rename an unexported function or field without changing behaviour; so that such a rename
// neither loses an anchor nor changes a construct (and with it the key of a known finding or of an exception), the
// names of that reference tree are kept in a committed table (anchors_ref.json, written by `npverif ref-gen`) and a
// function / field of the current tree that is NOT in the table, while exactly one table entry of the same package
// and receiver (or struct) with the same signature (or type) is missing from the tree, is taken to be that entry under
// a new name. RefName gives the reference name of an object; Func, Field, FuncKey go through it.

// RefTable is the committed table of reference names.
type RefTable struct {
	Funcs  []RefFunc  `json:"funcs"`
	Fields []RefField `json:"fields"`
	Vars   []RefField `json:"vars"` // package-level variables (Owner is empty)
}

// RefFunc is one function of the reference tree.
type RefFunc struct {
	Pkg     string   `json:"pkg"`
	Recv    string   `json:"recv,omitempty"`
	Ptr     bool     `json:"ptr,omitempty"` // pointer receiver
	Name    string   `json:"name"`
	Sig     string   `json:"sig"`
	Index   int      `json:"index"`             // order of declaration in the package (file name, offset): last tie-break
	Shape   string   `json:"shape,omitempty"`   // hash of the body's syntax shape without identifier names: tells same-signature siblings apart
	Callers []string `json:"callers,omitempty"` // keys of the module functions that call it (static and interface-expanded)
	Skips   []string `json:"skips,omitempty"`   // normalised conditions under which the rest of a loop body is skipped (LoopSkipConds)
}

// RefField is one struct field of the reference tree.
type RefField struct {
	Pkg   string `json:"pkg"`
	Owner string `json:"owner"`
	Name  string `json:"name"`
	Type  string `json:"type"`
	Index int    `json:"index"` // position in the struct / order of declaration in the package: pairs same-typed siblings
}

// RefPath is where the table is read from (set by the command line; empty: no table, names are taken as they are).
var RefPath = ""

var (
	renamedFuncs  = map[*types.Func]string{}
	renamedFields = map[*types.Var]string{}
	renamedVars   = map[*types.Var]string{}
)

// RefName returns the name under which the reference tree knows obj.
func RefName(obj types.Object) string {
	switch o := obj.(type) {
	case nil:
		return ""
	case *types.Func:
		if o == nil {
			return ""
		}
		if n, ok := renamedFuncs[o]; ok {
			return n
		}
		if og := o.Origin(); og != o {
			if n, ok := renamedFuncs[og]; ok {
				return n
			}
		}
	case *types.Var:
		if o == nil {
			return ""
		}
		if n, ok := renamedFields[o]; ok {
			return n
		}
		if n, ok := renamedVars[o]; ok {
			return n
		}
		if og := o.Origin(); og != o {
			if n, ok := renamedFields[og]; ok {
				return n
			}
		}
	}
	return obj.Name()
}

func sigString(fn *types.Func) string {
	sig := fn.Type().(*types.Signature)
	q := func(p *types.Package) string { return p.Path() }
	var b strings.Builder
	b.WriteString("(")
	for i := 0; i < sig.Params().Len(); i++ {
		if i > 0 {
			b.WriteString(",")
		}
		b.WriteString(types.TypeString(sig.Params().At(i).Type(), q))
	}
	if sig.Variadic() {
		b.WriteString("...")
	}
	b.WriteString(")(")
	for i := 0; i < sig.Results().Len(); i++ {
		if i > 0 {
			b.WriteString(",")
		}
		b.WriteString(types.TypeString(sig.Results().At(i).Type(), q))
	}
	b.WriteString(")")
	return b.String()
}

// declOrder numbers the functions of each package in order of declaration (file base name, offset).
func (p *Program) declOrder() map[*types.Func]int {
	byPkg := map[string][]*FuncDecl{}
	for _, fd := range p.Funcs {
		byPkg[fd.Pkg.PkgPath] = append(byPkg[fd.Pkg.PkgPath], fd)
	}
	out := map[*types.Func]int{}
	for _, l := range byPkg {
		sort.Slice(l, func(i, j int) bool {
			pa, pb := p.Fset.Position(l[i].Decl.Pos()), p.Fset.Position(l[j].Decl.Pos())
			if pa.Filename != pb.Filename {
				return filepath.Base(pa.Filename) < filepath.Base(pb.Filename)
			}
			return pa.Offset < pb.Offset
		})
		for i, fd := range l {
			out[fd.Obj] = i
		}
	}
	return out
}

// shapeOf hashes the syntax shape of a function body: node kinds, operators and literal values, no identifier names.
func shapeOf(body *ast.BlockStmt) string {
	if body == nil {
		return ""
	}
	h := sha1.New()
	ast.Inspect(body, func(n ast.Node) bool {
		if n == nil {
			h.Write([]byte(")"))
			return true
		}
		switch x := n.(type) {
		case *ast.Ident:
			h.Write([]byte("i"))
		case *ast.BasicLit:
			h.Write([]byte("l" + x.Value))
		case *ast.BinaryExpr:
			h.Write([]byte("b" + x.Op.String()))
		case *ast.UnaryExpr:
			h.Write([]byte("u" + x.Op.String()))
		case *ast.AssignStmt:
			h.Write([]byte("a" + x.Tok.String()))
		case *ast.BranchStmt:
			h.Write([]byte("j" + x.Tok.String()))
		default:
			h.Write([]byte(fmt.Sprintf("%T(", n)))
		}
		return true
	})
	return fmt.Sprintf("%x", h.Sum(nil))[:12]
}

// pkgVarsInOrder lists the package-level variables in order of declaration.
func (p *Program) pkgVarsInOrder(pk *types.Package) []*types.Var {
	var out []*types.Var
	sc := pk.Scope()
	for _, n := range sc.Names() {
		if v, ok := sc.Lookup(n).(*types.Var); ok {
			out = append(out, v)
		}
	}
	// by file name and offset (token.Pos values depend on the order in which files were parsed)
	sort.Slice(out, func(i, j int) bool { return p.varBefore(out[i], out[j]) })
	return out
}

func (p *Program) varBefore(a, b *types.Var) bool {
	pa, pb := p.Fset.Position(a.Pos()), p.Fset.Position(b.Pos())
	if pa.Filename != pb.Filename {
		return filepath.Base(pa.Filename) < filepath.Base(pb.Filename)
	}
	return pa.Offset < pb.Offset
}

type litKeyName struct {
	id        *ast.Ident
	real, ref string
}

// RefHasFunc reports whether the reference tree has a function with this key (true when there is no table).
func (p *Program) RefHasFunc(key string) bool {
	if p.refKeys == nil {
		return true
	}
	return p.refKeys[key]
}

// VanishedInto lists the keys of reference functions that are gone and whose only reference caller was callerKey.
func (p *Program) VanishedInto(callerKey string) []string {
	var out []string
	for k, c := range p.inlined {
		if c == callerKey {
			parts := strings.SplitN(k, "|", 3)
			if len(parts) == 3 {
				out = append(out, p.refKeyOf[k])
			}
		}
	}
	sort.Strings(out)
	return out
}

// UnresolvedRefs lists the functions of the reference table that are absent from this tree and were not matched.
func (p *Program) UnresolvedRefs() []string { return p.unresolved }

// BuildRefTable lists the functions and struct fields of the loaded tree.
func (p *Program) BuildRefTable() *RefTable {
	t := &RefTable{}
	callers := map[*types.Func]map[string]bool{}
	for _, fd := range p.Funcs {
		for _, c := range p.CalleesOf(fd) {
			if c == fd.Obj {
				continue
			}
			if callers[c] == nil {
				callers[c] = map[string]bool{}
			}
			callers[c][fd.Key()] = true
		}
	}
	order := p.declOrder()
	for _, fd := range p.Funcs {
		var cs []string
		for k := range callers[fd.Obj] {
			cs = append(cs, k)
		}
		sort.Strings(cs)
		t.Funcs = append(t.Funcs, RefFunc{Pkg: fd.Pkg.PkgPath, Recv: RecvTypeName(fd.Obj.Type().(*types.Signature)), Ptr: recvIsPointer(fd.Obj), Name: fd.Obj.Name(), Sig: sigString(fd.Obj), Index: order[fd.Obj], Shape: shapeOf(fd.Decl.Body), Callers: cs, Skips: LoopSkipConds(fd.Pkg.TypesInfo, fd.Decl.Body)})
	}
	q := func(pk *types.Package) string { return pk.Path() }
	for _, nt := range p.Named {
		st, ok := nt.Underlying().(*types.Struct)
		if !ok || nt.Obj().Pkg() == nil {
			continue
		}
		for i := 0; i < st.NumFields(); i++ {
			f := st.Field(i)
			t.Fields = append(t.Fields, RefField{Pkg: nt.Obj().Pkg().Path(), Owner: nt.Obj().Name(), Name: f.Name(), Type: types.TypeString(f.Type(), q), Index: i})
		}
	}
	for _, pk := range p.Pkgs {
		if skipPkg(pk.PkgPath) {
			continue
		}
		for i, v := range p.pkgVarsInOrder(pk.Types) {
			t.Vars = append(t.Vars, RefField{Pkg: pk.PkgPath, Name: v.Name(), Type: types.TypeString(v.Type(), q), Index: i})
		}
	}
	sort.Slice(t.Funcs, func(i, j int) bool {
		a, b := t.Funcs[i], t.Funcs[j]
		return a.Pkg+"|"+a.Recv+"|"+a.Name < b.Pkg+"|"+b.Recv+"|"+b.Name
	})
	sort.Slice(t.Fields, func(i, j int) bool {
		a, b := t.Fields[i], t.Fields[j]
		return a.Pkg+"|"+a.Owner+"|"+a.Name < b.Pkg+"|"+b.Owner+"|"+b.Name
	})
	return t
}

// WriteRefTable writes the table of the loaded tree to path.
func (p *Program) WriteRefTable(path string) error {
	b, err := json.MarshalIndent(p.BuildRefTable(), "", " ")
	if err != nil {
		return err
	}
	return os.WriteFile(path, append(b, '\n'), 0o644)
}

// Renames lists the renames that were recognised on this tree ("old -> new"), for the evidence.
func (p *Program) Renames() []string { return p.renames }

// resolveRenames compares the loaded tree with the reference table.
func (p *Program) resolveRenames() {
	if RefPath == "" {
		return
	}
	b, err := os.ReadFile(filepath.Clean(RefPath))
	if err != nil {
		return
	}
	var ref RefTable
	if json.Unmarshal(b, &ref) != nil {
		return
	}
	type fkey struct{ pkg, recv, name string }
	refF := map[fkey]RefFunc{}
	p.refKeys = map[string]bool{}
	p.refKeyOf = map[string]string{}
	for _, f := range ref.Funcs {
		refF[fkey{f.Pkg, f.Recv, f.Name}] = f
		// keys as FuncKey renders them: pointer receivers carry a star, which the table does not record - both forms
		p.refKeys[FuncKeyRaw(f.Pkg, f.Recv, f.Name)] = true
		if f.Recv != "" {
			p.refKeys[ShortPkg(f.Pkg)+".(*"+f.Recv+")."+f.Name] = true
		}
		p.refKeyOf[f.Pkg+"|"+f.Recv+"|"+f.Name] = FuncKeyRaw(f.Pkg, f.Recv, f.Name)
		if f.Ptr {
			p.refKeyOf[f.Pkg+"|"+f.Recv+"|"+f.Name] = ShortPkg(f.Pkg) + ".(*" + f.Recv + ")." + f.Name
		}
		if len(f.Skips) > 0 {
			if p.refSkips == nil {
				p.refSkips = map[string][]string{}
			}
			p.refSkips[p.refKeyOf[f.Pkg+"|"+f.Recv+"|"+f.Name]] = f.Skips
		}
	}
	cur := map[fkey]*FuncDecl{}
	for _, fd := range p.Funcs {
		cur[fkey{fd.Pkg.PkgPath, RecvTypeName(fd.Obj.Type().(*types.Signature)), fd.Obj.Name()}] = fd
	}
	var missing []RefFunc
	for k, f := range refF {
		if _, ok := cur[k]; !ok {
			missing = append(missing, f)
		}
	}
	sort.Slice(missing, func(i, j int) bool {
		return missing[i].Pkg+missing[i].Recv+missing[i].Name < missing[j].Pkg+missing[j].Recv+missing[j].Name
	})
	curOrder := p.declOrder()
	for _, m := range missing {
		var cands []*FuncDecl
		for k, fd := range cur {
			if _, known := refF[k]; known {
				continue
			}
			if k.pkg == m.Pkg && k.recv == m.Recv && sigString(fd.Obj) == m.Sig {
				cands = append(cands, fd)
			}
		}
		// several missing functions of the same signature cannot be told apart: left alone
		same := 0
		for _, o := range missing {
			if o.Pkg == m.Pkg && o.Recv == m.Recv && o.Sig == m.Sig {
				same++
			}
		}
		if !(len(cands) == 1 && same == 1) && m.Shape != "" {
			// same-signature siblings renamed together: the one whose body has the same shape; siblings that share the
			// shape too are paired in order of declaration
			var group []RefFunc
			for _, o := range missing {
				if o.Pkg == m.Pkg && o.Recv == m.Recv && o.Sig == m.Sig && o.Shape == m.Shape {
					group = append(group, o)
				}
			}
			var cg []*FuncDecl
			for _, c := range cands {
				if shapeOf(c.Decl.Body) == m.Shape {
					cg = append(cg, c)
				}
			}
			if len(group) == len(cg) && len(cg) >= 1 {
				sort.Slice(group, func(i, j int) bool { return group[i].Index < group[j].Index })
				sort.Slice(cg, func(i, j int) bool { return curOrder[cg[i].Obj] < curOrder[cg[j].Obj] })
				for k, o := range group {
					if o.Name == m.Name {
						cands, same = []*FuncDecl{cg[k]}, 1
					}
				}
			}
		}
		if len(cands) == 1 && same == 1 {
			renamedFuncs[cands[0].Obj] = m.Name
			p.renames = append(p.renames, FuncKeyRaw(m.Pkg, m.Recv, m.Name)+" -> "+cands[0].Obj.Name())
		}
	}
	for _, m := range missing {
		found := false
		for obj, old := range renamedFuncs {
			if old == m.Name && obj.Pkg() != nil && obj.Pkg().Path() == m.Pkg && RecvTypeName(obj.Type().(*types.Signature)) == m.Recv {
				found = true
			}
		}
		if !found {
			p.unresolved = append(p.unresolved, FuncKeyRaw(m.Pkg, m.Recv, m.Name))
		}
	}
	// a function that is gone without a successor, and had exactly one caller on the reference tree which is still
	// there, is taken to have been inlined into that caller: rules anchored in it look at the caller's body
	p.inlined = map[string]string{}
	for _, m := range missing {
		taken := false
		for _, n := range renamedFuncs {
			_ = n
		}
		for obj, old := range renamedFuncs {
			if old == m.Name && obj.Pkg() != nil && obj.Pkg().Path() == m.Pkg && RecvTypeName(obj.Type().(*types.Signature)) == m.Recv {
				taken = true
			}
		}
		if taken || len(m.Callers) != 1 {
			continue
		}
		p.inlined[m.Pkg+"|"+m.Recv+"|"+m.Name] = m.Callers[0]
	}
	// the key index follows the reference names
	if len(p.renames) > 0 {
		p.byKey = map[string]*FuncDecl{}
		for _, fd := range p.Funcs {
			p.byKey[fd.Key()] = fd
		}
	}
	// fields
	type okey struct{ pkg, owner string }
	refFields := map[okey][]RefField{}
	for _, f := range ref.Fields {
		refFields[okey{f.Pkg, f.Owner}] = append(refFields[okey{f.Pkg, f.Owner}], f)
	}
	q := func(pk *types.Package) string { return pk.Path() }
	for _, nt := range p.Named {
		st, ok := nt.Underlying().(*types.Struct)
		if !ok || nt.Obj().Pkg() == nil {
			continue
		}
		rf, ok := refFields[okey{nt.Obj().Pkg().Path(), nt.Obj().Name()}]
		if !ok {
			continue
		}
		have := map[string]*types.Var{}
		for i := 0; i < st.NumFields(); i++ {
			have[st.Field(i).Name()] = st.Field(i)
		}
		refNames := map[string]bool{}
		for _, f := range rf {
			refNames[f.Name] = true
		}
		for _, m := range rf {
			if _, present := have[m.Name]; present {
				continue
			}
			var cands []*types.Var
			for n, v := range have {
				if !refNames[n] && types.TypeString(v.Type(), q) == m.Type {
					cands = append(cands, v)
				}
			}
			same := 0
			for _, o := range rf {
				if _, present := have[o.Name]; !present && o.Type == m.Type {
					same++
				}
			}
			if len(cands) == same && same > 1 {
				// same-typed siblings renamed together: paired in order of declaration
				var miss []RefField
				for _, o := range rf {
					if _, present := have[o.Name]; !present && o.Type == m.Type {
						miss = append(miss, o)
					}
				}
				sort.Slice(miss, func(i, j int) bool { return miss[i].Index < miss[j].Index })
				idx := map[*types.Var]int{}
				for i := 0; i < st.NumFields(); i++ {
					idx[st.Field(i)] = i
				}
				sort.Slice(cands, func(i, j int) bool { return idx[cands[i]] < idx[cands[j]] })
				for k, o := range miss {
					if o.Name == m.Name {
						cands, same = []*types.Var{cands[k]}, 1
					}
				}
			}
			if len(cands) == 1 && same == 1 {
				renamedFields[cands[0]] = m.Name
				p.renames = append(p.renames, ShortPkg(m.Pkg)+"."+m.Owner+"."+m.Name+" -> "+cands[0].Name())
			}
		}
	}
	// package-level variables
	refVars := map[string][]RefField{}
	for _, v := range ref.Vars {
		refVars[v.Pkg] = append(refVars[v.Pkg], v)
	}
	for _, pk := range p.Pkgs {
		rv, ok := refVars[pk.PkgPath]
		if !ok {
			continue
		}
		have := map[string]*types.Var{}
		sc := pk.Types.Scope()
		for _, n := range sc.Names() {
			if v, isV := sc.Lookup(n).(*types.Var); isV {
				have[n] = v
			}
		}
		refNames := map[string]bool{}
		for _, v := range rv {
			refNames[v.Name] = true
		}
		for _, m := range rv {
			if _, present := have[m.Name]; present {
				continue
			}
			var cands []*types.Var
			for n, v := range have {
				if !refNames[n] && types.TypeString(v.Type(), q) == m.Type {
					cands = append(cands, v)
				}
			}
			same := 0
			for _, o := range rv {
				if _, present := have[o.Name]; !present && o.Type == m.Type {
					same++
				}
			}
			if len(cands) == same && same > 1 {
				var miss []RefField
				for _, o := range rv {
					if _, present := have[o.Name]; !present && o.Type == m.Type {
						miss = append(miss, o)
					}
				}
				sort.Slice(miss, func(i, j int) bool { return miss[i].Index < miss[j].Index })
				sort.Slice(cands, func(i, j int) bool { return p.varBefore(cands[i], cands[j]) })
				for k, o := range miss {
					if o.Name == m.Name {
						cands, same = []*types.Var{cands[k]}, 1
					}
				}
			}
			if len(cands) == 1 && same == 1 {
				renamedVars[cands[0]] = m.Name
				p.renames = append(p.renames, ShortPkg(m.Pkg)+"."+m.Name+" -> "+cands[0].Name())
			}
		}
	}
	sort.Strings(p.renames)
	if len(p.renames) == 0 {
		return
	}
	// The syntax trees are made to read as the reference tree reads: every identifier that denotes a renamed function,
	// field or package variable is written under its reference name. Type information is keyed by the identifier nodes,
	// not by their text, so nothing else changes; rules that look at selector names, printed expressions or paths see
	// the names they were written against.
	for _, pk := range p.Pkgs {
		// (go/ssa resolves the keys of struct literals by text: they are remembered, see Program.SSA)
		litKey := map[*ast.Ident]bool{}
		for _, f := range pk.Syntax {
			ast.Inspect(f, func(n ast.Node) bool {
				if cl, ok := n.(*ast.CompositeLit); ok {
					for _, el := range cl.Elts {
						if kv, isKV := el.(*ast.KeyValueExpr); isKV {
							if id, isId := kv.Key.(*ast.Ident); isId {
								litKey[id] = true
							}
						}
					}
				}
				return true
			})
		}
		rn := func(id *ast.Ident, o types.Object) {
			if o == nil || id.Name == "_" {
				return
			}
			if n := RefName(o); n != "" && n != o.Name() && id.Name == o.Name() {
				if litKey[id] {
					// renamed too, but written back for the time go/ssa is built (see Program.SSA)
					p.litKeys = append(p.litKeys, litKeyName{id, id.Name, n})
				}
				id.Name = n
			}
		}
		for id, o := range pk.TypesInfo.Defs {
			rn(id, o)
		}
		for id, o := range pk.TypesInfo.Uses {
			rn(id, o)
		}
	}
}

// FuncKeyRaw renders a function key from its parts (no pointer marker).
func FuncKeyRaw(pkg, recv, name string) string {
	if recv != "" {
		return ShortPkg(pkg) + ".(" + recv + ")." + name
	}
	return ShortPkg(pkg) + "." + name
}

func recvIsPointer(fn *types.Func) bool {
	r := fn.Type().(*types.Signature).Recv()
	if r == nil {
		return false
	}
	_, ok := r.Type().(*types.Pointer)
	return ok
}

// RefSkips: the loop skip conditions the reference tree has in the function with this key.
func (p *Program) RefSkips(key string) []string { return p.refSkips[key] }

// NormCond renders a condition with its polarity in front ("+" / "-"), negations and != folded into the sign, locals by type.
func NormCond(info *types.Info, e ast.Expr) string {
	sign := true
	for {
		e = ast.Unparen(e)
		if u, ok := e.(*ast.UnaryExpr); ok && u.Op == token.NOT {
			sign = !sign
			e = u.X
			continue
		}
		break
	}
	txt := Stable(info, e)
	if b, ok := e.(*ast.BinaryExpr); ok && b.Op == token.NEQ {
		sign = !sign
		txt = Stable(info, b.X) + " == " + Stable(info, b.Y)
	}
	if sign {
		return "+" + txt
	}
	return "-" + txt
}

// NegCond flips the polarity of a NormCond rendering.
func NegCond(c string) string {
	if strings.HasPrefix(c, "+") {
		return "-" + c[1:]
	}
	return "+" + strings.TrimPrefix(c, "-")
}

func endsWithJump(b *ast.BlockStmt) bool {
	if b == nil || len(b.List) == 0 {
		return false
	}
	switch x := b.List[len(b.List)-1].(type) {
	case *ast.BranchStmt:
		return x.Tok == token.CONTINUE || x.Tok == token.BREAK
	case *ast.ReturnStmt:
		return true
	}
	return false
}

// LoopSkipConds lists, for the if statements inside the loops of body, the condition under which what follows (or what the
// if guards) does not run for the current element: `if C { ...; continue }` skips under C, `if G { work }` skips under !G.
// Both forms of the same guard give the same entry, so turning one into the other is not a new way of dropping an element.
func LoopSkipConds(info *types.Info, body *ast.BlockStmt) []string {
	if body == nil {
		return nil
	}
	set := map[string]bool{}
	lastOfLoop := map[ast.Stmt]bool{}
	var visit func(n ast.Node, inLoop bool)
	visit = func(n ast.Node, inLoop bool) {
		if b, ok := n.(*ast.BlockStmt); ok && inLoop && len(b.List) > 0 {
			lastOfLoop[b.List[len(b.List)-1]] = true
		}
		ast.Inspect(n, func(m ast.Node) bool {
			if m == nil || m == n {
				return true
			}
			switch x := m.(type) {
			case *ast.FuncLit:
				visit(x.Body, false)
				return false
			case *ast.ForStmt:
				visit(x.Body, true)
				return false
			case *ast.RangeStmt:
				visit(x.Body, true)
				return false
			case *ast.IfStmt:
				if inLoop {
					c := NormCond(info, x.Cond)
					els, _ := x.Else.(*ast.BlockStmt)
					if lastOfLoop[x] && x.Else == nil {
						// the last statement of the loop body: `if c { S }` and `if !c { continue }; S` are the same loop
						set[c], set[NegCond(c)] = true, true
					}
					switch {
					case endsWithJump(x.Body):
						set[c] = true
					case x.Else == nil || endsWithJump(els):
						set[NegCond(c)] = true
					}
				}
			}
			return true
		})
	}
	visit(body, false)
	var out []string
	for k := range set {
		out = append(out, k)
	}
	sort.Strings(out)
	return out
}
