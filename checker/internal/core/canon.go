package core

import (
	"go/ast"
	"go/token"
	"go/types"
)

// canonicaliseReturns folds `r := e; return r` (and `var r T = e; return r`, and the several-results forms) back into
// `return e` in the in-memory syntax trees, before any rule looks at them: a local that is defined by the statement(s)
// directly in front of a return, used nowhere but in that return, and listed there in the order of definition is a name
// for the returned expression and nothing else (copy propagation; the order of evaluation is unchanged). Rules that read
// what a function returns then see the same tree whether or not the author named the value first. The expression nodes
// keep their type information (it is keyed by node); the statement that defined the local disappears from the block.
// The same is done for `c := e; if c { ... }` (c used nowhere else): the condition is what the author named.
// Returns the number of statements rewritten.
func (p *Program) canonicaliseReturns() int {
	n := 0
	for _, fd := range p.Funcs {
		info := fd.Pkg.TypesInfo
		uses := map[types.Object]int{}
		ast.Inspect(fd.Decl.Body, func(m ast.Node) bool {
			if id, ok := m.(*ast.Ident); ok {
				if o := info.Uses[id]; o != nil {
					uses[o]++
				}
			}
			return true
		})
		fold := func(list *[]ast.Stmt) {
			for i := 0; i < len(*list); i++ {
				ret, ok := (*list)[i].(*ast.ReturnStmt)
				if !ok || len(ret.Results) == 0 {
					continue
				}
				// result index of each local that is a bare result of this return
				at := map[types.Object]int{}
				for k, e := range ret.Results {
					if id, ok := e.(*ast.Ident); ok {
						if o, isVar := info.Uses[id].(*types.Var); isVar && !o.IsField() && uses[o] == 1 {
							at[o] = k
						}
					}
				}
				if len(at) == 0 {
					continue
				}
				next := len(ret.Results) // definitions must come in the order of the results they feed
				j := i - 1
				for ; j >= 0; j-- {
					names, values := singleDefs((*list)[j])
					if names == nil {
						break
					}
					ok := true
					lo := next
					for k := len(names) - 1; k >= 0; k-- {
						o := info.Defs[names[k]]
						idx, isRes := at[o]
						if o == nil || !isRes || idx >= lo {
							ok = false
							break
						}
						lo = idx
					}
					if !ok {
						break
					}
					for k, nm := range names {
						ret.Results[at[info.Defs[nm]]] = values[k]
					}
					next = lo
				}
				if drop := i - 1 - j; drop > 0 {
					// the return now starts where the first folded definition started, so that the moved expressions lie
					// inside the statement's source range (rules find the statement around a call by position)
					ret.Return = (*list)[j+1].Pos()
					*list = append((*list)[:j+1], (*list)[i:]...)
					i -= drop
					n++
				}
			}
		}
		// `c := e; if c { ... }` with c used nowhere else is `if e { ... }`
		foldCond := func(list *[]ast.Stmt) {
			for i := 1; i < len(*list); i++ {
				ifs, ok := (*list)[i].(*ast.IfStmt)
				if !ok || ifs.Init != nil {
					continue
				}
				names, values := singleDefs((*list)[i-1])
				if len(names) != 1 {
					continue
				}
				o := info.Defs[names[0]]
				if o == nil || uses[o] != 1 {
					continue
				}
				cond := ast.Unparen(ifs.Cond)
				neg := false
				if u, isNot := cond.(*ast.UnaryExpr); isNot && u.Op == token.NOT {
					cond, neg = ast.Unparen(u.X), true
				}
				id, isID := cond.(*ast.Ident)
				if !isID || info.Uses[id] != o {
					continue
				}
				if neg {
					u, direct := ifs.Cond.(*ast.UnaryExpr)
					if !direct {
						continue
					}
					u.X = &ast.ParenExpr{X: values[0]}
				} else {
					ifs.Cond = values[0]
				}
				ifs.If = (*list)[i-1].Pos()
				*list = append((*list)[:i-1], (*list)[i:]...)
				i--
				n++
			}
		}
		ast.Inspect(fd.Decl.Body, func(m ast.Node) bool {
			switch x := m.(type) {
			case *ast.BlockStmt:
				fold(&x.List)
				foldCond(&x.List)
			case *ast.CaseClause:
				fold(&x.Body)
				foldCond(&x.Body)
			case *ast.CommClause:
				fold(&x.Body)
				foldCond(&x.Body)
			}
			return true
		})
	}
	return n
}

// singleDefs: `a, b := e1, e2` or `var a T = e` (one value per name); nil otherwise.
func singleDefs(s ast.Stmt) ([]*ast.Ident, []ast.Expr) {
	switch x := s.(type) {
	case *ast.AssignStmt:
		if x.Tok != token.DEFINE || len(x.Lhs) != len(x.Rhs) {
			return nil, nil
		}
		var names []*ast.Ident
		for _, l := range x.Lhs {
			id, ok := l.(*ast.Ident)
			if !ok || id.Name == "_" {
				return nil, nil
			}
			names = append(names, id)
		}
		return names, x.Rhs
	case *ast.DeclStmt:
		gd, ok := x.Decl.(*ast.GenDecl)
		if !ok || gd.Tok != token.VAR || len(gd.Specs) != 1 {
			return nil, nil
		}
		vs := gd.Specs[0].(*ast.ValueSpec)
		if len(vs.Values) != len(vs.Names) {
			return nil, nil
		}
		for _, id := range vs.Names {
			if id.Name == "_" {
				return nil, nil
			}
		}
		return vs.Names, vs.Values
	}
	return nil, nil
}
