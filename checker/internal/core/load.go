// Package core holds the plumbing shared by every rule: loading the
// repository under analysis, indexing its functions, obligations, evidence and
// the known-findings file.
package core

import (
	"fmt"
	"go/ast"
	"go/token"
	"go/types"
	"npverif/internal/facts"
	"os"
	"path/filepath"
	"sort"
	"strings"

	"golang.org/x/tools/go/callgraph"
	"golang.org/x/tools/go/callgraph/cha"
	"golang.org/x/tools/go/callgraph/vta"
	"golang.org/x/tools/go/packages"
	"golang.org/x/tools/go/ssa"
	"golang.org/x/tools/go/ssa/ssautil"
)

// ModPath is the module path of the repository under analysis.
const ModPath = "github.com/np-guard/netpol-analyzer"

// Short package names used all over the rules.
const (
	PkgEval      = ModPath + "/pkg/netpol/eval"
	PkgK8s       = ModPath + "/pkg/netpol/eval/internal/k8s"
	PkgCommon    = ModPath + "/pkg/netpol/internal/common"
	PkgConnlist  = ModPath + "/pkg/netpol/connlist"
	PkgDiff      = ModPath + "/pkg/netpol/diff"
	PkgIngress   = ModPath + "/pkg/netpol/connlist/internal/ingressanalyzer"
	PkgParser    = ModPath + "/pkg/manifests/parser"
	PkgScanner   = ModPath + "/pkg/manifests/fsscanner"
	PkgCLI       = ModPath + "/pkg/cli"
	PkgDot       = ModPath + "/pkg/netpol/internal/dotformatting"
	PkgErrors    = ModPath + "/pkg/internal/netpolerrors"
	PkgLogger    = ModPath + "/pkg/logger"
	PkgPkgCommon = ModPath + "/pkg/internal/common"
	PkgOutput    = ModPath + "/pkg/internal/output"
)

// FuncDecl is one source function of the module with everything needed to
// analyse it.
type FuncDecl struct {
	Pkg  *packages.Package
	File *ast.File
	Decl *ast.FuncDecl
	Obj  *types.Func
}

// Key is the stable name used in obligations: "<pkg-suffix>.(Recv).Name".
func (f *FuncDecl) Key() string { return FuncKey(f.Obj) }

// Program is the loaded repository.
type Program struct {
	Dir        string
	Fset       *token.FileSet
	Pkgs       []*packages.Package // module packages only, sorted by path
	ByPath     map[string]*packages.Package
	Funcs      []*FuncDecl // every source function with a body (production packages)
	ByObj      map[*types.Func]*FuncDecl
	byKey      map[string]*FuncDecl
	Named      []*types.Named // named types declared in production packages
	Overlay    map[string][]byte
	ssaProg    *ssa.Program
	ssaPkgs    []*ssa.Package
	cg         *callgraph.Graph
	astCalls   map[*types.Func][]*types.Func // static+interface-expanded callees from AST
	reach      map[*types.Func]map[*types.Func]bool
	renames    []string
	unresolved []string
	refKeys    map[string]bool
	refKeyOf   map[string]string
	refSkips   map[string][]string
	// Canonicalised: number of `r := e; return r` shapes folded into `return e` before analysis (canon.go)
	Canonicalised int
	litKeys       []litKeyName
	inlined       map[string]string // "pkg|recv|name" of a vanished function -> key of the only caller it had
}

// skipPkg lists module packages that hold test support code only; they are
// loaded (type information) but never analysed as production code.
func skipPkg(path string) bool {
	return strings.HasSuffix(path, "/internal/testutils") || strings.HasSuffix(path, "/internal/examples") ||
		strings.HasSuffix(path, "/pkg/internal/projectpath")
}

// Env returns the environment for the go command run by go/packages, fixed so
// that the checks do not depend on the caller's shell.
func Env() []string {
	var env []string
	for _, kv := range os.Environ() {
		k := strings.SplitN(kv, "=", 2)[0]
		switch k {
		case "GOFLAGS", "GOPROXY", "GOSUMDB", "GOTOOLCHAIN", "GOWORK":
			continue
		}
		env = append(env, kv)
	}
	return append(env, "GOFLAGS=-mod=mod", "GOPROXY=off", "GOSUMDB=off", "GOTOOLCHAIN=local", "GOWORK=off")
}

// Load type-checks the repository in dir (current working tree, optionally
// with in-memory overlay files) and indexes it.
func Load(dir string, overlay map[string][]byte) (*Program, error) {
	cfg := &packages.Config{
		Mode:    packages.LoadSyntax,
		Dir:     dir,
		Tests:   false,
		Env:     Env(),
		Overlay: overlay,
	}
	pkgs, err := packages.Load(cfg, "./...")
	if err != nil {
		return nil, fmt.Errorf("go/packages: %w", err)
	}
	p := &Program{Dir: dir, ByPath: map[string]*packages.Package{}, ByObj: map[*types.Func]*FuncDecl{}, byKey: map[string]*FuncDecl{}, Overlay: overlay}
	var terrs []string
	for _, pk := range pkgs {
		if !strings.HasPrefix(pk.PkgPath, ModPath) {
			continue
		}
		for _, e := range pk.Errors {
			terrs = append(terrs, e.Error())
		}
		p.Pkgs = append(p.Pkgs, pk)
		p.ByPath[pk.PkgPath] = pk
		if p.Fset == nil {
			p.Fset = pk.Fset
		}
	}
	if len(terrs) > 0 {
		sort.Strings(terrs)
		if len(terrs) > 8 {
			terrs = terrs[:8]
		}
		return nil, fmt.Errorf("type-check failed: %s", strings.Join(terrs, "; "))
	}
	if len(p.Pkgs) < 15 {
		return nil, fmt.Errorf("only %d module packages loaded from %s (expected >= 15)", len(p.Pkgs), dir)
	}
	sort.Slice(p.Pkgs, func(i, j int) bool { return p.Pkgs[i].PkgPath < p.Pkgs[j].PkgPath })
	for _, pk := range p.Pkgs {
		if skipPkg(pk.PkgPath) {
			continue
		}
		sc := pk.Types.Scope()
		for _, n := range sc.Names() {
			if tn, ok := sc.Lookup(n).(*types.TypeName); ok && !tn.IsAlias() {
				if nt, ok := tn.Type().(*types.Named); ok {
					p.Named = append(p.Named, nt)
				}
			}
		}
		for _, f := range pk.Syntax {
			for _, d := range f.Decls {
				fd, ok := d.(*ast.FuncDecl)
				if !ok || fd.Body == nil {
					continue
				}
				obj, _ := pk.TypesInfo.Defs[fd.Name].(*types.Func)
				if obj == nil {
					continue
				}
				fdl := &FuncDecl{Pkg: pk, File: f, Decl: fd, Obj: obj}
				p.Funcs = append(p.Funcs, fdl)
				p.ByObj[obj] = fdl
				p.byKey[fdl.Key()] = fdl
			}
		}
	}
	p.Canonicalised = p.canonicaliseReturns()
	p.resolveRenames()
	sort.Slice(p.Funcs, func(i, j int) bool { return p.Funcs[i].Key() < p.Funcs[j].Key() })
	facts.InlineHook = p.InlineBool
	facts.NameHook = RefName
	facts.MutatorHook = func(info *types.Info, call *ast.CallExpr) ast.Expr {
		// convention of package common (DESIGN.md E3): methods without results mutate their receiver
		se, ok := ast.Unparen(call.Fun).(*ast.SelectorExpr)
		if !ok {
			return nil
		}
		fn, _ := info.ObjectOf(se.Sel).(*types.Func)
		if fn == nil || fn.Pkg() == nil || fn.Pkg().Path() != PkgCommon {
			return nil
		}
		sig := fn.Type().(*types.Signature)
		if sig.Recv() == nil || sig.Results().Len() != 0 {
			return nil
		}
		return se.X
	}
	return p, nil
}

// ShortPkg strips the module prefix from a package path.
func ShortPkg(path string) string {
	s := strings.TrimPrefix(path, ModPath)
	s = strings.TrimPrefix(s, "/pkg/")
	s = strings.TrimPrefix(s, "/")
	if s == "" {
		return "."
	}
	return s
}

// FuncKey returns the stable obligation key of a function object.
func FuncKey(fn *types.Func) string {
	if fn == nil {
		return "<nil>"
	}
	pkg := ""
	if fn.Pkg() != nil {
		pkg = ShortPkg(fn.Pkg().Path())
	}
	sig, _ := fn.Type().(*types.Signature)
	if sig != nil && sig.Recv() != nil {
		t := sig.Recv().Type()
		ptr := ""
		if pt, ok := t.(*types.Pointer); ok {
			t = pt.Elem()
			ptr = "*"
		}
		name := t.String()
		if nt, ok := t.(*types.Named); ok {
			name = nt.Obj().Name()
		}
		return fmt.Sprintf("%s.(%s%s).%s", pkg, ptr, name, RefName(fn))
	}
	return pkg + "." + RefName(fn)
}

// Func looks a function up by package path and (optional) receiver type name.
// recv "" means a package-level function.
func (p *Program) Func(pkgPath, recv, name string) *FuncDecl {
	for _, f := range p.Funcs {
		if f.Pkg.PkgPath != pkgPath || RefName(f.Obj) != name {
			continue
		}
		sig := f.Obj.Type().(*types.Signature)
		if recv == "" {
			if sig.Recv() == nil {
				return f
			}
			continue
		}
		if sig.Recv() == nil {
			continue
		}
		if RecvTypeName(sig) == recv {
			return f
		}
	}
	// a method turned into a function (or moved to another receiver of the package): the only function of that name
	var sameName []*FuncDecl
	for _, f := range p.Funcs {
		if f.Pkg.PkgPath == pkgPath && RefName(f.Obj) == name {
			sameName = append(sameName, f)
		}
	}
	if len(sameName) == 1 {
		return sameName[0]
	}
	if caller, ok := p.inlined[pkgPath+"|"+recv+"|"+name]; ok {
		if fd := p.byKey[caller]; fd != nil {
			note := FuncKeyRaw(pkgPath, recv, name) + " (gone; its only caller on the reference tree is read instead) -> " + caller
			seen := false
			for _, r := range p.renames {
				if r == note {
					seen = true
				}
			}
			if !seen {
				p.renames = append(p.renames, note)
			}
			return fd
		}
	}
	return nil
}

// RecvTypeName returns the name of the receiver's named type ("" if none).
func RecvTypeName(sig *types.Signature) string {
	if sig == nil || sig.Recv() == nil {
		return ""
	}
	t := sig.Recv().Type()
	if pt, ok := t.(*types.Pointer); ok {
		t = pt.Elem()
	}
	if nt, ok := t.(*types.Named); ok {
		return nt.Obj().Name()
	}
	return ""
}

// FuncsIn returns the production functions of one package.
func (p *Program) FuncsIn(pkgPath string) []*FuncDecl {
	var out []*FuncDecl
	for _, f := range p.Funcs {
		if f.Pkg.PkgPath == pkgPath {
			out = append(out, f)
		}
	}
	return out
}

// Methods returns all methods declared on the named type pkgPath.typeName.
func (p *Program) Methods(pkgPath, typeName string) []*FuncDecl {
	var out []*FuncDecl
	for _, f := range p.FuncsIn(pkgPath) {
		if RecvTypeName(f.Obj.Type().(*types.Signature)) == typeName {
			out = append(out, f)
		}
	}
	return out
}

// LookupType finds a named type of the module.
func (p *Program) LookupType(pkgPath, name string) *types.Named {
	pk := p.ByPath[pkgPath]
	if pk == nil {
		return nil
	}
	tn, _ := pk.Types.Scope().Lookup(name).(*types.TypeName)
	if tn == nil {
		return nil
	}
	nt, _ := tn.Type().(*types.Named)
	return nt
}

// Field finds a struct field object of a module type.
func (p *Program) Field(pkgPath, typeName, field string) *types.Var {
	nt := p.LookupType(pkgPath, typeName)
	if nt == nil {
		return nil
	}
	st, ok := nt.Underlying().(*types.Struct)
	if !ok {
		return nil
	}
	for i := 0; i < st.NumFields(); i++ {
		if RefName(st.Field(i)) == field {
			return st.Field(i)
		}
	}
	return nil
}

// Pos renders a position relative to the repository root.
func (p *Program) Pos(pos token.Pos) string {
	if !pos.IsValid() {
		return "-"
	}
	ps := p.Fset.Position(pos)
	rel, err := filepath.Rel(p.Dir, ps.Filename)
	if err != nil {
		rel = ps.Filename
	}
	return fmt.Sprintf("%s:%d", rel, ps.Line)
}

// IsModuleFunc reports whether fn is declared in a production package of the module.
func (p *Program) IsModuleFunc(fn *types.Func) bool {
	return fn != nil && fn.Pkg() != nil && strings.HasPrefix(fn.Pkg().Path(), ModPath) && !skipPkg(fn.Pkg().Path())
}

// ---------------------------------------------------------------- SSA

// SSA builds (once) the SSA form of the module packages.
func (p *Program) SSA() (*ssa.Program, []*ssa.Package) {
	if p.ssaProg != nil {
		return p.ssaProg, p.ssaPkgs
	}
	// go/ssa resolves the keys of struct literals by their text: while it is built they read as written
	for _, k := range p.litKeys {
		k.id.Name = k.real
	}
	prog, pkgs := ssautil.Packages(p.Pkgs, ssa.InstantiateGenerics)
	prog.Build()
	for _, k := range p.litKeys {
		k.id.Name = k.ref
	}
	p.ssaProg, p.ssaPkgs = prog, pkgs
	return prog, pkgs
}

// SSAFunc returns the SSA function of a source function.
func (p *Program) SSAFunc(f *FuncDecl) *ssa.Function {
	prog, _ := p.SSA()
	return prog.FuncValue(f.Obj)
}

// CallGraph builds (once) a VTA-over-CHA call graph of the module's SSA.
func (p *Program) CallGraph() *callgraph.Graph {
	if p.cg != nil {
		return p.cg
	}
	prog, _ := p.SSA()
	fns := ssautil.AllFunctions(prog)
	p.cg = vta.CallGraph(fns, cha.CallGraph(prog))
	return p.cg
}
