package core

import (
	"encoding/json"
	"fmt"
	"os"
	"path/filepath"
	"sort"
	"strings"
	"time"
)

// Status of an obligation.
type Status string

const (
	Discharged Status = "discharged"
	Excepted   Status = "excepted" // frozen table entry with a reason
	Violation  Status = "violation"
	Undecided  Status = "undecided" // the rule could not classify the construct: counts as failure
	Assumption Status = "assumption-violated"
	AnchorLost Status = "anchor-unresolved"
)

// Obligation is one proof obligation produced by a rule.
type Obligation struct {
	Property  string   `json:"property"`
	Rule      string   `json:"rule"`
	Construct string   `json:"construct"` // stable key: function + rule-specific description, never a line number
	Pos       string   `json:"pos"`
	Status    Status   `json:"status"`
	Reason    string   `json:"reason,omitempty"`
	Path      []string `json:"path,omitempty"` // entry point -> call chain -> offending statement
	// Aliases: the same site keyed by the reference function(s) its code came from, when the function holding it absorbed a
	// function that is gone or is itself a helper extracted since the reference; a known finding recorded under one of these
	// keys is the same finding (its code moved), not a new one.
	Aliases []string `json:"aliases,omitempty"`
}

// Report collects the obligations of one property run.
type Report struct {
	Property    string
	Obs         []Obligation
	RuleCounts  map[string]int
	Floors      map[string]int // minimum number of instances per rule (vacuity guard)
	Assumptions []string
	Explanation string
	Anchors     []string
	Extra       map[string]interface{}
}

func NewReport(prop string) *Report {
	return &Report{Property: prop, RuleCounts: map[string]int{}, Floors: map[string]int{}, Extra: map[string]interface{}{}, Assumptions: []string{}, Anchors: []string{}}
}

// Add records an obligation.
func (r *Report) Add(rule, construct, pos string, st Status, reason string, path ...string) {
	for i := range r.Obs {
		o := &r.Obs[i]
		if o.Rule == rule && o.Construct == construct {
			// the same construct reported twice (e.g. a loop body re-walked): keep the worse status
			if o.Status == Discharged && st != Discharged {
				o.Status, o.Reason, o.Pos, o.Path = st, reason, pos, path
			}
			return
		}
	}
	r.Obs = append(r.Obs, Obligation{Property: r.Property, Rule: rule, Construct: construct, Pos: pos, Status: st, Reason: reason, Path: path})
	r.RuleCounts[rule]++
}

// OK is shorthand for a discharged obligation.
func (r *Report) OK(rule, construct, pos, reason string) {
	r.Add(rule, construct, pos, Discharged, reason)
}

// Bad is shorthand for a violation.
func (r *Report) Bad(rule, construct, pos, reason string, path ...string) {
	r.Add(rule, construct, pos, Violation, reason, path...)
}

// Check adds discharged-or-violation depending on ok.
func (r *Report) Check(ok bool, rule, construct, pos, okReason, badReason string) {
	if ok {
		r.OK(rule, construct, pos, okReason)
	} else {
		r.Bad(rule, construct, pos, badReason)
	}
}

// Alias adds alternative constructs to the latest obligation of (rule, construct).
func (r *Report) Alias(rule, construct string, aliases ...string) {
	for i := len(r.Obs) - 1; i >= 0; i-- {
		if r.Obs[i].Rule == rule && r.Obs[i].Construct == construct {
			for _, a := range aliases {
				if a != construct {
					r.Obs[i].Aliases = append(r.Obs[i].Aliases, a)
				}
			}
			return
		}
	}
}

// Lost records an anchor that could not be resolved.
func (r *Report) Lost(rule, anchor string) {
	r.Add(rule, "anchor "+anchor, "-", AnchorLost, "the code this rule talks about was not found (renamed or removed); the rule would be vacuous")
}

// Floor declares the minimum number of instances a rule must match.
func (r *Report) Floor(rule string, n int) { r.Floors[rule] = n }

// Assume records a trusted-base statement for the evidence.
func (r *Report) Assume(s string) { r.Assumptions = append(r.Assumptions, s) }

// Anchor records a resolved anchor.
func (r *Report) Anchor(s string) { r.Anchors = append(r.Anchors, s) }

// ---------------------------------------------------------------- known findings

// Finding is one entry of known_findings.json.
type Finding struct {
	ID        string `json:"id"`
	Property  string `json:"property"`
	Rule      string `json:"rule"`
	Construct string `json:"construct"`
	What      string `json:"what"`   // what fails, with the failing input
	Status    string `json:"status"` // "open" or "fixed"
	Commit    string `json:"commit,omitempty"`
	Fixed     string `json:"fixed,omitempty"` // "fixed: property=<id> <commit> <what failed>"
}

type FindingsFile struct {
	Comment  string    `json:"comment"`
	Findings []Finding `json:"findings"`
}

func LoadFindings(path string) (*FindingsFile, error) {
	b, err := os.ReadFile(path)
	if err != nil {
		if os.IsNotExist(err) {
			return &FindingsFile{}, nil
		}
		return nil, err
	}
	var ff FindingsFile
	if err := json.Unmarshal(b, &ff); err != nil {
		return nil, fmt.Errorf("%s: %w", path, err)
	}
	return &ff, nil
}

// Open returns the open finding matching the obligation, if any. Fixed
// entries suppress nothing.
func (ff *FindingsFile) Open(o Obligation) *Finding {
	for i := range ff.Findings {
		f := &ff.Findings[i]
		if f.Status == "open" && f.Property == o.Property && f.Rule == o.Rule && f.Construct == o.Construct {
			return f
		}
	}
	for i := range ff.Findings {
		f := &ff.Findings[i]
		for _, a := range o.Aliases {
			if f.Status == "open" && f.Property == o.Property && f.Rule == o.Rule && f.Construct == a {
				return f
			}
		}
	}
	return nil
}

// ---------------------------------------------------------------- verdict and evidence

// Outcome of finishing a report.
type Outcome struct {
	Violations    []Obligation // not listed in known findings
	Known         []Obligation
	KnownFindings []*Finding
	Lines         []string // lines to print on stdout
	ExitCode      int
}

// Finish applies floors and known findings, writes replay files and evidence.
func (r *Report) Finish(verifDir, tier string, seed int64, ff *FindingsFile, start time.Time, units map[string]int, thorough map[string]interface{}) (*Outcome, error) {
	// vacuity guards
	var rules []string
	for rule := range r.Floors {
		rules = append(rules, rule)
	}
	sort.Strings(rules)
	for _, rule := range rules {
		if r.RuleCounts[rule] < r.Floors[rule] {
			r.Add(rule, fmt.Sprintf("instance floor of rule %s", rule), "-", Undecided,
				fmt.Sprintf("rule matched %d instances, fewer than the %d confirmed by hand: the rule has gone (partly) vacuous", r.RuleCounts[rule], r.Floors[rule]))
		}
	}
	sort.SliceStable(r.Obs, func(i, j int) bool {
		a, b := r.Obs[i], r.Obs[j]
		if a.Rule != b.Rule {
			return a.Rule < b.Rule
		}
		return a.Construct < b.Construct
	})
	out := &Outcome{}
	replayDir := filepath.Join(verifDir, "evidence", "replay")
	// replay files of earlier runs of this property are stale
	if old, _ := filepath.Glob(filepath.Join(replayDir, r.Property+"-*.json")); len(old) > 0 {
		for _, f := range old {
			_ = os.Remove(f)
		}
	}
	counts := map[Status]int{}
	n := 0
	for _, o := range r.Obs {
		counts[o.Status]++
		switch o.Status {
		case Discharged, Excepted:
			continue
		}
		if f := ff.Open(o); f != nil && o.Status == Violation {
			out.Known = append(out.Known, o)
			out.KnownFindings = append(out.KnownFindings, f)
			out.Lines = append(out.Lines, fmt.Sprintf("KNOWN-FINDING: property=%s %s %s %s — %s", r.Property, f.ID, o.Rule, o.Construct, f.What))
			continue
		}
		n++
		out.Violations = append(out.Violations, o)
		_ = os.MkdirAll(replayDir, 0o755)
		rp := filepath.Join(replayDir, fmt.Sprintf("%s-%d.json", r.Property, n))
		b, _ := json.MarshalIndent(o, "", "  ")
		_ = os.WriteFile(rp, append(b, '\n'), 0o644)
		out.Lines = append(out.Lines, fmt.Sprintf("%s rule=%s at %s: %s :: %s", strings.ToUpper(string(o.Status)), o.Rule, o.Pos, o.Construct, o.Reason))
		for _, p := range o.Path {
			out.Lines = append(out.Lines, "    path: "+p)
		}
		out.Lines = append(out.Lines, fmt.Sprintf("VIOLATION property=%s replay=%s", r.Property, rp))
	}
	if len(out.Violations) > 0 {
		out.ExitCode = 1
	}
	// samples: every non-discharged obligation, plus a spread of discharged ones
	var samples []Obligation
	for _, o := range r.Obs {
		if o.Status != Discharged {
			samples = append(samples, o)
		}
	}
	perRule := map[string]int{}
	for _, o := range r.Obs {
		if o.Status == Discharged && perRule[o.Rule] < 2 && len(samples) < 60 {
			perRule[o.Rule]++
			samples = append(samples, o)
		}
	}
	if len(samples) == 0 && len(r.Obs) > 0 {
		samples = append(samples, r.Obs[0])
	}
	distinct := map[string]bool{}
	for _, o := range r.Obs {
		distinct[o.Rule+"|"+o.Construct] = true
	}
	cov := map[string]interface{}{
		"explanation":         r.Explanation,
		"obligations":         len(r.Obs),
		"discharged":          counts[Discharged],
		"excepted":            counts[Excepted],
		"violations_reported": len(out.Violations),
		"known_findings":      len(out.Known),
		"undecided":           counts[Undecided] + counts[AnchorLost] + counts[Assumption],
		"evaluations":         len(r.Obs),
		"distinct_nontrivial": len(distinct),
		"rule":                "one evaluation = one obligation (rule instance at a construct of /repo's current source); distinct = distinct (rule, construct) keys; every obligation is non-trivial in that it names a real construct the rule had to classify",
		"rule_instances":      r.RuleCounts,
		"rule_floors":         r.Floors,
		"units":               units,
		"anchors":             r.Anchors,
		"samples":             samples,
		"checker_cmd":         fmt.Sprintf("./bin/npverif check -p %s -tier %s", r.Property, tier),
		"trusted_base":        r.Assumptions,
		"exhaustive":          true,
	}
	for k, v := range r.Extra {
		cov[k] = v
	}
	if thorough != nil {
		cov["thorough"] = thorough
	}
	ev := map[string]interface{}{
		"property_id": r.Property,
		"tier":        tier,
		"seed":        seed,
		"level":       "other",
		"coverage":    cov,
		"assumptions": r.Assumptions,
		"wall_s":      time.Since(start).Seconds(),
		"violations":  len(out.Violations),
	}
	b, err := json.MarshalIndent(ev, "", " ")
	if err != nil {
		return nil, err
	}
	if err := os.MkdirAll(filepath.Join(verifDir, "evidence"), 0o755); err != nil {
		return nil, err
	}
	if err := os.WriteFile(filepath.Join(verifDir, "evidence", r.Property+".json"), append(b, '\n'), 0o644); err != nil {
		return nil, err
	}
	return out, nil
}
