package core

import (
	"fmt"
	"go/token"
	"sort"
	"strings"

	"golang.org/x/tools/go/callgraph"
	"golang.org/x/tools/go/callgraph/cha"
	"golang.org/x/tools/go/callgraph/vta"
	"golang.org/x/tools/go/packages"
	"golang.org/x/tools/go/ssa"
	"golang.org/x/tools/go/ssa/ssautil"
)

// WholeFacts are reachability facts recomputed on the whole program
// (dependencies included) for the thorough tier.
type WholeFacts struct {
	Packages       int      `json:"packages"`
	Functions      int      `json:"functions"`
	Reachable      int      `json:"reachable_from_list_and_diff"`
	StdoutWriters  []string `json:"dependency_functions_referencing_stdout"`
	ModuleStdout   []string `json:"module_functions_referencing_stdout"`
	Exits          []string `json:"dependency_functions_that_exit_the_process"`
	ModuleExits    []string `json:"module_functions_that_exit_the_process"`
	ExplicitPanics int      `json:"reachable_dependency_functions_with_explicit_panic"`
	Note           string   `json:"note"`
}

// Whole loads dir with all dependencies, builds SSA for everything and a VTA
// call graph, and collects who can write to stdout / terminate the process on
// the paths from the list and diff commands.
func Whole(dir string) (*WholeFacts, error) {
	cfg := &packages.Config{Mode: packages.LoadAllSyntax, Dir: dir, Tests: false, Env: Env()}
	pkgs, err := packages.Load(cfg, "./...")
	if err != nil {
		return nil, err
	}
	if packages.PrintErrors(pkgs) > 0 {
		return nil, fmt.Errorf("whole-program load: type errors")
	}
	prog, _ := ssautil.AllPackages(pkgs, ssa.InstantiateGenerics)
	prog.Build()
	fns := ssautil.AllFunctions(prog)
	cg := vta.CallGraph(fns, cha.CallGraph(prog))
	var roots []*ssa.Function
	for f := range fns {
		if f.Pkg != nil && f.Pkg.Pkg.Path() == PkgCLI && (f.Name() == "runListCommand" || f.Name() == "runDiffCommand") {
			roots = append(roots, f)
		}
	}
	if len(roots) != 2 {
		return nil, fmt.Errorf("whole-program: roots not found")
	}
	seen := map[*ssa.Function]bool{}
	var work []*callgraph.Node
	for _, r := range roots {
		if n := cg.Nodes[r]; n != nil {
			work = append(work, n)
			seen[r] = true
		}
	}
	for len(work) > 0 {
		n := work[len(work)-1]
		work = work[:len(work)-1]
		for _, e := range n.Out {
			if !seen[e.Callee.Func] {
				seen[e.Callee.Func] = true
				work = append(work, e.Callee)
			}
		}
	}
	wf := &WholeFacts{Functions: len(fns), Reachable: len(seen)}
	pk := map[string]bool{}
	for f := range fns {
		if f.Pkg != nil {
			pk[f.Pkg.Pkg.Path()] = true
		}
	}
	wf.Packages = len(pk)
	inModule := func(f *ssa.Function) bool {
		for f.Parent() != nil {
			f = f.Parent()
		}
		return f.Pkg != nil && strings.HasPrefix(f.Pkg.Pkg.Path(), ModPath)
	}
	name := func(f *ssa.Function) string { return f.String() }
	for f := range seen {
		if f.Blocks == nil {
			continue
		}
		stdout, exits, panics := false, false, false
		for _, b := range f.Blocks {
			for _, in := range b.Instrs {
				switch x := in.(type) {
				case *ssa.UnOp:
					if x.Op == token.MUL {
						if g, ok := x.X.(*ssa.Global); ok && g.Pkg != nil && g.Pkg.Pkg.Path() == "os" && g.Name() == "Stdout" {
							stdout = true
						}
					}
				case *ssa.Panic:
					panics = true
				case ssa.CallInstruction:
					if c := x.Common().StaticCallee(); c != nil && c.Pkg != nil {
						full := c.Pkg.Pkg.Path() + "." + c.Name()
						switch full {
						case "os.Exit", "log.Fatal", "log.Fatalf", "log.Fatalln", "syscall.Exit":
							exits = true
						case "fmt.Print", "fmt.Printf", "fmt.Println":
							stdout = true
						}
					}
				}
			}
		}
		mod := inModule(f)
		// the standard library's own plumbing (fmt.Print* themselves, os, log, flag, testing) is not interesting
		std := f.Pkg != nil && !strings.Contains(f.Pkg.Pkg.Path(), ".")
		if stdout {
			if mod {
				wf.ModuleStdout = append(wf.ModuleStdout, name(f))
			} else if !std {
				wf.StdoutWriters = append(wf.StdoutWriters, name(f))
			}
		}
		if exits {
			if mod {
				wf.ModuleExits = append(wf.ModuleExits, name(f))
			} else if !std {
				wf.Exits = append(wf.Exits, name(f))
			}
		}
		if panics && !mod && !std {
			wf.ExplicitPanics++
		}
	}
	sort.Strings(wf.StdoutWriters)
	sort.Strings(wf.ModuleStdout)
	sort.Strings(wf.Exits)
	sort.Strings(wf.ModuleExits)
	wf.Note = "VTA over CHA on the SSA of all packages; reachability from cli.runListCommand and cli.runDiffCommand. The graph over-approximates dynamic dispatch, so a dependency function listed here MAY be reachable; the module-only rules (C18-stdout, E2-N9) decide the module's own sites, this pass lists what the dependencies add. Informational: it does not change the exit status."
	return wf, nil
}
