package mutate

func init() {
	Register(
		Variant{Property: "C05", Name: "empty-connections-listed", File: fConnlist, Func: "ConnlistAnalyzer.getConnectionsBetweenPeers", Old: "\t\t\tif allowedConnections.IsEmpty() {\n\t\t\t\tcontinue\n\t\t\t}\n", New: "", Rule: "C05-a"},
		Variant{Property: "C05", Name: "pair-filter-dropped", File: fConnlist, Func: "ConnlistAnalyzer.getConnectionsBetweenPeers", Old: "\t\t\tif !ca.includePairOfWorkloads(pe, srcPeer, dstPeer) {\n\t\t\t\tcontinue\n\t\t\t}\n", New: "", Rule: "C05-a"},
		Variant{Property: "C05", Name: "pair-filter-on-swapped-pair", File: fConnlist, Func: "ConnlistAnalyzer.getIngressAllowedConnections", Old: "if !ca.includePairOfWorkloads(pe, ingressControllerPod, peerAndConn.Peer) {", New: "if !ca.includePairOfWorkloads(pe, ingressControllerPod, ingressControllerPod) {", Rule: "C05-a"},
		Variant{Property: "C05", Name: "ingress-empty-conn-listed", File: fConnlist, Func: "ConnlistAnalyzer.getIngressAllowedConnections", Old: "\t\t\tca.warnBlockedIngress(peerStr, peerAndConn.IngressObjects)\n\t\t\tcontinue\n", New: "\t\t\tca.warnBlockedIngress(peerStr, peerAndConn.IngressObjects)\n", Rule: "C05-a"},
		Variant{Property: "C05", Name: "self-pairs-accepted", File: fConnlist, Func: "ConnlistAnalyzer.includePairOfWorkloads", Old: "\tif src.String() == dst.String() {\n\t\treturn false\n\t}\n", New: "", Rule: "C05-a-pred"},
		Variant{Property: "C05", Name: "ip-pairs-accepted", File: fConnlist, Func: "ConnlistAnalyzer.includePairOfWorkloads", Old: "if src.IsPeerIPType() && dst.IsPeerIPType() {", New: "if src.IsPeerIPType() && dst.IsPeerIPType() && ca.exposureAnalysis {", Rule: "C05-a-pred"},
		Variant{Property: "C05", Name: "self-test-by-name-only", File: fConnlist, Func: "ConnlistAnalyzer.includePairOfWorkloads", Old: "if src.String() == dst.String() {", New: "if src.Name() == dst.Name() && src.Kind() == \"\" {", Rule: "C05-a-pred"},
		Variant{Property: "C05", Name: "rows-appended-twice", File: fConnlist, Func: "ConnlistAnalyzer.getConnectionsBetweenPeers", Old: "\t\t\t\tconnsRes = append(connsRes, p2pConnection)\n", New: "\t\t\t\tconnsRes = append(connsRes, p2pConnection)\n\t\t\t\tif srcPeer.IsPeerIPType() {\n\t\t\t\t\tconnsRes = append(connsRes, p2pConnection)\n\t\t\t\t}\n", Rule: "C05-a-loop"},
		Variant{Property: "C05", Name: "unsplit-block-in-partition", File: fNetpol, Func: "NetworkPolicy.rulePeersReferencedIPBlocks", Old: "res = append(res, ipb.Split()...)", New: "res = append(res, ipb)", Rule: "C05-b-ranges", Why: "seeded C05-a"},
		Variant{Property: "C05", Name: "partition-filtered", File: fRes, Func: "PolicyEngine.getDisjointIPBlocks", Old: "\treturn disjointRes, nil", New: "\treturn disjointRes[:len(disjointRes)/2+1], nil", Rule: "C05-b"},
		Variant{Property: "C05", Name: "partition-without-full-range", File: fRes, Func: "PolicyEngine.getDisjointIPBlocks", Old: "newAll := netset.GetCidrAll()", New: "newAll, _ := netset.IPBlockFromCidr(\"10.0.0.0/8\")", Rule: "C05-b"},
		Variant{Property: "C05", Name: "union-canonical-check-conditional", File: fConnSet, Func: "ConnectionSet.Union", Old: "\tconn.checkIfAllConnections()\n", New: "\tif len(conn.AllowedProtocols) > len(other.AllowedProtocols) {\n\t\tconn.checkIfAllConnections()\n\t}\n", Rule: "C05-c", Why: "seeded C05-b"},
		Variant{Property: "C05", Name: "row-built-from-raw-literal", File: fConnlist, Func: "GetConnectionSetFromP2PConnection", Old: "AllowAll: c.AllProtocolsAndPorts(), ", New: "", Rule: "C05-c-encap"},
		Variant{Property: "C05", Name: "ports-own-representation", File: fPortSet, Func: "MakePortSet", Old: "\treturn &PortSet{Ports: interval.NewCanonicalSet(),", New: "\tvar cs *interval.CanonicalSet\n\treturn &PortSet{Ports: cs,", Rule: "C05-d"},
	)
}
