// Package mutate holds the sensitivity variants of the thorough tier: small
// edits of /repo's *current* sources, applied in memory through the go/packages
// overlay (nothing is written to disk). Each variant names the rule that is
// expected to report it.
package mutate

import (
	"errors"
	"fmt"
	"go/ast"
	"go/parser"
	"go/token"
	"os"
	"path/filepath"
	"strings"
)

// Variant is one edit.
type Variant struct {
	Property string
	Name     string
	File     string // relative to the repository root
	Func     string // "Name" or "Recv.Name"; "" = whole file
	Old, New string
	Nth      int    // which occurrence inside the scope (0 = first)
	Rule     string // rule expected to fire ("" = any rule of the property)
	Why      string // what behaviour the edit breaks
	Benign   bool   // a behaviour-preserving edit: the check must stay silent
	// Also is applied to the whole file after the main edit (e.g. an import the edit needs): pairs of old, new text.
	Also []string
}

// ErrNotApplicable means the anchor text of the variant is not in the current tree.
var ErrNotApplicable = errors.New("variant not applicable to the current tree")

// Apply returns the overlay realising the variant on the tree rooted at repo.
func (v Variant) Apply(repo string) (map[string][]byte, error) {
	path := filepath.Join(repo, v.File)
	src, err := os.ReadFile(path)
	if err != nil {
		return nil, fmt.Errorf("%w: %v", ErrNotApplicable, err)
	}
	lo, hi := 0, len(src)
	if v.Func != "" {
		fset := token.NewFileSet()
		f, err := parser.ParseFile(fset, path, src, parser.SkipObjectResolution)
		if err != nil {
			return nil, err
		}
		found := false
		for _, d := range f.Decls {
			fd, ok := d.(*ast.FuncDecl)
			if !ok || fd.Body == nil {
				continue
			}
			name := fd.Name.Name
			if fd.Recv != nil && len(fd.Recv.List) == 1 {
				t := fd.Recv.List[0].Type
				if st, ok := t.(*ast.StarExpr); ok {
					t = st.X
				}
				if id, ok := t.(*ast.Ident); ok {
					if v.Func == id.Name+"."+fd.Name.Name {
						name = v.Func
					}
				}
			}
			if name == v.Func {
				lo = fset.Position(fd.Pos()).Offset
				hi = fset.Position(fd.End()).Offset
				found = true
				break
			}
		}
		if !found {
			return nil, fmt.Errorf("%w: function %s not in %s", ErrNotApplicable, v.Func, v.File)
		}
	}
	scope := string(src[lo:hi])
	idx := -1
	from := 0
	for i := 0; i <= v.Nth; i++ {
		j := strings.Index(scope[from:], v.Old)
		if j < 0 {
			return nil, fmt.Errorf("%w: text %q (occurrence %d) not in %s %s", ErrNotApplicable, v.Old, v.Nth, v.File, v.Func)
		}
		idx = from + j
		from = idx + len(v.Old)
	}
	out := string(src[:lo]) + scope[:idx] + v.New + scope[idx+len(v.Old):] + string(src[hi:])
	for i := 0; i+1 < len(v.Also); i += 2 {
		if !strings.Contains(out, v.Also[i]) {
			return nil, fmt.Errorf("%w: text %q not in %s", ErrNotApplicable, v.Also[i], v.File)
		}
		out = strings.Replace(out, v.Also[i], v.Also[i+1], 1)
	}
	return map[string][]byte{path: []byte(out)}, nil
}

var all []Variant

// Register adds variants (called from init functions of the variant tables).
func Register(vs ...Variant) { all = append(all, vs...) }

// For returns the variants of one property.
func For(prop string) []Variant {
	var out []Variant
	for _, v := range all {
		if v.Property == prop {
			out = append(out, v)
		}
	}
	return out
}

// Find returns a variant by property and name.
func Find(prop, name string) (Variant, bool) {
	for _, v := range all {
		if v.Property == prop && v.Name == name {
			return v, true
		}
	}
	return Variant{}, false
}
