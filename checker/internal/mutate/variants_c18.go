package mutate

const (
	fCliList = "pkg/cli/list.go"
	fCliDiff = "pkg/cli/diff.go"
	fCliRoot = "pkg/cli/root.go"
)

func init() {
	Register(
		Variant{Property: "C18", Name: "list-println", File: fCliList, Func: "runListCommand", Old: "fmt.Printf(\"%s\", out)", New: "fmt.Println(out)", Rule: "C18-print"},
		Variant{Property: "C18", Name: "list-prints-trimmed", File: fCliList, Func: "runListCommand", Old: "fmt.Printf(\"%s\", out)", New: "fmt.Printf(\"%s\", strings.TrimSpace(out))", Rule: "C18-print"},
		Variant{Property: "C18", Name: "list-file-gets-other-bytes", File: fCliList, Func: "runListCommand", Old: "return writeBufToFile(outFile, []byte(out))", New: "return writeBufToFile(outFile, []byte(strings.TrimSpace(out)))", Rule: "C18-print"},
		Variant{Property: "C18", Name: "list-file-error-dropped", File: fCliList, Func: "runListCommand", Old: "return writeBufToFile(outFile, []byte(out))", New: "_ = writeBufToFile(outFile, []byte(out))", Rule: "C18"},
		Variant{Property: "C18", Name: "list-file-only-when-nonempty", File: fCliList, Func: "runListCommand", Old: "if outFile != \"\" {", New: "if outFile != \"\" && out != \"\" {", Rule: "C18-print"},
		Variant{Property: "C18", Name: "list-tostring-on-fresh-analyzer", File: fCliList, Func: "runListCommand", Old: "out, err := analyzer.ConnectionsListToString(conns)", New: "out, err := connlist.NewConnlistAnalyzer().ConnectionsListToString(conns)", Rule: "C18-print"},
		Variant{Property: "C18", Name: "list-tostring-error-ignored", File: fCliList, Func: "runListCommand", Old: "\tout, err := analyzer.ConnectionsListToString(conns)\n\tif err != nil {\n\t\treturn err\n\t}", New: "\tout, _ := analyzer.ConnectionsListToString(conns)", Rule: "C18-exit"},
		Variant{Property: "C18", Name: "list-analysis-error-ignored-when-conns", File: fCliList, Func: "runListCommand", Old: "\tif err != nil {\n\t\treturn err\n\t}\n\tout, err :=", New: "\tif err != nil && len(conns) == 0 {\n\t\treturn err\n\t}\n\tout, err :=", Rule: "C18-exit"},
		Variant{Property: "C18", Name: "list-fails-on-warnings", File: fCliList, Func: "runListCommand", Old: "\tfmt.Printf(\"%s\", out)\n", New: "\tfmt.Printf(\"%s\", out)\n\tif len(analyzer.Errors()) > 0 {\n\t\treturn analyzer.Errors()[0].Error()\n\t}\n", Rule: "C18"},
		Variant{Property: "C18", Name: "file-opened-without-truncation", File: fCliList, Func: "writeBufToFile", Old: "fp, err := os.Create(filepath)", New: "fp, err := os.OpenFile(filepath, os.O_WRONLY|os.O_CREATE, 0o644)", Rule: "C18-file", Why: "seeded C18-a shape"},
		Variant{Property: "C18", Name: "file-opened-for-append", File: fCliList, Func: "writeBufToFile", Old: "fp, err := os.Create(filepath)", New: "fp, err := os.OpenFile(filepath, os.O_WRONLY|os.O_CREATE|os.O_APPEND|os.O_TRUNC, 0o644)", Rule: "C18-file"},
		Variant{Property: "C18", Name: "file-write-error-dropped", File: fCliList, Func: "writeBufToFile", Old: "\t_, err = fp.Write(buf)\n\tif err != nil {\n\t\treturn fmt.Errorf(\"error writing to file %s: %w\", filepath, err)\n\t}", New: "\t_, _ = fp.Write(buf)", Rule: "C18-file"},
		Variant{Property: "C18", Name: "file-truncating-openfile", File: fCliList, Func: "writeBufToFile", Old: "fp, err := os.Create(filepath)", New: "fp, err := os.OpenFile(filepath, os.O_RDWR|os.O_CREATE|os.O_TRUNC, 0o600)", Benign: true, Why: "equivalent to os.Create but for the mode"},
		Variant{Property: "C18", Name: "deferred-close-overwrites-error", File: fCliList, Func: "writeBufToFile", Old: "func writeBufToFile(filepath string, buf []byte) error {\n\tfp, err := os.Create(filepath)\n\tif err != nil {\n\t\treturn fmt.Errorf(\"error creating file %s: %w\", filepath, err)\n\t}\n", New: "func writeBufToFile(filepath string, buf []byte) (err error) {\n\tvar fp *os.File\n\tfp, err = os.Create(filepath)\n\tif err != nil {\n\t\treturn fmt.Errorf(\"error creating file %s: %w\", filepath, err)\n\t}\n\tdefer func() { err = fp.Close() }()\n", Rule: "C18-exit", Why: "seeded C18-b shape"},
		Variant{Property: "C18", Name: "deferred-close-guarded", File: fCliList, Func: "writeBufToFile", Old: "func writeBufToFile(filepath string, buf []byte) error {\n\tfp, err := os.Create(filepath)\n\tif err != nil {\n\t\treturn fmt.Errorf(\"error creating file %s: %w\", filepath, err)\n\t}\n", New: "func writeBufToFile(filepath string, buf []byte) (err error) {\n\tvar fp *os.File\n\tfp, err = os.Create(filepath)\n\tif err != nil {\n\t\treturn fmt.Errorf(\"error creating file %s: %w\", filepath, err)\n\t}\n\tdefer func() {\n\t\tif cerr := fp.Close(); err == nil {\n\t\t\terr = cerr\n\t\t}\n\t}()\n", Benign: true, Why: "the close error is reported only when nothing failed before"},
		Variant{Property: "C18", Name: "focus-option-gets-output", File: fCliList, Func: "getConnlistOptions", Old: "connlist.WithFocusWorkload(focusWorkload)", New: "connlist.WithFocusWorkload(output)", Rule: "C18-flags"},
		Variant{Property: "C18", Name: "exposure-under-fail-switch", File: fCliList, Func: "getConnlistOptions", Old: "\tif exposureAnalysis {", New: "\tif exposureAnalysis && !stopOnFirstError {", Rule: "C18-flags"},
		Variant{Property: "C18", Name: "fail-switch-not-forwarded", File: fCliList, Func: "getConnlistOptions", Old: "\tif stopOnFirstError {\n\t\tres = append(res, connlist.WithStopOnError())\n\t}\n", New: "", Rule: "C18-flags"},
		Variant{Property: "C18", Name: "options-slice-reset", File: fCliList, Func: "getConnlistOptions", Old: "\t\tres = append(res, connlist.WithExposureAnalysis())", New: "\t\tres = []connlist.ConnlistAnalyzerOption{connlist.WithExposureAnalysis()}", Rule: "C18-flags"},
		Variant{Property: "C18", Name: "exposure-flag-bound-to-other-variable", File: fCliList, Func: "newCommandList", Old: "c.Flags().BoolVarP(&exposureAnalysis, \"exposure\"", New: "c.Flags().BoolVarP(&stopOnFirstError, \"exposure\"", Rule: "C18-flags"},
		Variant{Property: "C18", Name: "quiet-suppresses-result", File: fCliList, Func: "runListCommand", Old: "\tfmt.Printf(\"%s\", out)\n", New: "\tif !quiet {\n\t\tfmt.Printf(\"%s\", out)\n\t}\n", Rule: "C18"},
		Variant{Property: "C18", Name: "diff-dirs-swapped", File: fCliDiff, Func: "runDiffCommand", Old: "diffAnalyzer.ConnDiffFromDirPaths(dir1, dir2)", New: "diffAnalyzer.ConnDiffFromDirPaths(dir2, dir1)", Rule: "C18-print"},
		Variant{Property: "C18", Name: "diff-arg-names-swapped", File: fCliDiff, Func: "getDiffOptions", Old: "diff.WithArgNames(dir1Arg, dir2Arg)", New: "diff.WithArgNames(dir2Arg, dir1Arg)", Rule: "C18-flags"},
		Variant{Property: "C18", Name: "diff-prints-with-newline", File: fCliDiff, Func: "runDiffCommand", Old: "fmt.Printf(\"%s\", out)", New: "fmt.Printf(\"%s\\n\", out)", Rule: "C18-print"},
		Variant{Property: "C18", Name: "diff-print-via-print", File: fCliDiff, Func: "runDiffCommand", Old: "fmt.Printf(\"%s\", out)", New: "fmt.Print(out)", Benign: true, Why: "Print of one string writes it verbatim"},
		Variant{Property: "C18", Name: "rune-drops-error", File: fCliDiff, Func: "newCommandDiff", Old: "\t\t\t\tcmd.SilenceUsage = true // don't print usage message when returning an error from running a valid command\n\t\t\t\treturn err", New: "\t\t\t\tcmd.SilenceUsage = true\n\t\t\t\tcmd.PrintErrln(err)", Rule: "C18-exit"},
		Variant{Property: "C18", Name: "exit-zero", File: fCliRoot, Func: "Execute", Old: "os.Exit(1)", New: "os.Exit(0)", Rule: "C18-exit"},
		Variant{Property: "C18", Name: "exit-only-for-some-errors", File: fCliRoot, Func: "Execute", Old: "\tif err != nil {\n\t\tos.Exit(1)\n\t}", New: "\tif err != nil && !quiet {\n\t\tos.Exit(1)\n\t}", Rule: "C18-exit"},
		Variant{Property: "C18", Name: "library-prints-progress", File: fRes, Func: "PolicyEngine.addObjectsByKind", Old: "\tvar err error\n", New: "\tvar err error\n\tfmt.Printf(\"loading %d objects\\n\", len(objects))\n", Rule: "C18-stdout"},
		Variant{Property: "C18", Name: "engine-kind-switch-loses-a-kind", File: fRes, Func: "PolicyEngine.addObjectsByKind", Old: "\t\tcase parser.Service, parser.Route, parser.Ingress:\n\t\t\tcontinue\n", New: "\t\tcase parser.Service, parser.Route:\n\t\t\tcontinue\n", Rule: "C18-stdout"},
		Variant{Property: "C18", Name: "dir-api-drops-unreadable-infos", File: fConnlist, Func: "ConnlistAnalyzer.ConnlistFromDirPath", Old: "\treturn ca.ConnlistFromResourceInfos(rList)\n}", New: "\tif len(errs) > 0 && len(rList) > 1 {\n\t\trList = rList[:len(rList)-1]\n\t}\n\treturn ca.ConnlistFromResourceInfos(rList)\n}", Rule: "C18-api"},
		Variant{Property: "C18", Name: "dir-api-own-analysis", File: fDiff, Func: "DiffAnalyzer.ConnDiffFromDirPaths", Old: "\treturn da.ConnDiffFromResourceInfos(infos1, infos2)\n}", New: "\treturn da.ConnDiffFromResourceInfos(infos2, infos1)\n}", Rule: "C18-api"},
		Variant{Property: "C18", Name: "focus-setter-trims", File: fConnlist, Func: "WithFocusWorkload", Old: "p.focusWorkload = workload", New: "p.focusWorkload = workload[:len(workload)/2*2]", Rule: "C18-flags"},
	)
}
