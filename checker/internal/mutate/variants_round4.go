package mutate

// Variants added after the fourth round of independently seeded changes (shape changes that hide a semantic slip): the
// shape of each seed the first run missed.
func init() {
	Register(
		Variant{Property: "C03", Name: "netpol-ports-examined-before-peers", File: fNetpol, Func: "NetworkPolicy.EgressAllowedConn",
			Old:  "\t\tpeerSelected, err := np.ruleSelectsPeer(rulePeers, dst)\n\t\tif err != nil {\n\t\t\treturn false, err\n\t\t}\n\t\tif !peerSelected {\n\t\t\tcontinue\n\t\t}\n\t\tconnSelected, err := np.ruleConnsContain(rulePorts, protocol, port, dst)\n\t\tif err != nil {\n\t\t\treturn false, err\n\t\t}\n\t\tif connSelected {\n\t\t\treturn true, nil\n\t\t}\n",
			New:  "\t\tconnSelected, err := np.ruleConnsContain(rulePorts, protocol, port, dst)\n\t\tif err != nil {\n\t\t\treturn false, err\n\t\t}\n\t\tif !connSelected {\n\t\t\tcontinue\n\t\t}\n\t\tpeerSelected, err := np.ruleSelectsPeer(rulePeers, dst)\n\t\tif err != nil {\n\t\t\treturn false, err\n\t\t}\n\t\tif peerSelected {\n\t\t\treturn true, nil\n\t\t}\n",
			Rule: "C03-peer-first", Why: "seeded C03-r4a shape"},
		Variant{Property: "C11", Name: "isempty-by-equality-with-the-empty-set", File: fPortSet, Func: "PortSet.IsEmpty", Old: "return p.Ports.IsEmpty() && len(p.NamedPorts) == 0", New: "return p.Equal(MakePortSet(false))", Rule: "C11-i", Why: "seeded C11-r4b"},
		Variant{Property: "C05", Name: "portset-from-runtime-range-by-toset", File: fPortSet, Func: "PortSet.AddPortRange", Old: "p.Ports.AddInterval(interval.New(minPort, maxPort))", New: "p.Ports = p.Ports.Union(interval.New(minPort, maxPort).ToSet())", Rule: "C05-c-range", Why: "seeded C05-r4a shape"},
		Variant{Property: "C15", Name: "deletepod-returns-when-owner-untracked", File: fCache, Func: "evalCache.deletePod",
			Old: "\tif _, ok := ec.ownerToPods[podKey]; ok {\n\t\t// delete pod from its associated owner at ownerToPods map\n\t\tdelete(ec.ownerToPods[podKey], podName)\n\t}\n",
			New: "\tif _, ok := ec.ownerToPods[podKey]; !ok {\n\t\treturn\n\t}\n\tdelete(ec.ownerToPods[podKey], podName)\n", Rule: "C15-inv", Why: "seeded C15-r4a shape"},
		Variant{Property: "C15", Name: "deletepod-guard-clause-on-remaining-pods", File: fCache, Func: "evalCache.deletePod",
			Old: "\t// check if no pods are left for this owner\n\tif len(ec.ownerToPods[podKey]) == 0 {\n\t\t// delete cache entries with this pod owner\n\t\tec.deleteWorkload(podKey)\n\t\t// delete owner from ownerToPods map\n\t\tdelete(ec.ownerToPods, podKey)\n\t}\n",
			New: "\tif len(ec.ownerToPods[podKey]) > 0 {\n\t\treturn\n\t}\n\tec.deleteWorkload(podKey)\n\tdelete(ec.ownerToPods, podKey)\n", Benign: true, Why: "the same decision as a guard clause"},
		Variant{Property: "C18", Name: "list-returns-early-when-nothing-is-allowed", File: fCliList, Func: "runListCommand", Old: "\tout, err := analyzer.ConnectionsListToString(conns)\n", New: "\tif len(conns) == 0 {\n\t\treturn nil\n\t}\n\tout, err := analyzer.ConnectionsListToString(conns)\n", Rule: "C18-print", Why: "seeded C18-r4a"},
		Variant{Property: "C19", Name: "entry-skips-analysis-without-documents", File: fConnlist, Func: "ConnlistAnalyzer.ConnlistFromResourceInfos", Old: "\tif ca.stopProcessing() {\n", New: "\tif ca.stopProcessing() || len(objects) == 0 {\n", Rule: "C19-d", Why: "seeded C19-r4b shape"},
		Variant{Property: "C07", Name: "rule-peer-walk-answers-false-early", File: fNetpol, Func: "NetworkPolicy.ruleSelectsPeer", Old: "\t\t\tif !peerMatchesNamespaceSelector {\n\t\t\t\tcontinue // skip to next peerObj\n\t\t\t}\n", New: "\t\t\tif !peerMatchesNamespaceSelector {\n\t\t\t\treturn false, nil\n\t\t\t}\n", Rule: "C07-exists", Why: "seeded C07-r4b shape"},
		Variant{Property: "C01", Name: "rule-peer-walk-answers-false-early", File: fNetpol, Func: "NetworkPolicy.ruleSelectsPeer", Old: "\t\t\tif !peerMatchesNamespaceSelector {\n\t\t\t\tcontinue // skip to next peerObj\n\t\t\t}\n", New: "\t\t\tif !peerMatchesNamespaceSelector {\n\t\t\t\treturn false, nil\n\t\t\t}\n", Rule: "C01-exists"},
		Variant{Property: "C05", Name: "ingress-emptiness-tested-before-the-intersection", File: fConnlist, Func: "ConnlistAnalyzer.getIngressAllowedConnections", Old: "\t\tpeerAndConn.ConnSet.Intersection(peConn)\n\t\tif peerAndConn.ConnSet.IsEmpty() {\n", New: "\t\tif peerAndConn.ConnSet.IsEmpty() {\n\t\t\tcontinue\n\t\t}\n\t\tpeerAndConn.ConnSet.Intersection(peConn)\n\t\tif peConn.IsEmpty() {\n", Rule: "C05-a", Why: "seeded C05-r4b shape: the fact about the set is older than its in-place mutation"},
		Variant{Property: "C14", Name: "match-labels-compared-by-hand", File: fNetpol, Func: "NetworkPolicy.selectorsMatch", Old: "\tselector, err := np.parseNetpolLabelSelector(ruleSelector)\n", New: "\tif len(ruleSelector.MatchExpressions) == 0 {\n\t\tfor k, v := range ruleSelector.MatchLabels {\n\t\t\tif peerLabels[k] != v {\n\t\t\t\treturn false, nil\n\t\t\t}\n\t\t}\n\t\treturn true, nil\n\t}\n\tselector, err := np.parseNetpolLabelSelector(ruleSelector)\n", Rule: "C14-match", Why: "seeded C14-r4a shape"},
		Variant{Property: "C12", Name: "admin-egress-selects-by-cidr", File: fAdmin, Func: "ruleFieldsSelectsPeer", Old: "\tfieldMatch := false\n\tvar err error\n", New: "\tif peer.PeerType() == IPBlockType && pods == nil {\n\t\treturn true, nil\n\t}\n\tfieldMatch := false\n\tvar err error\n", Rule: "E2-N3-sel", Why: "seeded C12-r4a shape"},
	)
}
