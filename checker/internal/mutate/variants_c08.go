package mutate

const (
	fFmt       = "pkg/netpol/connlist/conns_formatter.go"
	fFmtDot    = "pkg/netpol/connlist/conns_formatter_dot.go"
	fFmtTxt    = "pkg/netpol/connlist/conns_formatter_txt.go"
	fFmtCSV    = "pkg/netpol/connlist/conns_formatter_csv.go"
	fFmtMD     = "pkg/netpol/connlist/conns_formatter_md.go"
	fFmtJSON   = "pkg/netpol/connlist/conns_formatter_json.go"
	fDiffFmt   = "pkg/netpol/diff/diff_formatter.go"
	fDiffDot   = "pkg/netpol/diff/diff_formatter_dot.go"
	fDotCommon = "pkg/netpol/internal/dotformatting/dot_output_formatting.go"
)

func init() {
	Register(
		Variant{Property: "C08", Name: "unsorted-requirements", File: fFmt, Func: "convertRequirementsToString", Old: "sort.Strings(reqStrings)", New: "sort.Strings(nil)", Rule: "C08", Benign: false, Why: "reqs come from a slice in manifest order - not a map: expected to survive (input order, not map order)"},
		Variant{Property: "C08", Name: "unsorted-conn-rows", File: fFmt, Func: "sortConnFields", Old: "sort.Slice(conns, func", New: "sort.Slice(conns[:0], func", Rule: "C08-root"},
		Variant{Property: "C08", Name: "unsorted-dot-edges", File: fFmtDot, Func: "formatDOT.writeOutput", Old: "sort.Strings(edgeLines)", New: "sort.Strings(nil)", Rule: "C08-root"},
		Variant{Property: "C08", Name: "unsorted-dot-external-peers", File: fFmtDot, Func: "formatDOT.writeOutput", Old: "sort.Strings(externalPeersLines)", New: "sort.Strings(nil)", Rule: "C08-root"},
		Variant{Property: "C08", Name: "unsorted-txt-lines", File: fFmtTxt, Func: "formatText.writeConnlistOutput", Old: "sort.Strings(connLines)", New: "sort.Strings(nil)", Rule: "C08-root"},
		Variant{Property: "C08", Name: "unsorted-txt-unprotected", File: fFmtTxt, Func: "formatText.writeExposureOutput", Old: "sort.Strings(unprotectedLines)", New: "sort.Strings(nil)", Rule: "C08-root"},
		Variant{Property: "C08", Name: "unsorted-diff-dot-external", File: fDiffDot, Func: "diffFormatDOT.writeDiffOutput", Old: "sort.Strings(externalPeersLines)", New: "sort.Strings(nil)", Rule: "C08-root"},
		Variant{Property: "C08", Name: "unsorted-diff-dot-edges", File: fDiffDot, Func: "diffFormatDOT.writeDiffOutput", Old: "sort.Strings(edgeLines)", New: "sort.Strings(nil)", Rule: "C08-root"},
		Variant{Property: "C08", Name: "unsorted-diff-dot-ingress-edges", File: fDiffDot, Func: "diffFormatDOT.writeDiffOutput", Old: "sort.Strings(ingressAnalyzerEdges)", New: "sort.Strings(nil)", Rule: "C08-root"},
		Variant{Property: "C08", Name: "unsorted-diff-lines", File: fDiffFmt, Func: "writeDiffLines", Old: "sort.Strings(res)", New: "sort.Strings(nil)", Rule: "C08-root"},
		Variant{Property: "C08", Name: "unsorted-ns-group-peers", File: fDotCommon, Func: "AddNsGroups", Old: "sort.Strings(peersLines)", New: "sort.Strings(nil)", Rule: "C08-root"},
		Variant{Property: "C08", Name: "unsorted-ns-group-keys", File: fDotCommon, Func: "sortMapKeys", Old: "sort.Strings(keys)", New: "sort.Strings(nil)", Rule: "C08-root"},
		Variant{Property: "C08", Name: "unsorted-connectionset-string", File: fConnSet, Func: "ConnectionSet.String", Old: "sort.Strings(resStrings)", New: "sort.Strings(nil)", Rule: "C08-root"},
		Variant{Property: "C08", Name: "unsorted-conn-properties-string", File: fConnSet, Func: "ConnStrFromConnProperties", Old: "sort.Strings(connStrings)", New: "sort.Strings(nil)", Rule: "C08-root"},
		Variant{Property: "C08", Name: "unsorted-named-ports", File: fPortSet, Func: "PortSet.String", Old: "sort.Strings(sortedNamedPorts)", New: "sort.Strings(nil)", Rule: "C08-root"},
		Variant{Property: "C08", Name: "ns-groups-direct-map-range", File: fDotCommon, Func: "AddNsGroups", Old: "nsKeys := sortMapKeys(nsPeersMap)", New: "nsKeys := make([]string, 0, len(nsPeersMap))\n\tfor ns := range nsPeersMap {\n\t\tnsKeys = append(nsKeys, ns)\n\t}", Rule: "C08-root"},
		Variant{Property: "C08", Name: "first-policy-wins-in-map-range", File: fCheck, Func: "PolicyEngine.getPoliciesSelectingPod", Old: "\t\tif selects {\n\t\t\tres = append(res, policy)\n\t\t}", New: "\t\tif selects {\n\t\t\tres = append(res, policy)\n\t\t\tbreak\n\t\t}", Rule: "C08-choice", Why: "which policy governs depends on map order"},
		Variant{Property: "C08", Name: "last-pod-wins-by-name-only", File: fRes, Func: "PolicyEngine.GetSelectedPeers", Old: "\t\t\tres = append(res, peer)\n", New: "\t\t\tres = append(res[:0], peer)\n", Rule: "C08", Why: "only one arbitrary peer kept"},
		Variant{Property: "C08", Name: "benign-sort-twice", File: fFmtTxt, Func: "formatText.writeConnlistOutput", Old: "sort.Strings(connLines)", New: "sort.Strings(connLines)\n\tsort.Strings(connLines)", Benign: true},
	)
}
