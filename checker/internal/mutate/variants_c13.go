package mutate

const (
	fErrTypes = "pkg/manifests/parser/error_types.go"
	fScanner  = "pkg/manifests/fsscanner/manifests.go"
	fEvalCLI  = "pkg/cli/evaluate.go"
)

func init() {
	Register(
		Variant{Property: "C13", Name: "failed-read-not-severe", File: fErrTypes, Func: "FailedReadingFile", Old: "return &FileProcessingError{&FailedReadingFileError{err}, filePath, 0, -1, false, true}", New: "return &FileProcessingError{err: &FailedReadingFileError{err}, filePath: filePath, docID: -1}", Rule: "C13-c", Why: "seeded C13-a"},
		Variant{Property: "C13", Name: "malformed-doc-fatal", File: fErrTypes, Func: "malformedYamlDoc", Old: "filePath, lineNum, docID, false, true}", New: "filePath, lineNum, docID, true, false}", Rule: "C13-c"},
		Variant{Property: "C13", Name: "evaluation-error-not-fatal", File: "pkg/netpol/connlist/connlist_errors.go", Func: "newResourceEvaluationError", Old: "fatal: true, severe: false", New: "fatal: false, severe: true", Rule: "C13-c"},
		Variant{Property: "C13", Name: "diff-severities-swapped", File: fDiff, Func: "DiffAnalyzer.getConnlistAnalysis", Old: "e.IsSevere(), e.IsFatal())", New: "e.IsFatal(), e.IsSevere())", Rule: "C13-c"},
		Variant{Property: "C13", Name: "builder-errors-not-recorded", File: fConnlist, Func: "ConnlistAnalyzer.ConnlistFromDirPath", Old: "\t\t\tca.errors = append(ca.errors, parser.FailedReadingFile(dirPath, err))\n\t\t\treturn nil, nil, err", New: "\t\t\treturn nil, nil, err", Rule: "C13-c-rec"},
		Variant{Property: "C13", Name: "evaluation-error-not-recorded", File: fConnlist, Func: "ConnlistAnalyzer.connsListFromParsedResources", Old: "\tif err != nil {\n\t\tca.errors = append(ca.errors, newResourceEvaluationError(err))\n\t\treturn nil, nil, err\n\t}\n\tia, err", New: "\tif err != nil {\n\t\treturn nil, nil, err\n\t}\n\tia, err", Rule: "C13-c-rec"},
		Variant{Property: "C13", Name: "stop-ignores-severe", File: fConnlist, Func: "ConnlistAnalyzer.stopProcessing", Old: "if ca.errors[idx].IsFatal() || ca.stopOnError && ca.errors[idx].IsSevere() {", New: "if ca.errors[idx].IsFatal() {", Rule: "C13-d"},
		Variant{Property: "C13", Name: "stop-needs-both", File: fDiff, Func: "DiffAnalyzer.stopProcessing", Old: "IsFatal() || da.stopOnError && ", New: "IsFatal() && da.stopOnError && ", Rule: "C13-d"},
		Variant{Property: "C13", Name: "analysis-before-gate", File: fConnlist, Func: "ConnlistAnalyzer.ConnlistFromResourceInfos", Old: "\tif ca.stopProcessing() {", New: "\tif ca.stopProcessing() && len(objects) == 0 {", Rule: "C13-d"},
		Variant{Property: "C13", Name: "partial-result-on-stop", File: fConnlist, Func: "ConnlistAnalyzer.ConnlistFromResourceInfos", Old: "\t\treturn []Peer2PeerConnection{}, []Peer{}, nil\n", New: "\t\tconns, peers, _ := ca.connsListFromParsedResources(objects)\n\t\treturn conns, peers, nil\n", Rule: "C13-d"},
		Variant{Property: "C13", Name: "diff-stop-decided-per-error", File: fDiff, Func: "DiffAnalyzer.getConnlistAnalysis", Old: "\t\tlogErrOrWarning(daErr, da.logger)\n", New: "\t\tlogErrOrWarning(daErr, da.logger)\n\t\t_ = da.stopProcessing()\n", Rule: "C13-d", Why: "seeded C13-b shape: decision inside the loop"},
		Variant{Property: "C13", Name: "diff-ignores-second-stop", File: fDiff, Func: "DiffAnalyzer.ConnDiffFromResourceInfos", Old: "\tconns2, workloads2, shouldStop, cDiff, errVal := da.getConnlistAnalysis(infos2, false, \"\")\n\tif shouldStop {\n\t\treturn cDiff, errVal\n\t}\n", New: "\tconns2, workloads2, _, _, _ := da.getConnlistAnalysis(infos2, false, \"\")\n", Rule: "C13-d"},
		Variant{Property: "C13", Name: "scanner-errors-tested-by-nil", File: fConnlist, Func: "ConnlistAnalyzer.ConnlistFromDirPath", Old: "if len(errs) > 0 {", New: "if errs != nil {", Rule: "C13-d-scan", Why: "F15"},
		Variant{Property: "C13", Name: "loop-stops-at-first-malformed-doc", File: fParser, Func: "ResourceInfoListToK8sObjectsList", Old: "\t\t\tfpErrList = append(fpErrList, *fpErr)\n", New: "\t\t\tfpErrList = append(fpErrList, *fpErr)\n\t\t\tbreak\n", Rule: "C13-a"},
		Variant{Property: "C13", Name: "converter-remembers-last-kind", File: fParser, Func: "resourceInfoToK8sObject", Old: "\t\tresObject.initDefaultNamespace()\n", New: "\t\tresObject.initDefaultNamespace()\n\t\tinfo.Source = resObject.Kind\n", Rule: "C13-a"},
		Variant{Property: "C13", Name: "known-kind-dropped-silently", File: fParser, Func: "resourceInfoToK8sObject", Old: "\t\terr = runtime.DefaultUnstructuredConverter.FromUnstructured(unstructuredObj.Object, objField)\n\t\tif err != nil {", New: "\t\terr = runtime.DefaultUnstructuredConverter.FromUnstructured(unstructuredObj.Object, objField)\n\t\tif err != nil && resObject.Kind == Service {\n\t\t\treturn nil, nil\n\t\t}\n\t\tif err != nil {", Rule: "C13-a"},
		Variant{Property: "C13", Name: "engine-inserts-services", File: fRes, Func: "PolicyEngine.addObjectsByKind", Old: "\t\tcase parser.Service, parser.Route, parser.Ingress:\n\t\t\tcontinue\n", New: "\t\tcase parser.Route, parser.Ingress:\n\t\t\tcontinue\n", Rule: "C13-b"},
		Variant{Property: "C13", Name: "job-read-under-cronjob", File: fRes, Func: "PolicyEngine.addObjectsByKind", Old: "err = pe.InsertObject(obj.CronJob)", New: "err = pe.InsertObject(obj.Job)", Rule: "C13-b-field"},
		Variant{Property: "C13", Name: "statefulset-inserted-as-deployment", File: fRes, Func: "PolicyEngine.InsertObject", Old: "return pe.insertWorkload(obj, parser.StatefulSet)", New: "return pe.insertWorkload(obj, parser.Deployment)", Rule: "C13-b-type"},
		Variant{Property: "C13", Name: "unknown-kinds-kept", File: fK8sObj, Func: "K8sObject.getEmptyInitializedFieldObjByKind", Old: "\t}\n\treturn nil\n}", New: "\t}\n\tk.Service = &v1.Service{}\n\treturn k.Service\n}", Rule: "C13-b"},
	)
}
