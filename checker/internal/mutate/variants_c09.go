package mutate

const fDiffTxt = "pkg/netpol/diff/diff_formatter_text.go"

func init() {
	Register(
		Variant{Property: "C09", Name: "txt-skips-ip-peers", File: fFmtTxt, Func: "formatText.writeConnlistOutput", Old: "\t\tconnLines[i] = formSingleP2PConn(conns[i]).string()\n", New: "\t\tif conns[i].Src().IsPeerIPType() && len(conns) > 100 {\n\t\t\tcontinue\n\t\t}\n\t\tconnLines[i] = formSingleP2PConn(conns[i]).string()\n", Rule: "C09-nodrop"},
		Variant{Property: "C09", Name: "exposure-section-early-return", File: fFmt, Func: "getXgressExposureConnsAsSingleConnFieldsArray", Old: "\t// append xgress ip conns to this peer from the relevant map\n", New: "\tif isProtected && len(xgressExp) == 0 {\n\t\treturn xgressLines, xgressUnprotectedLine\n\t}\n", Rule: "C09-ret", Why: "seeded C09-a"},
		Variant{Property: "C09", Name: "portset-string-early-returns", File: fPortSet, Func: "PortSet.String", Old: "\tres := p.Ports.String()\n\tif len(p.NamedPorts) > 0 {", New: "\tres := p.Ports.String()\n\tif len(p.NamedPorts) == 0 {\n\t\treturn res\n\t}\n\tif len(p.NamedPorts) > 0 {", Benign: true, Why: "with no named ports the rest of the function adds nothing: the early return is behaviour-preserving (the former table of early returns fired on it)"},
		Variant{Property: "C09", Name: "csv-rows-truncated", File: fFmtCSV, Func: "writeTableRows", Old: "\tfor _, conn := range conns {", New: "\tfor i, conn := range conns {\n\t\tif i > 10000 {\n\t\t\tbreak\n\t\t}", Rule: "C09-nodrop"},
		Variant{Property: "C09", Name: "md-row-conditionally-empty", File: fFmtMD, Func: "writeMdLines", Old: "\t\tres[i] = getMDLine(conns[i], srcFirst)\n", New: "\t\tif conns[i].ConnString != \"\" {\n\t\t\tres[i] = getMDLine(conns[i], srcFirst)\n\t\t}\n", Rule: "C09-emit"},
		Variant{Property: "C09", Name: "diff-added-rows-only-for-netpols", File: fDiffFmt, Func: "formDiffFieldsDataOfDiffConns", Old: "\t\tif isSrcIngress {\n\t\t\tingressRes = append(ingressRes, diffData)\n\t\t} else {", New: "\t\tif isSrcIngress {\n\t\t\t_ = ingressRes\n\t\t} else {", Rule: "C09-emit"},
		Variant{Property: "C09", Name: "json-own-connection-rendering", File: fFmtJSON, Func: "formatJSON.writeOutput", Old: "func (j *formatJSON) writeOutput(conns []Peer2PeerConnection, exposureConns []ExposedPeer, exposureFlag bool) (string, error) {\n", New: "func (j *formatJSON) writeOutput(conns []Peer2PeerConnection, exposureConns []ExposedPeer, exposureFlag bool) (string, error) {\n\tif len(conns) > 0 && len(conns[0].ProtocolsAndPorts()) > 1000 {\n\t\treturn \"\", nil\n\t}\n", Rule: "C09-proj"},
		Variant{Property: "C09", Name: "csv-row-columns-swapped", File: fFmtCSV, Func: "writeTableRows", Old: "row = []string{conn.Dst, conn.Src, conn.ConnString}", New: "row = []string{conn.Src, conn.Dst, conn.ConnString}", Rule: "C09-orient"},
		Variant{Property: "C09", Name: "md-header-orientation-flipped", File: fFmtMD, Func: "getMdSubSectionHeader", Old: "ingressExposureHeader + newLineChar + getMDHeader(false)", New: "ingressExposureHeader + newLineChar + getMDHeader(true)", Rule: "C09-orient"},
		Variant{Property: "C09", Name: "csv-subsection-flags-disagree", File: fFmtCSV, Func: "writeCsvSubSection", Old: "return writeTableRows(expData, writer, !isIngress)", New: "return writeTableRows(expData, writer, isIngress)", Rule: "C09-orient"},
		Variant{Property: "C09", Name: "md-ingress-rows-src-first", File: fFmtMD, Func: "formatMD.writeMdExposureLines", Old: "writeMdLines(sortedIngExpConns, false)", New: "writeMdLines(sortedIngExpConns, true)", Rule: "C09-orient"},
		Variant{Property: "C09", Name: "exposure-orientation-swapped", File: fFmt, Func: "formSingleExposureConn", Old: "\tif isIngress {\n\t\treturn singleConnFields{Src: repPeer, Dst: peer, ConnString: connStr}", New: "\tif !isIngress {\n\t\treturn singleConnFields{Src: repPeer, Dst: peer, ConnString: connStr}", Rule: "C09-orient"},
		Variant{Property: "C09", Name: "benign-condition-rewritten", File: fFmtCSV, Func: "writeCsvSubSection", Old: "if len(expData) == 0 {", New: "if len(expData) < 1 {", Benign: true},
	)
}
