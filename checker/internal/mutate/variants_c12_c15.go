package mutate

const (
	fPod       = "pkg/netpol/eval/internal/k8s/pod.go"
	fNetpol    = "pkg/netpol/eval/internal/k8s/netpol.go"
	fAdmin     = "pkg/netpol/eval/internal/k8s/adminnetpol.go"
	fBanp      = "pkg/netpol/eval/internal/k8s/baseline_admin_netpol.go"
	fPolConns  = "pkg/netpol/eval/internal/k8s/policy_connections.go"
	fCheck     = "pkg/netpol/eval/check.go"
	fCheckEval = "pkg/netpol/eval/check_eval.go"
	fRes       = "pkg/netpol/eval/resources.go"
	fCache     = "pkg/netpol/eval/eval_cache.go"
	fExposure  = "pkg/netpol/eval/exposure.go"
	fEvalPeer  = "pkg/netpol/eval/peer.go"
	fIngress   = "pkg/netpol/connlist/internal/ingressanalyzer/ingress_analyzer.go"
	fConnlist  = "pkg/netpol/connlist/connlist.go"
	fPeer      = "pkg/netpol/eval/internal/k8s/peer.go"
	fConnSet   = "pkg/netpol/internal/common/connectionset.go"
	fPortSet   = "pkg/netpol/internal/common/portset.go"
	fDiff      = "pkg/netpol/diff/diff.go"
	fParser    = "pkg/manifests/parser/parser.go"
	fK8sObj    = "pkg/manifests/parser/k8sobj.go"
)

func init() {
	Register(
		Variant{Property: "C12", Name: "drop-ownerref-controller-guard", File: fPod, Func: "PodFromCoreObject", Old: "ownerRef.Controller != nil && *ownerRef.Controller", New: "*ownerRef.Controller", Rule: "E2-N1", Why: "Pod with ownerReference lacking controller panics (F1)"},
		Variant{Property: "C12", Name: "drop-rc-template-guard", File: fPod, Func: "PodsFromWorkloadObject", Old: "if obj.Spec.Template != nil {\n\t\t\tpodTemplate = *obj.Spec.Template\n\t\t}", New: "podTemplate = *obj.Spec.Template", Rule: "E2-N1", Why: "RC without template panics (F2)"},
		Variant{Property: "C12", Name: "drop-ingress-http-guard", File: fIngress, Func: "IngressAnalyzer.getK8sIngressServices", Old: "rule.IngressRuleValue.HTTP == nil", New: "false", Rule: "E2-N1", Why: "Ingress rule without http panics (F3)"},
		Variant{Property: "C12", Name: "use-block-on-error-path", File: fCheck, Func: "isPeerNodeIP", Old: "if err == nil {", New: "if err != nil {", Rule: "E2-N6", Why: "nil block used on the error path (F4)"},
		Variant{Property: "C12", Name: "drop-ipv4-validation-getpeer", File: fCheck, Func: "PolicyEngine.getPeer", Old: "if ip.To4() == nil {", New: "if false {", Rule: "E2-N9", Why: "IPv6 peer string panics inside netset (F4)"},
		Variant{Property: "C12", Name: "drop-ipv4-validation-nodeip", File: fCheck, Func: "isPeerNodeIP", Old: "hostIP == nil || hostIP.To4() == nil", New: "hostIP == nil", Rule: "E2-N9", Why: "IPv6 hostIP panics inside netset (F4)"},
		Variant{Property: "C12", Name: "delete-absent-pod", File: fRes, Func: "PolicyEngine.deletePod", Old: "if !ok {", New: "if !ok && false {", Rule: "E2-N5", Why: "DeleteObject of an absent pod passes nil (F5)"},
		Variant{Property: "C12", Name: "drop-banp-nil-guard", File: fRes, Func: "PolicyEngine.deleteBaselineAdminNetworkPolicy", Old: "pe.baselineAdminNetpol != nil && ", New: "", Rule: "E2-N2", Why: "delete BANP on an engine without one panics (F6)"},
		Variant{Property: "C12", Name: "drop-banp-nil-guard-query", File: fCheckEval, Func: "PolicyEngine.allowedXgressByBaselineAdminNetpolOrByDefault", Old: "if pe.baselineAdminNetpol == nil {", New: "if false {", Rule: "E2-N2", Why: "eval without BANP dereferences nil"},
		Variant{Property: "C12", Name: "break-formula-guard-rulepeer", File: fNetpol, Func: "NetworkPolicy.ruleSelectsPeer", Old: "rulePeers[i].PodSelector == nil && rulePeers[i].NamespaceSelector == nil && rulePeers[i].IPBlock == nil", New: "false", Rule: "E2-N1", Why: "empty rule peer dereferences nil IPBlock"},
		Variant{Property: "C12", Name: "drop-port-nil-guard-caller", File: fNetpol, Func: "NetworkPolicy.ruleConnections", Old: "if rulePorts[i].Port == nil {", New: "if false {", Rule: "E2-N1", Why: "protocol-only port entry dereferences nil Port in getPortsRange"},
		Variant{Property: "C12", Name: "drop-endport-guard", File: fNetpol, Func: "NetworkPolicy.getPortsRange", Old: "if rulePort.EndPort != nil {", New: "if true {", Rule: "E2-N1", Why: "port without endPort dereferences nil"},
		Variant{Property: "C12", Name: "drop-peertype-guard", File: fCheck, Func: "isPodToItself", Old: "peer1.PeerType() == k8s.PodType && peer2.PeerType() == k8s.PodType &&\n\t\t", New: "", Rule: "E2-N3", Why: "IP peer has no pod"},
		Variant{Property: "C12", Name: "drop-anp-subject-guard", File: fAdmin, Func: "subjectSelectsPeer", Old: "(anpSubject.Namespaces == nil) == (anpSubject.Pods == nil)", New: "false", Rule: "E2-N1", Why: "ANP subject with neither field set dereferences nil Pods"},
		Variant{Property: "C12", Name: "drop-portnumber-case-guard", File: fAdmin, Func: "ruleConnections", Old: "case anpPort.PortNumber != nil:", New: "case true:", Rule: "E2-N1", Why: "ANP port without portNumber dereferences nil"},
		Variant{Property: "C12", Name: "drop-len-guard-warn", File: fConnlist, Func: "ConnlistAnalyzer.warnBlockedIngress", Old: "if len(ingressObjects[parser.Ingress]) > 0 {", New: "if true {", Rule: "E2-N8", Why: "index out of range for a Route-only backend"},
		Variant{Property: "C12", Name: "panic-on-unknown-kind", File: fPod, Func: "PodsFromWorkloadObject", Old: "return nil, fmt.Errorf(\"unexpected workload kind: %s\", kind)", New: "panic(fmt.Errorf(\"unexpected workload kind: %s\", kind))", Rule: "E2-N9-exit", Why: "library panics instead of returning an error"},
		Variant{Property: "C12", Name: "drop-defaultbackend-service-guard", File: fIngress, Func: "IngressAnalyzer.getK8sIngressServices", Old: "if ing.Spec.DefaultBackend.Service == nil {", New: "if false {", Rule: "E2-N1", Why: "default backend of kind resource dereferences nil Service in getServiceInfo"},
		Variant{Property: "C12", Name: "drop-route-port-guard", File: fIngress, Func: "IngressAnalyzer.getRouteServices", Old: "if rt.Spec.Port != nil {", New: "if true {", Rule: "E2-N1", Why: "Route without port dereferences nil"},
		Variant{Property: "C12", Name: "drop-peer-namespace-guard", File: fNetpol, Func: "NetworkPolicy.ruleSelectsPeer", Old: "if peerNamespace != nil {", New: "if true {", Rule: "E2-N4", Why: "representative peer has no namespace object"},
		Variant{Property: "C12", Name: "benign-redundant-guard", File: fPod, Func: "PodFromCoreObject", Old: "ownerRef.Controller != nil && *ownerRef.Controller", New: "ownerRef.Controller != nil && ownerRef.Controller != nil && *ownerRef.Controller", Benign: true},
		Variant{Property: "C12", Name: "benign-guard-as-early-continue", File: fPod, Func: "PodFromCoreObject", Old: "if ownerRef.Controller != nil && *ownerRef.Controller {", New: "if ownerRef.Controller == nil {\n\t\t\tcontinue\n\t\t}\n\t\tif *ownerRef.Controller {", Benign: true},

		Variant{Property: "C15", Name: "drop-clear-insert-netpol", File: fRes, Func: "PolicyEngine.insertNetworkPolicy", Old: "pe.cache.clear()", New: "", Rule: "E4a", Why: "stale cached answer after a NetworkPolicy insertion"},
		Variant{Property: "C15", Name: "drop-clear-delete-netpol", File: fRes, Func: "PolicyEngine.deleteNetworkPolicy", Old: "pe.cache.clear()", New: "", Rule: "E4a"},
		Variant{Property: "C15", Name: "drop-clear-insert-ns", File: fRes, Func: "PolicyEngine.insertNamespace", Old: "pe.cache.clear()", New: "", Rule: "E4a"},
		Variant{Property: "C15", Name: "drop-clear-delete-ns", File: fRes, Func: "PolicyEngine.deleteNamespace", Old: "pe.cache.clear()", New: "", Rule: "E4a"},
		Variant{Property: "C15", Name: "drop-clear-insert-anp", File: fRes, Func: "PolicyEngine.insertAdminNetworkPolicy", Old: "pe.cache.clear()", New: "", Rule: "E4a"},
		Variant{Property: "C15", Name: "drop-clear-delete-anp", File: fRes, Func: "PolicyEngine.deleteAdminNetworkPolicy", Old: "pe.cache.clear()", New: "", Rule: "E4a"},
		Variant{Property: "C15", Name: "drop-clear-insert-banp", File: fRes, Func: "PolicyEngine.insertBaselineAdminNetworkPolicy", Old: "pe.cache.clear()", New: "", Rule: "E4a"},
		Variant{Property: "C15", Name: "drop-clear-delete-banp", File: fRes, Func: "PolicyEngine.deleteBaselineAdminNetworkPolicy", Old: "pe.cache.clear()", New: "", Rule: "E4a"},
		Variant{Property: "C15", Name: "drop-addpod-insert-pod", File: fRes, Func: "PolicyEngine.insertPod", Old: "pe.cache.addPod(podObj, podStr.String())", New: "", Rule: "E4a"},
		Variant{Property: "C15", Name: "drop-addpod-insert-workload", File: fRes, Func: "PolicyEngine.insertWorkload", Old: "pe.cache.addPod(podObj, podStr.String())", New: "", Rule: "E4a"},
		Variant{Property: "C15", Name: "drop-deletepod-cache", File: fRes, Func: "PolicyEngine.deletePod", Old: "pe.cache.deletePod(podToDelete, podName)", New: "", Rule: "E4a"},
		Variant{Property: "C15", Name: "clear-only-on-error-path", File: fRes, Func: "PolicyEngine.deleteBaselineAdminNetworkPolicy", Old: "\t\tpe.baselineAdminNetpol = nil\n\t\t// clear the cache on baseline admin netpol changes\n\t\tpe.cache.clear()\n\t}", New: "\t\tpe.baselineAdminNetpol = nil\n\t} else {\n\t\tpe.cache.clear()\n\t}", Rule: "E4a", Why: "invalidation on the wrong branch"},
		Variant{Property: "C15", Name: "new-writer-without-invalidation", File: fRes, Func: "PolicyEngine.HasPodPeers", Old: "return len(pe.podsMap) > 0", New: "delete(pe.netpolsMap, \"\")\n\treturn len(pe.podsMap) > 0", Rule: "E4a"},
		Variant{Property: "C15", Name: "clearresources-keeps-cache", File: fRes, Func: "PolicyEngine.ClearResources", Old: "pe.cache = newEvalCache()", New: "", Rule: "E4a"},
		Variant{Property: "C15", Name: "drop-sort-on-insert", File: fRes, Func: "PolicyEngine.insertAdminNetworkPolicy", Old: "if err := pe.sortAdminNetpolsByPriority(); err != nil {", New: "if err := error(nil); err != nil {", Rule: "E4b", Why: "ANPs applied in insertion order (F8)"},
		Variant{Property: "C15", Name: "sort-before-append", File: fRes, Func: "PolicyEngine.insertAdminNetworkPolicy", Old: "\tpe.sortedAdminNetpols = append(pe.sortedAdminNetpols, (*k8s.AdminNetworkPolicy)(anp))\n", New: "", Nth: 0, Rule: "E4", Why: "policy never stored"},
		Variant{Property: "C15", Name: "benign-clear-before-write", File: fRes, Func: "PolicyEngine.insertNamespace", Old: "\tpe.namespacesMap[nsObj.Name] = nsObj\n\t// clear the cache on namespaces changes (namespace labels are matched by policies' selectors)\n\tpe.cache.clear()\n", New: "\tpe.cache.clear()\n\tpe.namespacesMap[nsObj.Name] = nsObj\n", Benign: true},
		Variant{Property: "C15", Name: "benign-clear-twice", File: fRes, Func: "PolicyEngine.deleteNamespace", Old: "pe.cache.clear()", New: "pe.cache.clear()\n\tpe.cache.clear()", Benign: true},
	)
}
