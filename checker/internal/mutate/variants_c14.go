package mutate

func init() {
	Register(
		Variant{Property: "C14", Name: "rule-result-replaces-accumulator", File: fNetpol, Func: "NetworkPolicy.GetIngressAllowedConns", Old: "\t\tres.Union(ruleConns)\n", New: "\t\tres = ruleConns\n", Rule: "C14-a"},
		Variant{Property: "C14", Name: "first-matching-rule-only", File: fNetpol, Func: "NetworkPolicy.GetEgressAllowedConns", Old: "\t\tif res.AllowAll {\n\t\t\treturn res, nil\n\t\t}", New: "\t\tif !res.IsEmpty() {\n\t\t\treturn res, nil\n\t\t}", Rule: "C14-a"},
		Variant{Property: "C14", Name: "policies-intersected", File: fCheck, Func: "PolicyEngine.getAllAllowedXgressConnsFromNetpols", Old: "allowedConns.Union(policyAllowedConnectionsPerDirection)", New: "allowedConns.Intersection(policyAllowedConnectionsPerDirection)", Rule: "C14-a"},
		Variant{Property: "C14", Name: "break-after-first-policy", File: fCheck, Func: "PolicyEngine.getAllAllowedXgressConnsFromNetpols", Old: "\t\tallowedConns.Union(policyAllowedConnectionsPerDirection)\n", New: "\t\tallowedConns.Union(policyAllowedConnectionsPerDirection)\n\t\tif !allowedConns.IsEmpty() {\n\t\t\tbreak\n\t\t}\n", Rule: "C14-a"},
		Variant{Property: "C14", Name: "default-not-top", File: fCheck, Func: "PolicyEngine.getXgressDefaultConns", Old: "\tif pe.baselineAdminNetpol == nil {\n\t\tres.AllowedConns = common.MakeConnectionSet(true)", New: "\tif pe.baselineAdminNetpol == nil {\n\t\tres.AllowedConns = common.GetAllTCPConnections()", Rule: "C14-b"},
		Variant{Property: "C14", Name: "policy-store-read-in-matcher", File: fCheck, Func: "PolicyEngine.determineAllowedConnsPerDirection", Old: "\tif isIngress {\n", New: "\tif len(pe.netpolsMap) > 100 {\n\t\treturn common.MakeConnectionSet(true), nil\n\t}\n\tif isIngress {\n", Rule: "C14-c"},
		Variant{Property: "C14", Name: "selection-ignores-selects", File: fCheck, Func: "PolicyEngine.getPoliciesSelectingPod", Old: "\t\tif selects {\n\t\t\tres = append(res, policy)\n\t\t}", New: "\t\tif selects || len(netpols) == 1 {\n\t\t\tres = append(res, policy)\n\t\t}", Rule: "C14-c"},
		Variant{Property: "C14", Name: "selection-from-all-namespaces", File: fCheck, Func: "PolicyEngine.getPoliciesSelectingPod", Old: "netpols := pe.netpolsMap[p.Namespace]", New: "netpols := pe.netpolsMap[metav1.NamespaceDefault]", Rule: "C14-c"},
		Variant{Property: "C14", Name: "selects-ignores-namespace", File: fNetpol, Func: "NetworkPolicy.Selects", Old: "\tif p.Namespace != np.Namespace {\n\t\treturn false, nil\n\t}\n", New: "", Rule: "C14-c"},
		Variant{Property: "C14", Name: "selects-memoised-by-name", File: fNetpol, Func: "NetworkPolicy.Selects", Old: "\tselector, err := np.parseNetpolLabelSelector(&np.Spec.PodSelector)", New: "\tnp.Labels[p.Name] = \"checked\"\n\tselector, err := np.parseNetpolLabelSelector(&np.Spec.PodSelector)", Rule: "C14-pure", Why: "seeded C14-b shape"},
		Variant{Property: "C14", Name: "policytypes-read-in-partition", File: fNetpol, Func: "NetworkPolicy.GetReferencedIPBlocks", Old: "\tfor _, rule := range np.Spec.Egress {", New: "\tfor _, rule := range np.Spec.Egress {\n\t\tif len(np.Spec.PolicyTypes) == 1 && np.Spec.PolicyTypes[0] == netv1.PolicyTypeIngress {\n\t\t\tbreak\n\t\t}", Rule: "C14-d", Why: "seeded C14-a shape"},
		Variant{Property: "C14", Name: "ports-from-own-representation", File: fPortSet, Func: "PortSet.Intersection", Old: "p.Ports = p.Ports.Intersect(other.Ports)", New: "q := other.Ports\n\tp.Ports = q", Rule: "C14-d-ports"},
		Variant{Property: "C14", Name: "benign-saturation-via-method", File: fNetpol, Func: "NetworkPolicy.GetIngressAllowedConns", Old: "\t\tif res.AllowAll {\n\t\t\treturn res, nil\n\t\t}", New: "\t\tif res.IsAllConnections() {\n\t\t\treturn res, nil\n\t\t}", Benign: true},
	)
}
