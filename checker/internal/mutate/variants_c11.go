package mutate

func init() {
	Register(
		Variant{Property: "C11", Name: "union-shares-operand-portset", File: fConnSet, Func: "ConnectionSet.Union", Old: "other.AllowedProtocols[protocol].Copy()", New: "other.AllowedProtocols[protocol]", Rule: "C11-b", Why: "result aliases the operand"},
		Variant{Property: "C11", Name: "intersection-shares-operand-portset", File: fConnSet, Func: "ConnectionSet.Intersection", Old: "conn.AllowedProtocols[protocol] = ports.Copy()", New: "conn.AllowedProtocols[protocol] = ports", Rule: "C11-b"},
		Variant{Property: "C11", Name: "addconnection-shares-ports", File: fConnSet, Func: "ConnectionSet.AddConnection", Old: "conn.AllowedProtocols[protocol] = ports.Copy()", New: "conn.AllowedProtocols[protocol] = ports", Rule: "C11-b"},
		Variant{Property: "C11", Name: "intersection-writes-operand", File: fConnSet, Func: "ConnectionSet.Intersection", Old: "\tif conn.AllowAll {\n\t\tconn.AllowAll = false", New: "\tif conn.AllowAll {\n\t\tother.AllowAll = false\n\t\tconn.AllowAll = false", Rule: "C11-a"},
		Variant{Property: "C11", Name: "containedin-normalises-operand", File: fConnSet, Func: "ConnectionSet.ContainedIn", Old: "\tif other.AllowAll {\n\t\treturn true\n\t}", New: "\tother.checkIfAllConnections()\n\tif other.AllowAll {\n\t\treturn true\n\t}", Rule: "C11-a", Why: "a query mutates its operand"},
		Variant{Property: "C11", Name: "union-drops-canonical-check", File: fConnSet, Func: "ConnectionSet.Union", Old: "\tconn.checkIfAllConnections()\n", New: "", Rule: "C11-c"},
		Variant{Property: "C11", Name: "union-canonical-check-conditional", File: fConnSet, Func: "ConnectionSet.Union", Old: "\tconn.checkIfAllConnections()\n", New: "\tif len(conn.AllowedProtocols) > len(other.AllowedProtocols) {\n\t\tconn.checkIfAllConnections()\n\t}\n", Rule: "C11-c", Why: "seeded C05-b shape: check only when a protocol was added"},
		Variant{Property: "C11", Name: "addconnection-drops-canonical-check", File: fConnSet, Func: "ConnectionSet.AddConnection", Old: "\tconn.checkIfAllConnections()\n", New: "", Rule: "C11-c"},
		Variant{Property: "C11", Name: "canonicaliser-keeps-map", File: fConnSet, Func: "ConnectionSet.checkIfAllConnections", Old: "\t\tconn.AllowedProtocols = map[v1.Protocol]*PortSet{}\n", New: "", Rule: "C11-c"},
		Variant{Property: "C11", Name: "portset-copy-drops-excluded", File: fPortSet, Func: "PortSet.Copy", Old: "\tfor k, v := range p.ExcludedNamedPorts {\n\t\tres.ExcludedNamedPorts[k] = v\n\t}\n", New: "", Rule: "C11-b"},
		Variant{Property: "C11", Name: "portset-copy-shallow-ports", File: fPortSet, Func: "PortSet.Copy", Old: "res.Ports = p.Ports.Copy()", New: "res.Ports = p.Ports", Rule: "C11-b"},
		Variant{Property: "C11", Name: "portset-copy-shares-named-map", File: fPortSet, Func: "PortSet.Copy", Old: "\tfor k, v := range p.NamedPorts {\n\t\tres.NamedPorts[k] = v\n\t}\n", New: "\tres.NamedPorts = p.NamedPorts\n", Rule: "C11-b"},
		Variant{Property: "C11", Name: "connset-copy-shallow", File: fConnSet, Func: "ConnectionSet.Copy", Old: "res.AllowedProtocols[protocol] = portSet.Copy()", New: "res.AllowedProtocols[protocol] = portSet", Rule: "C11-b"},
		Variant{Property: "C11", Name: "portset-union-aliases-ports", File: fPortSet, Func: "PortSet.Union", Old: "p.Ports = p.Ports.Union(other.Ports)", New: "if p.Ports.IsEmpty() {\n\t\tp.Ports = other.Ports\n\t} else {\n\t\tp.Ports = p.Ports.Union(other.Ports)\n\t}", Rule: "C11-b"},
		Variant{Property: "C11", Name: "containedin-ignores-named-ports", File: fPortSet, Func: "PortSet.ContainedIn", Old: "\tfor namedPort := range p.NamedPorts {\n\t\tif !other.NamedPorts[namedPort] && !otherHasAllPorts {\n\t\t\treturn false\n\t\t}\n\t}\n", New: "\t_ = otherHasAllPorts\n", Rule: "C11-d", Why: "F11"},
		Variant{Property: "C11", Name: "equal-ignores-excluded", File: fPortSet, Func: "PortSet.Equal", Old: " &&\n\t\treflect.DeepEqual(p.ExcludedNamedPorts, other.ExcludedNamedPorts)", New: "", Rule: "C11-d"},
		Variant{Property: "C11", Name: "subtract-ignores-named", File: fPortSet, Func: "PortSet.subtract", Old: "\tp.subtractNamedPorts(other.NamedPorts)\n", New: "", Rule: "C11-d"},
		Variant{Property: "C11", Name: "literal-outside-common", File: fConnlist, Func: "GetConnectionSetFromP2PConnection", Old: "AllowAll: c.AllProtocolsAndPorts(), ", New: "", Rule: "C11-c-encap"},
		Variant{Property: "C11", Name: "benign-union-reordered", File: fConnSet, Func: "ConnectionSet.Union", Old: "\tconn.checkIfAllConnections()\n", New: "\tconn.checkIfAllConnections()\n\tconn.checkIfAllConnections()\n", Benign: true},
		Variant{Property: "C11", Name: "benign-copy-through-local", File: fConnSet, Func: "ConnectionSet.Copy", Old: "res.AllowedProtocols[protocol] = portSet.Copy()", New: "c := portSet.Copy()\n\t\tres.AllowedProtocols[protocol] = c", Benign: true},
		Variant{Property: "C11", Name: "full-range-by-bounds", File: fPortSet, Func: "PortSet.ContainedIn", Old: "otherHasAllPorts := other.Ports.Equal(interval.New(minPort, maxPort).ToSet())", New: "otherHasAllPorts := !other.Ports.IsEmpty() && other.Ports.Min() == minPort && other.Ports.Max() == maxPort", Rule: "C11-e", Why: "seeded C11-b shape"},
		Variant{Property: "C11", Name: "full-range-excuse-on-receiver", File: fPortSet, Func: "PortSet.ContainedIn", Old: "otherHasAllPorts := other.Ports.Equal(interval.New(minPort, maxPort).ToSet())", New: "otherHasAllPorts := p.Ports.Equal(interval.New(minPort, maxPort).ToSet())", Rule: "C11-e"},
		Variant{Property: "C11", Name: "full-range-via-isall-ports", File: fPortSet, Func: "PortSet.ContainedIn", Old: "otherHasAllPorts := other.Ports.Equal(interval.New(minPort, maxPort).ToSet())", New: "otherHasAllPorts := other.Ports.Equal(MakePortSet(true).Ports)", Benign: true, Why: "the same equality, spelled through the constructor"},
	)
}
