// Package props instantiates the rule engines per property.
package props

import (
	"sort"

	"npverif/internal/core"
)

// Property is one claimed property with its check.
type Property struct {
	ID    string
	Title string
	Run   func(p *core.Program, r *core.Report)
}

var registry = map[string]*Property{}

func register(id, title string, run func(p *core.Program, r *core.Report)) {
	registry[id] = &Property{ID: id, Title: title, Run: run}
}

// Get returns the property with the given id.
func Get(id string) *Property { return registry[id] }

// All returns every registered property, sorted by id.
func All() []*Property {
	var out []*Property
	for _, p := range registry {
		out = append(out, p)
	}
	sort.Slice(out, func(i, j int) bool { return out[i].ID < out[j].ID })
	return out
}
