package props

import (
	"npverif/internal/core"
	"npverif/internal/rules"
)

func init() {
	register("C16", "--focusworkload is a pure filter of the full report", func(p *core.Program, r *core.Report) {
		r.Explanation = "Structural necessary conditions, decided for all inputs and workload names at once: " +
			"(C16-read) the focus option is read only by the filter predicate, the existence check and two emptiness tests; (C16-call) in every function that consults the predicate, no call that writes policy-engine or ingress-analyzer state is control-dependent on it (path condition at each such call) - the filter decides rows, never what the engine is fed; " +
			"(C16-pred) on every exit of the predicate its answer is equivalent, under the exit's path condition, to `focus == \"\" | name == focus | namespace/name == focus` (canonical atoms by what is compared with the option; any other test on the option breaks the equivalence), and every non-exclusion exit of the pair filter answers pred(src) | pred(dst) - whatever the shape (one expression, guard clauses, a switch); " +
			"(C16-rows) every row construction is dominated by includePairOfWorkloads on the same pair (rule C05-a); " +
			"(C16-pure) the focused run evaluates fewer pairs than the full run, so a pair's answer must not depend on which pairs were evaluated before: no function on a query path writes long-lived state outside the reviewed table (the rule of C01-pure); " +
			"(C16-ia-empty) IngressAnalyzer.IsEmpty() is equivalent to `no services | (no routes & no ingresses)` (formula over its exits): it decides whether a focus on the ingress-controller names something that exists; " +
			"(C16-absent) a focus that matches nothing appends a warning and returns a nil error. " +
			"(C16-print) every successful return of the list command follows the print of the report (the rule of C18-print): a shortcut for `no connections` under a focus would drop the exposure section the report also carries. " +
			"NOT decided: equality of focused and filtered-unfocused output on inputs (the lazily filled exposure data make this a runtime question under --exposure)."
		rules.FocusFilter(p, r, "C16")
		rules.GuardedRowConstruction(p, r, "C16-rows")
		rules.CLIExitChain(p, r, "C16-exit")
		rules.QueryPathWrites(p, r, "C16-pure")
		rules.IngressAnalyzerEmptiness(p, r, "C16-ia-empty")
		rules.CLIPrintIdentity(p, r, "C16-print")
	})
	register("C17", "connectivity is per workload, independent of replicas and controller kind", func(p *core.Program, r *core.Report) {
		r.Explanation = "Structural necessary conditions, decided for all inputs and re-expressions at once: " +
			"(C17-case) each of the seven kind cases of PodsFromWorkloadObject takes name, namespace, template, API version and replica count from the same-named fields of its object (sibling agreement); " +
			"(C17-replicas) the replica count is read only in `replicas > 1` and the number of generated pods is the constant 1 or 2; generated pods copy labels and ports from the template only; " +
			"(C17-owner) a bare pod's workload is the ownerReference whose controller flag is true; " +
			"(C17-kinds) kind tables of parser, engine dispatch and expansion agree, kind constants match Go types; " +
			"(C17-identity) every place that identifies an owner by Owner.Name (comparison, map key, joined key) also uses Owner.Kind, and the pods generated for a workload are stored under a key containing the kind (today violated at four places: known finding F19); " +
			"(C17-key) the peer key is namespace + owner-or-pod name + kind and the owners map is keyed by it; " +
			"(C17-pure) no unreviewed long-lived write (memo) on the query paths that list peers. " +
			"(C17-spec) the constructor for Pod resources and the constructor for pod templates read the same fields of PodSpec / Container / ContainerPort (transitively). " +
			"(C17-labels) the label set a selector is matched against is the Labels field of a pod or namespace object (or a parameter naming one), never a set computed from further per-pod state: the same-owner consistency check and the cache key cover Labels only, so anything else makes the result depend on which replica represents the workload. " +
			"NOT decided: collisions between generated pod names and real pod names in podsMap; equality of outputs under re-expression."
		rules.WorkloadExpansion(p, r, "C17")
		rules.WorkloadIdentity(p, r, "C17-identity")
		rules.KindTables(p, r, "C17-kinds")
		rules.QueryPathWrites(p, r, "C17-pure")
		rules.PodSpecReadAlike(p, r, "C17-spec")
		rules.SelectorsMatchObjectLabels(p, r, "C17-labels")
	})
}
