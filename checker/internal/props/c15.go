package props

import (
	"strings"

	"npverif/internal/core"
	"npverif/internal/rules"
)

func init() {
	register("C15", "PolicyEngine answers depend on current objects only, not on update history", func(p *core.Program, r *core.Report) {
		r.Explanation = "Structural necessary conditions of history-independence, decided on the source for every update history at once: " +
			"(E4a) every write to engine state read by CheckIfAllowed is followed/preceded, on every path to every return (error returns included: a failed call leaves its writes behind), by an invalidation of the result cache - directly or through a callee all of whose paths invalidate; one exit is excepted as infeasible and its premise is rule E4a-scan (the exposure pre-scan creates errors only under a non-nil destination peer and passes nil); " +
			"(E4b) every exported entry of package eval that adds an admin network policy returns with the slice sorted by priority; " +
			"(E2) the delete paths dereference nothing that is nil when the object is absent; " +
			"(C15-d-store) a verdict is stored in the result cache only by the function that looked the key up, under the same key, and is exactly what that function returns next with a nil error; a hit returns the cached value unchanged; " +
			"(C15-d-key) the key is (owner key of src, owner key of dst, protocol, port) in this order, the owner key holds namespace, owner name and label variant, the variant is always the hash of the labels given to the same pod, and the hashed text is an entry-delimited encoding of the whole label map. " +
			"(C15-inv) removing a pod from the cache's owner index invalidates the owner's cached verdicts on every exit that does not know a non-empty remaining pod set of that owner (path states; `the owner is not in the index` is not such knowledge: the index is reset on every policy change). " +
			"(C15-upd) wherever a pod is stored into the pods map, a lookup of the map under the same key guards a call that removes cached results before the store: an object that replaces an existing pod may differ in its container ports, which the cache key does not hold (defect F22, repaired). " +
			"(C15-inv-match) the scan that removes the cached results of an owner finds them by containment of the owner key and by nothing narrower (a narrower predicate has to agree with the layout of the key). " +
			"(C15-ident) what DeleteObject removes is what InsertObject stored for an EQUAL object (a watch delivers another pointer): the insert and delete methods of one API type substitute the same constants for the object's identity components (an empty namespace becomes `default` on both sides or on neither), and the delete side never recognises the stored object by comparing pointers with its argument (defects F23, F24, repaired). " +
			"NOT decided: the answers themselves, correctness of deleteWorkload's substring matching, lru eviction, verdict changes through pod fields outside the cache key."
		rules.CacheInvalidation(p, r)
		rules.PreScanCannotFail(p, r, "E4a-scan")
		rules.CacheInvalidationOnLastPod(p, r, "C15-inv")
		rules.SortedTypestate(p, r)
		// (E2) nil rules restricted to the functions reachable from DeleteObject ("deleting an absent object is a no-op, not a crash")
		if del := p.Func(core.PkgEval, "PolicyEngine", "DeleteObject"); del != nil {
			reach := p.Reachable(del.Obj)
			keys := map[string]bool{}
			for _, fd := range p.Funcs {
				if reach[fd.Obj] {
					keys[fd.Key()] = true
				}
			}
			sub := core.NewReport("C15")
			rules.NilGuards(p, sub)
			n := 0
			for _, o := range sub.Obs {
				fn := o.Construct
				if i := strings.Index(fn, ": "); i >= 0 {
					fn = fn[:i]
				}
				if keys[fn] {
					r.Add("C15-del/"+o.Rule, o.Construct, o.Pos, o.Status, o.Reason, o.Path...)
					n++
				}
			}
			r.RuleCounts["C15-del"] = n
			r.Floor("C15-del", 3)
		} else {
			r.Lost("C15-del", "(*PolicyEngine).DeleteObject")
		}
		rules.CacheWriteDiscipline(p, r, "C15-d-store")
		rules.CacheKeyShape(p, r, "C15-d-key")
		rules.PodReplacementInvalidates(p, r, "C15-upd")
		rules.InvalidationMatchesByContainment(p, r, "C15-inv-match")
		rules.ObjectIdentityAgreement(p, r, "C15-ident")
		r.Floor("E4a", 8)
		r.Assume("pod-granular cache bookkeeping (addPod/deletePod) is accepted as invalidation for podsMap only: the cache key embeds namespace, owner name and label hash of both pods")
		r.Assume("a closure is invoked before its creating function returns (true for every closure of the module: sort callbacks, option setters are not on these paths)")
	})
}
