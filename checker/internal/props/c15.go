package props

import (
	"npverif/internal/core"
	"npverif/internal/rules"
)

func init() {
	register("C15", "PolicyEngine answers depend on current objects only, not on update history", func(p *core.Program, r *core.Report) {
		r.Explanation = "Structural necessary conditions of history-independence, decided on the source for every update history at once: " +
			"(E4a) every write to engine state read by CheckIfAllowed is followed/preceded, on every path to a normal return, by an invalidation of the result cache; " +
			"(E4b) every exported entry of package eval that adds an admin network policy returns with the slice sorted by priority; " +
			"(E2) the delete paths dereference nothing that is nil when the object is absent; " +
			"(C15-d) everything the cached computation reads from a peer is part of the cache key or covered by E4a. " +
			"NOT decided: the answers themselves, correctness of deleteWorkload's substring matching, lru eviction, verdict changes through pod fields outside the cache key."
		rules.CacheInvalidation(p, r)
		rules.SortedTypestate(p, r)
		r.Floor("E4a", 8)
		r.Assume("pod-granular cache bookkeeping (addPod/deletePod) is accepted as invalidation for podsMap only: the cache key embeds namespace, owner name and label hash of both pods")
		r.Assume("a closure is invoked before its creating function returns (true for every closure of the module: sort callbacks, option setters are not on these paths)")
	})
}
