package props

import (
	"npverif/internal/core"
	"npverif/internal/rules"
)

func init() {
	register("C01", "list reports exactly what Kubernetes NetworkPolicy semantics allow", func(p *core.Program, r *core.Report) {
		r.Explanation = "Structural necessary conditions of the NetworkPolicy semantics, decided for all manifest sets at once: " +
			"(C01-a) every spec field the semantics depends on is read on the list path (E6 field coverage over the functions reachable from ConnlistFromResourceInfos); " +
			"(C01-b) egress and ingress results are combined by Intersection (list) / conjunction (eval), an IP peer matches by peerBlock.IsSubset(ruleBlock); " +
			"(C01-c) policyAffectsDirection has the policyTypes defaulting table and is the only reader of spec.policyTypes; " +
			"(C01-d) every namespace stored in the engine went through the constructor that adds kubernetes.io/metadata.name; " +
			"(C01-e) the IP partition receives 0.0.0.0/0 and every (cidr, except) pair the matcher reads, parsed by the same function from one ipBlock; " +
			"(C01-role) endpoint roles: rule.From meets the source, rule.To the destination, ports are resolved on the destination, policies are asked about the destination for ingress and the source for egress; " +
			"(C01-pure) no function on a query path writes long-lived state outside a reviewed table (no unreviewed memoisation). " +
			"(C01-exists) a function that walks a list of rule peers gives no negative answer inside the loop: a non-selecting entry is skipped, `false` comes only after the list is exhausted (anchored by the type ranged over). " +
			"(C01-shortcut) with --exposure the per-direction evaluation may answer from a policy's stored cluster-wide connections only when the other end - the source on ingress, the destination on egress - is a pod (the rule of C06-b, which is as much a condition of the connectivity section of `list --exposure`). " +
			"(C01-asdecoded) no production function assigns to a field of a decoded API object it did not build (the namespace default excepted): what is evaluated is what the manifest says, on every path that reaches the engine. " +
			"(C01-e-ranges) the IP partition is handed single ranges only (the rule of C05-b-ranges): a block of several ranges (a CIDR minus its excepts) that enters un-split comes out as one peer whose text - and whose reported connectivity - covers the hole between its ranges. " +
			"NOT decided: that selector matching, port arithmetic, CIDR subtraction and the library's partition are correct; the iff itself; per-address exactness."
		rules.FieldCoverage(p, r, "C01-a", "list", rules.ListEntries(p), append([]string{}, rules.FieldsNetpol...), "the NetworkPolicy semantics depends on it")
		rules.DirectionCombination(p, r, "C01-b")
		rules.IPMembershipPolarity(p, r, "C01-b-ip")
		rules.PolicyTypesTable(p, r, "C01-c")
		rules.AutoNamespaceLabel(p, r, "C01-d")
		rules.PartitionCompleteness(p, r, "C01-e")
		rules.EndpointRoles(p, r, "C01")
		rules.QueryPathWrites(p, r, "C01-pure")
		rules.LoopCarriedDefaults(p, r, "C01-loop")
		rules.ContainerPortProtocolDefault(p, r, "C01-proto")
		rules.LabelMatchingByLibrary(p, r, "C01-match")
		rules.SomePeerSelects(p, r, "C01-exists")
		rules.ExposureShortcut(p, r, "C01-shortcut")
		rules.SeenSetKeyCompleteness(p, r, "C01-e-seen")
		rules.UnconditionalIPBlockContribution(p, r, "C01-e-all")
		rules.ObjectsEvaluatedAsDecoded(p, r, "C01-asdecoded")
		rules.PartitionInputsAreRanges(p, r, "C01-e-ranges")
		r.Floor("C01-a", 20)
		r.Assume("relevant-field table written from the property statement (NetworkPolicySpec/Rule/Peer/IPBlock/Port, ContainerPort, ObjectMeta)")
		r.Assume("endpoint roles are seeded at CheckIfAllowed and AllAllowedConnectionsBetweenWorkloadPeers: first peer parameter = source, second = destination")
	})
}
