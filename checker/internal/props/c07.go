package props

import (
	"npverif/internal/core"
	"npverif/internal/rules"
)

func init() {
	register("C07", "exposure analysis is complete: no potential connection is unreported", func(p *core.Program, r *core.Report) {
		r.Explanation = "Structural necessary conditions of completeness, decided for all inputs at once: " +
			"(C07-a) in the pre-scan every rule peer is an ipBlock (skipped), cluster-wide (recorded) or appended to the selector list; a representative peer is generated for every selector pair; both directions are scanned under policyAffectsDirection; " +
			"(C07-b) the representative key is computed from exactly the two selectors stored in the peer; " +
			"(C07-c) representative peers are deleted only in removeRepresentativePeersMatchingLabels and the removal decision - the append to the keys to delete, a delete inside the loop over the map, or a positive answer of the predicate given to maps.DeleteFunc, with a multi-statement boolean helper contributing what all its positive answers entail - has a path condition that entails the six documented facts (canonical atoms by the selector FIELD a tested value derives from); " +
			"(C07-d) the suppression test reaches PortSet.ContainedIn, which consults named ports of both sides; " +
			"(C07-e) SelectorsFullMatch answers false only after the empty-rule-selector row is ruled out. " +
			"(C07-f) the stored per-policy exposure sets, from which every selected workload's exposure is derived, are modified only by their owner functions and only ever hold fresh sets (a query for one workload that rewrites a policy's stored set loses the other workloads' entries). " +
			"(C07-g) every negative answer of includePairWithRepresentativePeer is given on a path that entails one of the three documented cases (both ends representative; a representative with an IP block; a representative with the ingress controller) - an entailment on path conditions, not a reading of the if-statements. " +
			"(C07-exists) a function that walks a list of rule peers gives no negative answer inside the loop: a non-selecting entry is skipped, `false` comes only after the list is exhausted (anchored by the type ranged over). " +
			"(C07-fold) the loop that folds the selecting policies' cluster-wide exposure into the pod visits every policy (no early exit on a saturated connection set); (C07-b-nil) a rule without namespaceSelector matches a representative peer by the peer's namespace selector, as the de-duplication key does (defect F21, repaired). " +
			"(C07-acc-return) a function that takes a slice and hands back one built from it (an accumulator step, e.g. the per-rule step of the exposure pre-scan if it is written in append style) hands back a value built from its parameter on every exit that can be a success. " +
			"NOT decided: SelectorsFullMatch semantics in general; coverage for arbitrary hypothetical pods."
		rules.RulePeerClassification(p, r, "C07-a")
		rules.RepresentativeKey(p, r, "C07-b")
		rules.RepresentativeDeletion(p, r, "C07-c")
		rules.SomePeerSelects(p, r, "C07-exists")
		rules.ContainmentSeesNamedPorts(p, r, "C07-d")
		rules.SelectorsFullMatchTable(p, r, "C07-e")
		rules.SharedSets(p, r, "C07-f")
		rules.KeyAndMatcherNormaliseAlike(p, r, "C07-b-norm")
		rules.RepresentativePairExclusionTable(p, r, "C07-g")
		rules.ExposureFlagNonInterference(p, r, "C07-fold")
		rules.NilNamespaceSelectorMatchesByKey(p, r, "C07-b-nil")
		rules.AccumulatorsHandedBack(p, r, "C07-acc-return")
	})
}
