package props

import (
	"npverif/internal/core"
	"npverif/internal/rules"
	"strings"
)

func init() {
	register("C06", "exposure analysis is sound and leaves base connectivity untouched", func(p *core.Program, r *core.Report) {
		r.Explanation = "Structural necessary conditions, decided for all inputs at once: " +
			"(C06-a/E3b) connection sets held in long-lived policy/pod state are modified only inside their two owner functions - on query paths they are operands, never receivers (SSA origin analysis with interprocedural mutated-parameter summaries); " +
			"(C06-b) the exposure shortcut of determineAllowedConnsPerDirection returns a stored set only under its own AllowAll flag, and the cluster-wide shortcut only when the OTHER end (source on ingress, destination on egress) is a pod; " +
			"(C06-c) the protected flag is written only by UpdatePodXgressProtectedFlag, called only where policies selecting the pod in the queried direction exist; " +
			"(C06-d) the exposure flag is read on query paths only at the side-effect sites, representative peers never enter GetPeersList, and loops that fold exposure data have no early exit but errors. " +
			"(C06-a-store) a set stored into such a holder is fresh; (C06-pure) no unreviewed long-lived write on the query paths; " +
			"(C06-e) a rule peer is recorded as exposure to the entire cluster only under `namespaceSelector present and empty, podSelector absent or empty` (path condition at the recording call; one-line boolean helpers are inlined), and external + cluster-wide only for a rule without peers. " +
			"(C06-order) GetPeersList stores the IP peers before the workload peers and does not re-order the list: the exposure bookkeeping records a workload's cluster-wide exposure at its first pair as a destination and relies on that pair's source being unrestricted. " +
			"(C06-pairs) every constant `false` exit of the pair filter is taken for a reviewed reason (both ends IP blocks; the same peer; an exclusion under the exposure option; neither end the focus workload): the exposure data of a pod are read at its first pair as a destination, which must be a pair with an unrestricted IP source. " +
			"(C06-dir) the exposure pre-scan of a policy reads the ingress (egress) rules exactly when the policy affects ingress (egress) - the clause of C07-a: rules of a direction the policy does not govern contribute no exposure. " +
			"NOT decided: realizability of each reported entry for hypothetical pods."
		rules.SharedSets(p, r, "C06-a")
		rules.ExposureShortcut(p, r, "C06-b")
		rules.ProtectionFlag(p, r, "C06-c")
		rules.ExposureFlagNonInterference(p, r, "C06-d")
		rules.ClusterWideCondition(p, r, "C06-e")
		rules.QueryPathWrites(p, r, "C06-pure")
		rules.LoopCarriedDefaults(p, r, "C06-loop")
		rules.SelectorsFullMatchTable(p, r, "C06-f")
		rules.PeersListOrder(p, r, "C06-order")
		rules.PairFilterExclusions(p, r, "C06-pairs")
		// the exposure pre-scan reads the rules of a direction only when the policy affects that direction (the clause of
		// C07-a): exposure recorded from rules of a direction the policy does not govern is not realizable
		{
			sub := core.NewReport("C06")
			rules.RulePeerClassification(p, sub, "C06-dir")
			n := 0
			for _, o := range sub.Obs {
				if strings.Contains(o.Construct, "are scanned when the policy affects that direction") {
					r.Add("C06-dir", o.Construct, o.Pos, o.Status, o.Reason, o.Path...)
					n++
				}
			}
			r.RuleCounts["C06-dir"] = n
			r.Floor("C06-dir", 2)
		}
		// the positive side of the same filter (the rule of C16-pred, restricted to the pair filter): every exit that is not
		// an exclusion answers isPeerFocusWorkload(src) || isPeerFocusWorkload(dst) - a further conjunct (one named peer
		// only, ...) drops the (IP block, workload) pairs as well
		{
			sub := core.NewReport("C06")
			rules.FocusFilter(p, sub, "C06-focus")
			n := 0
			for _, o := range sub.Obs {
				if o.Rule == "C06-focus-pred" && strings.Contains(o.Construct, "a pair is kept iff") {
					r.Add("C06-pairs-kept", o.Construct, o.Pos, o.Status, o.Reason, o.Path...)
					n++
				}
			}
			r.RuleCounts["C06-pairs-kept"] = n
			r.Floor("C06-pairs-kept", 1)
		}
	})
}
