package props

import (
	"npverif/internal/core"
	"npverif/internal/rules"
)

func init() {
	register("C06", "exposure analysis is sound and leaves base connectivity untouched", func(p *core.Program, r *core.Report) {
		r.Explanation = "Structural necessary conditions, decided for all inputs at once: " +
			"(C06-a/E3b) connection sets held in long-lived policy/pod state are modified only inside their two owner functions - on query paths they are operands, never receivers (SSA origin analysis with interprocedural mutated-parameter summaries); " +
			"(C06-b) the exposure shortcut of determineAllowedConnsPerDirection returns a stored set only under its own AllowAll flag, and the cluster-wide shortcut only when the OTHER end (source on ingress, destination on egress) is a pod; " +
			"(C06-c) the protected flag is written only by UpdatePodXgressProtectedFlag, called only where policies selecting the pod in the queried direction exist; " +
			"(C06-d) the exposure flag is read on query paths only at the side-effect sites, representative peers never enter GetPeersList, and loops that fold exposure data have no early exit but errors. " +
			"(C06-a-store) a set stored into such a holder is fresh; (C06-pure) no unreviewed long-lived write on the query paths; " +
			"(C06-e) a rule peer is recorded as exposure to the entire cluster only under `namespaceSelector present and empty, podSelector absent or empty` (path condition at the recording call; one-line boolean helpers are inlined), and external + cluster-wide only for a rule without peers. " +
			"(C06-order) GetPeersList stores the IP peers before the workload peers and does not re-order the list: the exposure bookkeeping records a workload's cluster-wide exposure at its first pair as a destination and relies on that pair's source being unrestricted. " +
			"NOT decided: realizability of each reported entry for hypothetical pods."
		rules.SharedSets(p, r, "C06-a")
		rules.ExposureShortcut(p, r, "C06-b")
		rules.ProtectionFlag(p, r, "C06-c")
		rules.ExposureFlagNonInterference(p, r, "C06-d")
		rules.ClusterWideCondition(p, r, "C06-e")
		rules.QueryPathWrites(p, r, "C06-pure")
		rules.LoopCarriedDefaults(p, r, "C06-loop")
		rules.SelectorsFullMatchTable(p, r, "C06-f")
		rules.PeersListOrder(p, r, "C06-order")
	})
}
