package props

import (
	"npverif/internal/core"
	"npverif/internal/rules"
)

func init() {
	register("C09", "every output format faithfully encodes the computed result", func(p *core.Program, r *core.Report) {
		r.Explanation = "E8 formatter agreement - structural necessary conditions that every format encodes the computed result, decided for all results at once: " +
			"(C09-proj) in the formatting layer (all functions reachable from the 9 formatter entries and the two ToString functions, outside package common) a row's protocols-to-ports map is only handed on - never ranged over, indexed or measured, decided by the operand's type - and every formatter entry reaches the shared projections (who-may-format); " +
			"(C09-ret) every successful return of a rendering function is computed from, or taken where the path condition pins, each input that another return of the function renders (data flow with accumulating assignments and out-parameter sinks threaded along the paths; three domain pins keyed by function + path atom with positional parameters); (C09-nodrop) every continue and break of the layer is in a reviewed table - a new one can drop rows; " +
			"(C09-emit) every loop over rows emits on every path through its body; " +
			"(C09-orient) header and row builders of the csv and md tables order the columns alike in both orientations and are called with the same flag; md sub-sections pair rows, flag and header; exposure entries are oriented by direction. " +
			"(C09-sel) a function that renders a label selector either runs the full selector writer on the path to its return or chooses an abbreviated text only where the path condition pins both matchLabels and matchExpressions. " +
			"(C09-str) String and ProtocolsAndPortsMap of a connection set build their result in loops over the set's own protocol map; (C09-str-lossless) the numbered ports of a port set are rendered by the interval library's String() of the whole set. " +
			"(C09-readonly) rendering leaves the report as it was: a function of the formatting layer that rewrites the elements of a slice parameter (in-place filter, element store, copy) is only ever handed a slice built for the occasion, never a field or the result of an accessor that hands out a field - a report can be rendered more than once. " +
			"NOT decided: that the text of a row parses back to the same value (quoting, separators); encoding/json and encoding/csv are trusted."
		rules.ProjectionSharing(p, r, "C09-proj")
		rules.NoDropExits(p, r, "C09-nodrop")
		rules.ReturnCompleteness(p, r, "C09-ret")
		rules.PerRowEmission(p, r, "C09-emit")
		rules.OrientationParity(p, r, "C09-orient")
		rules.SelectorRenderingLossless(p, r, "C09-sel")
		rules.SelectorTextSingleAssignment(p, r, "C09-sel-var")
		rules.FormattersKeepTheirInput(p, r, "C09-readonly")
		rules.RenderersRangeOverOwnMap(p, r, "C09-str")
		rules.PortSetTextLossless(p, r, "C09-str-lossless")
		rules.CLIFileWriter(p, r, "C09-file")
		r.Floor("C09-nodrop", 1)
	})
}
