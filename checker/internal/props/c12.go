package props

import (
	"npverif/internal/core"
	"npverif/internal/rules"
)

func init() {
	register("C12", "analysis is total: any input yields a result or an error, never a crash", func(p *core.Program, r *core.Report) {
		r.Explanation = "Structural necessary conditions of totality, decided for every input at once (rule E2 over all production packages): " +
			"N1 every dereference of an optional pointer field of a decoded API object is dominated by a nil test (path conditions as propositional formulas, truth-table entailment; requires-summaries across calls); " +
			"N2 the same for module fields that are nil in some states; N3 results of the k8s.Peer getters are used only under a PeerType/nil fact; " +
			"N4 nil literals and nil-seeded locals are not passed to callees that dereference the parameter; N5 map lookups of pointer type are dereferenced only under comma-ok / same-key idioms; " +
			"N6 a value co-returned with an error is not used where the error is known non-nil; N7 single-value type assertions cannot fail (closed world over module types, PeerType facts, kind cases); " +
			"N8 constant indexes are dominated by a length fact; N9 no panic/log.Fatal/os.Exit outside cli.Execute, and library calls with a panicking precondition (netset.IPBlockFromIPAddress on non-IPv4) are dominated by a validation; " +
			"N12 every construction (composite literal) of a module struct sets the pointer fields that the code dereferences without a nil test, directly or through the by-value structs it contains; " +
			"N10 the module call graph is acyclic and every for loop is a range or a counted loop. " +
			"(E2-N12-map) every literal of a set type allocates the maps its methods write through (a write into a nil map panics). " +
			"(E2-N13) a position returned by slices / strings / bytes Index* is used as an index or bound only on a path that decided a comparison of it (the -1 of `not found`); today no production code uses such a position as an index, the rule is armed for new code. " +
			"(E2-N3-ns) premise of the exceptions for `peer.GetPeerNamespace()` in the admin-policy matchers: the functions of package eval that supply a pod peer's namespace object answer `nil, nil` for representative pods only. " +
			"NOT decided: panics inside cli-runtime, yaml, apimachinery conversion or np-guard/models on other preconditions; resource exhaustion; termination of library code."
		rules.NilGuards(p, r)
		rules.NilAuxiliary(p, r)
		rules.ConstructorCompleteness(p, r)
		rules.PeerBeforePorts(p, r, "E2-N3-pre")
		rules.AdminSelectionExcludesIPs(p, r, "E2-N3-sel")
		rules.NamespaceObjectOnlyNilForRepresentatives(p, r, "E2-N3-ns")
		rules.MapFieldsAllocated(p, r, "E2-N12-map")
		rules.SearchResultIndexGuarded(p, r, "E2-N13")
		r.Floor("E2-N1", 18)
		r.Floor("E2-N3", 12)
		r.Floor("E2-N7", 10)
		r.Floor("E2-N10", 3)
		r.Assume("API packages whose pointer fields are optional (decoded from YAML, absent => nil): k8s.io/api/**, k8s.io/apimachinery/pkg/apis/meta/v1, github.com/openshift/api/**, sigs.k8s.io/network-policy-api/**")
		r.Assume("panicking-precondition table (read from np-guard/models v0.5.2): netset.IPBlockFromIPAddress indexes net.ParseIP(s).To4() and panics on IPv6; interval.CanonicalSet.Min/Max panic on an empty set")
		r.Assume("objects decoded from manifests are not mutated between a guard and the guarded use by another alias (there are no goroutines in the module)")
		r.Assume("method receivers are non-nil (methods are invoked on objects the module constructed)")
	})
}
