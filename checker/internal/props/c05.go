package props

import (
	"npverif/internal/core"
	"npverif/internal/rules"
)

func init() {
	register("C05", "the connectivity report is a well-formed, canonical relation", func(p *core.Program, r *core.Report) {
		r.Explanation = "Structural necessary conditions of well-formedness, decided for all inputs at once: " +
			"(C05-a) every result row is constructed under includePairOfWorkloads(src,dst) and !conn.IsEmpty() on the same values (at the site or at all callers of the pass-through wrapper), the predicate never accepts IP-IP or self pairs, and the pair loop appends one row per ordered pair; " +
			"(C05-b) the IP partition receives 0.0.0.0/0 and only single ranges (Split() results), and is returned as the library computed it; " +
			"(C05-c) the canonical 'All Connections' form is re-established by every growing ConnectionSet mutator and the representation is written only inside package common (rule C11-c); " +
			"(C05-d) PortSet.Ports is the library's CanonicalSet and is assigned only from library constructors/operations. " +
			"(C05-c-range) an interval built from runtime bounds (possibly empty: endPort below port) flows only into AddInterval / AddHole, which ignore an empty interval, never into ToSet(), which would yield a non-empty set of one empty interval. " +
			"(C05-c-exact) the containment test that decides whether Subtract deletes a protocol entry compares numbered ports through the interval library's set comparisons only (a false negative leaves an empty port set in the map). " +
			"(C05-a-peer-key) one peer per workload: the owners map is keyed by the stored peer's own String() - namespace, owner-or-pod name and kind (the key rules of C17) - so that the doubly nested pair loop yields one row per ordered pair of workloads. " +
			"NOT decided: ports within 1..65535 (rule values are not validated anywhere; no static value ranges), uniqueness of peer strings for colliding names, the library's partition algorithm."
		rules.GuardedRowConstruction(p, r, "C05-a")
		rules.PairLoopShape(p, r, "C05-a-loop")
		rules.PartitionCompleteness(p, r, "C05-b")
		rules.PartitionInputsAreRanges(p, r, "C05-b-ranges")
		// one row per ordered pair needs one PEER per workload: the owners map is keyed by the peer's own String() (the
		// key rules of C17), on which the self-pair test of C05-a-pred relies too
		{
			sub := core.NewReport("C05")
			rules.WorkloadExpansion(p, sub, "C05-a-peer")
			n := 0
			for _, o := range sub.Obs {
				if o.Rule == "C05-a-peer-key" {
					r.Add(o.Rule, o.Construct, o.Pos, o.Status, o.Reason, o.Path...)
					n++
				}
			}
			r.RuleCounts["C05-a-peer-key"] = n
			r.Floor("C05-a-peer-key", 1)
		}
		rules.PortSetPredicateVocabulary(p, r, "C05-c-exact")
		rules.CanonicalForm(p, r, "C05-c")
		rules.IntervalCanonicity(p, r, "C05-d")
		rules.IntervalsFromRuntimeBounds(p, r, "C05-c-range")
	})
}
