package props

import (
	"npverif/internal/core"
	"npverif/internal/rules"
)

func init() {
	register("C13", "bad or irrelevant documents are reported and never skew the result", func(p *core.Program, r *core.Report) {
		r.Explanation = "Structural necessary conditions, decided for all inputs and injected documents at once: " +
			"(C13-a) per-document isolation: the conversion loop carries only appends and set-only flags, has no break/continue/return, the converter writes only its own fresh object, an object is kept only if it converted, a document is skipped silently only for kinds outside the parser's table; " +
			"(C13-b) kind tables: every dispatcher on resource kinds agrees with the parser's master table (declared subsets with reasons), each case uses the object of its own kind, unknown kinds yield nil; " +
			"(C13-c) severity table: every literal of the three error carriers has the (fatal, severe) of its wrapped error type; diff passes severities through in order; every error returned at the API boundary is recorded in Errors(); " +
			"(C13-d) gates: stopProcessing is `exists e: fatal || stopOnError && severe` over the whole list; the analysis runs only under !stopProcessing and the stop branch returns no connections; diff decides once after all errors are recorded and computes the diff only if neither side stopped; callers of the scanner test its (always non-nil) error list by length. " +
			"(C13-e) no error result of a module function is discarded anywhere (statement call, `_`, go/defer), one reviewed roll-back excepted. " +
			"(C13-pairs) in package diff a datum of one input (errs1, dirPath2, ...) is never recorded or computed from the other input only, and a call that names its side by a constant is handed data of that side (the rule of C04-f: an error of the second directory recorded under the first, or not at all). " +
			"NOT decided: how cli-runtime's builder treats a syntactically broken file placed next to good ones (third-party)."
		rules.DocIsolation(p, r, "C13-a")
		rules.KindTables(p, r, "C13-b")
		rules.SeverityTable(p, r, "C13-c")
		rules.ErrorRecording(p, r, "C13-c-rec")
		rules.StopGates(p, r, "C13-d")
		rules.ErrorsNotDropped(p, r, "C13-e")
		rules.PairRoleConsistency(p, r, "C13-pairs")
	})
}
