package props

import (
	"npverif/internal/core"
	"npverif/internal/rules"
)

func init() {
	register("C14", "NetworkPolicies are additive and local; equivalent spellings agree", func(p *core.Program, r *core.Report) {
		r.Explanation = "Structural necessary conditions of additivity, locality and spelling-insensitivity, decided for all NetworkPolicy-only inputs and edits at once: " +
			"(C14-a) the NetworkPolicy layer is a union fold: accumulators are created empty, modified only by Union, and loops are left early only on error or saturation; " +
			"(C14-b) traffic no policy governs gets the full set (both default rows), so a newly governing policy cannot add; " +
			"(C14-c) the policy store is read only by the selection function (candidates from the pod's namespace, appended only under Selects(pod, direction)) and by the IP partition; " +
			"(C14-d) policyTypes defaulting is one decision table with a single reader (explicit vs defaulted spellings), port sets are the library's canonical interval sets; " +
			"(C14-pure) no unreviewed write of long-lived state on query paths (a memo with a coarse key breaks locality). " +
			"(C14-e) a loop that skips elements whose key was seen before reads, after the guard, only element fields that are part of the key (a rule or ipBlock that differs elsewhere must not be dropped as a duplicate). " +
			"(C14-match) every label-match verdict comes from the label-selector library (or the documented full-match comparison for representative peers), never from a hand-written comparison - the library is what makes `matchLabels {k: v}` and `k In [v]` (including the empty value and absent keys) the same selector. " +
			"(C14-cluster-wide) a rule peer is classed as `entire cluster` only for a present and empty namespaceSelector with an absent or empty podSelector - size tests on the selectors themselves, so that matchExpressions count (the rule of C06-e): `app In [b]` and `app: b` must be classed alike. " +
			"(C14-asdecoded) no production function rewrites a decoded API object it did not build (namespace default excepted): equivalent spellings are equivalent because the evaluator reads them alike, not because an earlier pass rewrote one into the other (and lost a field on the way). " +
			"NOT decided: matchLabels vs single-value In (apimachinery), split CIDRs vs whole (library), the relations on actual outputs."
		rules.MonotoneAccumulators(p, r, "C14-a")
		rules.DefaultIsTop(p, r, "C14-b")
		rules.PolicyLocality(p, r, "C14-c")
		rules.PolicyTypesTable(p, r, "C14-d")
		rules.IntervalCanonicity(p, r, "C14-d-ports")
		rules.QueryPathWrites(p, r, "C14-pure")
		rules.SeenSetKeyCompleteness(p, r, "C14-e")
		rules.UnconditionalIPBlockContribution(p, r, "C14-f")
		rules.ClusterWideCondition(p, r, "C14-cluster-wide")
		rules.ObjectsEvaluatedAsDecoded(p, r, "C14-asdecoded")
		rules.LabelMatchingByLibrary(p, r, "C14-match")
	})
}
