package props

import (
	"npverif/internal/core"
	"npverif/internal/rules"
)

func init() {
	register("C19", "conflicting policy sets are always rejected, never resolved by input order", func(p *core.Program, r *core.Report) {
		r.Explanation = "Structural necessary conditions, decided for all inputs and positions of the conflicting resources at once: " +
			"(C19-a) each of the seven conflict messages has a creation site on the list path whose error leaves its function (directly, through a local, or through a variable captured by the sort callback and returned by the enclosing function; inside the callback the captured error is only ever assigned non-nil errors), and every call of a carrier up to the API entry propagates the error (returned, or bound to a variable that is returned or tested before being overwritten, on every path); recording as fatal is rule C13-c-rec; " +
			"(C19-b) each uniqueness test dominates the store it protects, on the same key; " +
			"(C19-c) the bulk loader visits every object, the same-owner label check runs for every pod and compares labels by presence in both directions, the single-policy priority case is validated outside the comparison callback. " +
			"(C19-all) in the bulk loader every clause of the kind switch that inserts at all inserts its object on every path: the conflict checks see only what was inserted. " +
			"(C19-range) a positive answer of HasValidPriority implies both bounds of [MinANPPriority, MaxANPPriority] (formula over its exits); (C19-labels) the comparison that rejects pods of one owner with different labels skips no key of either label map. " +
			"(C19-labels-src) the label set a selector is matched against is the Labels field of a pod or namespace object (or a parameter naming one), never a set computed from further per-pod state: the same-owner consistency check and the cache key cover Labels only, so anything else makes the result depend on which replica represents the workload. " +
			"(C19-labels-always) the same-owner check accepts a pod without comparing labels only when the pod has no owner or is the first pod of its owner; every other acceptance follows the comparison (equality of a digest or of the cache-key variant is not one). " +
			"NOT decided: that a comparison sort evaluates less() on at least one equal pair and at least once per element for n >= 2 (a fact about an execution of sort.Slice; recorded as an assumption)."
		rules.ConflictDetectors(p, r, "C19-a")
		rules.CheckBeforeWrite(p, r, "C19-b")
		rules.ConflictPositionIndependence(p, r, "C19-c")
		rules.ErrorRecording(p, r, "C19-rec")
		r.Assume("sort.Slice (any correct comparison sort) calls less on some pair of equal-priority elements when two exist, and on every element when n >= 2")
		rules.EngineBuiltForEveryInput(p, r, "C19-d")
		rules.BulkLoaderInsertsEveryObject(p, r, "C19-all")
		rules.PriorityRangeBothBounds(p, r, "C19-range")
		rules.OwnerLabelsComparedCompletely(p, r, "C19-labels")
		rules.SelectorsMatchObjectLabels(p, r, "C19-labels-src")
		rules.OwnerLabelsAlwaysCompared(p, r, "C19-labels-always")
	})
}
