package props

import (
	"npverif/internal/core"
	"npverif/internal/rules"
)

func init() {
	register("C04", "diff is pointwise exact with respect to the two connectivity reports", func(p *core.Program, r *core.Report) {
		r.Explanation = "Structural necessary conditions of a pointwise exact diff, decided for all pairs of reports at once: " +
			"(C04-a) both lists are refined by the one map DisjointPeerIPMap(ips(conns1), ips(conns2)) and diffed in order (value identity); " +
			"(C04-b/-c) the classification is the four-row table (changed/unchanged/removed/added by presence of the two sides and equalConns), each row sets its own type constant and looks new/lost workloads up in the OTHER report's peers; the first report fills the first side; accessors return their own list and special-case added/removed; " +
			"(C04-d) the pair key and the IP-merge grouping key are separator-joined (injective) concatenations of (src,dst) and (non-IP end, conn1, conn2); only key attributes are read from a group's representative and sides are re-inserted as they were; " +
			"(C04-e) row equality is ConnectionSet.Equal on sets rebuilt from both rows, and Equal compares every map-valued field in both directions (DeepEqual, or equal lengths plus a lookup of every key where a missing key means unequal); " +
			"(C04-mute) diff's two reports are computed by analyzers built with WithMuteErrsAndWarns, `list` computes its report un-muted: in every function the flag reaches, a statement whose execution depends on it only logs; " +
			"(C04-key-lossless) the text of a port set, which is part of the IP re-merge key through ConnectionSet.String, renders the numbered ports through the library's String() of the whole set (no abbreviation); " +
			"(C04-peers) every successful return of the connectivity analysis hands out the peers list computed from GetPeersList (diff's new/lost workloads come from it), also when there is nothing to report; " +
			"(C04-f) in package diff a binding that belongs to one side (first/conn1/ref1/...) is never computed from the other side only. " +
			"NOT decided: losslessness of refine + merge for every pair of partitions and every address (arithmetic over 2^32 points)."
		rules.DiffSameRefinement(p, r, "C04-a")
		rules.DiffClassification(p, r, "C04-b")
		rules.DiffMergeKey(p, r, "C04-d")
		rules.SymmetricEquality(p, r, "C04-e")
		rules.PairRoleConsistency(p, r, "C04-f")
		rules.DiffWorkloadKeyAgreement(p, r, "C04-g")
		rules.AllowAllResetsMap(p, r, "C04-e-canon")
		rules.MuteDecidesLoggingOnly(p, r, "C04-mute")
		rules.PortSetTextLossless(p, r, "C04-key-lossless")
		rules.PeersListHandedOut(p, r, "C04-peers")
	})
}
