package props

import (
	"npverif/internal/core"
	"npverif/internal/rules"
)

func init() {
	register("C18", "CLI, directory API and resource-info API give the same answer", func(p *core.Program, r *core.Report) {
		r.Explanation = "Structural necessary conditions, decided for all directories and flag combinations at once (nothing is executed): " +
			"(C18-print) by SSA value identity, the single value written to stdout is result #0 of <analyzer>.XToString applied to result #0 of the library entry point, called on the same analyzer (built from the flag-derived options) with the flag variables in order; the -f helper receives the same value under exactly `outFile != \"\"` and its error is returned; " +
			"(C18-file) the helper creates/truncates the named file and writes its whole buffer, returning the write error; " +
			"(C18-stdout) every stdout write of the module is either the command's print, unreachable from list/diff in the call graph, or in a branch shown dead (kind switch covering the parser's table; constant in-range cache size); " +
			"(C18-exit) every error-returning call of the commands is propagated, no deferred closure overwrites an error, RunE returns the command's error, Execute exits non-zero exactly under err != nil and nobody else terminates the process; " +
			"(C18-flags) flag name -> variable -> option call (argument, guard) -> option setter field tables; -q/-v are read only to select the verbosity; " +
			"(C18-api) the directory APIs scan exactly their parameters and every successful return is the resource-info API applied to the unmodified scanned infos on the same analyzer. " +
			"NOT decided: cobra's own behaviour (flag parsing, error printing to stderr), byte equality of outputs on concrete inputs, I/O failures of Close."
		rules.CLIPrintIdentity(p, r, "C18-print")
		rules.CLIFileWriter(p, r, "C18-file")
		rules.StdoutPurity(p, r, "C18-stdout")
		rules.CLIExitChain(p, r, "C18-exit")
		rules.CLIFlagWiring(p, r, "C18-flags")
		rules.DirAPIForwardsToInfosAPI(p, r, "C18-api")
		r.Assume("github.com/spf13/cobra executes RunE of the selected sub-command after the PersistentPreRunE chain and returns its error from Command.Execute")
		r.Assume("strings.Builder / os.File.Close after a successful Write do not fail (Close's error is ignored by writeBufToFile)")
	})
}
