package props

import (
	"npverif/internal/core"
	"npverif/internal/rules"
)

func init() {
	register("C02", "ANP > NetworkPolicy > BANP precedence and rule order are respected", func(p *core.Program, r *core.Report) {
		r.Explanation = "Structural necessary conditions of the precedence semantics, decided for all policy sets at once: " +
			"(C02-a/E4b) the admin policies are sorted by priority whenever an exported entry of package eval returns after adding one; (C02-cmp) the sort's less() orders by ascending Spec.Priority; " +
			"(C02-b) in the merge methods of PolicyConnections a set merged into one layer has been reduced by every other layer first (first rule wins inside a policy, higher priority wins across policies; reduced obligations for the two documented asymmetric merges); " +
			"(C02-c) list and eval orchestrators consult ANP, NetworkPolicy, BANP/default in that order and each return sits in its row of the decision table (path conditions, truth-table entailment); " +
			"(C02-first) in every eval-path loop that obtains a policy/rule verdict, the next element is consulted only under verdict == NotCaptured; " +
			"(C02-d) the admin-policy matchers run everything but the PeerType test for non-IP peers only. " +
			"(C02-sib) the eight rule-iteration methods (ANP/BANP x ingress/egress x set/query) agree: each ranges over its direction's rules and hands peers, ports, action, the peers in role order and the baseline flag to the helper of its direction. " +
			"(C02-canon) a set whose all-flag is raised has an empty protocol map - Intersection of the egress and ingress verdicts relies on it; (C02-pure) no unreviewed long-lived write on a query path (a memo keyed too coarsely gives one pair the verdict of another). " +
			"(C02-role-*) endpoint roles as in C01: a rule's From meets the source, To the destination, and the ports of a rule - named ports included - are resolved on the destination pod in both directions. " +
			"(C02-sel-owner) label selectors are matched inside the policy engine only (packages eval and eval/internal/k8s; the ingress analyzer for Service selectors): a second place that decides which objects a policy selects - a pre-filter of the objects given to `eval`, a relevance test in the parser - works on its own view of the labels and can drop a policy that the other command applies. " +
			"(C02-d-sel) the positive answers of the admin-policy selection functions are given for non-IP peers only, decided by the provenance of every `true` (the rule E2-N3-sel). " +
			"NOT decided: that the sets computed are the right sets; the behaviour of sort.Slice itself."
		rules.SortedTypestate(p, r)
		rules.PriorityComparator(p, r)
		rules.PartitionDiscipline(p, r)
		rules.LayerOrder(p, r)
		rules.FirstMatchLoops(p, r)
		rules.AdminNeverSelectsIP(p, r)
		rules.AdminRuleIterationSiblings(p, r, "C02-sib")
		rules.SelectionOwnedByEngine(p, r, "C02-sel-owner")
		rules.AdminSelectionExcludesIPs(p, r, "C02-d-sel")
		rules.LoopCarriedDefaults(p, r, "C02-loop")
		rules.SliceShrinkByIdentity(p, r, "C02-shrink")
		rules.AllowAllResetsMap(p, r, "C02-canon")
		rules.QueryPathWrites(p, r, "C02-pure")
		rules.EndpointRoles(p, r, "C02")
		r.Assume("ANPRulesResult is an iota enumeration whose zero value is NotCaptured (re-checked: the rule looks for `verdict == 0`-valued constants)")
	})
}
