package props

import (
	"npverif/internal/core"
	"npverif/internal/rules"
)

func init() {
	register("C10", "ingress-controller lines follow Ingress/Route -> Service -> workload + policies", func(p *core.Program, r *core.Report) {
		r.Explanation = "Structural necessary conditions, decided for all inputs at once: " +
			"(C10-fields) every Service/Ingress/Route field the statement names is read on the list path; " +
			"(C10-port) decision table of the service-port designation: name (non-empty) or number, targetPort only for Route-designated ports, pod port = targetPort defaulting to port, unspecified port = all ports; how Ingress and Route backends are turned into the required port; " +
			"(C10-tcp) a port is granted only if it is a TCP container port of the same workload, named target ports are resolved on that workload, a container port is recorded as exposed only on a path that entails that its OWN protocol is unset or TCP; " +
			"(C10-policy) by SSA value identity the entry's own set is intersected with the verdict from the fixed, unlabeled fake pod to that entry's peer, and the row / the warning are the two arms of the emptiness test; " +
			"(C10-ns) objects are stored under their own namespace/name, services are looked up under the Ingress/Route namespace, workloads are selected by the service selector within the service namespace, repeated hits accumulate by Union; " +
			"(C10-loop) a struct local updated field by field in a loop of the ingress analyzer (the pod access port) is a fresh variable of each iteration; " +
			"(C10-pure) no unreviewed memo on the ingress query path. " +
			"(C02-c, shared) the pair (ingress-controller, workload) goes through the same ANP > NetworkPolicy > BANP layer table as any pair: no return of the per-direction evaluation outside its row. " +
			"(C10-role-*) endpoint roles as in C01, for the pair (ingress-controller, workload): an admin policy's ingress rule resolves its named ports on the workload, not on the ingress-controller pod (which has no ports); (C10-ia-empty) the emptiness of the ingress analyzer is `no services | (no routes & no ingresses)`. " +
			"NOT decided: the arithmetic of which concrete ports result on an input; k8s label-selector matching (library)."
		rules.FieldCoverage(p, r, "C10-fields", "the list path", rules.ListEntries(p), rules.FieldsIngress, "a Service/Ingress/Route field named by the statement is never read on the list path")
		rules.ServicePortDesignation(p, r, "C10-port")
		rules.IngressTCPOnly(p, r, "C10-tcp")
		rules.IngressPolicyIntersection(p, r, "C10-policy")
		rules.IngressNamespaceScoping(p, r, "C10-ns")
		rules.QueryPathWrites(p, r, "C10-pure")
		rules.LayerOrder(p, r)
		rules.IngressAnalyzerEmptiness(p, r, "C10-ia-empty")
		rules.EndpointRoles(p, r, "C10")
		// the controller is an UNLABELED pod: what the policies allow from it is decided by the selector library, which
		// knows that NotIn / DoesNotExist requirements match a pod without labels
		rules.LabelMatchingByLibrary(p, r, "C10-match")
		rules.LoopCarriedPartialWrites(p, r, "C10-loop", core.PkgIngress)
		r.Floor("C10-loop", 0) // the one instance of today (the pod access port built field by field) disappears when that block is extracted; zero instances is a legitimate state
	})
}
