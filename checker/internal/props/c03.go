package props

import (
	"npverif/internal/core"
	"npverif/internal/rules"
)

func init() {
	register("C03", "eval answers agree with list (and with the semantics) for every query", func(p *core.Program, r *core.Report) {
		r.Explanation = "Structural necessary conditions of list/eval agreement (sibling implementations of one semantics), decided for all resources and queries at once: " +
			"(C03-a) every NetworkPolicy and admin-policy field that the list path reads is read on the eval path too (field coverage over both call graphs), and endpoint roles agree (From meets the source, To the destination, ports resolved on the destination) - the role rules of C01 run here as well; " +
			"(C03-b) in the eval-side port matchers a positive answer inside the port loop depends on the entry's protocol and port; " +
			"(C03-c) the admin policies are sorted whenever an exported entry returns (E4b, covers engines filled by InsertObject), and a missing Namespace object is resolved on the eval path; " +
			"(C03-peer-first) wherever a NetworkPolicy rule's ports are examined for a concrete destination, ruleSelectsPeer has answered true before (the port step is partial: it fails on a named port for an IP destination, so the order of the conjunction matters); (C03-d) eval and list apply the same always-allowed predicates before cache and policies: the guard of each is read off the path conditions of the exits that return the top verdict before any cache or policy call (wrappers of predicates inlined, peers written by role), each predicate alone is sufficient, and no cache / policy call can run while one of them holds; " +
			"(C03-first) eval loops go on to the next policy/rule only on NotCaptured (first match wins, as the list side's partition discipline C02-b). " +
			"(C03-part-seen/-all) the IP partition list uses is refined by every ipBlock of every rule: a skip of an already-seen block needs a complete key (CIDR and excepts), every other ipBlock contributes unconditionally - eval answers for one address, list for a whole range. " +
			"(C03-subject) on the eval path Check{Ingress,Egress}ConnAllowed of an admin policy is called only where its subject is known to select the destination (ingress) / the source (egress), or the callee tests that itself. " +
			"(C03-sel-owner) label selectors are matched inside the policy engine only (packages eval and eval/internal/k8s; the ingress analyzer for Service selectors): a second place that decides which objects a policy selects - a pre-filter of the objects given to `eval`, a relevance test in the parser - works on its own view of the labels and can drop a policy that the other command applies. " +
			"(C03-asdecoded) no production function rewrites a decoded API object it did not build (namespace default excepted): list reads manifests through the parser, eval and the library API may be handed objects directly, so a rewrite on one path makes the two disagree. " +
			"(C03-admin-ip) an admin-policy selection answers true for non-IP peers only (the rule E2-N3-sel of C12, and the premise of C02-d): the IP ranges of list are cut at the ipBlocks of NetworkPolicies only, so a rule that could match an address would make eval (one address) and list (a whole range) disagree. " +
			"NOT decided: equality of the two computations on any actual input."
		rules.FieldCoverage(p, r, "C03-a", "eval", rules.EvalEntries(p), append(append([]string{}, rules.FieldsNetpol...), rules.FieldsAdmin...), "list reads it, so eval must too")
		rules.FieldCoverage(p, r, "C03-a-list", "list", rules.ListEntries(p), append([]string{}, rules.FieldsAdmin...), "eval reads it, so list must too")
		rules.EndpointRoles(p, r, "C03")
		rules.VerdictDependence(p, r, "C03-b")
		rules.SortedTypestate(p, r)
		rules.NamespaceResolutionOnEval(p, r, "C03-c")
		rules.AlwaysAllowedParity(p, r, "C03-d")
		rules.NetpolPeerBeforePorts(p, r, "C03-peer-first")
		rules.FirstMatchLoops(p, r)
		r.Floor("C03-a", 50)
		rules.ListEvalSiblingConditions(p, r, "C03-e")
		rules.CacheWriteDiscipline(p, r, "C03-cache-store")
		rules.CacheKeyShape(p, r, "C03-cache-key")
		rules.AdminCheckUnderSubjectSelection(p, r, "C03-subject")
		rules.SelectionOwnedByEngine(p, r, "C03-sel-owner")
		rules.AdminSelectionExcludesIPs(p, r, "C03-admin-ip")
		rules.ObjectsEvaluatedAsDecoded(p, r, "C03-asdecoded")
		rules.SeenSetKeyCompleteness(p, r, "C03-part-seen")
		rules.UnconditionalIPBlockContribution(p, r, "C03-part-all")
	})
}
