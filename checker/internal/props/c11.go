package props

import (
	"npverif/internal/core"
	"npverif/internal/rules"
)

func init() {
	register("C11", "connection sets form a correct, canonical set algebra over protocol x port", func(p *core.Program, r *core.Report) {
		r.Explanation = "Structural necessary conditions of the set algebra, decided on the module's SSA and typed AST for all operands and operation sequences at once: " +
			"(C11-a) operations that return a value write nothing, mutators write their receiver only (effect summaries to a fixpoint over package common); " +
			"(C11-b) no pointer or map reachable from an operand is stored in another object or returned, and Copy reads every field; " +
			"(C11-c) every ConnectionSet method that can grow the protocol map passes checkIfAllConnections (or sets AllowAll) on every exit, and the representation is written only inside package common; " +
			"(C11-d) each binary PortSet operation consults Ports and NamedPorts (Equal/Union also ExcludedNamedPorts) of both sides. " +
			"(C11-e) 'covers every port number' is decided by equality with the full interval 1-65535, never from Min()/Max() of a set, and ContainedIn excuses a missing named port only under that equality on its operand. " +
			"(C11-g) the components of a PortSet are read only by its own methods (one reviewed reader outside), so emptiness / containment / fullness are always asked of numbered and named ports together; " +
			"(C11-f) Equal compares every map-valued field in both directions. " +
			"(C11-h) Subtract drops a protocol exactly under ContainedIn of its port set in the operand's (not `subtract, then IsEmpty`, which loses the full-range cover of a named port); (C11-i) PortSet.IsEmpty reads Ports and NamedPorts only, never the excluded-names bookkeeping; (C11-range) intervals with runtime bounds flow only into AddInterval / AddHole. " +
			"(C11-j) a mutating binary operation of PortSet has no exit on which it consulted fewer components of its operand than on another path (no fast path that skips the named ports: union stays commutative); (C11-k) the comparing operations decide about numbered ports through the library's IsSubset / Equal / IsEmpty only, never through a measure of the representation; (C11-alloc) every literal of a set type allocates the maps that methods write through or compare with reflect.DeepEqual (nil and empty differ). " +
			"NOT decided: that results denote the right point sets - interval arithmetic belongs to np-guard/models and is not analysed."
		rules.SetAlgebraEffects(p, r)
		rules.CanonicalForm(p, r, "C11-c")
		rules.FullRangeTests(p, r, "C11-e")
		rules.SymmetricEquality(p, r, "C11-f")
		rules.PortSetEncapsulation(p, r, "C11-g")
		rules.AllowAllResetsMap(p, r, "C11-c-reset")
		rules.EmptinessIgnoresBookkeeping(p, r, "C11-i")
		rules.SubtractDeletesByContainment(p, r, "C11-h")
		rules.IntervalsFromRuntimeBounds(p, r, "C11-range")
		rules.PortSetMutatorsTotal(p, r, "C11-j")
		rules.PortSetPredicateVocabulary(p, r, "C11-k")
		rules.MapFieldsAllocated(p, r, "C11-alloc")
		r.Assume("interval.CanonicalSet.Union/Intersect/Subtract/Copy return fresh sets; AddInterval/AddHole write their receiver (read from np-guard/models v0.5.2)")
		r.Assume("convention of the package, used as the contract: methods with results are read-only, methods without results mutate the receiver")
	})
}
