package props

import (
	"fmt"
	"go/ast"
	"go/types"
	"os"
	"sort"
	"strings"

	"npverif/internal/core"
	"npverif/internal/ordertaint"
	"npverif/internal/rules"
)

// Choice-site justifications (construct -> reason). One line each, one of:
// unique match / equivalent candidates / diagnostic only / key-determined.
var choiceJustified = map[string]string{
	"netpol/connlist.(*ConnlistAnalyzer).warnBlockedIngress: constant index on unordered slice ‹map[string][]string›[parser.Ingress][0]":                                                                                                                                           "diagnostic only: names one of the blocked Ingress objects in a warning text, which is not an output root",
	"netpol/connlist.(*ConnlistAnalyzer).warnBlockedIngress: constant index on unordered slice ‹map[string][]string›[parser.Route][0]":                                                                                                                                             "diagnostic only: names one of the blocked Route objects in a warning text",
	"netpol/connlist/internal/ingressanalyzer.(*IngressAnalyzer).allowedIngressConnectionsByResourcesType: keyed store ‹map[string]*ingressanalyzer.PeerAndIngressConnSet›[‹eval.Peer›.String()] not keyed by the loop variable (last-wins / first-wins)":                          "equivalent candidates: guarded insert keyed by the peer string; every Peer with that string is the same workload and the connection sets are merged by the commutative Union in the else branch",
	"netpol/connlist/internal/ingressanalyzer.(*IngressAnalyzer).allowedIngressConnectionsByResourcesType: keyed store ‹map[string]*ingressanalyzer.PeerAndIngressConnSet›[‹eval.Peer›.String()].IngressObjects[‹string›] not keyed by the loop variable (last-wins / first-wins)": "diagnostic only: the list of ingress objects per peer is used for the blocked-ingress warning text only",
	"netpol/diff.(mapListConnPairs).mergeBySrcOrDstIPPeers: constant index on unordered slice ‹[]*diff.connsPair›[0]":                                                                                                                                                              "equivalent candidates: all members of a group share the grouping key (non-IP end, conn1, conn2), and only these attributes are read from the representative (key completeness, rule C04-d)",
	"netpol/diff.getIPblocksFromConnList: keyed store ‹map[string]eval.Peer›[‹connlist.Peer2PeerConnection›.Dst().String()] not keyed by the loop variable (last-wins / first-wins)":                                                                                               "key-determined: the stored peer is the one whose String() is the key",
	"netpol/diff.getIPblocksFromConnList: keyed store ‹map[string]eval.Peer›[‹connlist.Peer2PeerConnection›.Src().String()] not keyed by the loop variable (last-wins / first-wins)":                                                                                               "key-determined: the stored peer is the one whose String() is the key",
	"netpol/eval.(*PolicyEngine).changePodPeerToAnotherPodObject: first-match break in unordered loop":                                                                                                                                                                             "equivalent candidates: any other pod of the same owner; pods of one owner have equal labels (checkConsistentLabelsForPodsOfSameOwner, C19) and the same namespace",
	"netpol/eval.(*PolicyEngine).changePodPeerToAnotherPodObject: last-wins assignment to ‹*k8s.PodPeer›.Pod":                                                                                                                                                                      "equivalent candidates: see the first-match break of the same loop",
	"netpol/eval.(*PolicyEngine).createPodOwnersMap: keyed store ‹map[string]eval.Peer›[‹*k8s.WorkloadPeer›.String()] not keyed by the loop variable (last-wins / first-wins)":                                                                                                     "equivalent candidates: keyed by the workload string; pods of one owner are interchangeable representatives (equal labels enforced in the same loop)",
	"netpol/eval.(*PolicyEngine).updatePodOwnersToRepresentativePodMapIfRequired: first-match return  in unordered loop":                                                                                                                                                           "equivalent candidates: any remaining pod of the owner may become its representative (used only to compare labels of later pods)",
	"netpol/eval.(*PolicyEngine).updatePodOwnersToRepresentativePodMapIfRequired: keyed store ‹*eval.PolicyEngine›.podOwnersToRepresentativePodMap[‹*k8s.Pod›.Namespace][‹*k8s.Pod›.Owner.Name] not keyed by the loop variable (last-wins / first-wins)":                           "equivalent candidates: see the first-match return of the same loop",
	"netpol/eval.addDisjointIPBlockToMap: first-match break in unordered loop":                                                                                                                                                                                                     "unique match: the blocks of one set are pairwise disjoint (IP peers of one report), so at most one contains the disjoint block",
	"netpol/eval.diffBetweenPodsLabels: first-match return ‹string›,\"\",‹string› in unordered loop":                                                                                                                                                                               "diagnostic only: which differing label the inconsistent-labels error names",
	"netpol/eval.diffBetweenPodsLabels: first-match return ‹string›,‹*k8s.Pod›.Labels[‹string›],‹string› in unordered loop":                                                                                                                                                        "diagnostic only: which differing label the inconsistent-labels error names",
	"netpol/eval.diffBetweenPodsLabels: first-match return ‹string›,‹string›,\"\" in unordered loop":                                                                                                                                                                               "diagnostic only: which differing label the inconsistent-labels error names",
	"netpol/eval.mergeIPBlocksList: constant index on unordered slice ‹[]*netset.IPBlock›[0]":                                                                                                                                                                                      "set semantics: element 0 only seeds a reduce by the commutative, associative, idempotent IPBlock.Union; the result is split by the library in address order",
	"netpol/connlist.(peerXgressExposureMap).addPeer: per-element store ‹connlist.peerXgressExposureMap›[‹connlist.Peer›] whose value is not determined by its key (first/last element wins)":                                                                                      "equivalent candidates: the first visit of a peer freezes isProtected; the pod's protection flag for a direction is complete after the first query in that direction (all selecting policies are folded in one call, C06-c), so every later visit would store the same value",
	"netpol/eval.(*PolicyEngine).deleteAdminNetworkPolicy: first-match break in unordered loop":                                                                                                                                                                                    "unique match: pointer identity with the object being deleted",
	"netpol/eval.(*PolicyEngine).insertNamespace: per-element store ‹*eval.PolicyEngine›.namespacesMap[‹*k8s.Namespace›.Name] whose value is not determined by its key (first/last element wins)":                                                                                  "assumes a valid cluster: namespace names are unique (API-server invariant); InsertObject is documented as insert-or-update, so for a duplicate the later document wins",
	"netpol/eval.(*PolicyEngine).insertPod: per-element store ‹*eval.PolicyEngine›.podsMap[‹types.NamespacedName›.String()] whose value is not determined by its key (first/last element wins)":                                                                                    "assumes a valid cluster: pod names are unique per namespace (API-server invariant); InsertObject is insert-or-update",
	"netpol/eval.(*PolicyEngine).sortAdminNetpolsByPriority: constant index on unordered slice ‹*eval.PolicyEngine›.sortedAdminNetpols[0]":                                                                                                                                         "unique match: dominated by len(...) == 1",
	"netpol/eval/internal/k8s.(*Pod).ConvertPodNamedPort: first-match return string(‹v1.ContainerPort›.Protocol),‹v1.ContainerPort›.ContainerPort in unordered loop":                                                                                                               "unique match: container port names are unique within a pod (API validation), so at most one entry has the name",
	"netpol/eval/internal/k8s.(*Pod).ConvertPodNamedPort: first-match return string(corev1.ProtocolTCP),‹v1.ContainerPort›.ContainerPort in unordered loop":                                                                                                                        "unique match: container port names are unique within a pod (API validation)",
	"netpol/internal/common.(*ConnectionSet).Contains: first-match return ‹*common.PortSet›.Contains(int64(‹int›)) in unordered loop":                                                                                                                                              "unique match: protocol keys are distinct under EqualFold for the three valid protocols",
}

func init() {
	register("C08", "output is deterministic and independent of the order of the input", func(p *core.Program, r *core.Report) {
		r.Explanation = "E1 order-dependence taint over all production functions (structured abstract interpretation of the typed AST to a fixpoint, two taints Seq/Txt, function summaries, field-based heap): " +
			"(C08-root) no value whose element order or text depends on Go map iteration order reaches an output root (result of ConnectionsListToString / ConnectivityDiffToString, arguments of the CLI print calls) un-sorted; " +
			"(C08-choice) every statement whose effect depends on which element of an unordered sequence comes first or last (first-match break/return, last-wins store, constant index into an unordered slice) is either key-determined or listed in the justification table with its invariant. " +
			"(C08-labels) the choice of the pod that represents a workload is justified by `pods of one owner have equal Labels`; so selectors are matched against the Labels field of a pod or namespace only, never against a set computed from other per-pod state. " +
			"(C08-pairs) the pair filter excludes pairs for reviewed reasons only (the rule of C06-pairs): with other exclusions, which pair is the first one of a workload - and with it the exposure data that are read there - depends on map order. " +
			"(C08-acc) the set operations folded in unordered loops (Union, AddConnection, ...) write their receiver only and store no pointer of an operand, which is what makes folding them order-independent; (C08-union-total) a mutating binary operation of PortSet has no exit that skips a component of its operand, so union stays commutative. Document order is covered too: every parameter of type []parser.K8sObject / []*resource.Info is an unordered source, functions called once per document are analysed as an unordered context, and a store into longer-lived state whose value is not determined by its key (a lossy key such as a hash counts as not determining) is a choice site. NOT decided: totality of hand-written comparators on ties; nondeterminism inside third-party code; order of warnings / choice of error text; permutations of rule lists inside one policy (they are folded by commutative unions and first-match quantifier loops, which the interpreter classifies, but are not declared as sources)."
		// (C08-acc) the interpreter treats the set operations as commutative accumulators when they are folded in an
		// unordered loop; that argument needs them to leave their operands alone and to keep no pointer into them
		rules.AccumulatorPurity(p, r, "C08-acc")
		// premise of two entries of the choice-site table (group representative in the diff merge): key completeness
		rules.DiffMergeKey(p, r, "C08-key")
		// a default carried from one element of a list to the next makes the result depend on the order of the list
		rules.LoopCarriedDefaults(p, r, "C08-loop")
		rules.PortSetMutatorsTotal(p, r, "C08-union-total")
		rules.SelectorsMatchObjectLabels(p, r, "C08-labels")
		rules.PairFilterExclusions(p, r, "C08-pairs")
		var sources []ordertaint.Source
		if fd := p.Func(core.PkgConnlist, "ConnlistAnalyzer", "ConnectionsListToString"); fd != nil {
			sources = append(sources, ordertaint.Source{Param: fd.Obj.Type().(*types.Signature).Params().At(0), Ord: ordertaint.Unord})
			r.Anchor("declared source: parameter conns of ConnectionsListToString (API slice, order unspecified by contract)")
		} else {
			r.Lost("C08-root", "(*ConnlistAnalyzer).ConnectionsListToString")
		}
		// S4: document lists - the order of the input documents (files, documents in a file) is arbitrary
		if os.Getenv("NPVERIF_E1_NODOCORDER") == "" {
			for _, fd := range p.Funcs {
				sig := fd.Obj.Type().(*types.Signature)
				for i := 0; i < sig.Params().Len(); i++ {
					t := sig.Params().At(i).Type().String()
					if strings.HasSuffix(t, "[]"+core.PkgParser+".K8sObject") || strings.HasSuffix(t, "[]*k8s.io/cli-runtime/pkg/resource.Info") {
						sources = append(sources, ordertaint.Source{Param: sig.Params().At(i), Ord: ordertaint.Unord})
					}
				}
			}
		}
		res := ordertaint.Run(p, sources)
		r.Extra["e1_fixpoint_iterations"] = res.Iterations
		r.Extra["e1_functions"] = res.Functions
		r.Extra["e1_map_range_sites"] = res.MapRanges
		r.RuleCounts["C08-maprange"] = res.MapRanges
		r.Floor("C08-maprange", 40)
		ordStr := func(o ordertaint.Ord) string {
			switch o {
			case ordertaint.Det:
				return "deterministic"
			case ordertaint.Unord:
				return "Seq (element order depends on map iteration)"
			case ordertaint.Txt:
				return "Txt (text depends on map iteration)"
			}
			return "Seq+Txt"
		}
		// roots: results of the two ToString functions
		for _, root := range []struct{ pkg, recv, name string }{{core.PkgConnlist, "ConnlistAnalyzer", "ConnectionsListToString"}, {core.PkgDiff, "DiffAnalyzer", "ConnectivityDiffToString"}} {
			fd := p.Func(root.pkg, root.recv, root.name)
			if fd == nil {
				r.Lost("C08-root", root.name)
				continue
			}
			ro := res.ResultOrd[fd.Obj]
			o := ordertaint.Det
			if len(ro) > 0 {
				o = ro[0]
			}
			r.Check(o == ordertaint.Det, "C08-root", fd.Key()+": the returned text does not depend on map iteration order", p.Pos(fd.Decl.Pos()),
				"result taint: "+ordStr(o)+" (every unordered collection on the way is sorted, keyed or folded commutatively)",
				"the output string is "+ordStr(o)+": some collection built under a map range (or the unordered API input) reaches the text without a sort; first tainted cells: "+firstWhy(res))
		}
		// roots: CLI print / write sites
		nPrint := 0
		for _, fd := range p.FuncsIn(core.PkgCLI) {
			info := fd.Pkg.TypesInfo
			ast.Inspect(fd.Decl.Body, func(n ast.Node) bool {
				c, ok := n.(*ast.CallExpr)
				if !ok {
					return true
				}
				fn := core.Callee(info, c)
				if fn == nil || fn.Pkg() == nil {
					return true
				}
				full := fn.Pkg().Path() + "." + core.RefName(fn)
				if !(strings.HasPrefix(full, "fmt.Print") || strings.HasPrefix(full, "fmt.Fprint") || core.RefName(fn) == "WriteString" || core.RefName(fn) == "writeBufToFile") {
					return true
				}
				nPrint++
				ords := ordertaint.ArgOrd(fd, c)
				o := ordertaint.Det
				for _, x := range ords {
					o |= x
				}
				r.Check(o == ordertaint.Det, "C08-root", fmt.Sprintf("%s: %s prints order-independent values", fd.Key(), core.RefName(fn)), p.Pos(c.Pos()), "argument taint: "+ordStr(o), "a value printed by the CLI is "+ordStr(o))
				return true
			})
		}
		r.RuleCounts["C08-print"] = nPrint
		r.Floor("C08-print", 3)
		// choice sites
		var cs []string
		for k := range res.Choice {
			cs = append(cs, k)
		}
		sort.Strings(cs)
		// the justification of a choice site is about the loop of its function (unique match, equivalent candidates,
		// diagnostic only ...), not about how the chosen expression is spelled: a site whose exact text is not in the
		// table is accepted when the table has a site of the same kind in the same function
		coarse := map[string]string{}
		for k, why := range choiceJustified {
			coarse[coarseChoice(k)] = why
		}
		// code that moved: a site in a function the reference tree does not have is judged by the reviewed sites of the
		// functions that call it (the block was extracted from one of them); a site in a function that swallowed a
		// vanished single-caller helper is judged by that helper's reviewed sites. The kind of site may change with the
		// move (a store inside the loop becomes a per-element store of a helper): stores and picks are two classes.
		class := func(ck string) string {
			i := strings.Index(ck, ": ")
			if i < 0 {
				return ""
			}
			switch ck[i+2:] {
			case "keyed store", "per-element store", "last-wins assignment", "call of":
				return "store"
			case "constant index on unordered slice", "first-match return", "first-match break":
				return "pick"
			}
			return ""
		}
		byFnClass := map[string]string{}
		for ck, why := range coarse {
			if i := strings.Index(ck, ": "); i >= 0 && class(ck) != "" {
				byFnClass[stripStar(ck[:i])+"|"+class(ck)] = why
			}
		}
		moved := func(k string) (string, bool) {
			ck := coarseChoice(k)
			i := strings.Index(ck, ": ")
			if i < 0 || class(ck) == "" {
				return "", false
			}
			fnKey := ck[:i]
			var related []string
			if !p.RefHasFunc(fnKey) {
				for _, fd := range p.Funcs {
					for _, callee := range p.CalleesOf(fd) {
						if core.FuncKey(callee) == fnKey {
							related = append(related, fd.Key())
						}
					}
				}
			}
			related = append(related, p.VanishedInto(fnKey)...)
			related = append(related, p.VanishedInto(stripStar(fnKey))...)
			for _, rf := range related {
				if why, ok := byFnClass[stripStar(rf)+"|"+class(ck)]; ok {
					return why + " (the code moved: reviewed as a site of " + rf + ")", true
				}
			}
			return "", false
		}
		// a first-match site is the same site whether the loop is left by `break` (work after the loop) or by `return`
		// (work inlined into the loop body): judged by the reviewed first-match site of the same function
		sameFnPick := func(k string) (string, bool) {
			ck := coarseChoice(k)
			i := strings.Index(ck, ": ")
			if i < 0 || !strings.HasPrefix(ck[i+2:], "first-match") {
				return "", false
			}
			for rk, why := range coarse {
				if j := strings.Index(rk, ": "); j >= 0 && rk[:j] == ck[:i] && strings.HasPrefix(rk[j+2:], "first-match") {
					return why, true
				}
			}
			return "", false
		}
		for _, k := range cs {
			if why, ok := choiceJustified[k]; ok {
				r.Add("C08-choice", k, res.Choice[k], core.Excepted, why)
			} else if why, ok := coarse[coarseChoice(k)]; ok {
				r.Add("C08-choice", k, res.Choice[k], core.Excepted, why+" (same function and kind of site as the reviewed one)")
			} else if why, ok := sameFnPick(k); ok {
				r.Add("C08-choice", k, res.Choice[k], core.Excepted, why+" (the reviewed first-match site of this function, leaving the loop by another statement)")
			} else if why, ok := moved(k); ok {
				r.Add("C08-choice", k, res.Choice[k], core.Excepted, why)
			} else {
				r.Bad("C08-choice", k, res.Choice[k], "an order-dependent choice (which element of an unordered sequence comes first/last decides the effect) that is neither key-determined nor in the justification table: the result may differ between runs on the same resources")
			}
		}
		r.Assume("commutative/idempotent mutators folded under unordered loops (ConnectionSet.Union/Intersection/AddConnection, PortSet.Union/AddPort/AddPortRange/RemovePort, map insert, delete) - cross-checked by C11's effect analysis")
		r.Assume("sort.Slice comparators are total on the rows they order (ties print identically)")
		r.Assume("netset.DisjointIPBlocks and IPBlock.Union depend on their slice arguments as sets")
	})
}

// stripStar removes the pointer marker of a receiver from a function key.
func stripStar(k string) string { return strings.Replace(k, "(*", "(", 1) }

// coarseChoice: "<function>: <kind of choice site>" without the expression.
func coarseChoice(k string) string {
	i := strings.Index(k, ": ")
	if i < 0 {
		return k
	}
	fn, rest := k[:i], k[i+2:]
	for _, kind := range []string{"constant index on unordered slice", "keyed store", "per-element store", "last-wins assignment", "first-match return", "first-match break", "call of"} {
		if strings.HasPrefix(rest, kind) {
			return fn + ": " + kind
		}
	}
	return k
}

func firstWhy(res *ordertaint.Result) string {
	var ws []string
	for k, v := range res.Why {
		ws = append(ws, k+" <= "+v)
	}
	sort.Strings(ws)
	if len(ws) > 6 {
		ws = ws[:6]
	}
	return strings.Join(ws, "; ")
}
