// Package facts implements the path-condition machinery shared by the
// dominance-style rules: propositional formulas over guard atoms, truth-table
// entailment, and a structured walker over a function body that knows which
// conditions hold at every expression.
package facts

import (
	"sort"
	"strings"
)

// Formula is a propositional formula over string atoms.
type Formula interface{}

type (
	Atom  string
	Not   struct{ X Formula }
	And   struct{ L, R Formula }
	Or    struct{ L, R Formula }
	True  struct{}
	False struct{}
)

func MkAnd(a, b Formula) Formula {
	if _, ok := a.(True); ok {
		return b
	}
	if _, ok := b.(True); ok {
		return a
	}
	return And{a, b}
}

func MkOr(a, b Formula) Formula {
	if _, ok := a.(False); ok {
		return b
	}
	if _, ok := b.(False); ok {
		return a
	}
	return Or{a, b}
}

func MkNot(a Formula) Formula {
	switch x := a.(type) {
	case Not:
		return x.X
	case True:
		return False{}
	case False:
		return True{}
	}
	return Not{a}
}

// Iff builds a <-> b.
func Iff(a, b Formula) Formula {
	return Or{And{a, b}, And{MkNot(a), MkNot(b)}}
}

func atoms(f Formula, m map[string]bool) {
	switch x := f.(type) {
	case Atom:
		m[string(x)] = true
	case Not:
		atoms(x.X, m)
	case And:
		atoms(x.L, m)
		atoms(x.R, m)
	case Or:
		atoms(x.L, m)
		atoms(x.R, m)
	}
}

// Atoms returns the sorted atom names of f.
func Atoms(f Formula) []string {
	m := map[string]bool{}
	atoms(f, m)
	var out []string
	for k := range m {
		out = append(out, k)
	}
	sort.Strings(out)
	return out
}

func eval(f Formula, a map[string]bool) bool {
	switch x := f.(type) {
	case True:
		return true
	case False:
		return false
	case Atom:
		return a[string(x)]
	case Not:
		return !eval(x.X, a)
	case And:
		return eval(x.L, a) && eval(x.R, a)
	case Or:
		return eval(x.L, a) || eval(x.R, a)
	}
	return true
}

func conjuncts(f Formula, out *[]Formula) {
	if a, ok := f.(And); ok {
		conjuncts(a.L, out)
		conjuncts(a.R, out)
		return
	}
	if _, ok := f.(True); ok {
		return
	}
	*out = append(*out, f)
}

// Conjuncts returns the top-level conjuncts of f.
func Conjuncts(f Formula) []Formula {
	var out []Formula
	conjuncts(f, &out)
	return out
}

// MaxAtoms bounds the truth-table enumeration.
const MaxAtoms = 18

// Entails decides facts |= goal by enumeration. Only the conjuncts of facts
// that are (transitively) connected to the goal through shared atoms are
// considered, which keeps the table small; if it still exceeds MaxAtoms the
// answer is false (not entailed), which can only make a rule report more.
func Entails(facts, goal Formula) bool {
	cs := Conjuncts(facts)
	rel := map[string]bool{}
	atoms(goal, rel)
	used := make([]bool, len(cs))
	for changed := true; changed; {
		changed = false
		for i, c := range cs {
			if used[i] {
				continue
			}
			m := map[string]bool{}
			atoms(c, m)
			hit := false
			for k := range m {
				if rel[k] {
					hit = true
					break
				}
			}
			if hit {
				used[i] = true
				changed = true
				for k := range m {
					rel[k] = true
				}
			}
		}
	}
	var f Formula = True{}
	for i, c := range cs {
		if used[i] {
			f = MkAnd(f, c)
		}
	}
	var names []string
	for k := range rel {
		names = append(names, k)
	}
	sort.Strings(names)
	if len(names) > MaxAtoms {
		return false
	}
	a := make(map[string]bool, len(names))
	for mask := 0; mask < 1<<len(names); mask++ {
		for i, n := range names {
			a[n] = mask&(1<<i) != 0
		}
		if eval(f, a) && !eval(goal, a) {
			return false
		}
	}
	return true
}

// Satisfiable reports whether f has a model (bounded like Entails; unknown => true).
func Satisfiable(f Formula) bool {
	names := Atoms(f)
	if len(names) > MaxAtoms {
		return true
	}
	a := make(map[string]bool, len(names))
	for mask := 0; mask < 1<<len(names); mask++ {
		for i, n := range names {
			a[n] = mask&(1<<i) != 0
		}
		if eval(f, a) {
			return true
		}
	}
	return false
}

// Equivalent decides a <-> b under the given background facts.
func Equivalent(bg, a, b Formula) bool {
	return Entails(MkAnd(bg, a), b) && Entails(MkAnd(bg, b), a)
}

// String renders a formula.
func String(f Formula) string {
	switch x := f.(type) {
	case True:
		return "true"
	case False:
		return "false"
	case Atom:
		return string(x)
	case Not:
		return "!" + paren(x.X)
	case And:
		return paren(x.L) + " && " + paren(x.R)
	case Or:
		return paren(x.L) + " || " + paren(x.R)
	}
	return "?"
}

func paren(f Formula) string {
	switch f.(type) {
	case And, Or:
		return "(" + String(f) + ")"
	}
	return String(f)
}

// StripVersions removes the "#n" variable-version suffixes (for display and
// for comparing tables extracted from different functions).
func StripVersions(s string) string {
	var b strings.Builder
	for i := 0; i < len(s); i++ {
		if s[i] == '#' || s[i] == '\'' {
			j := i + 1
			for j < len(s) && s[j] >= '0' && s[j] <= '9' {
				j++
			}
			if j > i+1 {
				i = j - 1
				continue
			}
		}
		b.WriteByte(s[i])
	}
	return b.String()
}

// Subst replaces every occurrence of the atom by a constant.
func Subst(f Formula, atom string, val bool) Formula {
	switch x := f.(type) {
	case Atom:
		if string(x) == atom {
			if val {
				return True{}
			}
			return False{}
		}
		return x
	case Not:
		return Not{Subst(x.X, atom, val)}
	case And:
		return And{Subst(x.L, atom, val), Subst(x.R, atom, val)}
	case Or:
		return Or{Subst(x.L, atom, val), Subst(x.R, atom, val)}
	}
	return f
}

// DependsOn: the truth of f changes with the atom for some valuation of the other atoms.
func DependsOn(f Formula, atom string) bool {
	seen := false
	for _, a := range Atoms(f) {
		if a == atom {
			seen = true
		}
	}
	if !seen {
		return false
	}
	return !Equivalent(True{}, Subst(f, atom, true), Subst(f, atom, false))
}
