package facts

import (
	"fmt"
	"go/ast"
	"go/constant"
	"go/token"
	"go/types"
	"strings"
)

// Walker walks a function body in source order and reports, for every
// statement and expression, the path condition known to hold there. The
// module has no goto and no labelled jumps, so a structured walk is exact
// with respect to the control flow it models:
//
//   - if / else / else-if, with early-exit refinement (`if c { return }`
//     establishes !c afterwards; likewise continue/break inside loops);
//   - tag-less switch (cases are tried in order), tagged switch (equality
//     atoms), type switch (type atoms);
//   - short-circuit && and ||.
//
// Variables are versioned: an assignment gives the variable a new version, so
// facts about the old value are not applied to the new one. Facts are not
// carried into a loop body or out of a compound statement for variables
// assigned inside it.
type Walker struct {
	Info *types.Info
	// Atomize may give rule-specific atoms to a condition; nil result = default.
	Atomize func(w *Walker, e ast.Expr) Formula
	// OnExpr is called for every expression node, outermost first.
	OnExpr func(e ast.Expr, f Formula)
	// OnStmt is called for every statement before it is walked.
	OnStmt func(s ast.Stmt, f Formula)
	// OnAssign is called for each (lhs, rhs) pair of an assignment or definition (rhs may be nil for multi-value forms).
	OnAssign func(lhs, rhs ast.Expr, st ast.Stmt, f Formula)

	// Path-state threading (optional). A rule may track a small finite state
	// (0..63) along every path of the function: Transfer is applied, in
	// evaluation order, at every call expression, assignment, inc/dec and
	// range/return statement; branches fork the state set and joins unite it;
	// loops are iterated to a fixpoint. OnExit receives every state that
	// reaches a return statement (ret == nil: falling off the end).
	// AtNode lets a rule observe the set of states reaching a node
	// (dominance queries: "every path to here has passed X").
	Start    int
	Transfer func(st int, n ast.Node, f Formula) int
	OnExit   func(st int, ret *ast.ReturnStmt, f Formula)
	AtNode   func(n ast.Node, states uint64, f Formula)
	// Refine lets a rule collapse path states using the facts known at a
	// statement boundary (e.g. "pending error" -> "tested" once err == nil is known).
	Refine func(st int, f Formula) int
	// OnBranch observes break/continue statements; OnLoopBodyEnd the normal end of a loop body.
	OnBranch      func(b *ast.BranchStmt, states uint64, f Formula)
	OnLoopBodyEnd func(loop ast.Stmt, states uint64, f Formula)

	ver    map[types.Object]int
	opaque int
	// Loops is the stack of enclosing loops (for rules that care).
	Loops []ast.Stmt
	// FuncLitDepth > 0 while the body of a function literal is being walked
	// (its return statements are the closure's, not the function's).
	FuncLitDepth int

	floor    map[types.Object]int     // version numbers already used in dead branches
	boolDefs map[types.Object]boolDef // boolean locals defined from a condition: b := x == nil || y.Empty()

	cur         uint64 // set of path states at the current program point
	quiet       int    // >0 while re-walking a loop body for the state fixpoint
	frames      []*loopFrame
	Inline      bool                    // translate calls of one-line boolean helpers through InlineHook (opt-in per rule)
	subst       map[types.Object]string // parameter -> rendered argument while a boolean helper is inlined
	inlineDepth int
	mutObj      map[string]types.Object // path -> synthetic object whose version counts in-place mutations of that path
	baseInfo    *types.Info
	// AtCalls is scratch space for rules: facts recorded at calls of interest.
	AtCalls []CallFact
	// NoInline keeps the calls it accepts opaque although Inline is set.
	NoInline func(info *types.Info, call *ast.CallExpr) bool
	// CallAtoms: the boolean calls that were given an opaque atom (not inlined), with that atom.
	CallAtoms map[*ast.CallExpr]string
}

type boolDef struct {
	ver int
	f   Formula
}

type loopFrame struct {
	brk, cont uint64
	isSwitch  bool
}

// States returns the set of path states at the current point.
func (w *Walker) States() uint64 { return w.cur }

func (w *Walker) event(n ast.Node, f Formula) {
	if w.AtNode != nil && w.quiet == 0 {
		w.AtNode(n, w.cur, f)
	}
	if w.Transfer == nil || w.cur == 0 {
		return
	}
	var out uint64
	for st := 0; st < 64; st++ {
		if w.cur&(1<<uint(st)) != 0 {
			ns := w.Transfer(st, n, f)
			if ns >= 0 && ns < 64 {
				out |= 1 << uint(ns)
			}
		}
	}
	w.cur = out
}

func (w *Walker) exit(ret *ast.ReturnStmt, f Formula) {
	if w.OnExit != nil {
		for st := 0; st < 64; st++ {
			if w.cur&(1<<uint(st)) != 0 {
				w.OnExit(st, ret, f)
			}
		}
	}
	w.cur = 0
}

func NewWalker(info *types.Info) *Walker {
	return &Walker{Info: info, ver: map[types.Object]int{}}
}

// WalkBody walks a function body starting from the given facts.
func (w *Walker) WalkBody(body *ast.BlockStmt, start Formula) Formula {
	if body == nil {
		return start
	}
	if start == nil {
		start = True{}
	}
	w.cur = 1 << uint(w.Start)
	out := w.block(body.List, start)
	if w.cur != 0 {
		w.exit(nil, out)
	}
	return out
}

// ---------------------------------------------------------------- canonical paths

func (w *Walker) isLocal(o types.Object) bool {
	v, ok := o.(*types.Var)
	if !ok || v.IsField() {
		return false
	}
	return v.Pkg() != nil && v.Parent() != v.Pkg().Scope()
}

// Path gives a canonical string for an expression; local variables carry
// their current version.
func (w *Walker) Path(e ast.Expr) string {
	base := w.pathBase(e)
	switch ast.Unparen(e).(type) {
	case *ast.Ident, *ast.SelectorExpr, *ast.IndexExpr:
		// a path that was mutated in place since (s.Intersection(t)) is a new value: it carries a tick
		if o, ok := w.mutObj[base]; ok && w.ver[o] > 0 {
			return fmt.Sprintf("%s'%d", base, w.ver[o])
		}
	}
	return base
}

// Mutated records that the value denoted by e was changed in place.
func (w *Walker) Mutated(e ast.Expr) {
	base := w.pathBase(e)
	if w.mutObj == nil {
		w.mutObj = map[string]types.Object{}
	}
	o, ok := w.mutObj[base]
	if !ok {
		o = types.NewVar(token.NoPos, nil, "mut:"+base, types.Typ[types.Int])
		w.mutObj[base] = o
	}
	w.bump(o)
}

func (w *Walker) pathBase(e ast.Expr) string {
	switch x := e.(type) {
	case nil:
		return ""
	case *ast.Ident:
		o := w.Info.ObjectOf(x)
		if o != nil && w.subst != nil {
			if s, ok := w.subst[o]; ok {
				return s
			}
		}
		if o != nil && w.isLocal(o) {
			return fmt.Sprintf("%s#%d", x.Name, w.ver[o])
		}
		return selName(o, x.Name)
	case *ast.ParenExpr:
		return w.Path(x.X)
	case *ast.SelectorExpr:
		if _, ok := w.Info.Uses[x.Sel].(*types.PkgName); ok {
			return x.Sel.Name
		}
		sel := selName(w.Info.ObjectOf(x.Sel), x.Sel.Name)
		if id, ok := x.X.(*ast.Ident); ok {
			if _, isPkg := w.Info.Uses[id].(*types.PkgName); isPkg {
				return id.Name + "." + sel
			}
		}
		return w.Path(x.X) + "." + sel
	case *ast.IndexExpr:
		return w.Path(x.X) + "[" + w.Path(x.Index) + "]"
	case *ast.StarExpr:
		return "*" + w.Path(x.X)
	case *ast.UnaryExpr:
		return x.Op.String() + w.Path(x.X)
	case *ast.BinaryExpr:
		return "(" + w.Path(x.X) + x.Op.String() + w.Path(x.Y) + ")"
	case *ast.BasicLit:
		return x.Value
	case *ast.CallExpr:
		var args []string
		for _, a := range x.Args {
			args = append(args, w.Path(a))
		}
		return w.Path(x.Fun) + "(" + strings.Join(args, ",") + ")"
	case *ast.TypeAssertExpr:
		if x.Type == nil {
			return w.Path(x.X) + ".(type)"
		}
		return w.Path(x.X) + ".(" + types.ExprString(x.Type) + ")"
	case *ast.SliceExpr:
		return w.Path(x.X) + "[" + w.Path(x.Low) + ":" + w.Path(x.High) + "]"
	}
	return types.ExprString(e)
}

// MutatorHook, when set, names the expression a statement-level call mutates in place (nil: none).
var MutatorHook func(info *types.Info, call *ast.CallExpr) ast.Expr

// NameHook, when set, gives the name under which functions and struct fields are written in paths and atoms (the
// reference name of a renamed function or field, see core/refnames.go): rules that match an atom against a name
// then keep matching after a rename.
var NameHook func(obj types.Object) string

func selName(o types.Object, written string) string {
	if o == nil || NameHook == nil {
		return written
	}
	switch v := o.(type) {
	case *types.Func:
		return NameHook(v)
	case *types.Var:
		if v.IsField() {
			return NameHook(v)
		}
	}
	return written
}

// PathOfVar gives the canonical path of a variable object at its current version.
func (w *Walker) PathOfVar(v *types.Var) string {
	base := v.Name()
	if w.isLocal(v) {
		base = fmt.Sprintf("%s#%d", v.Name(), w.ver[v])
	}
	if o, ok := w.mutObj[base]; ok && w.ver[o] > 0 {
		return fmt.Sprintf("%s'%d", base, w.ver[o])
	}
	return base
}

func (w *Walker) copyVer() map[types.Object]int {
	m := make(map[types.Object]int, len(w.ver))
	for k, v := range w.ver {
		m[k] = v
	}
	return m
}

// mergeVer makes every version at least as large as in any of the given maps.
func (w *Walker) mergeVer(ms ...map[types.Object]int) {
	for _, m := range ms {
		for k, v := range m {
			if v > w.ver[k] {
				w.ver[k] = v
			}
		}
	}
}

func (w *Walker) bump(o types.Object) {
	if o != nil {
		w.ver[o]++
		if fl, ok := w.floor[o]; ok && w.ver[o] <= fl {
			w.ver[o] = fl + 1
		}
	}
}

// throughIndirection: the operand of an address-of reaches its storage through an explicit pointer dereference or a slice
// element (`&(*ports)[i]`, `&xs[i]`): whatever is written through the new pointer, the root VARIABLE keeps its value, so
// what is known about it (it is not nil: it was just dereferenced under a guard) stays known.
func (w *Walker) throughIndirection(e ast.Expr) bool {
	for {
		switch x := ast.Unparen(e).(type) {
		case *ast.StarExpr:
			return true
		case *ast.IndexExpr:
			if t := w.Info.TypeOf(x.X); t != nil {
				switch t.Underlying().(type) {
				case *types.Slice, *types.Pointer:
					return true
				}
			}
			e = x.X
		case *ast.SelectorExpr:
			e = x.X
		default:
			return false
		}
	}
}

func (w *Walker) bumpLHS(e ast.Expr) {
	e = ast.Unparen(e)
	for {
		switch x := e.(type) {
		case *ast.Ident:
			if x.Name != "_" {
				w.bump(w.Info.ObjectOf(x))
			}
			return
		case *ast.SelectorExpr:
			e = x.X
		case *ast.IndexExpr:
			e = x.X
		case *ast.StarExpr:
			e = x.X
		case *ast.ParenExpr:
			e = x.X
		case *ast.SliceExpr:
			e = x.X
		default:
			return
		}
	}
}

// bumpAssignedIn gives a fresh version to every variable assigned anywhere inside n.
func (w *Walker) bumpAssignedIn(n ast.Node) {
	if n == nil {
		return
	}
	ast.Inspect(n, func(m ast.Node) bool {
		switch x := m.(type) {
		case *ast.AssignStmt:
			for _, l := range x.Lhs {
				w.bumpLHS(l)
			}
		case *ast.IncDecStmt:
			w.bumpLHS(x.X)
		case *ast.RangeStmt:
			if x.Key != nil {
				w.bumpLHS(x.Key)
			}
			if x.Value != nil {
				w.bumpLHS(x.Value)
			}
		case *ast.UnaryExpr:
			if x.Op == token.AND && !w.throughIndirection(x.X) { // address taken: may be written through the pointer
				w.bumpLHS(x.X)
			}
		}
		return true
	})
}

// ---------------------------------------------------------------- conditions

func (w *Walker) fresh() Formula {
	w.opaque++
	return Atom(fmt.Sprintf("?%d", w.opaque))
}

func isLenCall(info *types.Info, e ast.Expr) (ast.Expr, bool) {
	call, ok := ast.Unparen(e).(*ast.CallExpr)
	if !ok || len(call.Args) != 1 {
		return nil, false
	}
	id, ok := call.Fun.(*ast.Ident)
	if !ok || id.Name != "len" {
		return nil, false
	}
	if _, isB := info.ObjectOf(id).(*types.Builtin); !isB {
		return nil, false
	}
	return call.Args[0], true
}

func constInt(info *types.Info, e ast.Expr) (int64, bool) {
	tv, ok := info.Types[ast.Unparen(e)]
	if !ok || tv.Value == nil || tv.Value.Kind() != constant.Int {
		return 0, false
	}
	v, exact := constant.Int64Val(tv.Value)
	return v, exact
}

func flipOp(op token.Token) token.Token {
	switch op {
	case token.LSS:
		return token.GTR
	case token.GTR:
		return token.LSS
	case token.LEQ:
		return token.GEQ
	case token.GEQ:
		return token.LEQ
	}
	return op
}

// CallFact is a call with the path condition under which it runs.
type CallFact struct {
	Call *ast.CallExpr
	F    Formula
}

// InlineClause is one guard clause of a boolean helper.
type InlineClause struct {
	Cond, Result ast.Expr
}

// InlineBody describes a pure boolean helper `func f(p1, ..., pn) bool { return Expr }`.
type InlineBody struct {
	Expr   ast.Expr
	Guards []InlineClause // guard clauses `if Cond { return Result }` that precede the final `return Expr`
	Params []*types.Var
	Recv   *types.Var
	Info   *types.Info
}

// InlineHook, when set, resolves a call to a one-line boolean helper of the
// analysed module; Cond then translates the helper's expression with the
// arguments substituted, so that a condition moved into a helper yields the
// same atoms as the condition written in place.
var InlineHook func(info *types.Info, call *ast.CallExpr) *InlineBody

// Cond translates a boolean expression into a formula.
func (w *Walker) Cond(e ast.Expr) Formula {
	e = ast.Unparen(e)
	if w.Atomize != nil && (w.inlineDepth == 0 || w.Info == w.baseInfo) {
		// (the rule's atomizer holds the type information of the analysed function's package: inside an inlined
		// helper it applies only when the helper is of the same package)
		if f := w.Atomize(w, e); f != nil {
			return f
		}
	}
	if tv, ok := w.Info.Types[e]; ok && tv.Value != nil && tv.Value.Kind() == constant.Bool {
		if constant.BoolVal(tv.Value) {
			return True{}
		}
		return False{}
	}
	switch x := e.(type) {
	case *ast.UnaryExpr:
		if x.Op == token.NOT {
			return MkNot(w.Cond(x.X))
		}
	case *ast.BinaryExpr:
		switch x.Op {
		case token.LAND:
			return And{w.Cond(x.X), w.Cond(x.Y)}
		case token.LOR:
			return Or{w.Cond(x.X), w.Cond(x.Y)}
		case token.EQL, token.NEQ, token.LSS, token.GTR, token.LEQ, token.GEQ:
			f := w.compare(x)
			if f != nil {
				return f
			}
		}
		return Atom("cmp:" + w.Path(x))
	case *ast.Ident:
		if o := w.Info.ObjectOf(x); o != nil {
			if d, ok := w.boolDefs[o]; ok && d.ver == w.ver[o] {
				return d.f
			}
		}
		return Atom("b:" + w.Path(e))
	case *ast.CallExpr:
		if w.Inline && InlineHook != nil && w.inlineDepth < 2 && !(w.NoInline != nil && w.NoInline(w.Info, x)) {
			if ib := InlineHook(w.Info, x); ib != nil && len(ib.Params) == len(x.Args) {
				sub := map[types.Object]string{}
				for i, p := range ib.Params {
					sub[p] = w.Path(x.Args[i])
				}
				if ib.Recv != nil {
					if se, ok := ast.Unparen(x.Fun).(*ast.SelectorExpr); ok {
						sub[ib.Recv] = w.Path(se.X)
					}
				}
				oldInfo, oldSub := w.Info, w.subst
				if w.inlineDepth == 0 {
					w.baseInfo = w.Info
				}
				w.Info, w.subst = ib.Info, sub
				w.inlineDepth++
				var f Formula = False{}
				var neg Formula = True{}
				for _, g := range ib.Guards {
					c := w.Cond(g.Cond)
					f = MkOr(f, MkAnd(neg, MkAnd(c, w.Cond(g.Result))))
					neg = MkAnd(neg, MkNot(c))
				}
				if len(ib.Guards) == 0 {
					f = w.Cond(ib.Expr)
				} else {
					f = MkOr(f, MkAnd(neg, w.Cond(ib.Expr)))
				}
				w.inlineDepth--
				w.Info, w.subst = oldInfo, oldSub
				return f
			}
		}
		if w.CallAtoms == nil {
			w.CallAtoms = map[*ast.CallExpr]string{}
		}
		w.CallAtoms[x] = "b:" + w.Path(e)
		return Atom("b:" + w.Path(e))
	case *ast.SelectorExpr, *ast.IndexExpr, *ast.StarExpr:
		return Atom("b:" + w.Path(e))
	}
	return w.fresh()
}

func (w *Walker) isBoolExpr(e ast.Expr) bool {
	t := w.Info.TypeOf(e)
	if t == nil {
		return false
	}
	b, ok := t.Underlying().(*types.Basic)
	return ok && b.Info()&types.IsBoolean != 0
}

func (w *Walker) compare(x *ast.BinaryExpr) Formula {
	l, r, op := ast.Unparen(x.X), ast.Unparen(x.Y), x.Op
	neg := func(f Formula, n bool) Formula {
		if n {
			return MkNot(f)
		}
		return f
	}
	// nil comparisons
	if op == token.EQL || op == token.NEQ {
		if tv, ok := w.Info.Types[r]; ok && tv.IsNil() {
			return neg(Atom("nil:"+w.Path(l)), op == token.NEQ)
		}
		if tv, ok := w.Info.Types[l]; ok && tv.IsNil() {
			return neg(Atom("nil:"+w.Path(r)), op == token.NEQ)
		}
		// boolean (in)equality of two conditions: (a == nil) == (b == nil)
		if w.isBoolExpr(l) && w.isBoolExpr(r) {
			if _, lc := w.Info.Types[l]; lc && w.Info.Types[l].Value == nil && w.Info.Types[r].Value == nil {
				return neg(Iff(w.Cond(l), w.Cond(r)), op == token.NEQ)
			}
		}
	}
	// len(x) against a constant
	if arg, ok := isLenCall(w.Info, l); ok {
		if c, ok := constInt(w.Info, r); ok {
			return w.lenCmp(arg, op, c)
		}
	}
	if arg, ok := isLenCall(w.Info, r); ok {
		if c, ok := constInt(w.Info, l); ok {
			return w.lenCmp(arg, flipOp(op), c)
		}
	}
	if op == token.EQL || op == token.NEQ {
		// comparison with a constant: eq:<path>==<const>
		if tv, ok := w.Info.Types[r]; ok && tv.Value != nil {
			return neg(Atom("eq:"+w.Path(l)+"=="+tv.Value.ExactString()), op == token.NEQ)
		}
		if tv, ok := w.Info.Types[l]; ok && tv.Value != nil {
			return neg(Atom("eq:"+w.Path(r)+"=="+tv.Value.ExactString()), op == token.NEQ)
		}
		a, b := w.Path(l), w.Path(r)
		if a > b {
			a, b = b, a
		}
		return neg(Atom("eq:"+a+"=="+b), op == token.NEQ)
	}
	return nil
}

func (w *Walker) lenCmp(arg ast.Expr, op token.Token, c int64) Formula {
	empty := Atom("empty:" + w.Path(arg))
	switch {
	case op == token.EQL && c == 0, op == token.LEQ && c == 0, op == token.LSS && c == 1:
		return empty
	case op == token.NEQ && c == 0, op == token.GTR && c == 0, op == token.GEQ && c == 1:
		return Not{empty}
	}
	a := Atom(fmt.Sprintf("len:%s%s%d", w.Path(arg), op, c))
	return a
}

// LenImplications returns background facts relating len atoms to emptiness for
// the atoms occurring in f (len(x)==k with k>=1, len(x)>k, len(x)>=k with k>=1 imply non-empty).
func LenImplications(f Formula) Formula {
	var bg Formula = True{}
	for _, a := range Atoms(f) {
		if !strings.HasPrefix(a, "len:") {
			continue
		}
		rest := a[len("len:"):]
		for _, op := range []string{"==", ">=", ">"} {
			if i := strings.LastIndex(rest, op); i > 0 {
				var k int64
				if _, err := fmt.Sscanf(rest[i+len(op):], "%d", &k); err == nil {
					nonEmpty := (op == "==" && k >= 1) || (op == ">=" && k >= 1) || (op == ">" && k >= 0)
					if nonEmpty {
						bg = MkAnd(bg, Or{Not{Atom(a)}, Not{Atom("empty:" + rest[:i])}})
					}
				}
				break
			}
		}
	}
	return bg
}

// ---------------------------------------------------------------- expressions

func (w *Walker) expr(e ast.Expr, f Formula) {
	if e == nil {
		return
	}
	if w.OnExpr != nil && w.quiet == 0 {
		w.OnExpr(e, f)
	}
	switch x := e.(type) {
	case *ast.ParenExpr:
		w.expr(x.X, f)
	case *ast.BinaryExpr:
		w.expr(x.X, f)
		switch x.Op {
		case token.LAND:
			in := w.cur
			w.expr(x.Y, MkAnd(f, w.Cond(x.X)))
			w.cur |= in
		case token.LOR:
			in := w.cur
			w.expr(x.Y, MkAnd(f, MkNot(w.Cond(x.X))))
			w.cur |= in
		default:
			w.expr(x.Y, f)
		}
	case *ast.SelectorExpr:
		w.expr(x.X, f)
	case *ast.CallExpr:
		w.expr(x.Fun, f)
		for _, a := range x.Args {
			w.expr(a, f)
		}
		w.event(x, f)
	case *ast.UnaryExpr:
		w.expr(x.X, f)
	case *ast.StarExpr:
		w.expr(x.X, f)
	case *ast.IndexExpr:
		w.expr(x.X, f)
		w.expr(x.Index, f)
	case *ast.SliceExpr:
		w.expr(x.X, f)
		w.expr(x.Low, f)
		w.expr(x.High, f)
		w.expr(x.Max, f)
	case *ast.CompositeLit:
		for _, el := range x.Elts {
			w.expr(el, f)
		}
	case *ast.KeyValueExpr:
		w.expr(x.Key, f)
		w.expr(x.Value, f)
	case *ast.TypeAssertExpr:
		w.expr(x.X, f)
	case *ast.FuncLit:
		// closure bodies are walked with the facts at the point of creation
		// (every closure of the module is invoked before its creator returns)
		saved, savedFrames, savedCur := w.Loops, w.frames, w.cur
		savedExit := w.OnExit
		w.Loops, w.frames, w.OnExit = nil, nil, nil
		w.FuncLitDepth++
		w.block(x.Body.List, f)
		w.FuncLitDepth--
		// the closure may or may not have run: keep both the states before and after
		w.Loops, w.frames, w.OnExit = saved, savedFrames, savedExit
		w.cur |= savedCur
	}
}

// ---------------------------------------------------------------- statements

func (w *Walker) block(stmts []ast.Stmt, f Formula) Formula {
	for _, s := range stmts {
		f = w.stmt(s, f)
	}
	w.refine(f) // the end of a block is a statement boundary too: the facts are still the path's own here
	return f
}

func (w *Walker) terminates(stmts []ast.Stmt) bool {
	if len(stmts) == 0 {
		return false
	}
	return w.stmtTerminates(stmts[len(stmts)-1])
}

func (w *Walker) stmtTerminates(s ast.Stmt) bool {
	switch x := s.(type) {
	case *ast.ReturnStmt:
		return true
	case *ast.BranchStmt:
		return x.Tok == token.CONTINUE || x.Tok == token.BREAK || x.Tok == token.GOTO
	case *ast.BlockStmt:
		return w.terminates(x.List)
	case *ast.ExprStmt:
		if call, ok := x.X.(*ast.CallExpr); ok {
			if id, ok := call.Fun.(*ast.Ident); ok && id.Name == "panic" {
				return true
			}
			if se, ok := call.Fun.(*ast.SelectorExpr); ok {
				if id, ok := se.X.(*ast.Ident); ok {
					n := id.Name + "." + se.Sel.Name
					if n == "os.Exit" || strings.HasPrefix(n, "log.Fatal") || strings.HasPrefix(n, "log.Panic") {
						return true
					}
				}
			}
		}
	case *ast.IfStmt:
		if x.Else == nil {
			return false
		}
		return w.terminates(x.Body.List) && w.stmtTerminates(x.Else)
	case *ast.SwitchStmt:
		hasDefault := false
		for _, cc := range x.Body.List {
			cl := cc.(*ast.CaseClause)
			if cl.List == nil {
				hasDefault = true
			}
			if !w.terminates(cl.Body) {
				return false
			}
			if b, ok := cl.Body[len(cl.Body)-1].(*ast.BranchStmt); ok && b.Tok == token.BREAK {
				return false
			}
		}
		return hasDefault
	}
	return false
}

func (w *Walker) refine(f Formula) {
	if w.Refine == nil || w.cur == 0 {
		return
	}
	var out uint64
	for st := 0; st < 64; st++ {
		if w.cur&(1<<uint(st)) != 0 {
			ns := w.Refine(st, f)
			if ns >= 0 && ns < 64 {
				out |= 1 << uint(ns)
			}
		}
	}
	w.cur = out
}

func (w *Walker) stmt(s ast.Stmt, f Formula) Formula {
	if s == nil {
		return f
	}
	w.refine(f)
	if w.OnStmt != nil && w.quiet == 0 {
		w.OnStmt(s, f)
	}
	switch x := s.(type) {
	case *ast.ExprStmt:
		w.expr(x.X, f)
		// a call that mutates its receiver in place (a result-less method of a set type): what was known about the
		// receiver - `s.IsEmpty()` tested before `s.Intersection(t)` - is no longer known after it
		if call, ok := x.X.(*ast.CallExpr); ok && MutatorHook != nil {
			if target := MutatorHook(w.Info, call); target != nil {
				w.Mutated(target)
			}
		}
		// a call that does not return (panic, os.Exit, log.Fatal): the path ends here without being an exit of the function
		if w.stmtTerminates(x) {
			w.cur = 0
		}
	case *ast.AssignStmt:
		for _, r := range x.Rhs {
			w.expr(r, f)
		}
		for _, l := range x.Lhs {
			// index/selector sub-expressions of the target are evaluated too
			switch lx := ast.Unparen(l).(type) {
			case *ast.IndexExpr:
				w.expr(lx, f)
			case *ast.SelectorExpr:
				w.expr(lx, f)
			case *ast.StarExpr:
				w.expr(lx, f)
			}
		}
		if w.OnAssign != nil && w.quiet == 0 {
			for i, l := range x.Lhs {
				var r ast.Expr
				if len(x.Rhs) == len(x.Lhs) {
					r = x.Rhs[i]
				} else if len(x.Rhs) == 1 {
					r = x.Rhs[0]
				}
				w.OnAssign(l, r, x, f)
			}
		}
		w.event(x, f)
		var bdObj types.Object
		var bdF Formula
		if len(x.Lhs) == 1 && len(x.Rhs) == 1 {
			if id, ok := x.Lhs[0].(*ast.Ident); ok && id.Name != "_" && w.isBoolExpr(x.Rhs[0]) {
				if tv, ok := w.Info.Types[x.Rhs[0]]; ok && tv.Value == nil {
					if o := w.Info.ObjectOf(id); o != nil && w.isLocal(o) {
						bdObj, bdF = o, w.Cond(x.Rhs[0])
					}
				}
			}
		}
		for _, l := range x.Lhs {
			w.bumpLHS(l)
		}
		if bdObj != nil {
			if w.boolDefs == nil {
				w.boolDefs = map[types.Object]boolDef{}
			}
			w.boolDefs[bdObj] = boolDef{ver: w.ver[bdObj], f: bdF}
		}
	case *ast.IncDecStmt:
		w.expr(x.X, f)
		w.event(x, f)
		w.bumpLHS(x.X)
	case *ast.DeclStmt:
		if gd, ok := x.Decl.(*ast.GenDecl); ok {
			for _, sp := range gd.Specs {
				if vs, ok := sp.(*ast.ValueSpec); ok {
					for _, v := range vs.Values {
						w.expr(v, f)
					}
					for i, n := range vs.Names {
						if w.OnAssign != nil && w.quiet == 0 {
							var r ast.Expr
							if i < len(vs.Values) {
								r = vs.Values[i]
							}
							w.OnAssign(n, r, x, f)
						}
						w.bumpLHS(n)
					}
				}
			}
		}
		w.event(x, f)
	case *ast.ReturnStmt:
		for _, r := range x.Results {
			w.expr(r, f)
		}
		w.event(x, f)
		w.exit(x, f)
	case *ast.BranchStmt:
		if w.OnBranch != nil && w.quiet == 0 {
			w.OnBranch(x, w.cur, f)
		}
		switch x.Tok {
		case token.BREAK:
			if n := len(w.frames); n > 0 {
				w.frames[n-1].brk |= w.cur
			}
			w.cur = 0
		case token.CONTINUE:
			// innermost *loop* frame (switch frames only catch break)
			for i := len(w.frames) - 1; i >= 0; i-- {
				if !w.frames[i].isSwitch {
					w.frames[i].cont |= w.cur
					break
				}
			}
			w.cur = 0
		}
	case *ast.DeferStmt:
		w.expr(x.Call, f)
	case *ast.GoStmt:
		w.expr(x.Call, f)
	case *ast.SendStmt:
		w.expr(x.Chan, f)
		w.expr(x.Value, f)
	case *ast.LabeledStmt:
		return w.stmt(x.Stmt, f)
	case *ast.BlockStmt:
		return w.block(x.List, f)
	case *ast.IfStmt:
		return w.ifStmt(x, f)
	case *ast.SwitchStmt:
		return w.switchStmt(x, f)
	case *ast.TypeSwitchStmt:
		return w.typeSwitchStmt(x, f)
	case *ast.ForStmt:
		if x.Init != nil {
			f = w.stmt(x.Init, f)
		}
		w.bumpAssignedIn(x.Body)
		w.bumpAssignedIn(x.Post)
		w.Loops = append(w.Loops, x)
		w.loop(x.Cond == nil, func() {
			bf := f
			if x.Cond != nil {
				w.expr(x.Cond, f)
				bf = MkAnd(f, w.Cond(x.Cond))
			}
			ef := w.block(x.Body.List, bf)
			w.refine(ef)
			if w.OnLoopBodyEnd != nil && w.quiet == 0 && w.cur != 0 {
				w.OnLoopBodyEnd(x, w.cur, ef)
			}
		}, func() {
			if x.Post != nil {
				w.stmt(x.Post, f)
			}
		})
		w.Loops = w.Loops[:len(w.Loops)-1]
		w.bumpAssignedIn(x.Body)
		w.bumpAssignedIn(x.Post)
	case *ast.RangeStmt:
		w.expr(x.X, f)
		w.event(x, f)
		w.bumpAssignedIn(x.Body)
		if x.Key != nil {
			w.bumpLHS(x.Key)
		}
		if x.Value != nil {
			w.bumpLHS(x.Value)
		}
		w.Loops = append(w.Loops, x)
		w.loop(false, func() {
			ef := w.block(x.Body.List, f)
			w.refine(ef)
			if w.OnLoopBodyEnd != nil && w.quiet == 0 && w.cur != 0 {
				w.OnLoopBodyEnd(x, w.cur, ef)
			}
		}, nil)
		w.Loops = w.Loops[:len(w.Loops)-1]
		w.bumpAssignedIn(x.Body)
	case *ast.SelectStmt:
		in := w.cur
		var out uint64
		for _, cc := range x.Body.List {
			if cl, ok := cc.(*ast.CommClause); ok {
				w.cur = in
				w.block(cl.Body, f)
				out |= w.cur
			}
		}
		w.cur = out
		w.bumpAssignedIn(x.Body)
	}
	return f
}

// loop threads the state set through a loop body until it stabilises.
// infinite: a `for {}` without condition (left only through break/return).
func (w *Walker) loop(infinite bool, body func(), post func()) {
	in := w.cur
	acc := in
	fr := &loopFrame{}
	w.frames = append(w.frames, fr)
	for iter := 0; ; iter++ {
		w.cur = acc
		if iter > 0 {
			w.quiet++
		}
		body()
		w.cur |= fr.cont
		fr.cont = 0
		if post != nil {
			post()
		}
		if iter > 0 {
			w.quiet--
		}
		next := acc | w.cur
		if next == acc || iter > 70 {
			break
		}
		acc = next
	}
	w.frames = w.frames[:len(w.frames)-1]
	if infinite {
		w.cur = fr.brk
	} else {
		w.cur = acc | fr.brk
	}
}

func (w *Walker) ifStmt(x *ast.IfStmt, f Formula) Formula {
	if x.Init != nil {
		f = w.stmt(x.Init, f)
	}
	w.expr(x.Cond, f)
	c := w.Cond(x.Cond)
	in := w.cur
	snap := w.copyVer()
	thenFacts := w.block(x.Body.List, MkAnd(f, c))
	thenOut := w.cur
	thenTerm := w.terminates(x.Body.List)
	thenVer := w.ver
	elseTerm := false
	w.cur = in
	w.ver = w.copyVerOf(snap)
	var elseFacts Formula = MkAnd(f, MkNot(c))
	if x.Else != nil {
		elseFacts = w.stmt(x.Else, MkAnd(f, MkNot(c)))
		elseTerm = w.stmtTerminates(x.Else)
	} else {
		// the implicit empty else arm is a path of its own: its states are refined with its facts before the join
		w.refine(elseFacts)
	}
	elseVer := w.ver
	w.cur |= thenOut
	switch {
	case thenTerm && !elseTerm:
		// only the else arm (or the implicit empty one) falls through: its exit facts and versions hold
		w.ver = elseVer
		w.mergeVerNoClash(thenVer, elseVer)
		return elseFacts
	case elseTerm && !thenTerm:
		w.ver = thenVer
		w.mergeVerNoClash(elseVer, thenVer)
		return thenFacts
	case thenTerm && elseTerm:
		w.ver = elseVer
		w.mergeVer(thenVer)
		return False{}
	}
	// both arms fall through: variables assigned in either get a fresh version
	w.ver = elseVer
	w.mergeVer(thenVer)
	w.bumpAssignedIn(x.Body)
	if x.Else != nil {
		w.bumpAssignedIn(x.Else)
	}
	return f
}

func (w *Walker) copyVerOf(m map[types.Object]int) map[types.Object]int {
	c := make(map[types.Object]int, len(m))
	for k, v := range m {
		c[k] = v
	}
	return c
}

// mergeVerNoClash: the dead arm used version numbers that must not be handed out again later
// for a different value; remember them as floors without disturbing the live arm's current versions.
func (w *Walker) mergeVerNoClash(dead, live map[types.Object]int) {
	if w.floor == nil {
		w.floor = map[types.Object]int{}
	}
	for k, v := range dead {
		if v > live[k] && v > w.floor[k] {
			w.floor[k] = v
		}
	}
}

func (w *Walker) switchStmt(x *ast.SwitchStmt, f Formula) Formula {
	if x.Init != nil {
		f = w.stmt(x.Init, f)
	}
	if x.Tag != nil {
		w.expr(x.Tag, f)
	}
	prev := f
	var exits Formula = True{} // conditions known after the switch from terminating cases
	hasDefault := false
	allTerm := true
	in := w.cur
	var out uint64
	fr := &loopFrame{isSwitch: true}
	w.frames = append(w.frames, fr)
	// every arm starts from the same variable versions
	snap := w.copyVer()
	var armVers []map[types.Object]int
	for _, cc := range x.Body.List {
		cl := cc.(*ast.CaseClause)
		if cl.List == nil {
			hasDefault = true
			continue
		}
		var any Formula = False{}
		w.cur = in
		w.ver = w.copyVerOf(snap)
		for _, e := range cl.List {
			w.expr(e, prev)
			var c Formula
			if x.Tag != nil {
				c = w.tagEq(x.Tag, e)
			} else {
				c = w.Cond(e)
			}
			any = MkOr(any, c)
		}
		w.block(cl.Body, MkAnd(prev, any))
		armVers = append(armVers, w.ver)
		out |= w.cur
		if w.caseTerminates(cl.Body) {
			exits = MkAnd(exits, MkNot(any))
		} else {
			allTerm = false
		}
		prev = MkAnd(prev, MkNot(any))
	}
	for _, cc := range x.Body.List {
		cl := cc.(*ast.CaseClause)
		if cl.List == nil {
			w.cur = in
			w.ver = w.copyVerOf(snap)
			w.block(cl.Body, prev)
			armVers = append(armVers, w.ver)
			out |= w.cur
			if !w.caseTerminates(cl.Body) {
				allTerm = false
			}
		}
	}
	if !hasDefault {
		out |= in
	}
	w.frames = w.frames[:len(w.frames)-1]
	w.cur = out | fr.brk
	w.ver = w.copyVerOf(snap)
	w.mergeVer(armVers...)
	w.bumpAssignedIn(x.Body)
	if hasDefault && allTerm {
		return False{}
	}
	return MkAnd(f, exits)
}

// caseTerminates: the case body leaves the enclosing function/loop (a plain break only leaves the switch).
func (w *Walker) caseTerminates(body []ast.Stmt) bool {
	if len(body) == 0 {
		return false
	}
	if b, ok := body[len(body)-1].(*ast.BranchStmt); ok && b.Tok == token.BREAK && b.Label == nil {
		return false
	}
	return w.terminates(body)
}

func (w *Walker) tagEq(tag, val ast.Expr) Formula {
	if tv, ok := w.Info.Types[ast.Unparen(val)]; ok && tv.Value != nil {
		return Atom("eq:" + w.Path(tag) + "==" + tv.Value.ExactString())
	}
	a, b := w.Path(tag), w.Path(val)
	if a > b {
		a, b = b, a
	}
	return Atom("eq:" + a + "==" + b)
}

func (w *Walker) typeSwitchStmt(x *ast.TypeSwitchStmt, f Formula) Formula {
	if x.Init != nil {
		f = w.stmt(x.Init, f)
	}
	var subject ast.Expr
	switch a := x.Assign.(type) {
	case *ast.ExprStmt:
		if ta, ok := a.X.(*ast.TypeAssertExpr); ok {
			subject = ta.X
		}
	case *ast.AssignStmt:
		if len(a.Rhs) == 1 {
			if ta, ok := a.Rhs[0].(*ast.TypeAssertExpr); ok {
				subject = ta.X
			}
		}
	}
	if subject != nil {
		w.expr(subject, f)
	}
	prev := f
	in := w.cur
	var out uint64
	hasDefault := false
	fr := &loopFrame{isSwitch: true}
	w.frames = append(w.frames, fr)
	for _, cc := range x.Body.List {
		cl := cc.(*ast.CaseClause)
		if cl.List == nil {
			hasDefault = true
			continue
		}
		var any Formula = False{}
		for _, e := range cl.List {
			any = MkOr(any, Atom("type:"+w.Path(subject)+" is "+types.ExprString(e)))
		}
		w.cur = in
		w.block(cl.Body, MkAnd(prev, any))
		out |= w.cur
		prev = MkAnd(prev, MkNot(any))
	}
	for _, cc := range x.Body.List {
		cl := cc.(*ast.CaseClause)
		if cl.List == nil {
			w.cur = in
			w.block(cl.Body, prev)
			out |= w.cur
		}
	}
	if !hasDefault {
		out |= in
	}
	w.frames = w.frames[:len(w.frames)-1]
	w.cur = out | fr.brk
	w.bumpAssignedIn(x.Body)
	return f
}
