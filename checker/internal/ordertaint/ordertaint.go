// Package ordertaint is engine E1 - order-dependence taint: a structured abstract
// interpreter over the typed AST of all production functions. Two independent
// taints per variable, parameter, result, struct field and map-value cell:
//
//	Seq - the element order of a slice may differ between runs on the same resources
//	Txt - the text of a string (or the content of some element) may differ
//
// Sources: the body of a range over a map (Go randomises the order) and the
// declared unordered API inputs. Sanitisers of Seq: sort calls, functions
// summarised as sorting their parameter, insertion into a map, commutative folds.
// Besides the taints the interpreter reports choice sites: statements whose
// effect depends on which element of an unordered sequence comes first/last.
// Ported from the prototype validated in round 0 (DESIGN.md Appendix A).
package ordertaint

import (
	"fmt"
	"go/ast"
	"go/token"
	"go/types"
	"sort"
	"strings"

	"golang.org/x/tools/go/packages"

	"npverif/internal/core"
)

const mod = core.ModPath

type Ord uint8

// two independent taints: Seq = element order of a slice may vary; Txt = the text/content of a string or of some element may vary
const (
	Det   Ord = 0
	Unord Ord = 1 // Seq
	Txt   Ord = 2
)

func maxOrd(a, b Ord) Ord { return a | b }

// ---- global monotone tables
type G struct {
	fieldOrd   map[types.Object]Ord // struct fields, package vars
	mapVals    map[types.Object]Ord // for map-typed objects (fields/params/vars): ord of stored values
	paramOrd   map[types.Object]Ord
	resultOrd  map[*types.Func][]Ord
	resultMapV map[*types.Func][]Ord
	sortsParam map[*types.Func]map[int]bool
	funcCtx    map[*types.Func]bool // called from an unordered context
	paramStore map[*types.Func]paramStoreSummary
	changed    bool
	why        map[string]string // first reason a cell became Unord
	choice     map[string]string // construct -> position
	trace      bool
}

// paramStoreSummary: the function stores its parameter vals[0] under a key made of the parameters keys (indexes).
type paramStoreSummary struct {
	keys, vals []int
	desc, pos  string
}

func (g *G) set(m map[types.Object]Ord, o types.Object, v Ord, why string) {
	if o == nil || v == Det {
		return
	}
	if m[o]|v != m[o] {
		m[o] |= v
		g.changed = true
		key := fmt.Sprintf("%s@%v", core.RefName(o), o.Pos())
		if _, ok := g.why[key]; !ok {
			g.why[key] = why
		}
	}
}

type decl struct {
	pkg *packages.Package
	fd  *ast.FuncDecl
	fn  *types.Func
}

var (
	g      *G
	prog   *core.Program
	decls  = map[*types.Func]*decl{}
	allPkg []*packages.Package
	named  []*types.Named
)

// ---- per function analysis state
type loopCtx struct {
	node     ast.Node // RangeStmt/ForStmt
	unord    bool
	rangeKey types.Object // key var of a map range (per-iteration-private index)
}

type fstate struct {
	lossy  bool
	d      *decl
	info   *types.Info
	local  map[types.Object]Ord // slices/strings (content+order)
	lmapv  map[types.Object]Ord // local maps: ord of values
	alias  map[types.Object]types.Object
	loops  []loopCtx
	retOrd []Ord
	retMap []Ord
	// slices known to hold exactly one element here (stable rendering -> nesting count): under `len(x) == 1 && ...`
	// and inside `if len(x) == 1 { ... }`
	singleton map[string]int
}

// singletonOf: e is (or starts, as the left end of a conjunction) the test `len(x) == 1`; returns the stable rendering of x.
func (s *fstate) singletonOf(e ast.Expr) string {
	if s.singleton == nil {
		s.singleton = map[string]int{}
	}
	e = ast.Unparen(e)
	if be, ok := e.(*ast.BinaryExpr); ok {
		if be.Op == token.LAND {
			return s.singletonOf(be.X)
		}
		if be.Op == token.EQL {
			for _, pr := range [][2]ast.Expr{{be.X, be.Y}, {be.Y, be.X}} {
				c, isC := ast.Unparen(pr[0]).(*ast.CallExpr)
				lit, isL := ast.Unparen(pr[1]).(*ast.BasicLit)
				if isC && isL && lit.Value == "1" && len(c.Args) == 1 {
					if id, isID := c.Fun.(*ast.Ident); isID && id.Name == "len" {
						return core.Stable(s.info, c.Args[0])
					}
				}
			}
		}
	}
	return ""
}

func (s *fstate) pos(n ast.Node) string {
	return prog.Pos(n.Pos())
}

func (s *fstate) choiceAt(n ast.Node, desc string) {
	k := core.FuncKey(s.d.fn) + ": " + desc
	if _, ok := g.choice[k]; !ok {
		g.choice[k] = s.pos(n)
	}
}

func (s *fstate) inUnord() bool {
	for _, l := range s.loops {
		if l.unord {
			return true
		}
	}
	return g.funcCtx[s.d.fn]
}

// isOuter: declared outside the innermost enclosing unordered loop (or non-local when the unordered context is the function itself)
func (s *fstate) isOuter(o types.Object) bool {
	if o == nil {
		return false
	}
	// innermost unordered loop
	for i := len(s.loops) - 1; i >= 0; i-- {
		if s.loops[i].unord {
			n := s.loops[i].node
			if o.Pos() >= n.Pos() && o.Pos() <= n.End() {
				// declared inside this loop; may still be outer w.r.t. an enclosing unordered loop? treat as inner
				return false
			}
			return true
		}
	}
	if g.funcCtx[s.d.fn] {
		// function-level unordered context: only non-locals (params, receiver, fields, globals) are outer
		if v, ok := o.(*types.Var); ok {
			if v.IsField() {
				return true
			}
			if v.Parent() == v.Pkg().Scope() {
				return true
			}
			// param or receiver?
			sig := s.d.fn.Type().(*types.Signature)
			if sig.Recv() == v {
				return true
			}
			for i := 0; i < sig.Params().Len(); i++ {
				if sig.Params().At(i) == v {
					return true
				}
			}
		}
	}
	return false
}

func rootObj(info *types.Info, e ast.Expr) (types.Object, []types.Object) {
	// returns root identifier object and the chain of field objects selected
	var fields []types.Object
	for {
		switch x := e.(type) {
		case *ast.Ident:
			return info.ObjectOf(x), fields
		case *ast.SelectorExpr:
			if sel := info.Selections[x]; sel != nil && sel.Kind() == types.FieldVal {
				fields = append(fields, sel.Obj())
			}
			e = x.X
		case *ast.IndexExpr:
			e = x.X
		case *ast.ParenExpr:
			e = x.X
		case *ast.StarExpr:
			e = x.X
		case *ast.UnaryExpr:
			e = x.X
		case *ast.SliceExpr:
			e = x.X
		default:
			return nil, fields
		}
	}
}

// cell returns the abstract cell object for an lvalue/rvalue expression: the last selected field if any, else the root ident
func (s *fstate) cell(e ast.Expr) types.Object {
	e = ast.Unparen(e)
	switch x := e.(type) {
	case *ast.Ident:
		return s.info.ObjectOf(x)
	case *ast.SelectorExpr:
		if sel := s.info.Selections[x]; sel != nil && sel.Kind() == types.FieldVal {
			return sel.Obj()
		}
		return s.info.ObjectOf(x.Sel)
	case *ast.StarExpr:
		return s.cell(x.X)
	}
	return nil
}

func (s *fstate) isLocalVar(o types.Object) bool {
	v, ok := o.(*types.Var)
	if !ok || v.IsField() {
		return false
	}
	return v.Parent() != nil && v.Pkg() != nil && v.Parent() != v.Pkg().Scope()
}

var writerCell Ord

func (s *fstate) getOrd(o types.Object) Ord {
	if o == nil {
		return Det
	}
	if isWriterLike(o.Type()) {
		return writerCell
	}
	if a, ok := s.alias[o]; ok {
		return maxOrd(s.getOrd0(o), s.getOrd0(a))
	}
	return s.getOrd0(o)
}
func (s *fstate) getOrd0(o types.Object) Ord {
	if s.isLocalVar(o) {
		return s.local[o]
	}
	return g.fieldOrd[o]
}
func (s *fstate) setOrd(o types.Object, v Ord, strong bool, why string) {
	if o == nil {
		return
	}
	if isWriterLike(o.Type()) {
		if writerCell|v != writerCell {
			writerCell |= v
			g.changed = true
			g.why["writer-cell"] = why
		}
		return
	}
	if s.isLocalVar(o) {
		if strong {
			s.local[o] = v
		} else {
			s.local[o] = maxOrd(s.local[o], v)
		}
		if v == Unord && g.trace {
			fmt.Println("   local", core.RefName(o), "Unord:", why)
		}
		return
	}
	g.set(g.fieldOrd, o, v, why)
}
func (s *fstate) getMapV(o types.Object) Ord {
	if o == nil {
		return Det
	}
	if s.isLocalVar(o) {
		return maxOrd(s.lmapv[o], g.mapVals[o])
	}
	return g.mapVals[o]
}
func (s *fstate) setMapV(o types.Object, v Ord, why string) {
	if o == nil || v == Det {
		return
	}
	if s.isLocalVar(o) {
		if s.lmapv[o]|v != s.lmapv[o] {
			s.lmapv[o] |= v
			if g.trace {
				fmt.Println("   local map", core.RefName(o), "values Unord:", why)
			}
		}
	}
	// params are shared with callers through g.mapVals
	g.set(g.mapVals, o, v, why)
}

func isMap(t types.Type) bool {
	if t == nil {
		return false
	}
	_, ok := t.Underlying().(*types.Map)
	return ok
}
func isSliceOrString(t types.Type) bool {
	if t == nil {
		return false
	}
	switch u := t.Underlying().(type) {
	case *types.Slice, *types.Array:
		return true
	case *types.Basic:
		return u.Info()&types.IsString != 0
	}
	return false
}

func calleeFunc(info *types.Info, call *ast.CallExpr) *types.Func {
	switch f := ast.Unparen(call.Fun).(type) {
	case *ast.Ident:
		if fn, ok := info.ObjectOf(f).(*types.Func); ok {
			return fn
		}
	case *ast.SelectorExpr:
		if sel := info.Selections[f]; sel != nil {
			if fn, ok := sel.Obj().(*types.Func); ok {
				return fn
			}
		}
		if fn, ok := info.ObjectOf(f.Sel).(*types.Func); ok {
			return fn
		}
	}
	return nil
}

// implementations of an interface method among module types
func impls(fn *types.Func) []*types.Func {
	sig := fn.Type().(*types.Signature)
	recv := sig.Recv()
	if recv == nil {
		return []*types.Func{fn}
	}
	iface, ok := recv.Type().Underlying().(*types.Interface)
	if !ok {
		return []*types.Func{fn}
	}
	var out []*types.Func
	for _, n := range named {
		for _, t := range []types.Type{n, types.NewPointer(n)} {
			if types.Implements(t, iface) {
				ms := types.NewMethodSet(t)
				if m := ms.Lookup(fn.Pkg(), core.RefName(fn)); m != nil {
					if f, ok := m.Obj().(*types.Func); ok {
						out = append(out, f)
					}
				}
				break
			}
		}
	}
	return out
}

func fullName(fn *types.Func) string {
	if fn == nil {
		return ""
	}
	return fn.FullName()
}

// ---- expression evaluation
func (s *fstate) ord(e ast.Expr) Ord {
	if e == nil {
		return Det
	}
	e = ast.Unparen(e)
	switch x := e.(type) {
	case *ast.Ident:
		return s.getOrd(s.info.ObjectOf(x))
	case *ast.SelectorExpr:
		if sel := s.info.Selections[x]; sel != nil && sel.Kind() == types.FieldVal {
			s.ord(x.X)
			return maxOrd(g.fieldOrd[sel.Obj()], Det)
		}
		return Det
	case *ast.BasicLit:
		return Det
	case *ast.BinaryExpr:
		if x.Op == token.LAND {
			if k := s.singletonOf(x.X); k != "" {
				lo := s.ord(x.X)
				s.singleton[k]++
				ro := s.ord(x.Y)
				s.singleton[k]--
				return maxOrd(lo, ro)
			}
		}
		r := maxOrd(s.ord(x.X), s.ord(x.Y))
		if r != Det && x.Op == token.ADD {
			return Txt
		}
		return r
	case *ast.UnaryExpr:
		return s.ord(x.X)
	case *ast.StarExpr:
		return s.ord(x.X)
	case *ast.SliceExpr:
		return s.ord(x.X)
	case *ast.IndexExpr:
		xt := s.info.TypeOf(x.X)
		if isMap(xt) {
			// value of a map: its value-ord
			o, _ := rootObj(s.info, x.X)
			c := s.cell(x.X)
			return maxOrd(s.getMapV(c), s.getMapV(o))
		}
		// element of slice: content of element; if slice Seq-unordered and index is a literal -> choice site
		// (not when the slice is known to hold exactly one element: a singleton has no order)
		if s.singleton[core.Stable(s.info, x.X)] > 0 {
			s.ord(x.X)
			return Det
		}
		if so := s.ord(x.X); so&Txt != 0 {
			defer func() {}()
			if _, isLit := x.Index.(*ast.BasicLit); isLit && so&Unord != 0 {
				s.choiceAt(x, "constant index on unordered slice "+core.Stable(s.info, x))
			}
			return Txt
		}
		if s.ord(x.X)&Unord != 0 {
			if _, isLit := x.Index.(*ast.BasicLit); isLit {
				s.choiceAt(x, "constant index on unordered slice "+core.Stable(s.info, x))
			}
		}
		return Det
	case *ast.CompositeLit:
		r := Det
		for _, el := range x.Elts {
			if kv, ok := el.(*ast.KeyValueExpr); ok {
				v := s.ord(kv.Value)
				r = maxOrd(r, v)
				// struct field initialisation taints the field cell
				if id, ok := kv.Key.(*ast.Ident); ok {
					if f, ok := s.info.ObjectOf(id).(*types.Var); ok && f.IsField() {
						g.set(g.fieldOrd, f, v, "composite literal at "+s.pos(kv))
						if isMap(f.Type()) {
							g.set(g.mapVals, f, s.mapValOf(kv.Value), "composite literal at "+s.pos(kv))
						}
					}
				}
			} else {
				r = maxOrd(r, s.ord(el))
			}
		}
		// positional struct literal
		if st, ok := s.info.TypeOf(x).Underlying().(*types.Struct); ok {
			for i, el := range x.Elts {
				if _, isKV := el.(*ast.KeyValueExpr); !isKV && i < st.NumFields() {
					g.set(g.fieldOrd, st.Field(i), s.ord(el), "positional literal at "+s.pos(el))
				}
			}
		}
		return r
	case *ast.CallExpr:
		return s.call(x, 0)
	case *ast.TypeAssertExpr:
		return s.ord(x.X)
	case *ast.FuncLit:
		return Det
	}
	return Det
}

func (s *fstate) mapValOf(e ast.Expr) Ord {
	e = ast.Unparen(e)
	switch x := e.(type) {
	case *ast.CallExpr:
		if fn := calleeFunc(s.info, x); fn != nil {
			r := Det
			for _, f := range impls(fn) {
				if rm := g.resultMapV[f]; len(rm) > 0 {
					r = maxOrd(r, rm[0])
				}
			}
			s.call(x, 0)
			return r
		}
		return Det
	default:
		o, _ := rootObj(s.info, e)
		c := s.cell(e)
		return maxOrd(s.getMapV(c), s.getMapV(o))
	}
}

var sortFuncs = map[string]bool{"sort.Strings": true, "sort.Slice": true, "sort.SliceStable": true, "sort.Sort": true, "sort.Stable": true, "sort.Ints": true, "slices.Sort": true, "slices.SortFunc": true}

// call evaluates a call expression, applies interprocedural propagation, returns ord of result #idx
func (s *fstate) call(c *ast.CallExpr, idx int) Ord {
	// builtins and conversions
	if id, ok := ast.Unparen(c.Fun).(*ast.Ident); ok {
		if _, isBuiltin := s.info.ObjectOf(id).(*types.Builtin); isBuiltin {
			switch id.Name {
			case "append":
				r := Det
				for _, a := range c.Args {
					r = maxOrd(r, s.ord(a))
				}
				return r
			case "len", "cap", "make", "new", "delete", "copy", "max", "min":
				for _, a := range c.Args {
					s.ord(a)
				}
				return Det
			}
		}
		if _, isType := s.info.ObjectOf(id).(*types.TypeName); isType && len(c.Args) == 1 {
			return s.ord(c.Args[0])
		}
	}
	if tv, ok := s.info.Types[c.Fun]; ok && tv.IsType() && len(c.Args) == 1 {
		return s.ord(c.Args[0])
	}
	fn := calleeFunc(s.info, c)
	name := fullName(fn)
	if sortFuncs[name] && len(c.Args) > 0 {
		o := s.cell(c.Args[0])
		if o != nil && s.isLocalVar(o) {
			s.local[o] &^= Unord
			// a sorted parameter is sanitised for the caller too
			sig := s.d.fn.Type().(*types.Signature)
			for i := 0; i < sig.Params().Len(); i++ {
				if sig.Params().At(i) == o {
					if g.sortsParam[s.d.fn] == nil {
						g.sortsParam[s.d.fn] = map[int]bool{}
					}
					if !g.sortsParam[s.d.fn][i] && len(s.loops) == 0 {
						g.sortsParam[s.d.fn][i] = true
						g.changed = true
					}
				}
			}
		}
		return Det
	}
	argOrds := make([]Ord, len(c.Args))
	for i, a := range c.Args {
		argOrds[i] = s.ord(a)
	}
	if ps, ok := g.paramStore[fn]; ok && fn != nil {
		var keys, vals []ast.Expr
		okIdx := true
		for _, i := range ps.keys {
			if i >= len(c.Args) {
				okIdx = false
				break
			}
			keys = append(keys, c.Args[i])
		}
		for _, i := range ps.vals {
			if i >= len(c.Args) {
				okIdx = false
				break
			}
			vals = append(vals, c.Args[i])
		}
		if okIdx && (s.inLoopUnord() || g.funcCtx[s.d.fn]) && !s.keysDetermine(keys, vals) {
			s.choiceAt(c, "call of "+core.RefName(fn)+": "+ps.desc)
		}
	}
	if c == capture {
		captured = append([]Ord{}, argOrds...)
	}
	recvOrd := Det
	var recvExpr ast.Expr
	if se, ok := ast.Unparen(c.Fun).(*ast.SelectorExpr); ok {
		if sel := s.info.Selections[se]; sel != nil && sel.Kind() == types.MethodVal {
			recvExpr = se.X
			recvOrd = s.ord(se.X)
		}
	}
	if fn == nil || fn.Pkg() == nil || !strings.HasPrefix(fn.Pkg().Path(), mod) {
		// external: result depends on args and receiver (strings.Join, fmt.Sprintf, json.Marshal, buf.String ...)
		r := recvOrd
		for _, o := range argOrds {
			r = maxOrd(r, o)
		}
		// writer-like accumulation inside an unordered context
		if recvExpr != nil && (fn != nil && (core.RefName(fn) == "Write" || core.RefName(fn) == "WriteString" || core.RefName(fn) == "WriteByte" || core.RefName(fn) == "WriteRune")) {
			o, _ := rootObj(s.info, recvExpr)
			if s.inUnord() && s.isOuter(o) {
				s.setOrd(o, Txt, false, "writer call in unordered context at "+s.pos(c))
			}
			for _, ao := range argOrds {
				if ao != Det {
					s.setOrd(o, Txt, false, "writer call with unordered argument at "+s.pos(c))
				}
			}
		}
		// csv.NewWriter(buf), bufio etc: alias result to arg (handled at assignment)
		if r != Det {
			if rt := s.info.TypeOf(c); rt != nil {
				if tup, ok := rt.(*types.Tuple); ok && tup.Len() > 0 {
					rt = tup.At(0).Type()
				}
				if b, ok := rt.Underlying().(*types.Basic); ok && b.Info()&types.IsString != 0 {
					return Txt
				}
				if sl, ok := rt.Underlying().(*types.Slice); ok {
					if b, ok := sl.Elem().Underlying().(*types.Basic); ok && b.Kind() == types.Byte {
						return Txt
					}
				}
			}
		}
		return r
	}
	// module callee (possibly interface method -> all implementations)
	r := Det
	for _, f := range impls(fn) {
		d := decls[f]
		sig := f.Type().(*types.Signature)
		if s.inUnord() && d != nil && !g.funcCtx[f] && !strings.HasSuffix(f.Pkg().Path(), "netpol/internal/common") {
			g.funcCtx[f] = true
			g.changed = true
		}
		np := sig.Params().Len()
		for i, a := range c.Args {
			pi := i
			if pi >= np {
				pi = np - 1
			}
			if pi < 0 {
				continue
			}
			p := sig.Params().At(pi)
			g.set(g.paramOrd, p, argOrds[i], "argument at "+s.pos(c))
			if isMap(s.info.TypeOf(a)) {
				ao, _ := rootObj(s.info, a)
				ac := s.cell(a)
				// maps are references: link both ways
				v := maxOrd(maxOrd(s.getMapV(ao), s.getMapV(ac)), g.mapVals[p])
				g.set(g.mapVals, p, v, "map argument at "+s.pos(c))
				if ac != nil {
					s.setMapV(ac, v, "callee effect via "+core.RefName(f)+" at "+s.pos(c))
				} else {
					s.setMapV(ao, v, "callee effect via "+core.RefName(f)+" at "+s.pos(c))
				}
			}
			if g.sortsParam[f][pi] {
				if o := s.cell(a); o != nil && s.isLocalVar(o) {
					s.local[o] &^= Unord
				}
			}
		}
		if recvExpr != nil && sig.Recv() != nil {
			g.set(g.paramOrd, sig.Recv(), recvOrd, "receiver at "+s.pos(c))
			if isMap(s.info.TypeOf(recvExpr)) {
				ao, _ := rootObj(s.info, recvExpr)
				ac := s.cell(recvExpr)
				v := maxOrd(maxOrd(s.getMapV(ao), s.getMapV(ac)), g.mapVals[sig.Recv()])
				g.set(g.mapVals, sig.Recv(), v, "map receiver at "+s.pos(c))
				if ac != nil {
					s.setMapV(ac, v, "callee effect via "+core.RefName(f)+" at "+s.pos(c))
				} else {
					s.setMapV(ao, v, "callee effect via "+core.RefName(f)+" at "+s.pos(c))
				}
			}
		}
		if ro := g.resultOrd[f]; idx < len(ro) {
			r = maxOrd(r, ro[idx])
		}
	}
	return r
}

// ---- statements
func (s *fstate) block(list []ast.Stmt) {
	for _, st := range list {
		s.stmt(st)
	}
}

func (s *fstate) cloneLocals() (map[types.Object]Ord, map[types.Object]Ord) {
	a := map[types.Object]Ord{}
	for k, v := range s.local {
		a[k] = v
	}
	b := map[types.Object]Ord{}
	for k, v := range s.lmapv {
		b[k] = v
	}
	return a, b
}
func joinInto(dst, src map[types.Object]Ord) {
	for k, v := range src {
		dst[k] |= v
	}
}

func (s *fstate) branches(bodies ...func()) {
	baseL, baseM := s.cloneLocals()
	outL, outM := map[types.Object]Ord{}, map[types.Object]Ord{}
	first := true
	for _, b := range bodies {
		s.local, s.lmapv = map[types.Object]Ord{}, map[types.Object]Ord{}
		joinInto(s.local, baseL)
		joinInto(s.lmapv, baseM)
		b()
		if first {
			outL, outM = s.local, s.lmapv
			first = false
		} else {
			joinInto(outL, s.local)
			joinInto(outM, s.lmapv)
		}
	}
	s.local, s.lmapv = outL, outM
}

func (s *fstate) assign(lhs ast.Expr, rhs ast.Expr, rhsOrd Ord, tok token.Token, n ast.Node) {
	lhs = ast.Unparen(lhs)
	if id, ok := lhs.(*ast.Ident); ok && id.Name == "_" {
		return
	}
	lt := s.info.TypeOf(lhs)
	switch lx := lhs.(type) {
	case *ast.IndexExpr:
		xt := s.info.TypeOf(lx.X)
		if isMap(xt) {
			c := s.cell(lx.X)
			o, _ := rootObj(s.info, lx.X)
			if c == nil {
				c = o
			}
			v := rhsOrd
			// m[k] = append(m[k], ...) inside an unordered context: per-key order is unordered unless k is the range key of the map being iterated
			if call, ok := ast.Unparen(rhs).(*ast.CallExpr); ok {
				if id, ok := call.Fun.(*ast.Ident); ok && id.Name == "append" && len(call.Args) > 0 && types.ExprString(call.Args[0]) == types.ExprString(lhs) {
					if s.inUnord() && !s.indexIsPrivateKey(lx.Index) {
						v |= Unord
					}
				}
			}
			s.setMapV(c, v, "map store at "+s.pos(n))
			if s.inLoopUnord() && s.isOuterLoop(o) && v == rhsOrd && !s.mentionsLoopVar(lx.Index) && rhs != nil && !isFreshEmpty(rhs) && !s.freshLocal(n, rhs) && !isConst(s.info, rhs) && !s.keyDetermined(lx.Index, rhs) {
				// (a value that is a function of the key it is stored under is the same whichever iteration stores it)
				s.choiceAt(n, "keyed store "+core.Stable(s.info, lhs)+" not keyed by the loop variable (last-wins / first-wins)")
			} else if !s.inLoopUnord() && g.funcCtx[s.d.fn] && s.isOuter(o) && rhs != nil && !isFreshEmpty(rhs) && !s.freshLocal(n, rhs) && !isConst(s.info, rhs) && !isSelfAppend(lhs, rhs) {
				// the function runs once per element of an unordered sequence (e.g. per input document) and
				// stores into state that outlives the call: which element wins for a key is order-dependent
				// unless the stored value is determined by the key
				if !s.keyDetermined(lx.Index, rhs) {
					// a helper that stores one of its parameters under a key made of other parameters cannot be judged
					// here: whether the value is determined by the key is decided at each of its call sites
					if ks, vs, ok := s.paramOnlyStore(lhs, rhs); ok {
						g.paramStore[s.d.fn] = paramStoreSummary{keys: ks, vals: vs, desc: "per-element store " + core.Stable(s.info, lhs) + " whose value is not determined by its key (first/last element wins)", pos: s.pos(n)}
					} else {
						s.choiceAt(n, "per-element store "+core.Stable(s.info, lhs)+" whose value is not determined by its key (first/last element wins)")
					}
				}
			}
			return
		}
		// slice element store
		o, _ := rootObj(s.info, lx.X)
		c := s.cell(lx.X)
		if c == nil {
			c = o
		}
		if s.inUnord() && s.isOuter(o) && !s.indexIsLoopIndexOf(lx) {
			s.setOrd(c, Unord, false, "indexed store in unordered context at "+s.pos(n))
		} else {
			s.setOrd(c, maxOrd(rhsOrd, s.rangedOrdOfIndex(lx)), false, "element-wise store at "+s.pos(n))
		}
		return
	}
	c := s.cell(lhs)
	if c == nil {
		return
	}
	if isMap(lt) && rhs != nil {
		s.setMapV(c, s.mapValOf(rhs), "map assignment at "+s.pos(n))
		return
	}
	root, _ := rootObj(s.info, lhs)
	if lt != nil {
		if _, isStruct := lt.Underlying().(*types.Struct); isStruct && s.isLocalVar(c) {
			s.local[c] = maxOrd(s.local[c], rhsOrd)
		}
	}
	if !isSliceOrString(lt) && !isWriterLike(lt) {
		// scalar / struct / pointer: last-wins choice site if element-derived and outer (loop-level contexts only)
		if s.inLoopUnord() && s.isOuterLoop(root) && rhs != nil && !isConst(s.info, rhs) && tok != token.DEFINE && !isFold(rhs, lhs) {
			if lt != nil && types.TypeString(lt, nil) != "error" {
				s.choiceAt(n, "last-wins assignment to "+core.Stable(s.info, lhs))
			}
		}
		return
	}
	_ = root
	v := rhsOrd
	strong := true
	if s.inUnord() && (s.isOuter(c) || s.isOuter(root)) {
		// accumulation forms
		if call, ok := ast.Unparen(rhs).(*ast.CallExpr); ok {
			if id, ok := call.Fun.(*ast.Ident); ok && id.Name == "append" && len(call.Args) > 0 && types.ExprString(call.Args[0]) == types.ExprString(lhs) {
				v |= Unord
			}
		}
		if tok == token.ADD_ASSIGN {
			v |= Txt
		}
		strong = false
	}
	if tok == token.ADD_ASSIGN {
		v = maxOrd(v, s.getOrd(c))
	}
	s.setOrd(c, v, strong, "assignment at "+s.pos(n))
	// alias: writer := csv.NewWriter(buf)
	if call, ok := ast.Unparen(rhs).(*ast.CallExpr); ok && isWriterLike(lt) && len(call.Args) == 1 {
		if ao := s.cell(call.Args[0]); ao != nil {
			s.alias[c] = ao
			s.alias[ao] = c
		}
	}
}

// x = max(x, ...) / min / x + ... folds
func isFold(rhs, lhs ast.Expr) bool {
	call, ok := ast.Unparen(rhs).(*ast.CallExpr)
	if !ok {
		return false
	}
	if id, ok := call.Fun.(*ast.Ident); ok && (id.Name == "max" || id.Name == "min") {
		for _, a := range call.Args {
			if types.ExprString(a) == types.ExprString(lhs) {
				return true
			}
		}
	}
	return false
}

// isOuterLoop: root variable declared outside the innermost unordered loop
func (s *fstate) isOuterLoop(o types.Object) bool {
	if o == nil {
		return false
	}
	for i := len(s.loops) - 1; i >= 0; i-- {
		if s.loops[i].unord {
			n := s.loops[i].node
			return !(o.Pos() >= n.Pos() && o.Pos() <= n.End())
		}
	}
	return false
}

func isWriterLike(t types.Type) bool {
	if t == nil {
		return false
	}
	ts := types.TypeString(t, nil)
	return strings.Contains(ts, "bytes.Buffer") || strings.Contains(ts, "csv.Writer") || strings.Contains(ts, "strings.Builder")
}

func isConst(info *types.Info, e ast.Expr) bool {
	tv, ok := info.Types[e]
	return ok && (tv.Value != nil || tv.IsNil())
}

// mentionsLoopVar: the index is (or directly contains as identifier) the key/value variable of the innermost unordered range
func (s *fstate) mentionsLoopVar(idx ast.Expr) bool {
	for i := len(s.loops) - 1; i >= 0; i-- {
		if !s.loops[i].unord {
			continue
		}
		r, ok := s.loops[i].node.(*ast.RangeStmt)
		if !ok {
			return false
		}
		vars := map[types.Object]bool{}
		for _, e := range []ast.Expr{r.Key, r.Value} {
			if id, ok := e.(*ast.Ident); ok && id.Name != "_" {
				vars[s.info.ObjectOf(id)] = true
			}
		}
		id, ok := ast.Unparen(idx).(*ast.Ident)
		return ok && vars[s.info.ObjectOf(id)]
	}
	return false
}

func isFreshEmpty(e ast.Expr) bool {
	switch x := ast.Unparen(e).(type) {
	case *ast.CompositeLit:
		return len(x.Elts) == 0
	case *ast.CallExpr:
		if id, ok := x.Fun.(*ast.Ident); ok && id.Name == "make" {
			return true
		}
	case *ast.UnaryExpr:
		if cl, ok := x.X.(*ast.CompositeLit); ok {
			return len(cl.Elts) == 0
		}
	}
	return false
}

// freshLocal: the stored value is a local that the statement directly in front of the store (same block) set to a fresh
// empty container: `v = make(...); m[k] = v` stores the same thing as `m[k] = make(...)`.
func (s *fstate) freshLocal(store ast.Node, rhs ast.Expr) bool {
	id, ok := ast.Unparen(rhs).(*ast.Ident)
	if !ok || s.d == nil || s.d.fd == nil || s.d.fd.Body == nil {
		return false
	}
	o := s.info.ObjectOf(id)
	found := false
	ast.Inspect(s.d.fd.Body, func(n ast.Node) bool {
		var list []ast.Stmt
		switch x := n.(type) {
		case *ast.BlockStmt:
			list = x.List
		case *ast.CaseClause:
			list = x.Body
		}
		for i, st := range list {
			if ast.Node(st) != store || i == 0 {
				continue
			}
			if as, isAs := list[i-1].(*ast.AssignStmt); isAs && len(as.Lhs) == 1 && len(as.Rhs) == 1 {
				if lid, isID := as.Lhs[0].(*ast.Ident); isID && s.info.ObjectOf(lid) == o && isFreshEmpty(as.Rhs[0]) {
					found = true
				}
			}
		}
		return !found
	})
	return found
}

func (s *fstate) indexIsPrivateKey(idx ast.Expr) bool {
	id, ok := ast.Unparen(idx).(*ast.Ident)
	if !ok {
		return false
	}
	o := s.info.ObjectOf(id)
	// the innermost unordered loop must be a map range whose key var is this index
	for i := len(s.loops) - 1; i >= 0; i-- {
		if s.loops[i].unord {
			return s.loops[i].rangeKey != nil && s.loops[i].rangeKey == o
		}
	}
	return false
}

// x[i] where i is the index variable of an enclosing `for i := range <something of the same length>`: element-wise map
func (s *fstate) indexIsLoopIndexOf(ix *ast.IndexExpr) bool {
	id, ok := ast.Unparen(ix.Index).(*ast.Ident)
	if !ok {
		return false
	}
	o := s.info.ObjectOf(id)
	for _, l := range s.loops {
		if r, ok := l.node.(*ast.RangeStmt); ok {
			if k, ok := r.Key.(*ast.Ident); ok && s.info.ObjectOf(k) == o {
				// element-wise: out[i] = f(in[i]); ordering follows the ranged slice
				return !isMap(s.info.TypeOf(r.X))
			}
		}
	}
	return false
}

// rangedOrdOfIndex: for out[i] with i the index of an enclosing range over a slice, the ord of that slice
func (s *fstate) rangedOrdOfIndex(ix *ast.IndexExpr) Ord {
	id, ok := ast.Unparen(ix.Index).(*ast.Ident)
	if !ok {
		return Det
	}
	o := s.info.ObjectOf(id)
	for _, l := range s.loops {
		if r, ok := l.node.(*ast.RangeStmt); ok {
			if k, ok := r.Key.(*ast.Ident); ok && s.info.ObjectOf(k) == o {
				return s.ord(r.X)
			}
		}
	}
	return Det
}

func (s *fstate) stmt(st ast.Stmt) {
	switch x := st.(type) {
	case *ast.ExprStmt:
		s.ord(x.X)
	case *ast.AssignStmt:
		if len(x.Rhs) == 1 && len(x.Lhs) > 1 {
			// multi-value call
			if call, ok := ast.Unparen(x.Rhs[0]).(*ast.CallExpr); ok {
				for i, l := range x.Lhs {
					o := s.call(call, i)
					if i == 0 && isMap(s.info.TypeOf(l)) {
						if c := s.cell(l); c != nil {
							s.setMapV(c, s.mapValOf(call), "multi-assign at "+s.pos(x))
						}
						continue
					}
					s.assign(l, nil, o, x.Tok, x)
				}
				return
			}
			s.ord(x.Rhs[0])
			return
		}
		for i, l := range x.Lhs {
			if i < len(x.Rhs) {
				s.assign(l, x.Rhs[i], s.ord(x.Rhs[i]), x.Tok, x)
			}
		}
	case *ast.DeclStmt:
		if gd, ok := x.Decl.(*ast.GenDecl); ok {
			for _, sp := range gd.Specs {
				if vs, ok := sp.(*ast.ValueSpec); ok {
					for i, n := range vs.Names {
						if i < len(vs.Values) {
							s.assign(n, vs.Values[i], s.ord(vs.Values[i]), token.DEFINE, x)
						}
					}
				}
			}
		}
	case *ast.IncDecStmt:
	case *ast.ReturnStmt:
		if len(x.Results) == 1 && len(s.retOrd) > 1 {
			if call, ok := ast.Unparen(x.Results[0]).(*ast.CallExpr); ok {
				for i := range s.retOrd {
					s.retOrd[i] = maxOrd(s.retOrd[i], s.call(call, i))
				}
				return
			}
		}
		for i, r := range x.Results {
			if i < len(s.retOrd) {
				s.retOrd[i] = maxOrd(s.retOrd[i], s.ord(r))
				if isMap(s.info.TypeOf(r)) {
					s.retMap[i] = maxOrd(s.retMap[i], s.mapValOf(r))
				}
			}
		}
		// named results
		if len(x.Results) == 0 {
			sig := s.d.fn.Type().(*types.Signature)
			for i := 0; i < sig.Results().Len(); i++ {
				s.retOrd[i] = maxOrd(s.retOrd[i], s.getOrd(sig.Results().At(i)))
			}
		}
		if s.inLoopUnord() {
			s.noteExit(x, "return")
		}
	case *ast.BranchStmt:
		if x.Tok == token.BREAK && s.inLoopUnord() {
			s.noteExit(x, "break")
		}
	case *ast.BlockStmt:
		s.block(x.List)
	case *ast.IfStmt:
		if x.Init != nil {
			s.stmt(x.Init)
		}
		s.ord(x.Cond)
		single := s.singletonOf(x.Cond)
		s.branches(func() {
			if single != "" {
				s.singleton[single]++
			}
			s.block(x.Body.List)
			if single != "" {
				s.singleton[single]--
			}
		}, func() {
			if x.Else != nil {
				s.stmt(x.Else)
			}
		})
	case *ast.SwitchStmt:
		if x.Init != nil {
			s.stmt(x.Init)
		}
		s.ord(x.Tag)
		var fs []func()
		hasDefault := false
		for _, cc := range x.Body.List {
			cl := cc.(*ast.CaseClause)
			if cl.List == nil {
				hasDefault = true
			}
			fs = append(fs, func() {
				for _, e := range cl.List {
					s.ord(e)
				}
				s.block(cl.Body)
			})
		}
		if !hasDefault {
			fs = append(fs, func() {})
		}
		s.branches(fs...)
	case *ast.TypeSwitchStmt:
		var fs []func()
		for _, cc := range x.Body.List {
			cl := cc.(*ast.CaseClause)
			fs = append(fs, func() { s.block(cl.Body) })
		}
		fs = append(fs, func() {})
		s.branches(fs...)
	case *ast.ForStmt:
		if x.Init != nil {
			s.stmt(x.Init)
		}
		s.loops = append(s.loops, loopCtx{node: x})
		for i := 0; i < 2; i++ {
			s.ord(x.Cond)
			s.block(x.Body.List)
		}
		s.loops = s.loops[:len(s.loops)-1]
	case *ast.RangeStmt:
		xt := s.info.TypeOf(x.X)
		lc := loopCtx{node: x}
		if isMap(xt) {
			lc.unord = true
			if k, ok := x.Key.(*ast.Ident); ok && k.Name != "_" {
				lc.rangeKey = s.info.ObjectOf(k)
			}
			// value var of a map range: if the map's values are Unord slices, the value var is Unord
			if v, ok := x.Value.(*ast.Ident); ok && v.Name != "_" {
				s.local[s.info.ObjectOf(v)] = s.mapValOf(x.X)
			}
		} else {
			xo := s.ord(x.X)
			if xo&Unord != 0 {
				lc.unord = true
			}
			if v, ok := x.Value.(*ast.Ident); ok && v.Name != "_" && xo&Txt != 0 {
				s.local[s.info.ObjectOf(v)] |= Txt
			}
		}
		s.loops = append(s.loops, lc)
		for i := 0; i < 2; i++ {
			s.block(x.Body.List)
		}
		s.loops = s.loops[:len(s.loops)-1]
	case *ast.DeferStmt:
		s.ord(x.Call)
	}
}

// closureVars returns the root variables an expression depends on, following
// single-assignment local definitions (receiver/params/fields stop the walk).
func (s *fstate) closureVars(e ast.Expr, depth int, out map[types.Object]bool) {
	ast.Inspect(e, func(n ast.Node) bool {
		if c, ok := n.(*ast.CallExpr); ok {
			// a module function on the way (hashing, normalising, ...) may be lossy: the value computed is not an injective image of its inputs
			if fn := calleeFunc(s.info, c); fn != nil && decls[fn] != nil && core.RefName(fn) != "String" {
				s.lossy = true
			}
		}
		id, ok := n.(*ast.Ident)
		if !ok {
			return true
		}
		o, ok := s.info.ObjectOf(id).(*types.Var)
		if !ok || o.IsField() {
			return true
		}
		if out[o] {
			return true
		}
		if sig := s.d.fn.Type().(*types.Signature); sig.Recv() == o {
			return true // the receiver object itself is not counted as an input (its state is not tracked here)
		}
		// local with definitions: expand
		if s.isLocalVar(o) && depth < 4 && !s.isParam(o) {
			expanded := false
			ast.Inspect(s.d.fd.Body, func(m ast.Node) bool {
				as, ok := m.(*ast.AssignStmt)
				if !ok {
					return true
				}
				for i, l := range as.Lhs {
					if lid, ok := l.(*ast.Ident); ok && s.info.ObjectOf(lid) == o {
						expanded = true
						if len(as.Rhs) == len(as.Lhs) {
							s.closureVars(as.Rhs[i], depth+1, out)
						} else if len(as.Rhs) == 1 {
							s.closureVars(as.Rhs[0], depth+1, out)
						}
					}
					// a struct local filled field by field (x := T{}; x.F = e) depends on what its fields are given
					if se, isSe := ast.Unparen(l).(*ast.SelectorExpr); isSe && len(as.Rhs) == len(as.Lhs) {
						if rid, isID := ast.Unparen(se.X).(*ast.Ident); isID && s.info.ObjectOf(rid) == o {
							s.closureVars(as.Rhs[i], depth+1, out)
						}
					}
				}
				return true
			})
			if expanded {
				return true
			}
		}
		out[o] = true
		return true
	})
}

func (s *fstate) isParam(o types.Object) bool {
	sig := s.d.fn.Type().(*types.Signature)
	if sig.Recv() == o {
		return true
	}
	for i := 0; i < sig.Params().Len(); i++ {
		if sig.Params().At(i) == o {
			return true
		}
	}
	return false
}

// isSelfAppend: m[k] = append(m[k], ...) - an accumulation, not a choice.
func isSelfAppend(lhs, rhs ast.Expr) bool {
	call, ok := ast.Unparen(rhs).(*ast.CallExpr)
	if !ok || len(call.Args) == 0 {
		return false
	}
	id, ok := call.Fun.(*ast.Ident)
	return ok && id.Name == "append" && types.ExprString(call.Args[0]) == types.ExprString(lhs)
}

// keyDetermined: everything the stored value depends on is something the key depends on.
func (s *fstate) keyDetermined(key, val ast.Expr) bool {
	kv, vv := map[types.Object]bool{}, map[types.Object]bool{}
	s.lossy = false
	s.closureVars(key, 0, kv)
	keyLossy := s.lossy
	s.closureVars(val, 0, vv)
	if len(kv) == 0 {
		return false
	}
	if keyLossy {
		// the key is a lossy image (e.g. a hash of a normalised form) of its inputs: two different inputs can share a key,
		// and the stored value keeps whichever came first/last
		return false
	}
	for o := range vv {
		if !kv[o] {
			return false
		}
	}
	return true
}

// keysDetermine: every variable the values are computed from also feeds one of the keys (and no key is lossy).
func (s *fstate) keysDetermine(keys, vals []ast.Expr) bool {
	kv, vv := map[types.Object]bool{}, map[types.Object]bool{}
	lossy := false
	for _, k := range keys {
		s.lossy = false
		s.closureVars(k, 0, kv)
		if s.lossy {
			lossy = true
		}
	}
	for _, v := range vals {
		s.closureVars(v, 0, vv)
	}
	if len(kv) == 0 || lossy {
		return false
	}
	for o := range vv {
		if !kv[o] {
			return false
		}
	}
	return true
}

// paramOnlyStore: in `m[k1][k2] = v` (m rooted at a parameter) every key and the value are plain parameters of the
// current function; returns their parameter indexes (positions in the call's argument list; methods are not handled).
func (s *fstate) paramOnlyStore(lhs, rhs ast.Expr) (keys, vals []int, ok bool) {
	sig := s.d.fn.Type().(*types.Signature)
	if sig.Recv() != nil {
		return nil, nil, false
	}
	idx := func(e ast.Expr) int {
		id, isID := ast.Unparen(e).(*ast.Ident)
		if !isID {
			return -1
		}
		for i := 0; i < sig.Params().Len(); i++ {
			if s.info.ObjectOf(id) == sig.Params().At(i) {
				return i
			}
		}
		return -1
	}
	e := ast.Unparen(lhs)
	for {
		ix, isIx := e.(*ast.IndexExpr)
		if !isIx {
			break
		}
		i := idx(ix.Index)
		if i < 0 {
			return nil, nil, false
		}
		keys = append(keys, i)
		e = ast.Unparen(ix.X)
	}
	if idx(e) < 0 || len(keys) == 0 {
		return nil, nil, false
	}
	v := idx(rhs)
	if v < 0 {
		return nil, nil, false
	}
	return keys, []int{v}, true
}

func (s *fstate) inLoopUnord() bool {
	for _, l := range s.loops {
		if l.unord {
			return true
		}
	}
	return false
}

// flagBreak: the break is the last statement of a block whose other statements only assign constants to plain variables
// (`found = true; break`): the loop is an existential quantifier written with a flag - whichever element matches first,
// the effect is the same.
func (s *fstate) flagBreak(br *ast.BranchStmt) bool {
	if s.d == nil || s.d.fd == nil || s.d.fd.Body == nil {
		return false
	}
	body := s.d.fd.Body
	quant := false
	ast.Inspect(body, func(n ast.Node) bool {
		var list []ast.Stmt
		switch b := n.(type) {
		case *ast.BlockStmt:
			list = b.List
		case *ast.CaseClause:
			list = b.Body
		default:
			return true
		}
		if len(list) < 2 || list[len(list)-1] != ast.Stmt(br) {
			return true
		}
		ok := true
		for _, st := range list[:len(list)-1] {
			as, isAs := st.(*ast.AssignStmt)
			if !isAs || as.Tok != token.ASSIGN {
				ok = false
				break
			}
			for _, l := range as.Lhs {
				if _, isID := ast.Unparen(l).(*ast.Ident); !isID {
					ok = false
				}
			}
			for _, rr := range as.Rhs {
				if !isConst(s.info, rr) {
					ok = false
				}
			}
		}
		if ok {
			quant = true
		}
		return true
	})
	return quant
}

func (s *fstate) noteExit(n ast.Node, kind string) {
	desc := kind
	if br, ok := n.(*ast.BranchStmt); ok && s.flagBreak(br) {
		return // quantifier written with a flag
	}
	if r, ok := n.(*ast.ReturnStmt); ok {
		allConst, errRet := true, false
		for _, e := range r.Results {
			if !isConst(s.info, e) {
				allConst = false
				if t := s.info.TypeOf(e); t != nil && types.TypeString(t, nil) == "error" {
					errRet = true
				}
			}
		}
		if allConst && len(r.Results) > 0 {
			return // quantifier
		}
		if errRet {
			return // diagnostic
		}
		var parts []string
		for _, e := range r.Results {
			parts = append(parts, core.Stable(s.info, e))
		}
		desc = "return " + strings.Join(parts, ",")
	}
	s.choiceAt(n, "first-match "+desc+" in unordered loop")
}

func analyze(d *decl) {
	sig := d.fn.Type().(*types.Signature)
	s := &fstate{d: d, info: d.pkg.TypesInfo, local: map[types.Object]Ord{}, lmapv: map[types.Object]Ord{}, alias: map[types.Object]types.Object{}}
	s.retOrd = make([]Ord, sig.Results().Len())
	s.retMap = make([]Ord, sig.Results().Len())
	if g.trace {
		fmt.Println("== analyze", d.fn.FullName())
	}
	for i := 0; i < sig.Params().Len(); i++ {
		p := sig.Params().At(i)
		s.local[p] = g.paramOrd[p]
	}
	if sig.Recv() != nil {
		s.local[sig.Recv()] = g.paramOrd[sig.Recv()]
	}
	s.block(d.fd.Body.List)
	old := g.resultOrd[d.fn]
	for i := range s.retOrd {
		if i >= len(old) || old[i] != s.retOrd[i] {
			g.changed = true
		}
	}
	g.resultOrd[d.fn] = s.retOrd
	oldM := g.resultMapV[d.fn]
	for i := range s.retMap {
		if i >= len(oldM) || oldM[i] != s.retMap[i] {
			g.changed = true
		}
	}
	g.resultMapV[d.fn] = s.retMap
}

// Result of one run.
type Result struct {
	ResultOrd  map[*types.Func][]Ord
	ParamOrd   map[types.Object]Ord
	Choice     map[string]string // construct -> position
	Why        map[string]string
	Iterations int
	Functions  int
	MapRanges  int
	SortsParam map[*types.Func]map[int]bool
}

// Sources declared by the caller: parameters whose element order is unspecified by contract.
type Source struct {
	Param *types.Var
	Ord   Ord
}

// Run analyses the program to a fixpoint.
func Run(p *core.Program, sources []Source) *Result {
	prog = p
	decls = map[*types.Func]*decl{}
	named = p.Named
	writerCell = Det
	for _, fd := range p.Funcs {
		decls[fd.Obj] = &decl{pkg: fd.Pkg, fd: fd.Decl, fn: fd.Obj}
	}
	g = &G{fieldOrd: map[types.Object]Ord{}, mapVals: map[types.Object]Ord{}, paramOrd: map[types.Object]Ord{}, resultOrd: map[*types.Func][]Ord{},
		resultMapV: map[*types.Func][]Ord{}, sortsParam: map[*types.Func]map[int]bool{}, funcCtx: map[*types.Func]bool{}, paramStore: map[*types.Func]paramStoreSummary{}, why: map[string]string{}, choice: map[string]string{}}
	var order []*decl
	for _, d := range decls {
		order = append(order, d)
	}
	sort.Slice(order, func(i, j int) bool { return order[i].fn.FullName() < order[j].fn.FullName() })
	for _, s := range sources {
		g.paramOrd[s.Param] = s.Ord
	}
	iters := 0
	for {
		g.changed = false
		for _, d := range order {
			analyze(d)
		}
		iters++
		if !g.changed || iters > 40 {
			break
		}
	}
	nMap := 0
	for _, d := range order {
		ast.Inspect(d.fd.Body, func(n ast.Node) bool {
			if rs, ok := n.(*ast.RangeStmt); ok && isMap(d.pkg.TypesInfo.TypeOf(rs.X)) {
				nMap++
			}
			return true
		})
	}
	return &Result{ResultOrd: g.resultOrd, ParamOrd: g.paramOrd, Choice: g.choice, Why: g.why, Iterations: iters, Functions: len(order), MapRanges: nMap, SortsParam: g.sortsParam}
}

// ArgOrd evaluates the taint of the arguments of one call expression inside
// function fd, using the converged global tables (locals are re-derived by
// re-analysing the function up to the call).
func ArgOrd(fd *core.FuncDecl, call *ast.CallExpr) []Ord {
	d := decls[fd.Obj]
	if d == nil {
		return nil
	}
	capture = call
	captured = nil
	analyze(d)
	capture = nil
	return captured
}

var (
	capture  *ast.CallExpr
	captured []Ord
)

var _ = fmt.Sprintf
var _ = strings.TrimPrefix
var _ = token.ADD
