package rules

import (
	"fmt"
	"go/ast"
	"go/token"
	"go/types"
	"sort"
	"strings"

	"npverif/internal/core"
	"npverif/internal/facts"
)

// ---------------------------------------------------------------- C02-b partition discipline

// subtractPairs returns the (minuend, subtrahend) expression pairs that a call
// performs: a direct x.Subtract(y), or a one-level wrapper whose body applies
// Subtract of a parameter to other parameters (including a range over a
// variadic parameter).
func subtractPairs(p *core.Program, info *types.Info, call *ast.CallExpr, scope ast.Node) [][2]string {
	str := func(e ast.Expr) string {
		if scope != nil {
			return Unfold(info, scope, e)
		}
		return core.ExprStr(e)
	}
	fn := core.Callee(info, call)
	if fn == nil {
		return nil
	}
	if core.RefName(fn) == "Subtract" && core.RecvTypeName(fn.Type().(*types.Signature)) == "ConnectionSet" {
		if se, ok := ast.Unparen(call.Fun).(*ast.SelectorExpr); ok && len(call.Args) == 1 {
			return [][2]string{{str(se.X), str(call.Args[0])}}
		}
		return nil
	}
	fd := p.ByObj[fn]
	if fd == nil || fd.Decl.Recv != nil {
		return nil
	}
	// wrapper: parameters only
	sig := fn.Type().(*types.Signature)
	paramIdx := map[types.Object]int{}
	for i := 0; i < sig.Params().Len(); i++ {
		paramIdx[sig.Params().At(i)] = i
	}
	winfo := fd.Pkg.TypesInfo
	var out [][2]string
	argStr := func(i int) []string {
		if sig.Variadic() && i == sig.Params().Len()-1 {
			var s []string
			for j := i; j < len(call.Args); j++ {
				s = append(s, str(call.Args[j]))
			}
			return s
		}
		if i < len(call.Args) {
			return []string{str(call.Args[i])}
		}
		return nil
	}
	rangeVarOf := map[types.Object]int{} // range value var -> variadic param index
	ast.Inspect(fd.Decl.Body, func(n ast.Node) bool {
		if rs, ok := n.(*ast.RangeStmt); ok {
			if xid, ok := ast.Unparen(rs.X).(*ast.Ident); ok {
				if pi, ok := paramIdx[winfo.ObjectOf(xid)]; ok {
					if vid, ok := rs.Value.(*ast.Ident); ok {
						rangeVarOf[winfo.ObjectOf(vid)] = pi
					}
				}
			}
		}
		return true
	})
	ast.Inspect(fd.Decl.Body, func(n ast.Node) bool {
		c, ok := n.(*ast.CallExpr)
		if !ok {
			return true
		}
		cf := core.Callee(winfo, c)
		if cf == nil || core.RefName(cf) != "Subtract" || len(c.Args) != 1 {
			return true
		}
		se, ok := ast.Unparen(c.Fun).(*ast.SelectorExpr)
		if !ok {
			return true
		}
		rid, ok := ast.Unparen(se.X).(*ast.Ident)
		if !ok {
			return true
		}
		ri, ok := paramIdx[winfo.ObjectOf(rid)]
		if !ok {
			return true
		}
		aid, ok := ast.Unparen(c.Args[0]).(*ast.Ident)
		if !ok {
			return true
		}
		var ai int
		if pi, ok := paramIdx[winfo.ObjectOf(aid)]; ok {
			ai = pi
		} else if pi, ok := rangeVarOf[winfo.ObjectOf(aid)]; ok {
			ai = pi
		} else {
			return true
		}
		for _, rs := range argStr(ri) {
			for _, as := range argStr(ai) {
				out = append(out, [2]string{rs, as})
			}
		}
		return true
	})
	return out
}

// reduced obligations of the two documented asymmetric merges: function -> target layer -> layers that must be subtracted from the incoming set
var partitionReduced = map[string]map[string][]string{
	"CollectAllowedConnsFromNetpols": {"AllowedConns": {"DeniedConns"}},
	"CollectConnsFromBANP":           {"DeniedConns": {"AllowedConns"}},
}

var partitionReducedWhy = map[string]string{
	"CollectAllowedConnsFromNetpols": "documented asymmetric merge: NetworkPolicy allows are added on top of ANP allows and decide Pass connections, but must never override an ANP deny",
	"CollectConnsFromBANP":           "documented asymmetric merge: BANP denials are added to the ANP denials, but must never override an ANP allow; Pass is decided here",
}

// PartitionDiscipline is C02-b: in the merge methods of PolicyConnections a
// set merged into layer F has first been reduced by every other layer G of the
// receiver (higher precedence wins / first matching rule wins).
func PartitionDiscipline(p *core.Program, r *core.Report) {
	pc := p.LookupType(core.PkgK8s, "PolicyConnections")
	if pc == nil {
		r.Lost("C02-b", "type k8s.PolicyConnections")
		return
	}
	var layers []string
	st := pc.Underlying().(*types.Struct)
	for i := 0; i < st.NumFields(); i++ {
		if core.TypeIs(st.Field(i).Type(), core.PkgCommon, "ConnectionSet") {
			layers = append(layers, core.RefName(st.Field(i)))
		}
	}
	if len(layers) != 3 {
		r.Add("C02-b", "layers of k8s.PolicyConnections", "-", core.Undecided, fmt.Sprintf("expected the three layers Allowed/Pass/Denied, found %v", layers))
		return
	}
	n := 0
	for _, m := range p.Methods(core.PkgK8s, "PolicyConnections") {
		info := m.Pkg.TypesInfo
		sig := m.Obj.Type().(*types.Signature)
		recv := sig.Recv()
		var unions []*ast.CallExpr
		ast.Inspect(m.Decl.Body, func(nd ast.Node) bool {
			c, ok := nd.(*ast.CallExpr)
			if !ok {
				return true
			}
			fn := core.Callee(info, c)
			if fn == nil || core.RefName(fn) != "Union" || core.RecvTypeName(fn.Type().(*types.Signature)) != "ConnectionSet" {
				return true
			}
			se := ast.Unparen(c.Fun).(*ast.SelectorExpr)
			if fld := core.FieldOf(info, se.X); fld != nil {
				if id := core.RootIdent(se.X); id != nil && info.ObjectOf(id) == recv {
					unions = append(unions, c)
				}
			}
			return true
		})
		for _, u := range unions {
			se := ast.Unparen(u.Fun).(*ast.SelectorExpr)
			target := core.RefName(core.FieldOf(info, se.X))
			incoming := Unfold(info, m.Decl.Body, u.Args[0])
			// only merges of a set coming from outside (parameter-rooted, possibly named by a local first) are precedence merges
			if id := core.RootIdent(ResolveLocal(info, m.Decl.Body, u.Args[0])); id == nil || !isParamOrRecv(m, info, id) || info.ObjectOf(id) == recv {
				continue
			}
			required := []string{}
			why := ""
			if red, ok := partitionReduced[core.RefName(m.Obj)]; ok {
				if req, ok := red[target]; ok {
					required = req
					why = partitionReducedWhy[core.RefName(m.Obj)]
				}
			}
			if why == "" {
				for _, l := range layers {
					if l != target {
						required = append(required, l)
					}
				}
			}
			recvName := core.RefName(recv)
			for _, g := range required {
				n++
				wantSub := recvName + "." + g
				dom, _, found := Dominated(m, u, func(nd ast.Node) bool {
					c, ok := nd.(*ast.CallExpr)
					if !ok {
						return false
					}
					for _, pr := range subtractPairs(p, info, c, m.Decl.Body) {
						if pr[0] == incoming && pr[1] == wantSub {
							return true
						}
					}
					return false
				})
				construct := fmt.Sprintf("%s: %s reduced by %s before merging into %s", m.Key(), incoming, g, target)
				okReason := "dominated by " + incoming + ".Subtract(" + wantSub + ")"
				if why != "" {
					okReason += " (" + why + ")"
				}
				r.Check(found && dom, "C02-b", construct, p.Pos(u.Pos()), okReason,
					fmt.Sprintf("%s is merged into layer %s without having been reduced by layer %s on every path: connections already decided by a higher-precedence rule or policy (%s) can be overridden by a lower one", incoming, target, g, g))
			}
		}
		// receiver layers are never the receiver of Subtract/Intersection except on a set assigned fresh in the same function
		ast.Inspect(m.Decl.Body, func(nd ast.Node) bool {
			c, ok := nd.(*ast.CallExpr)
			if !ok {
				return true
			}
			fn := core.Callee(info, c)
			if fn == nil || (core.RefName(fn) != "Subtract" && core.RefName(fn) != "Intersection") || core.RecvTypeName(fn.Type().(*types.Signature)) != "ConnectionSet" {
				return true
			}
			se := ast.Unparen(c.Fun).(*ast.SelectorExpr)
			fld := core.FieldOf(info, se.X)
			id := core.RootIdent(se.X)
			if fld == nil || id == nil || info.ObjectOf(id) != recv {
				return true
			}
			// fresh assignment dominating?
			dom, _, found := Dominated(m, c, func(x ast.Node) bool {
				as, ok := x.(*ast.AssignStmt)
				if !ok {
					return false
				}
				for i, l := range as.Lhs {
					if core.ExprStr(l) == core.ExprStr(se.X) && i < len(as.Rhs) {
						if call, ok := ast.Unparen(as.Rhs[i]).(*ast.CallExpr); ok {
							if f2 := core.Callee(info, call); f2 != nil && core.RefName(f2) == "MakeConnectionSet" {
								return true
							}
						}
					}
				}
				return false
			})
			r.Check(found && dom, "C02-b", fmt.Sprintf("%s: %s.%s applied to a set made fresh in the function", m.Key(), core.ExprStr(se.X), core.RefName(fn)), p.Pos(c.Pos()),
				"the reduced layer was re-created by MakeConnectionSet in this function", "a layer already collected from higher-precedence policies is reduced in place: decided connections are lost")
			return true
		})
	}
	r.Floor("C02-b", 14)
}

// ---------------------------------------------------------------- C02-d admin policies never select IPs

// AdminNeverSelectsIP: in the subject/peer matchers of admin policies every
// statement other than the PeerType test is reached only for non-IP peers.
func AdminNeverSelectsIP(p *core.Program, r *core.Report) {
	targets := []*core.FuncDecl{
		p.Func(core.PkgK8s, "AdminNetworkPolicy", "Selects"),
		p.Func(core.PkgK8s, "BaselineAdminNetworkPolicy", "Selects"),
		p.Func(core.PkgK8s, "", "doesNamespacesFieldMatchPeer"),
		p.Func(core.PkgK8s, "", "doesPodsFieldMatchPeer"),
	}
	k8sPeer := p.LookupType(core.PkgK8s, "Peer")
	for i, fd := range targets {
		if fd == nil {
			r.Lost("C02-d", []string{"(*AdminNetworkPolicy).Selects", "(*BaselineAdminNetworkPolicy).Selects", "doesNamespacesFieldMatchPeer", "doesPodsFieldMatchPeer"}[i])
			continue
		}
		info := fd.Pkg.TypesInfo
		sig := fd.Obj.Type().(*types.Signature)
		var peerParam *types.Var
		for j := 0; j < sig.Params().Len(); j++ {
			if k8sPeer != nil && types.Identical(sig.Params().At(j).Type(), k8sPeer) {
				peerParam = sig.Params().At(j)
			}
		}
		if peerParam == nil {
			r.Add("C02-d", fd.Key()+": peer parameter", p.Pos(fd.Decl.Pos()), core.Undecided, "no parameter of type k8s.Peer")
			continue
		}
		na := &nilAnalysis{p: p, r: r, peerType: map[*types.Func]bool{}, getters: map[*types.Func]bool{}, n2: map[*types.Var]string{}, requires: map[*types.Func]map[string]string{}, counts: map[string]int{}}
		na.resolve()
		nf := &nilFunc{a: na, fd: fd, info: info}
		w := facts.NewWalker(info)
		nf.w = w
		w.Atomize = nf.atomize
		bad := ""
		nCalls := 0
		w.OnExpr = func(e ast.Expr, f facts.Formula) {
			call, ok := e.(*ast.CallExpr)
			if !ok {
				return
			}
			if nf.isPeerTypeCall(call) {
				return
			}
			if fn := core.Callee(info, call); fn == nil || core.IsConversion(info, call) {
				return
			}
			nCalls++
			if !facts.Entails(f, facts.Not{X: facts.Atom("isIP:" + w.PathOfVar(peerParam))}) && bad == "" {
				bad = core.ExprStr(call) + " at " + p.Pos(call.Pos())
			}
		}
		// a positive result may not be returned for an IP peer either
		w.OnStmt = func(s ast.Stmt, f facts.Formula) {
			ret, ok := s.(*ast.ReturnStmt)
			if !ok || len(ret.Results) == 0 {
				return
			}
			if v, ok := core.ConstString(info, ret.Results[0]); ok && v == "false" {
				return
			}
			if !facts.Entails(f, facts.Not{X: facts.Atom("isIP:" + w.PathOfVar(peerParam))}) && bad == "" {
				bad = "return " + core.ExprStr(ret.Results[0]) + " at " + p.Pos(ret.Pos())
			}
		}
		w.WalkBody(fd.Decl.Body, nil)
		r.Check(bad == "" && nCalls > 0, "C02-d", fd.Key()+": everything but the PeerType test runs for non-IP peers only", p.Pos(fd.Decl.Pos()),
			"an IPBlockType test returning false dominates every other statement", "admin policies (ANP/BANP) must never select an external IP, but "+bad+" is reachable for an IP peer")
	}
	r.Floor("C02-d", 4)
}

// ---------------------------------------------------------------- C02-a' comparator shape

// PriorityComparator: the less() of the priority sort orders by ascending
// Spec.Priority of elements i and j.
func PriorityComparator(p *core.Program, r *core.Report) {
	fd := p.Func(core.PkgEval, "PolicyEngine", "sortAdminNetpolsByPriority")
	if fd == nil {
		r.Lost("C02-cmp", "(*PolicyEngine).sortAdminNetpolsByPriority")
		return
	}
	info := fd.Pkg.TypesInfo
	found := false
	ast.Inspect(fd.Decl.Body, func(n ast.Node) bool {
		call, ok := n.(*ast.CallExpr)
		if !ok || len(call.Args) != 2 {
			return true
		}
		fn := core.Callee(info, call)
		if fn == nil || fn.Pkg() == nil || fn.Pkg().Path() != "sort" || !strings.HasPrefix(core.RefName(fn), "Slice") {
			return true
		}
		fl, ok := call.Args[1].(*ast.FuncLit)
		if !ok || len(fl.Type.Params.List) == 0 {
			return true
		}
		var names []string
		for _, f := range fl.Type.Params.List {
			for _, nm := range f.Names {
				names = append(names, nm.Name)
			}
		}
		if len(names) != 2 {
			return true
		}
		found = true
		// the last statement of the callback is the ordering return
		last := fl.Body.List[len(fl.Body.List)-1]
		ret, ok := last.(*ast.ReturnStmt)
		okShape := false
		if ok && len(ret.Results) == 1 {
			if be, ok := ast.Unparen(ret.Results[0]).(*ast.BinaryExpr); ok {
				// locals introduced for the two elements (and for the slice) are unfolded to their definitions
				l, rr := Unfold(info, fd.Decl.Body, be.X), Unfold(info, fd.Decl.Body, be.Y)
				mentions := func(s, idx string) bool { return strings.Contains(s, "["+idx+"]") && strings.HasSuffix(s, ".Priority") }
				switch be.Op {
				case token.LSS:
					okShape = mentions(l, names[0]) && mentions(rr, names[1])
				case token.GTR:
					okShape = mentions(l, names[1]) && mentions(rr, names[0])
				}
			}
		}
		r.Check(okShape, "C02-cmp", fd.Key()+": less(i,j) orders by ascending priority", p.Pos(fl.Pos()),
			"final return compares element i's Spec.Priority < element j's", "the comparison callback of the priority sort does not end in `elem[i].Priority < elem[j].Priority`: lower numeric priority must come first (highest precedence)")
		return true
	})
	if !found {
		r.Lost("C02-cmp", "sort.Slice callback in sortAdminNetpolsByPriority")
	}
}

// ---------------------------------------------------------------- C02-c layer order and tables

type layerCalls struct {
	anp, np, banp *ast.CallExpr
}

func findLayerCalls(info *types.Info, fd *core.FuncDecl, anpName, npName, banpName string) layerCalls {
	var lc layerCalls
	ast.Inspect(fd.Decl.Body, func(n ast.Node) bool {
		c, ok := n.(*ast.CallExpr)
		if !ok {
			return true
		}
		fn := core.Callee(info, c)
		if fn == nil {
			return true
		}
		switch core.RefName(fn) {
		case anpName:
			lc.anp = c
		case npName:
			lc.np = c
		case banpName:
			lc.banp = c
		}
		return true
	})
	return lc
}

// resultVar returns the identifier assigned from result #idx of call in fd.
func resultVar(fd *core.FuncDecl, call *ast.CallExpr, idx int) *ast.Ident {
	var out *ast.Ident
	ast.Inspect(fd.Decl.Body, func(n ast.Node) bool {
		as, ok := n.(*ast.AssignStmt)
		if !ok || len(as.Rhs) != 1 || ast.Unparen(as.Rhs[0]) != ast.Expr(call) || idx >= len(as.Lhs) {
			return true
		}
		if id, ok := as.Lhs[idx].(*ast.Ident); ok {
			out = id
		}
		return true
	})
	return out
}

// LayerOrder is C02-c: both orchestrators consult the layers in the order
// ANP, NetworkPolicy, BANP/default and return according to the decision table.
func LayerOrder(p *core.Program, r *core.Report) {
	// ---- list side
	if fd := p.Func(core.PkgEval, "PolicyEngine", "allAllowedXgressConnections"); fd == nil {
		r.Lost("C02-c", "(*PolicyEngine).allAllowedXgressConnections")
	} else {
		info := fd.Pkg.TypesInfo
		lc := findLayerCalls(info, fd, "getAllAllowedXgressConnectionsFromANPs", "getAllAllowedXgressConnsFromNetpols", "getXgressDefaultConns")
		if lc.anp == nil || lc.np == nil || lc.banp == nil {
			r.Lost("C02-c", "the three layer calls of allAllowedXgressConnections")
		} else {
			d1, _, _ := Dominated(fd, lc.np, func(n ast.Node) bool { return n == ast.Node(lc.anp) })
			d2, _, _ := Dominated(fd, lc.banp, func(n ast.Node) bool { return n == ast.Node(lc.np) })
			r.Check(d1 && d2, "C02-c", fd.Key()+": layers consulted in the order ANP, NetworkPolicy, BANP", p.Pos(fd.Decl.Pos()),
				"the ANP call dominates the NetworkPolicy call, which dominates the BANP/default call", "the precedence layers are not consulted in the order ANP -> NetworkPolicy -> BANP/default on every path")
			anpConns, anpCap := resultVar(fd, lc.anp, 0), resultVar(fd, lc.anp, 1)
			npConns, npCap := resultVar(fd, lc.np, 0), resultVar(fd, lc.np, 1)
			if anpConns == nil || anpCap == nil || npConns == nil || npCap == nil {
				r.Add("C02-c", fd.Key()+": result variables of the layer calls", p.Pos(fd.Decl.Pos()), core.Undecided, "could not bind the (conns, captured) results of the layer calls")
			} else {
				listLayerTable(p, r, fd, anpConns, anpCap, npConns, npCap)
			}
		}
	}
	// ---- eval side
	if fd := p.Func(core.PkgEval, "PolicyEngine", "allowedXgressConnection"); fd == nil {
		r.Lost("C02-c", "(*PolicyEngine).allowedXgressConnection")
	} else {
		info := fd.Pkg.TypesInfo
		lc := findLayerCalls(info, fd, "allowedXgressConnectionByAdminNetpols", "allowedXgressConnectionByNetpols", "allowedXgressByBaselineAdminNetpolOrByDefault")
		if lc.anp == nil || lc.np == nil || lc.banp == nil {
			r.Lost("C02-c", "the three layer calls of allowedXgressConnection")
		} else {
			d1, _, _ := Dominated(fd, lc.np, func(n ast.Node) bool { return n == ast.Node(lc.anp) })
			d2, _, _ := Dominated(fd, lc.banp, func(n ast.Node) bool { return n == ast.Node(lc.np) })
			r.Check(d1 && d2, "C02-c", fd.Key()+": layers consulted in the order ANP, NetworkPolicy, BANP", p.Pos(fd.Decl.Pos()),
				"the ANP call dominates the NetworkPolicy call, which dominates the BANP/default call", "the precedence layers are not consulted in the order ANP -> NetworkPolicy -> BANP/default on every path")
			anpRes, pass := resultVar(fd, lc.anp, 0), resultVar(fd, lc.anp, 1)
			npRes, capt := resultVar(fd, lc.np, 0), resultVar(fd, lc.np, 1)
			banpRes := resultVar(fd, lc.banp, 0)
			if anpRes == nil || pass == nil || npRes == nil || capt == nil || banpRes == nil {
				r.Add("C02-c", fd.Key()+": result variables of the layer calls", p.Pos(fd.Decl.Pos()), core.Undecided, "could not bind the results of the layer calls")
			} else {
				evalLayerTable(p, r, fd, anpRes, pass, npRes, capt, banpRes)
			}
		}
	}
	r.Floor("C02-c", 8)
}

func boolAtom(w *facts.Walker, info *types.Info, id *ast.Ident) facts.Formula {
	v, _ := info.ObjectOf(id).(*types.Var)
	if v == nil {
		return facts.Atom("b:" + id.Name)
	}
	return facts.Atom("b:" + w.PathOfVar(v))
}

func listLayerTable(p *core.Program, r *core.Report, fd *core.FuncDecl, anpConns, anpCap, npConns, npCap *ast.Ident) {
	info := fd.Pkg.TypesInfo
	w := facts.NewWalker(info)
	// path state: 0 nothing merged, 1 merged NetworkPolicies into ANP conns, 2 merged BANP/default
	w.Transfer = func(st int, n ast.Node, f facts.Formula) int {
		if c, ok := n.(*ast.CallExpr); ok {
			if fn := core.Callee(info, c); fn != nil {
				switch core.RefName(fn) {
				case "CollectAllowedConnsFromNetpols":
					return 1
				case "CollectConnsFromBANP":
					return 2
				}
			}
		}
		return st
	}
	rows := map[string]bool{}
	w.OnExit = func(st int, ret *ast.ReturnStmt, f facts.Formula) {
		if ret == nil || len(ret.Results) == 0 || IsErrorReturn(p, w, fd.Obj, ret, f) {
			return
		}
		res := ast.Unparen(ret.Results[0])
		root := core.RootIdent(res)
		if root == nil {
			r.Add("C02-c", fd.Key()+": return "+core.ExprStr(res), p.Pos(ret.Pos()), core.Undecided, "returned value is not a layer result")
			return
		}
		aCap, nCap := boolAtom(w, info, anpCap), boolAtom(w, info, npCap)
		construct, ok, want := "", false, ""
		switch {
		case info.ObjectOf(root) == info.ObjectOf(anpConns) && st == 0:
			construct, want = "ANP result alone is returned only when the ANPs captured the pair and determine all connections", "anpCaptured && DeterminesAllConns()"
			ok = facts.Entails(f, aCap) && entailsCallAtom(f, "DeterminesAllConns")
			rows["anp-only"] = true
		case info.ObjectOf(root) == info.ObjectOf(npConns):
			construct, want = "NetworkPolicy result alone is returned only when NetworkPolicies capture the pod and no ANP rule captured the pair", "npCaptured && !anpCaptured"
			ok = st == 0 && facts.Entails(f, nCap) && facts.Entails(f, facts.Not{X: aCap})
			rows["np-only"] = true
		case info.ObjectOf(root) == info.ObjectOf(anpConns) && st == 1:
			construct, want = "ANP result merged with NetworkPolicies is returned only when both captured", "npCaptured && anpCaptured"
			ok = facts.Entails(f, nCap) && facts.Entails(f, aCap)
			rows["anp+np"] = true
		case info.ObjectOf(root) == info.ObjectOf(anpConns) && st == 2:
			construct, want = "BANP/default decides only when no NetworkPolicy captures the pod", "!npCaptured"
			ok = facts.Entails(f, facts.Not{X: nCap})
			rows["banp"] = true
		default:
			r.Add("C02-c", fd.Key()+": return "+core.ExprStr(res), p.Pos(ret.Pos()), core.Undecided, "unrecognised row of the layer table")
			return
		}
		r.Check(ok, "C02-c", fd.Key()+": "+construct, p.Pos(ret.Pos()), "path condition entails "+want,
			"the return does not happen under "+want+" (path condition: "+facts.StripVersions(facts.String(f))+")")
	}
	w.WalkBody(fd.Decl.Body, nil)
	for _, row := range []string{"anp-only", "np-only", "anp+np", "banp"} {
		if !rows[row] {
			r.Bad("C02-c", fd.Key()+": layer table has the row "+row, p.Pos(fd.Decl.Pos()), "a row of the precedence decision table (ANP only / NP only / ANP+NP / BANP-default) has no return statement any more")
		}
	}
}

func entailsCallAtom(f facts.Formula, method string) bool {
	for _, a := range facts.Atoms(f) {
		if strings.HasPrefix(a, "b:") && strings.HasSuffix(a, "."+method+"()") && facts.Entails(f, facts.Atom(a)) {
			return true
		}
	}
	return false
}

func evalLayerTable(p *core.Program, r *core.Report, fd *core.FuncDecl, anpRes, pass, npRes, capt, banpRes *ast.Ident) {
	info := fd.Pkg.TypesInfo
	w := facts.NewWalker(info)
	rows := map[string]bool{}
	w.OnExit = func(st int, ret *ast.ReturnStmt, f facts.Formula) {
		if ret == nil || len(ret.Results) == 0 || IsErrorReturn(p, w, fd.Obj, ret, f) {
			return
		}
		id, ok := ast.Unparen(ret.Results[0]).(*ast.Ident)
		if !ok {
			r.Add("C02-c", fd.Key()+": return "+core.ExprStr(ret.Results[0]), p.Pos(ret.Pos()), core.Undecided, "returned value is not a layer verdict")
			return
		}
		passA, captA := boolAtom(w, info, pass), boolAtom(w, info, capt)
		switch info.ObjectOf(id) {
		case info.ObjectOf(anpRes):
			rows["anp"] = true
			r.Check(facts.Entails(f, facts.Not{X: passA}), "C02-c", fd.Key()+": the ANP verdict is final only when the ANPs neither passed nor missed the connection", p.Pos(ret.Pos()),
				"path condition entails !passOrNonCaptured", "the ANP verdict is returned although the connection may have been passed or not captured")
		case info.ObjectOf(npRes):
			rows["np"] = true
			r.Check(facts.Entails(f, passA) && facts.Entails(f, captA), "C02-c", fd.Key()+": the NetworkPolicy verdict is returned only after a pass/non-capture by ANPs and when NetworkPolicies capture the pod", p.Pos(ret.Pos()),
				"path condition entails passOrNonCaptured && captured", "the NetworkPolicy verdict is returned outside its row of the table")
		case info.ObjectOf(banpRes):
			rows["banp"] = true
			r.Check(facts.Entails(f, passA) && facts.Entails(f, facts.Not{X: captA}), "C02-c", fd.Key()+": BANP/default decides only when no NetworkPolicy captures the pod", p.Pos(ret.Pos()),
				"path condition entails passOrNonCaptured && !captured", "the BANP/default verdict is returned outside its row of the table")
		default:
			r.Add("C02-c", fd.Key()+": return "+id.Name, p.Pos(ret.Pos()), core.Undecided, "unrecognised row of the layer table")
		}
	}
	w.WalkBody(fd.Decl.Body, nil)
	for _, row := range []string{"anp", "np", "banp"} {
		if !rows[row] {
			r.Bad("C02-c", fd.Key()+": layer table has the row "+row, p.Pos(fd.Decl.Pos()), "a row of the eval-side precedence table has no return statement any more")
		}
	}
}

// ---------------------------------------------------------------- C02-c' first-match discipline of the eval loops

// FirstMatchLoops: in every loop of the eval path that asks a policy (or a
// rule) for its verdict on the connection, the next element is consulted only
// when the verdict is NotCaptured; any other verdict ends the loop.
func FirstMatchLoops(p *core.Program, r *core.Report) {
	resType := p.LookupType(core.PkgK8s, "ANPRulesResult")
	if resType == nil {
		r.Lost("C02-first", "type k8s.ANPRulesResult")
		return
	}
	entry := p.Func(core.PkgEval, "PolicyEngine", "CheckIfAllowed")
	if entry == nil {
		r.Lost("C02-first", "(*PolicyEngine).CheckIfAllowed")
		return
	}
	n := 0
	var fns []*core.FuncDecl
	for fn := range p.Reachable(entry.Obj) {
		if fd := p.ByObj[fn]; fd != nil {
			fns = append(fns, fd)
		}
	}
	sort.Slice(fns, func(i, j int) bool { return fns[i].Key() < fns[j].Key() })
	for _, fd := range fns {
		info := fd.Pkg.TypesInfo
		// verdict assignments inside loops: res, err := <call returning ANPRulesResult>
		type verdict struct {
			as  *ast.AssignStmt
			obj *types.Var
		}
		var vs []verdict
		ast.Inspect(fd.Decl.Body, func(nd ast.Node) bool {
			as, ok := nd.(*ast.AssignStmt)
			if !ok || len(as.Rhs) != 1 || len(as.Lhs) < 1 {
				return true
			}
			call, ok := ast.Unparen(as.Rhs[0]).(*ast.CallExpr)
			if !ok {
				return true
			}
			id, ok := as.Lhs[0].(*ast.Ident)
			if !ok || id.Name == "_" {
				return true
			}
			v, _ := info.ObjectOf(id).(*types.Var)
			if v == nil || !types.Identical(v.Type(), resType) {
				return true
			}
			_ = call
			vs = append(vs, verdict{as, v})
			return true
		})
		for _, v := range vs {
			v := v
			w := facts.NewWalker(info)
			inLoop := false
			bad := ""
			w.Transfer = func(st int, nd ast.Node, f facts.Formula) int {
				if nd == ast.Node(v.as) {
					if len(w.Loops) > 0 {
						inLoop = true
					}
					return 1
				}
				return st
			}
			notCaptured := func(f facts.Formula) bool {
				for _, a := range facts.Atoms(f) {
					if strings.HasPrefix(a, "eq:"+w.PathOfVar(v.obj)+"==") && strings.HasSuffix(a, "==0") {
						// NotCaptured is the zero value of the enumeration (iota)
						return facts.Entails(f, facts.Atom(a))
					}
				}
				return false
			}
			// path state 1: a verdict was taken and is not known to be NotCaptured; 2: known NotCaptured. The collapse
			// 1 -> 2 happens at statement boundaries (and block ends), where the facts are still those of the path -
			// at the joins that follow they are merged away, the path state is not.
			w.Refine = func(st int, f facts.Formula) int {
				if st == 1 && notCaptured(f) {
					return 2
				}
				return st
			}
			w.OnBranch = func(b *ast.BranchStmt, states uint64, f facts.Formula) {
				if b.Tok == token.CONTINUE && states&2 != 0 && !notCaptured(f) && bad == "" {
					bad = "continue at " + p.Pos(b.Pos())
				}
			}
			w.OnLoopBodyEnd = func(loop ast.Stmt, states uint64, f facts.Formula) {
				if states&2 != 0 && !notCaptured(f) && bad == "" {
					bad = "end of the loop body at " + p.Pos(loop.End())
				}
			}
			w.WalkBody(fd.Decl.Body, nil)
			if !inLoop {
				continue
			}
			n++
			r.Check(bad == "", "C02-first", fmt.Sprintf("%s: after the verdict %s the next policy/rule is consulted only on NotCaptured", fd.Key(), core.RefName(v.obj)), p.Pos(v.as.Pos()),
				"every continue / fall-through after the verdict is under "+core.RefName(v.obj)+" == NotCaptured; any other verdict leaves the loop",
				"the loop goes on to the next (lower-precedence) policy or rule ("+bad+") although the verdict may be Pass/Allow/Deny: the first match must win")
		}
	}
	r.RuleCounts["C02-first"] += 0
	r.Floor("C02-first", 4)
	_ = n
}

// AdminRuleIterationSiblings is C02-sib: the eight rule-iteration methods (ANP/BANP x ingress/egress x connection
// set / single query) are one implementation written eight times; each must range over its own direction's rules,
// hand the rule's peers, ports and action to the helper of its direction, pass the peers in role order and tell
// the helper whether the rule belongs to the baseline policy.
func AdminRuleIterationSiblings(p *core.Program, r *core.Report, rule string) {
	type sib struct {
		recv, name string
		ingress    bool
		banp       bool
		helper     string
	}
	var sibs []sib
	for _, t := range []struct {
		recv string
		banp bool
	}{{"AdminNetworkPolicy", false}, {"BaselineAdminNetworkPolicy", true}} {
		sibs = append(sibs,
			sib{t.recv, "GetIngressPolicyConns", true, t.banp, "updateConnsIfIngressRuleSelectsPeer"},
			sib{t.recv, "GetEgressPolicyConns", false, t.banp, "updateConnsIfEgressRuleSelectsPeer"},
			sib{t.recv, "CheckIngressConnAllowed", true, t.banp, "checkIfIngressRuleContainsConn"},
			sib{t.recv, "CheckEgressConnAllowed", false, t.banp, "checkIfEgressRuleContainsConn"})
	}
	for _, s := range sibs {
		fd := p.Func(core.PkgK8s, s.recv, s.name)
		if fd == nil {
			r.Lost(rule, "(*"+s.recv+")."+s.name)
			continue
		}
		info := fd.Pkg.TypesInfo
		sig := fd.Obj.Type().(*types.Signature)
		dir, peersField := "Egress", "To"
		if s.ingress {
			dir, peersField = "Ingress", "From"
		}
		var bad []string
		var rs *ast.RangeStmt
		ast.Inspect(fd.Decl.Body, func(n ast.Node) bool {
			if x, ok := n.(*ast.RangeStmt); ok && rs == nil {
				rs = x
			}
			return true
		})
		if rs == nil || !strings.HasSuffix(core.ExprStr(rs.X), ".Spec."+dir) {
			bad = append(bad, "does not range over Spec."+dir)
		}
		var call *ast.CallExpr
		ast.Inspect(fd.Decl.Body, func(n ast.Node) bool {
			if c, ok := n.(*ast.CallExpr); ok {
				if fn := core.Callee(info, c); fn != nil && core.RefName(fn) == s.helper {
					call = c
				}
			}
			return true
		})
		if call == nil {
			bad = append(bad, "does not call "+s.helper)
		} else if rs != nil {
			ruleVar, _ := rs.Value.(*ast.Ident)
			resolve := func(e ast.Expr) string {
				if id, ok := ast.Unparen(e).(*ast.Ident); ok {
					if d, _ := defOf(fd, id); d != nil {
						return core.ExprStr(d)
					}
				}
				return core.ExprStr(e)
			}
			rn := ""
			if ruleVar != nil {
				rn = ruleVar.Name
			}
			args := call.Args
			if got := resolve(args[0]); got != rn+"."+peersField {
				bad = append(bad, "peers argument is "+got)
			}
			if got := resolve(args[1]); got != rn+".Ports" {
				bad = append(bad, "ports argument is "+got)
			}
			// peers in role order: the method's own Peer parameters, in order
			k := 2
			for i := 0; i < sig.Params().Len(); i++ {
				if !core.TypeIs(sig.Params().At(i).Type(), core.PkgK8s, "Peer") {
					continue
				}
				if k >= len(args) {
					bad = append(bad, "too few arguments")
					break
				}
				id, ok := ast.Unparen(args[k]).(*ast.Ident)
				if !ok || info.ObjectOf(id) != sig.Params().At(i) {
					bad = append(bad, fmt.Sprintf("argument #%d is %s, not the parameter %s", k+1, core.ExprStr(args[k]), core.RefName(sig.Params().At(i))))
				}
				k++
			}
			hasAction := false
			for _, a := range args {
				if core.ExprStr(ResolveLocal(info, fd.Decl.Body, a)) == "string("+rn+".Action)" {
					hasAction = true
				}
			}
			if !hasAction {
				bad = append(bad, "the rule's action is not passed")
			}
			last := core.ExprStr(args[len(args)-1])
			if last != fmt.Sprint(s.banp) {
				bad = append(bad, "the baseline flag is "+last)
			}
		}
		r.Check(len(bad) == 0, rule, fmt.Sprintf("%s: iterates Spec.%s and hands each rule's %s, ports and action, the peers in role order and baseline=%v to %s", fd.Key(), dir, peersField, s.banp, s.helper), p.Pos(fd.Decl.Pos()), "",
			"this sibling deviates from the other seven: "+strings.Join(bad, "; "))
	}
	r.Floor(rule, 8)
}
