package rules

import (
	"fmt"
	"go/ast"
	"go/token"
	"go/types"
	"sort"
	"strings"

	"npverif/internal/core"
	"npverif/internal/facts"
)

// ---------------------------------------------------------------- C14-a monotone accumulators

// MonotoneAccumulators: the NetworkPolicy layer computes a result as a union
// fold. The accumulator is created empty, modified only as the receiver of
// Union, and the loop is left early only on an error or when the accumulator
// itself is saturated. With C11 this is the static argument for "adding a
// rule or a policy in a governed direction never removes a connection".
func MonotoneAccumulators(p *core.Program, r *core.Report, rule string) {
	targets := []*core.FuncDecl{
		p.Func(core.PkgK8s, "NetworkPolicy", "GetIngressAllowedConns"),
		p.Func(core.PkgK8s, "NetworkPolicy", "GetEgressAllowedConns"),
		p.Func(core.PkgEval, "PolicyEngine", "getAllAllowedXgressConnsFromNetpols"),
	}
	names := []string{"(*NetworkPolicy).GetIngressAllowedConns", "(*NetworkPolicy).GetEgressAllowedConns", "(*PolicyEngine).getAllAllowedXgressConnsFromNetpols"}
	for i, fd := range targets {
		if fd == nil {
			r.Lost(rule, names[i])
			continue
		}
		checkAccumulator(p, r, rule, fd)
	}
	r.Floor(rule, 3)
}

func checkAccumulator(p *core.Program, r *core.Report, rule string, fd *core.FuncDecl) {
	info := fd.Pkg.TypesInfo
	// the accumulator: a local defined by MakeConnectionSet(false) that is the receiver of Union inside a loop
	var acc types.Object
	var accDef *ast.AssignStmt
	ast.Inspect(fd.Decl.Body, func(n ast.Node) bool {
		as, ok := n.(*ast.AssignStmt)
		if !ok || len(as.Rhs) != 1 || len(as.Lhs) != 1 {
			return true
		}
		c, ok := ast.Unparen(as.Rhs[0]).(*ast.CallExpr)
		if !ok {
			return true
		}
		if fn := core.Callee(info, c); fn != nil && core.RefName(fn) == "MakeConnectionSet" && len(c.Args) == 1 {
			if v, ok := core.ConstString(info, c.Args[0]); ok && v == "false" {
				if id, ok := as.Lhs[0].(*ast.Ident); ok && acc == nil {
					cand := info.ObjectOf(id)
					if unionInLoop(p, fd, cand) {
						acc, accDef = cand, as
					}
				}
			}
		}
		return true
	})
	c := fd.Key() + ": result is a union fold over an accumulator created empty"
	if acc == nil {
		r.Bad(rule, c, p.Pos(fd.Decl.Pos()), "no accumulator `x := MakeConnectionSet(false)` that is the receiver of Union inside the loop over rules/policies: the result is not a monotone union of the per-rule / per-policy results")
		return
	}
	_ = accDef
	// (1) only Union (and read-only operations) on the accumulator; never reassigned; a module helper it is handed to
	// obeys the same discipline on the parameter that receives it
	_, bad := accumulatorUse(p, fd, acc, accDef, 0)
	// (2) loop exits: errors, or saturation of the accumulator
	w := facts.NewWalker(info)
	accPath := func() string { return w.PathOfVar(acc.(*types.Var)) }
	satFlags := saturationFlags(p, fd, acc)
	saturated := func(f facts.Formula) bool {
		if facts.Entails(f, facts.Atom("b:"+accPath()+".AllowAll")) || facts.Entails(f, facts.Atom("b:"+accPath()+".IsAllConnections()")) {
			return true
		}
		for _, v := range satFlags {
			if facts.Entails(f, facts.Atom("b:"+w.PathOfVar(v))) {
				return true
			}
		}
		return false
	}
	w.OnStmt = func(s ast.Stmt, f facts.Formula) {
		if len(w.Loops) == 0 || bad != "" {
			return
		}
		switch x := s.(type) {
		case *ast.ReturnStmt:
			if IsErrorReturn(p, w, fd.Obj, x, f) {
				return
			}
			// `if err != nil || saturated { return res, err }`: left on an error OR on saturation
			if n := len(x.Results); n > 0 && core.IsErrorType(info.TypeOf(x.Results[n-1])) {
				var goal facts.Formula = facts.MkNot(facts.Atom("nil:" + w.Path(x.Results[n-1])))
				goal = facts.MkOr(goal, facts.Atom("b:"+accPath()+".AllowAll"))
				goal = facts.MkOr(goal, facts.Atom("b:"+accPath()+".IsAllConnections()"))
				for _, v := range satFlags {
					goal = facts.MkOr(goal, facts.Atom("b:"+w.PathOfVar(v)))
				}
				if facts.Entails(f, goal) {
					return
				}
			}
			if !saturated(f) {
				bad = "the loop is left by the return at " + p.Pos(x.Pos()) + " although the accumulator is not saturated: later rules/policies are not added"
			}
		case *ast.BranchStmt:
			if x.Tok == token.BREAK && !saturated(f) {
				bad = "the loop is left by the break at " + p.Pos(x.Pos()) + " although the accumulator is not saturated"
			}
		}
	}
	w.WalkBody(fd.Decl.Body, nil)
	r.Check(bad == "", rule, c, p.Pos(fd.Decl.Pos()), "only Union modifies the accumulator; early exits are error returns or saturation tests on the accumulator itself", bad)
}

// accumulatorUse inspects how fd uses the accumulator object acc (a local, or the parameter that receives it in a
// helper): unions reports a Union with acc as the receiver (directly or in a helper acc is handed to), bad the first
// use that is not monotone.
func accumulatorUse(p *core.Program, fd *core.FuncDecl, acc types.Object, accDef *ast.AssignStmt, depth int) (unions bool, bad string) {
	info := fd.Pkg.TypesInfo
	ast.Inspect(fd.Decl.Body, func(n ast.Node) bool {
		switch x := n.(type) {
		case *ast.AssignStmt:
			if x == accDef {
				return true
			}
			for _, l := range x.Lhs {
				if id, ok := ast.Unparen(l).(*ast.Ident); ok && info.ObjectOf(id) == acc && bad == "" {
					bad = "the accumulator is reassigned at " + p.Pos(x.Pos())
				}
				if _, isId := ast.Unparen(l).(*ast.Ident); !isId {
					if root := core.RootIdent(l); root != nil && info.ObjectOf(root) == acc && bad == "" {
						bad = "the accumulator is written through at " + p.Pos(x.Pos())
					}
				}
			}
		case *ast.CallExpr:
			fn := core.Callee(info, x)
			if fn == nil {
				return true
			}
			if se, ok := ast.Unparen(x.Fun).(*ast.SelectorExpr); ok {
				if id, ok := ast.Unparen(se.X).(*ast.Ident); ok && info.ObjectOf(id) == acc {
					sig := fn.Type().(*types.Signature)
					if core.RefName(fn) == "Union" {
						unions = true
					} else if sig.Results().Len() == 0 && bad == "" {
						bad = "the accumulator is modified by " + core.RefName(fn) + " at " + p.Pos(x.Pos())
					}
					return true
				}
			}
			for i, a := range x.Args {
				id, ok := ast.Unparen(a).(*ast.Ident)
				if !ok || info.ObjectOf(id) != acc {
					continue
				}
				callee := p.ByObj[fn]
				if callee == nil || depth >= 2 {
					continue // not a module function with a body (printing, comparing ...)
				}
				sig := fn.Type().(*types.Signature)
				if i >= sig.Params().Len() {
					continue
				}
				u, b := accumulatorUse(p, callee, sig.Params().At(i), nil, depth+1)
				unions = unions || u
				if b != "" && bad == "" {
					bad = "handed to " + core.FuncKey(fn) + " where " + b
				}
			}
		}
		return true
	})
	return unions, bad
}

// saturationFlags: boolean locals `v, .. := helper(.., acc, ..)` where every return of the module helper gives, at that
// result position, either the constant false or the saturation test of the parameter that receives the accumulator.
func saturationFlags(p *core.Program, fd *core.FuncDecl, acc types.Object) []*types.Var {
	info := fd.Pkg.TypesInfo
	var out []*types.Var
	ast.Inspect(fd.Decl.Body, func(n ast.Node) bool {
		as, ok := n.(*ast.AssignStmt)
		if !ok || len(as.Rhs) != 1 {
			return true
		}
		call, ok := ast.Unparen(as.Rhs[0]).(*ast.CallExpr)
		if !ok {
			return true
		}
		fn := core.Callee(info, call)
		callee := p.ByObj[fn]
		if callee == nil {
			return true
		}
		sig := fn.Type().(*types.Signature)
		var param *types.Var
		for i, a := range call.Args {
			if id, isId := ast.Unparen(a).(*ast.Ident); isId && info.ObjectOf(id) == acc && i < sig.Params().Len() {
				param = sig.Params().At(i)
			}
		}
		if param == nil {
			return true
		}
		cinfo := callee.Pkg.TypesInfo
		for ri, l := range as.Lhs {
			id, isId := ast.Unparen(l).(*ast.Ident)
			if !isId || ri >= sig.Results().Len() {
				continue
			}
			v, isV := info.ObjectOf(id).(*types.Var)
			if !isV {
				continue
			}
			if b, isB := v.Type().Underlying().(*types.Basic); !isB || b.Info()&types.IsBoolean == 0 {
				continue
			}
			ok := true
			nret := 0
			ast.Inspect(callee.Decl.Body, func(m ast.Node) bool {
				if _, isLit := m.(*ast.FuncLit); isLit {
					return false
				}
				ret, isRet := m.(*ast.ReturnStmt)
				if !isRet {
					return true
				}
				nret++
				if len(ret.Results) != sig.Results().Len() {
					ok = false
					return true
				}
				e := ast.Unparen(ret.Results[ri])
				if cid, isC := e.(*ast.Ident); isC && cid.Name == "false" {
					return true
				}
				var x ast.Expr
				switch y := e.(type) {
				case *ast.SelectorExpr:
					if y.Sel.Name == "AllowAll" {
						x = y.X
					}
				case *ast.CallExpr:
					if se, isSe := ast.Unparen(y.Fun).(*ast.SelectorExpr); isSe && se.Sel.Name == "IsAllConnections" && len(y.Args) == 0 {
						x = se.X
					}
				}
				if xid, isX := x.(*ast.Ident); !isX || cinfo.ObjectOf(xid) != types.Object(param) {
					ok = false
				}
				return true
			})
			if ok && nret > 0 {
				out = append(out, v)
			}
		}
		return true
	})
	return out
}

func unionInLoop(p *core.Program, fd *core.FuncDecl, acc types.Object) bool {
	info := fd.Pkg.TypesInfo
	found := false
	var visit func(n ast.Node, inLoop bool)
	visit = func(n ast.Node, inLoop bool) {
		ast.Inspect(n, func(m ast.Node) bool {
			switch x := m.(type) {
			case *ast.RangeStmt:
				if m != n {
					visit(x.Body, true)
					return false
				}
			case *ast.ForStmt:
				if m != n {
					visit(x.Body, true)
					return false
				}
			case *ast.CallExpr:
				if !inLoop {
					return true
				}
				fn := core.Callee(info, x)
				if fn == nil {
					return true
				}
				if se, ok := ast.Unparen(x.Fun).(*ast.SelectorExpr); ok && core.RefName(fn) == "Union" {
					if id, ok := ast.Unparen(se.X).(*ast.Ident); ok && info.ObjectOf(id) == acc {
						found = true
					}
				}
				for i, a := range x.Args {
					if id, ok := ast.Unparen(a).(*ast.Ident); ok && info.ObjectOf(id) == acc {
						if callee := p.ByObj[fn]; callee != nil {
							sig := fn.Type().(*types.Signature)
							if i < sig.Params().Len() {
								if u, _ := accumulatorUse(p, callee, sig.Params().At(i), nil, 1); u {
									found = true
								}
							}
						}
					}
				}
			}
			return true
		})
	}
	visit(fd.Decl.Body, false)
	return found
}

// ---------------------------------------------------------------- C14-b default is the top element

func DefaultIsTop(p *core.Program, r *core.Report, rule string) {
	fd := p.Func(core.PkgEval, "PolicyEngine", "getXgressDefaultConns")
	if fd == nil {
		r.Lost(rule, "(*PolicyEngine).getXgressDefaultConns")
		return
	}
	info := fd.Pkg.TypesInfo
	n := 0
	ast.Inspect(fd.Decl.Body, func(nd ast.Node) bool {
		as, ok := nd.(*ast.AssignStmt)
		if !ok || len(as.Lhs) != 1 || len(as.Rhs) != 1 {
			return true
		}
		if f := core.FieldOf(info, as.Lhs[0]); f == nil || core.RefName(f) != "AllowedConns" {
			return true
		}
		c, ok := ast.Unparen(as.Rhs[0]).(*ast.CallExpr)
		if !ok {
			return true
		}
		if fn := core.Callee(info, c); fn != nil && core.RefName(fn) == "MakeConnectionSet" && len(c.Args) == 1 {
			v, _ := core.ConstString(info, c.Args[0])
			fm, w, found := FactsAt(fd, as, nil)
			_ = w
			cond := ""
			if found {
				for _, a := range facts.Atoms(fm) {
					if strings.HasPrefix(a, "nil:") && strings.HasSuffix(a, "baselineAdminNetpol") && facts.Entails(fm, facts.Atom(a)) {
						cond = "no BANP"
					}
					if strings.HasSuffix(a, ".IsEmpty()") && facts.Entails(fm, facts.Atom(a)) {
						cond = "BANP does not capture the pair"
					}
				}
			}
			n++
			r.Check(v == "true" && cond != "", rule, fmt.Sprintf("%s: system default #%d is allow-all", fd.Key(), n), p.Pos(as.Pos()), "MakeConnectionSet(true) under: "+cond,
				"the default for traffic no policy governs is not the full set (or is assigned outside the no-BANP / not-captured rows): a newly governing policy could then add connections")
		}
		return true
	})
	if n < 2 {
		r.Bad(rule, fd.Key()+": both default rows (no BANP, BANP not capturing) yield allow-all", p.Pos(fd.Decl.Pos()), fmt.Sprintf("found %d allow-all defaults, expected 2", n))
	}
}

// ---------------------------------------------------------------- C14-c locality

// PolicyLocality: the NetworkPolicy store is read only by the selection
// function (which filters by namespace key and Selects) and by the IP
// partition; every policy handed to the evaluation was selected for the
// queried pod and direction.
func PolicyLocality(p *core.Program, r *core.Report, rule string) {
	fld := p.Field(core.PkgEval, "PolicyEngine", "netpolsMap")
	if fld == nil {
		r.Lost(rule, "PolicyEngine.netpolsMap")
		return
	}
	allowed := map[string]string{
		"getPoliciesSelectingPod": "the selection function", "getDisjointIPBlocks": "IP partition (set of all referenced blocks)",
		"insertNetworkPolicy": "store", "deleteNetworkPolicy": "store", "ClearResources": "store", "NewPolicyEngine": "constructor",
	}
	for _, fd := range p.Funcs {
		info := fd.Pkg.TypesInfo
		mention := token.NoPos
		ast.Inspect(fd.Decl.Body, func(n ast.Node) bool {
			if se, ok := n.(*ast.SelectorExpr); ok && core.FieldOf(info, se) == fld && !mention.IsValid() {
				mention = se.Pos()
			}
			return true
		})
		if !mention.IsValid() {
			continue
		}
		why, ok := allowed[core.RefName(fd.Obj)]
		if !ok {
			// a helper extracted from a reviewed function since the reference (its only caller), or a function that absorbed one
			for _, owner := range SiteOwners(p, fd) {
				if w2, ok2 := allowed[owner[strings.LastIndex(owner, ".")+1:]]; ok2 {
					why, ok = w2+" (code moved: reviewed as part of "+owner+")", true
				}
			}
		}
		r.Check(ok, rule, fd.Key()+": touches the NetworkPolicy store", p.Pos(mention), why,
			"the NetworkPolicy store is read outside the selection function and the IP partition: policies that do not select a pod could influence its connections (locality)")
	}
	r.Floor(rule, 5)
	// every policy appended to the selection passed Selects(pod, direction) for the queried pod, and comes from the pod's namespace entry
	sel := p.Func(core.PkgEval, "PolicyEngine", "getPoliciesSelectingPod")
	if sel == nil {
		r.Lost(rule, "(*PolicyEngine).getPoliciesSelectingPod")
		return
	}
	info := sel.Pkg.TypesInfo
	w := facts.NewWalker(info)
	var selectsVar *types.Var
	var selectsCall *ast.CallExpr
	ast.Inspect(sel.Decl.Body, func(n ast.Node) bool {
		if as, ok := n.(*ast.AssignStmt); ok && len(as.Rhs) == 1 {
			if c, ok := ast.Unparen(as.Rhs[0]).(*ast.CallExpr); ok {
				if fn := core.Callee(info, c); fn != nil && core.RefName(fn) == "Selects" {
					if id, ok := as.Lhs[0].(*ast.Ident); ok {
						selectsVar, _ = info.ObjectOf(id).(*types.Var)
						selectsCall = c
					}
				}
			}
		}
		return true
	})
	if selectsVar == nil {
		r.Bad(rule, sel.Key()+": policies are filtered by Selects", p.Pos(sel.Decl.Pos()), "no call of policy.Selects(pod, direction) found")
		return
	}
	sig := sel.Obj.Type().(*types.Signature)
	okArgs := len(selectsCall.Args) == 2
	if okArgs {
		// second argument is the direction parameter; first derives from the peer parameter
		if id, ok := ast.Unparen(selectsCall.Args[1]).(*ast.Ident); !ok || info.ObjectOf(id) != sig.Params().At(1) {
			okArgs = false
		}
	}
	r.Check(okArgs, rule, sel.Key()+": Selects is asked about the queried pod and direction", p.Pos(selectsCall.Pos()), "Selects(p, direction) with the function's own direction parameter", "Selects is not called with the queried direction")
	appended := false
	w.OnStmt = func(s ast.Stmt, f facts.Formula) {
		as, ok := s.(*ast.AssignStmt)
		if !ok || len(as.Rhs) != 1 {
			return
		}
		c, ok := ast.Unparen(as.Rhs[0]).(*ast.CallExpr)
		if !ok || !core.IsBuiltinCall(info, c, "append") {
			return
		}
		appended = true
		r.Check(facts.Entails(f, facts.Atom("b:"+w.PathOfVar(selectsVar))), rule, sel.Key()+": a policy is added to the selection only if it selects the pod", p.Pos(as.Pos()),
			"append under selects == true", "a policy is appended to the selection without the positive Selects verdict")
	}
	w.WalkBody(sel.Decl.Body, nil)
	if !appended {
		r.Bad(rule, sel.Key()+": a policy is added to the selection only if it selects the pod", p.Pos(sel.Decl.Pos()), "no append found")
	}
	// the candidates are the policies of the pod's own namespace
	okNs := false
	ast.Inspect(sel.Decl.Body, func(n ast.Node) bool {
		if ix, ok := n.(*ast.IndexExpr); ok && core.FieldOf(info, ix.X) == fld {
			if se, ok := ast.Unparen(ix.Index).(*ast.SelectorExpr); ok && se.Sel.Name == "Namespace" {
				okNs = true
			}
		}
		return true
	})
	r.Check(okNs, rule, sel.Key()+": candidates are the policies of the pod's namespace", p.Pos(sel.Decl.Pos()), "netpolsMap is indexed by the pod's Namespace", "the candidate policies are not taken from the pod's own namespace entry")
	// Selects itself: namespace, direction, selector
	if fd := p.Func(core.PkgK8s, "NetworkPolicy", "Selects"); fd != nil {
		finfo := fd.Pkg.TypesInfo
		hasNs, hasDir := false, false
		ast.Inspect(fd.Decl.Body, func(n ast.Node) bool {
			switch x := n.(type) {
			case *ast.BinaryExpr:
				l, rr := core.ExprStr(x.X), core.ExprStr(x.Y)
				if x.Op == token.NEQ && strings.HasSuffix(l, ".Namespace") && strings.HasSuffix(rr, ".Namespace") {
					hasNs = true
				}
			case *ast.CallExpr:
				if fn := core.Callee(finfo, x); fn != nil && core.RefName(fn) == "policyAffectsDirection" {
					hasDir = true
				}
			}
			return true
		})
		r.Check(hasNs && hasDir, rule, fd.Key()+": selection requires same namespace and an affected direction", p.Pos(fd.Decl.Pos()), "namespace equality test and policyAffectsDirection(direction)", "Selects no longer tests the namespace and the direction")
	}
}

// ---------------------------------------------------------------- helpers shared with C05/C06

func sortedKeys(m map[string]bool) []string {
	var out []string
	for k := range m {
		out = append(out, k)
	}
	sort.Strings(out)
	return out
}
