package rules

import (
	"fmt"
	"go/ast"
	"go/token"
	"go/types"
	"strings"

	"npverif/internal/core"
	"npverif/internal/facts"
)

// ---------------------------------------------------------------- C01-b operator polarity

// DirectionCombination: a connection is allowed iff egress from src AND
// ingress to dst allow it: the list side intersects the two direction results,
// the eval side returns true only when both direction verdicts are true.
func DirectionCombination(p *core.Program, r *core.Report, rule string) {
	// list side
	if entry := p.Func(core.PkgEval, "PolicyEngine", "allAllowedConnectionsBetweenPeers"); entry == nil {
		r.Lost(rule, "(*PolicyEngine).allAllowedConnectionsBetweenPeers")
	} else {
		fd := directionSite(p, r, rule, entry, "allAllowedXgressConnections")
		info := fd.Pkg.TypesInfo
		dirVar := map[types.Object]string{} // result variable -> "ingress"/"egress"
		ast.Inspect(fd.Decl.Body, func(n ast.Node) bool {
			as, ok := n.(*ast.AssignStmt)
			if !ok || len(as.Rhs) != 1 {
				return true
			}
			call, ok := ast.Unparen(as.Rhs[0]).(*ast.CallExpr)
			if !ok {
				return true
			}
			fn := core.Callee(info, call)
			if fn == nil || core.RefName(fn) != "allAllowedXgressConnections" {
				return true
			}
			if v, ok := directionConstOfCall(info, fd.Decl.Body, call); ok {
				if id, ok := as.Lhs[0].(*ast.Ident); ok {
					if v == "true" {
						dirVar[info.ObjectOf(id)] = "ingress"
					} else {
						dirVar[info.ObjectOf(id)] = "egress"
					}
				}
			}
			return true
		})
		found := false
		ast.Inspect(fd.Decl.Body, func(n ast.Node) bool {
			call, ok := n.(*ast.CallExpr)
			if !ok || len(call.Args) != 1 {
				return true
			}
			fn := core.Callee(info, call)
			if fn == nil || core.RecvTypeName(fn.Type().(*types.Signature)) != "ConnectionSet" {
				return true
			}
			se, ok := ast.Unparen(call.Fun).(*ast.SelectorExpr)
			if !ok {
				return true
			}
			rid, ok1 := ast.Unparen(se.X).(*ast.Ident)
			aid, ok2 := ast.Unparen(call.Args[0]).(*ast.Ident)
			if !ok1 || !ok2 {
				return true
			}
			d1, d2 := dirVar[info.ObjectOf(rid)], dirVar[info.ObjectOf(aid)]
			if d1 == "" || d2 == "" || d1 == d2 {
				return true
			}
			found = true
			r.Check(core.RefName(fn) == "Intersection", rule, fd.Key()+": egress and ingress results are combined by Intersection", p.Pos(call.Pos()),
				"resolved callee (*ConnectionSet).Intersection", "the two direction results are combined by "+core.RefName(fn)+" instead of Intersection: a connection must be allowed by egress from the source AND ingress to the destination")
			// and the combined set is what is returned
			return true
		})
		if !found {
			r.Bad(rule, fd.Key()+": egress and ingress results are combined by Intersection", p.Pos(fd.Decl.Pos()), "no combination of the egress result with the ingress result was found (both direction calls with constant direction, one the receiver and one the argument of a ConnectionSet operation)")
		}
		if len(dirVar) != 2 {
			r.Bad(rule, fd.Key()+": both directions are evaluated", p.Pos(fd.Decl.Pos()), fmt.Sprintf("expected one egress and one ingress evaluation with constant direction, found %d", len(dirVar)))
		} else {
			r.OK(rule, fd.Key()+": both directions are evaluated", p.Pos(fd.Decl.Pos()), "allAllowedXgressConnections is called once with isIngress=false and once with isIngress=true")
		}
	}
	// eval side
	if entry := p.Func(core.PkgEval, "PolicyEngine", "CheckIfAllowed"); entry == nil {
		r.Lost(rule, "(*PolicyEngine).CheckIfAllowed")
	} else {
		fd := directionSite(p, r, rule, entry, "allowedXgressConnection")
		info := fd.Pkg.TypesInfo
		var eg, in *types.Var
		ast.Inspect(fd.Decl.Body, func(n ast.Node) bool {
			as, ok := n.(*ast.AssignStmt)
			if !ok || len(as.Rhs) != 1 {
				return true
			}
			call, ok := ast.Unparen(as.Rhs[0]).(*ast.CallExpr)
			if !ok {
				return true
			}
			fn := core.Callee(info, call)
			if fn == nil || core.RefName(fn) != "allowedXgressConnection" {
				return true
			}
			if v, ok := directionConstOfCall(info, fd.Decl.Body, call); ok {
				if id, ok := as.Lhs[0].(*ast.Ident); ok {
					vv, _ := info.ObjectOf(id).(*types.Var)
					if v == "true" {
						in = vv
					} else {
						eg = vv
					}
				}
			}
			return true
		})
		if eg == nil || in == nil {
			r.Bad(rule, fd.Key()+": both directions are evaluated", p.Pos(fd.Decl.Pos()), "expected one egress and one ingress evaluation with constant direction")
		} else {
			r.OK(rule, fd.Key()+": both directions are evaluated", p.Pos(fd.Decl.Pos()), "allowedXgressConnection is called with isIngress=false and isIngress=true")
			w := facts.NewWalker(info)
			seenPending := false
			// state 1 once the egress verdict exists: from then on the verdict is a conjunction of both
			var egAssign ast.Node
			ast.Inspect(fd.Decl.Body, func(n ast.Node) bool {
				if as, ok := n.(*ast.AssignStmt); ok {
					if id, ok := as.Lhs[0].(*ast.Ident); ok && info.ObjectOf(id) == eg {
						egAssign = as
					}
				}
				return true
			})
			w.Transfer = func(st int, n ast.Node, f facts.Formula) int {
				if n == egAssign {
					return 1
				}
				return st
			}
			w.OnExit = func(st int, ret *ast.ReturnStmt, f facts.Formula) {
				if st != 1 || ret == nil || IsErrorReturn(p, w, fd.Obj, ret, f) || len(ret.Results) == 0 {
					return
				}
				seenPending = true
				res := ast.Unparen(ret.Results[0])
				egA := facts.Atom("b:" + w.PathOfVar(eg))
				c := fd.Key() + ": return " + core.ExprStr(res) + " after the egress verdict"
				if v, ok := core.ConstString(info, res); ok {
					if v == "false" {
						r.Check(facts.Entails(f, facts.Not{X: egA}), rule, c, p.Pos(ret.Pos()), "false is returned under !egressRes", "a constant false is returned although the egress verdict may be true")
					} else {
						r.Bad(rule, c, p.Pos(ret.Pos()), "a constant true is returned after only one direction was evaluated")
					}
					return
				}
				if id, ok := res.(*ast.Ident); ok && info.ObjectOf(id) == in {
					r.Check(facts.Entails(f, egA), rule, c, p.Pos(ret.Pos()), "the ingress verdict is returned under egressRes (conjunction)", "the ingress verdict is returned although the egress verdict may be false")
					return
				}
				r.Bad(rule, c, p.Pos(ret.Pos()), "the final verdict is neither `false` under a negative egress verdict nor the ingress verdict under a positive one")
			}
			w.WalkBody(fd.Decl.Body, nil)
			if !seenPending {
				r.Bad(rule, fd.Key()+": verdict is the conjunction of both directions", p.Pos(fd.Decl.Pos()), "no return after the egress evaluation found")
			}
		}
	}
	r.Floor(rule, 5)
}

// directionSite: the function in which the two directions are evaluated - the entry itself, or the method of the engine
// it delegates the uncached computation to (then every successful return of the entry that follows the delegation
// hands back the delegate's verdict unchanged, which is checked here).
func directionSite(p *core.Program, r *core.Report, rule string, entry *core.FuncDecl, dirFn string) *core.FuncDecl {
	calls := func(g *core.FuncDecl) bool {
		found := false
		ast.Inspect(g.Decl.Body, func(n ast.Node) bool {
			if c, ok := n.(*ast.CallExpr); ok {
				if fn := core.Callee(g.Pkg.TypesInfo, c); fn != nil && core.RefName(fn) == dirFn && p.IsModuleFunc(fn) {
					found = true
				}
			}
			return !found
		})
		return found
	}
	if calls(entry) {
		return entry
	}
	info := entry.Pkg.TypesInfo
	var site *core.FuncDecl
	var resVar types.Object
	var assign ast.Node
	ast.Inspect(entry.Decl.Body, func(n ast.Node) bool {
		as, ok := n.(*ast.AssignStmt)
		if !ok || len(as.Rhs) != 1 || site != nil {
			return true
		}
		c, ok := ast.Unparen(as.Rhs[0]).(*ast.CallExpr)
		if !ok {
			return true
		}
		hd := p.ByObj[core.Callee(info, c)]
		if hd == nil || hd.Pkg.PkgPath != entry.Pkg.PkgPath || !calls(hd) {
			return true
		}
		if id, isId := as.Lhs[0].(*ast.Ident); isId {
			site, resVar, assign = hd, info.ObjectOf(id), as
		}
		return true
	})
	if site == nil {
		return entry
	}
	w := facts.NewWalker(info)
	w.Transfer = func(st int, n ast.Node, f facts.Formula) int {
		if n == assign {
			return 1
		}
		return st
	}
	bad := ""
	w.OnExit = func(st int, ret *ast.ReturnStmt, f facts.Formula) {
		if st != 1 || ret == nil || len(ret.Results) == 0 || IsErrorReturn(p, w, entry.Obj, ret, f) {
			return
		}
		if id, ok := ast.Unparen(ret.Results[0]).(*ast.Ident); !ok || info.ObjectOf(id) != resVar {
			bad = "`return " + core.ExprStr(ret.Results[0]) + "` at " + p.Pos(ret.Pos())
		}
	}
	w.WalkBody(entry.Decl.Body, nil)
	r.Check(bad == "", rule, entry.Key()+": hands back the verdict of "+core.RefName(site.Obj)+" unchanged", p.Pos(assign.Pos()), "", "after delegating the evaluation of both directions the entry returns something else: "+bad)
	return site
}

// IPMembershipPolarity: an IP peer matches an ipBlock rule iff the peer's
// block is a subset of the rule's block (CIDR minus excepts).
func IPMembershipPolarity(p *core.Program, r *core.Report, rule string) {
	fd := p.Func(core.PkgK8s, "NetworkPolicy", "ruleSelectsPeer")
	if fd == nil {
		r.Lost(rule, "(*NetworkPolicy).ruleSelectsPeer")
		return
	}
	info := fd.Pkg.TypesInfo
	originOf := func(e ast.Expr) string {
		e = ast.Unparen(e)
		if c, ok := e.(*ast.CallExpr); ok {
			if fn := core.Callee(info, c); fn != nil {
				return core.RefName(fn)
			}
		}
		if id, ok := e.(*ast.Ident); ok {
			o := info.ObjectOf(id)
			name := ""
			ast.Inspect(fd.Decl.Body, func(n ast.Node) bool {
				if as, ok := n.(*ast.AssignStmt); ok && len(as.Rhs) == 1 {
					if lid, ok := as.Lhs[0].(*ast.Ident); ok && info.ObjectOf(lid) == o {
						if c, ok := ast.Unparen(as.Rhs[0]).(*ast.CallExpr); ok {
							if fn := core.Callee(info, c); fn != nil {
								name = core.RefName(fn)
							}
						}
					}
				}
				return true
			})
			return name
		}
		return ""
	}
	found := false
	ast.Inspect(fd.Decl.Body, func(n ast.Node) bool {
		call, ok := n.(*ast.CallExpr)
		if !ok || len(call.Args) != 1 {
			return true
		}
		fn := core.Callee(info, call)
		if fn == nil || fn.Pkg() == nil || !strings.HasSuffix(fn.Pkg().Path(), "models/pkg/netset") {
			return true
		}
		se, ok := ast.Unparen(call.Fun).(*ast.SelectorExpr)
		if !ok {
			return true
		}
		ro, ao := originOf(se.X), originOf(call.Args[0])
		if (ro == "GetPeerIPBlock" && ao == "parseNetpolCIDR") || (ro == "parseNetpolCIDR" && ao == "GetPeerIPBlock") {
			found = true
			ok := core.RefName(fn) == "IsSubset" && ro == "GetPeerIPBlock"
			r.Check(ok, rule, fd.Key()+": IP peer is matched by peerBlock.IsSubset(ruleBlock)", p.Pos(call.Pos()),
				"receiver is the peer's block, argument the rule's CIDR-minus-excepts block, callee netset IsSubset",
				fmt.Sprintf("the IP match is %s.%s(%s): an external peer matches a rule iff its whole range lies inside the rule's block (overlap or the reverse containment would report connectivity for addresses the rule excludes)", ro, core.RefName(fn), ao))
		}
		return true
	})
	if !found {
		r.Bad(rule, fd.Key()+": IP peer is matched by peerBlock.IsSubset(ruleBlock)", p.Pos(fd.Decl.Pos()), "no netset comparison between the peer's block and the block parsed from the rule was found")
	}
}

// ---------------------------------------------------------------- C01-c policyTypes defaulting

// PolicyTypesTable checks the decision table of policyAffectsDirection:
//
//	policyTypes set   -> membership of the direction
//	unset, Ingress    -> true
//	unset, Egress     -> the policy has egress rules
//
// and that spec.policyTypes is interpreted nowhere else.
func PolicyTypesTable(p *core.Program, r *core.Report, rule string) {
	fd := p.Func(core.PkgK8s, "NetworkPolicy", "policyAffectsDirection")
	if fd == nil {
		r.Lost(rule, "(*NetworkPolicy).policyAffectsDirection")
		return
	}
	info := fd.Pkg.TypesInfo
	sig := fd.Obj.Type().(*types.Signature)
	if sig.Params().Len() != 1 {
		r.Add(rule, fd.Key()+": signature", p.Pos(fd.Decl.Pos()), core.Undecided, "expected one direction parameter")
		return
	}
	dir := sig.Params().At(0)
	w := facts.NewWalker(info)
	// the emptiness atom of Spec.PolicyTypes, whatever the spelling of the receiver path
	typesEmpty := func(f facts.Formula) (facts.Formula, bool) {
		for _, a := range facts.Atoms(f) {
			if strings.HasPrefix(a, "empty:") && strings.HasSuffix(a, ".PolicyTypes") {
				return facts.Atom(a), true
			}
		}
		return nil, false
	}
	rows := map[string]bool{}
	var inLoopOverTypes func() (bool, *ast.RangeStmt)
	inLoopOverTypes = func() (bool, *ast.RangeStmt) {
		for _, l := range w.Loops {
			if rs, ok := l.(*ast.RangeStmt); ok {
				if f := core.FieldOf(info, rs.X); f != nil && core.RefName(f) == "PolicyTypes" {
					return true, rs
				}
			}
		}
		return false, nil
	}
	w.OnStmt = func(s ast.Stmt, f facts.Formula) {
		ret, ok := s.(*ast.ReturnStmt)
		if !ok || len(ret.Results) != 1 {
			return
		}
		res := ast.Unparen(ret.Results[0])
		pos := p.Pos(ret.Pos())
		bg := facts.MkAnd(f, facts.LenImplications(f))
		te, haveTE := typesEmpty(bg)
		isIngress := facts.Atom("eq:" + w.PathOfVar(dir) + "==\"Ingress\"")
		if in, rs := inLoopOverTypes(); in {
			// membership loop: a positive answer only under direction == element
			if v, ok := core.ConstString(info, res); ok && v == "true" {
				rows["member"] = true
				okEq := false
				if vid, ok := rs.Value.(*ast.Ident); ok {
					vv, _ := info.ObjectOf(vid).(*types.Var)
					a, b := w.PathOfVar(dir), w.PathOfVar(vv)
					if a > b {
						a, b = b, a
					}
					okEq = facts.Entails(f, facts.Atom("eq:"+a+"=="+b))
				}
				r.Check(okEq, rule, fd.Key()+": explicit policyTypes -> true only for a listed direction", pos, "under direction == element of spec.policyTypes", "true is returned inside the loop over spec.policyTypes without the test direction == element")
			}
			return
		}
		if v, ok := core.ConstString(info, res); ok {
			switch v {
			case "false":
				rows["notmember"] = true
				r.Check(haveTE && facts.Entails(bg, facts.Not{X: te}), rule, fd.Key()+": explicit policyTypes without the direction -> false", pos, "constant false only when spec.policyTypes is non-empty (after the membership loop)", "a constant false is returned although spec.policyTypes may be unset: the defaulting rules do not apply")
			case "true":
				rows["default-ingress"] = true
				r.Check(haveTE && facts.Entails(bg, te) && facts.Entails(bg, isIngress), rule, fd.Key()+": unset policyTypes, Ingress -> true", pos, "constant true under empty spec.policyTypes and direction == Ingress", "a constant true is returned outside the row (policyTypes unset, direction Ingress): path condition "+facts.StripVersions(facts.String(f)))
			}
			return
		}
		// the membership test written as a library call: slices.Contains(spec.policyTypes, direction)
		if c, isC := res.(*ast.CallExpr); isC && len(c.Args) == 2 {
			if fn := core.Callee(info, c); fn != nil && fn.Pkg() != nil && fn.Pkg().Path() == "slices" && core.RefName(fn) == "Contains" {
				fl := core.FieldOf(info, c.Args[0])
				id, isID := ast.Unparen(c.Args[1]).(*ast.Ident)
				if fl != nil && core.RefName(fl) == "PolicyTypes" && isID && info.ObjectOf(id) == dir {
					rows["member"], rows["notmember"] = true, true
					r.Check(haveTE && facts.Entails(bg, facts.Not{X: te}), rule, fd.Key()+": explicit policyTypes -> listed directions only (library membership test)", pos, "slices.Contains(spec.policyTypes, direction) under non-empty spec.policyTypes", "the membership answer is given although spec.policyTypes may be unset: the defaulting rules do not apply")
					return
				}
			}
		}
		// a computed answer: the egress default `len(Spec.Egress) > 0`
		mentionsEgress := false
		ast.Inspect(res, func(n ast.Node) bool {
			if se, ok := n.(*ast.SelectorExpr); ok {
				if fl := core.FieldOf(info, se); fl != nil && core.RefName(fl) == "Egress" {
					mentionsEgress = true
				}
			}
			return true
		})
		if mentionsEgress {
			rows["default-egress"] = true
			r.Check(haveTE && facts.Entails(bg, te) && facts.Entails(bg, facts.Not{X: isIngress}), rule, fd.Key()+": unset policyTypes, Egress -> has egress rules", pos,
				"the egress-rules default applies only under empty spec.policyTypes and direction != Ingress",
				"the answer `has egress rules` is given although spec.policyTypes may be set explicitly (or the direction may be Ingress): an explicit policyTypes list must be honoured as written; path condition "+facts.StripVersions(facts.String(f)))
			return
		}
		r.Add(rule, fd.Key()+": return "+core.ExprStr(res), pos, core.Undecided, "unrecognised row of the policyTypes table")
	}
	w.WalkBody(fd.Decl.Body, nil)
	for _, row := range []string{"member", "notmember", "default-ingress", "default-egress"} {
		if !rows[row] {
			r.Bad(rule, fd.Key()+": table has the row "+row, p.Pos(fd.Decl.Pos()), "the policyTypes decision table lost a row")
		}
	}
	// who-may-read spec.policyTypes
	n := 0
	for _, f := range p.Funcs {
		for k, pos := range fieldReadsIn(p, f) {
			if k == "NetworkPolicySpec.PolicyTypes" {
				n++
				r.Check(f.Obj == fd.Obj, rule+"-owner", f.Key()+": reads spec.policyTypes", pos, "the single interpreter of policyTypes",
					"spec.policyTypes is interpreted outside policyAffectsDirection: two places deciding which directions a policy governs can disagree on the defaulting rules (explicit vs defaulted spellings)")
			}
		}
	}
	r.Floor(rule+"-owner", 1)
}

// ---------------------------------------------------------------- C01-d automatic namespace label

func AutoNamespaceLabel(p *core.Program, r *core.Report, rule string) {
	ctor := p.Func(core.PkgK8s, "", "NamespaceFromCoreObject")
	if ctor == nil {
		r.Lost(rule, "k8s.NamespaceFromCoreObject")
		return
	}
	info := ctor.Pkg.TypesInfo
	// the store of the name label: n.Labels[K8sNsNameLabelKey] = ns.Name, after the copy loop, on every path (guarded only by its own absence)
	var store *ast.AssignStmt
	ast.Inspect(ctor.Decl.Body, func(n ast.Node) bool {
		as, ok := n.(*ast.AssignStmt)
		if !ok || len(as.Lhs) != 1 {
			return true
		}
		ix, ok := ast.Unparen(as.Lhs[0]).(*ast.IndexExpr)
		if !ok {
			return true
		}
		if constName(info, ix.Index) == "K8sNsNameLabelKey" {
			store = as
		}
		return true
	})
	if store == nil {
		r.Bad(rule, ctor.Key()+": stores the kubernetes.io/metadata.name label", p.Pos(ctor.Decl.Pos()), "no store of common.K8sNsNameLabelKey into the namespace labels: namespaceSelectors on the automatic label never match")
	} else {
		// value is the namespace's name
		okVal := false
		if se, ok := ast.Unparen(store.Rhs[0]).(*ast.SelectorExpr); ok && se.Sel.Name == "Name" {
			okVal = true
		}
		// guarded only by the absence test of the same key
		fm, _, found := FactsAt(ctor, store, nil)
		okGuard := found
		if found {
			for _, a := range facts.Atoms(fm) {
				if !strings.Contains(a, "ok") {
					okGuard = false
				}
			}
		}
		r.Check(okVal && okGuard, rule, ctor.Key()+": stores the kubernetes.io/metadata.name label", p.Pos(store.Pos()),
			"label key K8sNsNameLabelKey is set to the namespace name, conditioned only on its absence", "the automatic name label is not stored with the namespace's name unconditionally (or only when absent)")
	}
	// every store into namespacesMap is a value returned by the constructor
	fld := p.Field(core.PkgEval, "PolicyEngine", "namespacesMap")
	if fld == nil {
		r.Lost(rule, "PolicyEngine.namespacesMap")
		return
	}
	n := 0
	for _, fd := range p.FuncsIn(core.PkgEval) {
		finfo := fd.Pkg.TypesInfo
		ast.Inspect(fd.Decl.Body, func(nd ast.Node) bool {
			as, ok := nd.(*ast.AssignStmt)
			if !ok {
				return true
			}
			for i, l := range as.Lhs {
				ix, ok := ast.Unparen(l).(*ast.IndexExpr)
				if !ok || core.FieldOf(finfo, ix.X) != fld || i >= len(as.Rhs) {
					continue
				}
				n++
				okSrc := false
				if id, ok := ast.Unparen(as.Rhs[i]).(*ast.Ident); ok {
					o := finfo.ObjectOf(id)
					ast.Inspect(fd.Decl.Body, func(m ast.Node) bool {
						if a2, ok := m.(*ast.AssignStmt); ok && len(a2.Rhs) == 1 {
							if lid, ok := a2.Lhs[0].(*ast.Ident); ok && finfo.ObjectOf(lid) == o {
								if c, ok := ast.Unparen(a2.Rhs[0]).(*ast.CallExpr); ok && core.Callee(finfo, c) == ctor.Obj {
									okSrc = true
								}
							}
						}
						return true
					})
				}
				r.Check(okSrc, rule, fd.Key()+": stores into namespacesMap a value built by NamespaceFromCoreObject", p.Pos(as.Pos()),
					"the stored namespace went through the constructor that adds the automatic label", "a namespace object is stored that did not come from NamespaceFromCoreObject: it may lack the kubernetes.io/metadata.name label")
			}
			return true
		})
	}
	r.Floor(rule, 2)
	_ = n
}

// ---------------------------------------------------------------- C01-e partition completeness

func PartitionCompleteness(p *core.Program, r *core.Report, rule string) {
	fd := p.Func(core.PkgEval, "PolicyEngine", "getDisjointIPBlocks")
	if fd == nil {
		r.Lost(rule, "(*PolicyEngine).getDisjointIPBlocks")
		return
	}
	info := fd.Pkg.TypesInfo
	// the whole address space is a partition input
	var disjoint *ast.CallExpr
	ast.Inspect(fd.Decl.Body, func(n ast.Node) bool {
		if c, ok := n.(*ast.CallExpr); ok {
			if fn := core.Callee(info, c); fn != nil && core.RefName(fn) == "DisjointIPBlocks" {
				disjoint = c
			}
		}
		return true
	})
	if disjoint == nil {
		r.Bad(rule, fd.Key()+": partition computed by netset.DisjointIPBlocks", p.Pos(fd.Decl.Pos()), "the call of netset.DisjointIPBlocks is gone")
		return
	}
	hasAll := false
	var allVar types.Object
	ast.Inspect(fd.Decl.Body, func(n ast.Node) bool {
		if as, ok := n.(*ast.AssignStmt); ok && len(as.Rhs) == 1 {
			if c, ok := ast.Unparen(as.Rhs[0]).(*ast.CallExpr); ok {
				if fn := core.Callee(info, c); fn != nil && core.RefName(fn) == "GetCidrAll" {
					if id, ok := as.Lhs[0].(*ast.Ident); ok {
						allVar = info.ObjectOf(id)
					}
				}
			}
		}
		return true
	})
	var lookIn func(e ast.Node, depth int)
	lookIn = func(e ast.Node, depth int) {
		ast.Inspect(e, func(n ast.Node) bool {
			if id, ok := n.(*ast.Ident); ok && depth < 3 {
				// a local that only names an expression (allIPs := []*IPBlock{GetCidrAll()}) stands for it
				if d := ResolveLocal(info, fd.Decl.Body, id); d != ast.Expr(id) {
					lookIn(d, depth+1)
				}
			}
			if c, ok := n.(*ast.CallExpr); ok {
				if fn := core.Callee(info, c); fn != nil && core.RefName(fn) == "GetCidrAll" {
					hasAll = true
				}
			}
			return true
		})
	}
	for _, arg := range disjoint.Args {
		lookIn(arg, 0)
		ast.Inspect(arg, func(n ast.Node) bool {
			if id, ok := n.(*ast.Ident); ok && allVar != nil && info.ObjectOf(id) == allVar {
				hasAll = true
			}
			if c, ok := n.(*ast.CallExpr); ok {
				if fn := core.Callee(info, c); fn != nil && core.RefName(fn) == "GetCidrAll" {
					hasAll = true
				}
			}
			return true
		})
	}
	r.Check(hasAll, rule, fd.Key()+": 0.0.0.0/0 is an input of the partition", p.Pos(disjoint.Pos()), "netset.GetCidrAll() is passed to DisjointIPBlocks", "the full address range is no longer a partition input: addresses outside every policy CIDR belong to no IP peer")
	// the result of the partition is returned unfiltered
	okRet := false
	ast.Inspect(fd.Decl.Body, func(n ast.Node) bool {
		if ret, ok := n.(*ast.ReturnStmt); ok && len(ret.Results) == 2 && core.IsNil(info, ret.Results[1]) {
			if id, ok := ast.Unparen(ret.Results[0]).(*ast.Ident); ok {
				// defined by the DisjointIPBlocks call
				ast.Inspect(fd.Decl.Body, func(m ast.Node) bool {
					if as, ok := m.(*ast.AssignStmt); ok && len(as.Rhs) == 1 && ast.Unparen(as.Rhs[0]) == ast.Expr(disjoint) {
						if lid, ok := as.Lhs[0].(*ast.Ident); ok && info.ObjectOf(lid) == info.ObjectOf(id) {
							okRet = true
						}
					}
					return true
				})
			}
			if ast.Unparen(ret.Results[0]) == ast.Expr(disjoint) {
				okRet = true
			}
		}
		return true
	})
	r.Check(okRet, rule, fd.Key()+": the partition is returned as computed", p.Pos(fd.Decl.Pos()), "the value returned is the result of DisjointIPBlocks", "the list returned is not the unmodified result of DisjointIPBlocks")
	// every policy block the matcher can distinguish is a partition input
	FieldCoverage(p, r, rule+"-fields", "IP partition (getDisjointIPBlocks)", []*types.Func{fd.Obj}, append([]string{}, FieldsPartition...), "the partition must be built from every (cidr, except) pair the rule matcher reads")
	// both users parse (CIDR, Except) of the same ipBlock with the same function
	parse := p.Func(core.PkgK8s, "NetworkPolicy", "parseNetpolCIDR")
	if parse == nil {
		r.Lost(rule, "(*NetworkPolicy).parseNetpolCIDR")
		return
	}
	sites := CallsTo(p, parse.Obj)
	for _, cs := range sites {
		okArgs := false
		if len(cs.Call.Args) == 2 {
			a0, ok0 := ast.Unparen(cs.Call.Args[0]).(*ast.SelectorExpr)
			a1, ok1 := ast.Unparen(cs.Call.Args[1]).(*ast.SelectorExpr)
			if ok0 && ok1 && a0.Sel.Name == "CIDR" && a1.Sel.Name == "Except" && core.ExprStr(a0.X) == core.ExprStr(a1.X) {
				okArgs = true
			}
		}
		r.Check(okArgs, rule+"-parse", cs.In.Key()+": parseNetpolCIDR(x.CIDR, x.Except) of one ipBlock", p.Pos(cs.Call.Pos()), "cidr and except come from the same ipBlock",
			"the rule block is not built from the CIDR and the Except list of the same ipBlock: partition and matcher would disagree on the excepts")
	}
	r.RuleCounts[rule+"-parse"] += 0
	r.Floor(rule+"-parse", 2)
	// parse itself applies the excepts to the cidr
	pinfo := parse.Pkg.TypesInfo
	sigp := parse.Obj.Type().(*types.Signature)
	usesCidr, usesExcept := false, false
	ast.Inspect(parse.Decl.Body, func(n ast.Node) bool {
		if c, ok := n.(*ast.CallExpr); ok {
			if fn := core.Callee(pinfo, c); fn != nil {
				for _, a := range c.Args {
					if id, ok := ast.Unparen(a).(*ast.Ident); ok {
						if core.RefName(fn) == "IPBlockFromCidr" && pinfo.ObjectOf(id) == sigp.Params().At(0) {
							usesCidr = true
						}
						if core.RefName(fn) == "ExceptCidrs" && pinfo.ObjectOf(id) == sigp.Params().At(1) {
							usesExcept = true
						}
					}
				}
			}
		}
		return true
	})
	r.Check(usesCidr && usesExcept, rule+"-parse", parse.Key()+": block = IPBlockFromCidr(cidr).ExceptCidrs(except...)", p.Pos(parse.Decl.Pos()), "both parameters reach the library constructors", "the rule block no longer depends on both the cidr and the except list")
}

// directionConstOfCall finds THE constant boolean a call hands to its callee as the direction: the one boolean constant
// among its arguments, or among the fields of a struct literal it passes (a parameter object, directly or named by a
// local first). Position and spelling of the parameter do not matter; two boolean constants are ambiguous (not found).
func directionConstOfCall(info *types.Info, scope ast.Node, call *ast.CallExpr) (string, bool) {
	var found []string
	isBoolConst := func(e ast.Expr) (string, bool) {
		if v, ok := core.ConstString(info, e); ok && (v == "true" || v == "false") {
			if b, isB := info.TypeOf(e).Underlying().(*types.Basic); isB && b.Info()&types.IsBoolean != 0 {
				return v, true
			}
		}
		return "", false
	}
	for _, a := range call.Args {
		if v, ok := isBoolConst(a); ok {
			found = append(found, v)
			continue
		}
		x := ast.Unparen(ResolveLocal(info, scope, a))
		if u, ok := x.(*ast.UnaryExpr); ok && u.Op == token.AND {
			x = ast.Unparen(u.X)
		}
		if cl, ok := x.(*ast.CompositeLit); ok {
			for _, el := range cl.Elts {
				val := el
				if kv, isKV := el.(*ast.KeyValueExpr); isKV {
					val = kv.Value
				}
				if v, ok := isBoolConst(val); ok {
					found = append(found, v)
				}
			}
		}
	}
	if len(found) == 1 {
		return found[0], true
	}
	return "", false
}
