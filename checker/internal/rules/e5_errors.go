package rules

import (
	"fmt"
	"go/ast"
	"go/token"
	"go/types"
	"sort"
	"strings"

	"npverif/internal/core"
	"npverif/internal/facts"
)

// E5 — error flow, severities and gates.

// severityTable: dynamic type of the wrapped error -> (fatal, severe). "*" = passed through.
var severityTable = map[string][2]string{
	"MalformedYamlDocError":                 {"false", "true"},
	"FailedReadingFileError":                {"false", "true"},
	"NoK8sWorkloadResourcesFoundError":      {"false", "true"},
	"NoK8sNetworkPolicyResourcesFoundError": {"false", "false"},
	"resultFormattingError":                 {"true", "false"},
	"resourceEvaluationError":               {"true", "false"},
	"connlistAnalyzerWarnError":             {"false", "false"},
	"handlingIPpeersError":                  {"true", "false"},
	"connectivityAnalysisError":             {"param#-1", "param#-2"}, // the constructor's last parameter is the fatal flag, the one before it the severe flag
}

// SeverityTable is C13-c: composite literals of the error carrier types have
// the severity of the table, per dynamic type of the wrapped error.
func SeverityTable(p *core.Program, r *core.Report, rule string) {
	carriers := map[string]bool{"FileProcessingError": true, "connlistGeneratingError": true, "diffGeneratingError": true}
	n := 0
	for _, fd := range p.Funcs {
		info := fd.Pkg.TypesInfo
		ast.Inspect(fd.Decl.Body, func(nd ast.Node) bool {
			cl, ok := nd.(*ast.CompositeLit)
			if !ok {
				return true
			}
			nt := core.NamedOf(info.TypeOf(cl))
			if nt == nil || !carriers[nt.Obj().Name()] || !p.IsModuleFunc(fd.Obj) {
				return true
			}
			st := nt.Underlying().(*types.Struct)
			vals := map[string]ast.Expr{}
			for i, el := range cl.Elts {
				if kv, ok := el.(*ast.KeyValueExpr); ok {
					vals[core.ExprStr(kv.Key)] = kv.Value
				} else if i < st.NumFields() {
					vals[core.RefName(st.Field(i))] = el
				}
			}
			errExpr := vals["err"]
			if errExpr == nil {
				return true
			}
			// dynamic type of err: &T{...}
			dyn := ""
			if ue, ok := ast.Unparen(errExpr).(*ast.UnaryExpr); ok && ue.Op == token.AND {
				if t := core.NamedOf(info.TypeOf(ue.X)); t != nil {
					dyn = t.Obj().Name()
				}
			}
			n++
			c := fmt.Sprintf("%s: %s wrapping %s has the severity of the table", fd.Key(), nt.Obj().Name(), dyn)
			want, known := severityTable[dyn]
			if !known {
				r.Add(rule, c, p.Pos(cl.Pos()), core.Undecided, "error type "+dyn+" is not in the severity table")
				return true
			}
			get := func(name string) string {
				e := vals[name]
				if e == nil {
					return "false" // zero value of an omitted field
				}
				if v, ok := core.ConstString(info, e); ok {
					return v
				}
				if id, ok := ast.Unparen(e).(*ast.Ident); ok {
					sig := fd.Obj.Type().(*types.Signature)
					for i := 0; i < sig.Params().Len(); i++ {
						if info.ObjectOf(id) == sig.Params().At(i) {
							return fmt.Sprintf("param#%d", i-sig.Params().Len())
						}
					}
					return "local"
				}
				return core.ExprStr(e)
			}
			gf, gs := get("fatal"), get("severe")
			r.Check(gf == want[0] && gs == want[1], rule, c, p.Pos(cl.Pos()), fmt.Sprintf("fatal=%s severe=%s", gf, gs),
				fmt.Sprintf("built with fatal=%s severe=%s, the table says fatal=%s severe=%s: an unreadable or malformed document must be reported as severe (and not fatal), a failed evaluation as fatal", gf, gs, want[0], want[1]))
			return true
		})
	}
	r.Floor(rule, 9)
	_ = n
	// severities pass through the diff wrapper unchanged and in order
	if fd := p.Func(core.PkgDiff, "DiffAnalyzer", "getConnlistAnalysis"); fd != nil {
		ok := false
		units, _ := extractedHelpers(p, fd)
		for _, u := range units {
			info := u.Pkg.TypesInfo
			ast.Inspect(u.Decl.Body, func(nd ast.Node) bool {
				c, isC := nd.(*ast.CallExpr)
				if !isC || len(c.Args) != 5 {
					return true
				}
				if fn := core.Callee(info, c); fn == nil || core.RefName(fn) != "newConnectivityAnalysisError" {
					return true
				}
				a3, a4 := core.ExprStr(ResolveLocal(info, u.Decl.Body, c.Args[3])), core.ExprStr(ResolveLocal(info, u.Decl.Body, c.Args[4]))
				if strings.HasSuffix(a3, ".IsSevere()") && strings.HasSuffix(a4, ".IsFatal()") && strings.TrimSuffix(a3, ".IsSevere()") == strings.TrimSuffix(a4, ".IsFatal()") {
					ok = true
				}
				return true
			})
		}
		r.Check(ok, rule, fd.Key()+": severities of the connlist errors are passed through (isSevere, isFatal) in order", p.Pos(fd.Decl.Pos()), "newConnectivityAnalysisError(..., e.IsSevere(), e.IsFatal())", "the diff analyzer does not hand the severity and fatality of each connlist error on unchanged")
	} else {
		r.Lost(rule, "(*DiffAnalyzer).getConnlistAnalysis")
	}
}

// StopGates is C13-d.
func StopGates(p *core.Program, r *core.Report, rule string) {
	// stopProcessing of both analyzers: exists an error that is fatal, or severe with stopOnError; over the whole list, no parameters
	for _, t := range []struct{ pkg, recv string }{{core.PkgConnlist, "ConnlistAnalyzer"}, {core.PkgDiff, "DiffAnalyzer"}} {
		fd := p.Func(t.pkg, t.recv, "stopProcessing")
		if fd == nil {
			r.Lost(rule, t.recv+".stopProcessing")
			continue
		}
		info := fd.Pkg.TypesInfo
		sig := fd.Obj.Type().(*types.Signature)
		overAll := false
		ast.Inspect(fd.Decl.Body, func(nd ast.Node) bool {
			if rs, ok := nd.(*ast.RangeStmt); ok {
				if f := core.FieldOf(info, rs.X); f != nil && core.RefName(f) == "errors" {
					overAll = true
				}
			}
			return true
		})
		w := facts.NewWalker(info)
		okTrue, nTrue, okFalse := true, 0, false
		// the condition under which an error stops the analysis: equivalent to fatal || (stopOnError && severe)
		judge := func(f facts.Formula) {
			var fatal, severe, stop string
			for _, a := range facts.Atoms(f) {
				switch {
				case strings.HasSuffix(a, ".IsFatal()"):
					fatal = a
				case strings.HasSuffix(a, ".IsSevere()"):
					severe = a
				case strings.HasSuffix(a, ".stopOnError"):
					stop = a
				}
			}
			if fatal == "" || severe == "" || stop == "" {
				okTrue = false
				return
			}
			goal := facts.Or{L: facts.Atom(fatal), R: facts.And{L: facts.Atom(stop), R: facts.Atom(severe)}}
			if !facts.Entails(f, goal) {
				okTrue = false
			}
			// and not stronger: each disjunct alone must be consistent with the condition
			if !facts.Satisfiable(facts.MkAnd(f, facts.MkAnd(facts.Atom(fatal), facts.Not{X: facts.Atom(severe)}))) || !facts.Satisfiable(facts.MkAnd(f, facts.MkAnd(facts.Not{X: facts.Atom(fatal)}, facts.Atom(severe)))) {
				okTrue = false
			}
		}
		w.OnStmt = func(s ast.Stmt, f facts.Formula) {
			ret, ok := s.(*ast.ReturnStmt)
			if !ok || len(ret.Results) != 1 {
				return
			}
			// the library form of the same existential: slices.ContainsFunc(errors, func(e) bool { ... })
			if c, isC := ast.Unparen(ret.Results[0]).(*ast.CallExpr); isC && len(c.Args) == 2 {
				if fn := core.Callee(info, c); fn != nil && fn.Pkg() != nil && fn.Pkg().Path() == "slices" && core.RefName(fn) == "ContainsFunc" {
					if fl := core.FieldOf(info, c.Args[0]); fl != nil && core.RefName(fl) == "errors" {
						if lit, isLit := ast.Unparen(c.Args[1]).(*ast.FuncLit); isLit {
							overAll = true
							lw := facts.NewWalker(info)
							var pos facts.Formula = facts.False{}
							lw.OnExit = func(st int, lret *ast.ReturnStmt, lf facts.Formula) {
								if lw.FuncLitDepth > 0 || lret == nil || len(lret.Results) != 1 {
									return
								}
								pos = facts.MkOr(pos, facts.MkAnd(lf, lw.Cond(lret.Results[0])))
							}
							lw.WalkBody(lit.Body, nil)
							nTrue++
							okFalse = true
							judge(pos)
							return
						}
					}
				}
			}
			v, _ := core.ConstString(info, ret.Results[0])
			if v == "true" {
				nTrue++
				judge(f)
			}
			if v == "false" && len(w.Loops) == 0 {
				okFalse = true
			}
		}
		// the predicate inlined into its caller and written with a flag: `for _, e := range errors { if COND { stop = true; break } }`.
		// The condition is judged where the flag is raised; the flag is raised nowhere else; the caller's own parameters are
		// not the predicate's.
		inlinedFlag := core.RefName(fd.Obj) != "stopProcessing"
		flagRaisedOutside := false
		if inlinedFlag {
			w.OnStmt = func(s ast.Stmt, f facts.Formula) {
				as, ok := s.(*ast.AssignStmt)
				if !ok || as.Tok != token.ASSIGN || len(as.Lhs) != 1 || len(as.Rhs) != 1 {
					return
				}
				if v, _ := core.ConstString(info, as.Rhs[0]); v != "true" {
					return
				}
				if _, isID := ast.Unparen(as.Lhs[0]).(*ast.Ident); !isID {
					return
				}
				overErrors := false
				for _, l := range w.Loops {
					if rs, isR := l.(*ast.RangeStmt); isR {
						if fl := core.FieldOf(info, rs.X); fl != nil && core.RefName(fl) == "errors" {
							overErrors = true
						}
					}
				}
				if overErrors {
					nTrue++
					judge(f)
					okFalse = true
				} else if b, isB := info.TypeOf(as.Lhs[0]).Underlying().(*types.Basic); isB && b.Info()&types.IsBoolean != 0 && stopFlagName(info, fd, as.Lhs[0]) {
					flagRaisedOutside = true
				}
			}
		}
		w.WalkBody(fd.Decl.Body, nil)
		r.Check((sig.Params().Len() == 0 || inlinedFlag) && overAll && okTrue && nTrue >= 1 && okFalse && !flagRaisedOutside, rule, fd.Key()+": stop iff SOME recorded error is fatal, or severe under stop-on-error", p.Pos(fd.Decl.Pos()),
			"an existential loop over the whole error list with the condition IsFatal() || stopOnError && IsSevere()",
			"the stop decision is not `exists e in errors: e.IsFatal() || stopOnError && e.IsSevere()` over the whole list (it takes a parameter, skips errors, or tests a different condition): a severe error can be followed by a partial report")
	}
	// ConnlistFromResourceInfos: the analysis runs only when !stopProcessing; the early exit returns no connections
	if fd := p.Func(core.PkgConnlist, "ConnlistAnalyzer", "ConnlistFromResourceInfos"); fd != nil {
		gateAnalysis(p, r, rule, fd, "connsListFromParsedResources")
	} else {
		r.Lost(rule, "ConnlistFromResourceInfos")
	}
	// diff: getConnlistAnalysis decides after ALL errors were recorded, outside any loop; callers return when told to stop
	if fd := p.Func(core.PkgDiff, "DiffAnalyzer", "getConnlistAnalysis"); fd != nil {
		var stopCalls, inLoop int
		lastAppendPos := token.NoPos
		var stopPos token.Pos
		units, callPos := extractedHelpers(p, fd)
		// helpers called inside a loop of fd count as "in a loop"
		helperInLoop := map[*core.FuncDecl]bool{}
		{
			w0 := facts.NewWalker(fd.Pkg.TypesInfo)
			w0.OnExpr = func(e ast.Expr, f facts.Formula) {
				if c, ok := e.(*ast.CallExpr); ok && len(w0.Loops) > 0 {
					if fn := core.Callee(fd.Pkg.TypesInfo, c); fn != nil {
						if h := p.ByObj[fn]; h != nil {
							helperInLoop[h] = true
						}
					}
				}
			}
			w0.WalkBody(fd.Decl.Body, nil)
		}
		for _, u := range units {
			u := u
			info := u.Pkg.TypesInfo
			at := func(pos token.Pos) token.Pos { // position in fd of a statement of u
				if u == fd {
					return pos
				}
				return callPos[u]
			}
			w := facts.NewWalker(info)
			w.OnExpr = func(e ast.Expr, f facts.Formula) {
				c, ok := e.(*ast.CallExpr)
				if !ok {
					return
				}
				if fn := core.Callee(info, c); fn != nil && core.RefName(fn) == "stopProcessing" {
					stopCalls++
					stopPos = at(c.Pos())
					if len(w.Loops) > 0 || helperInLoop[u] {
						inLoop++
					}
				}
			}
			ast.Inspect(u.Decl.Body, func(nd ast.Node) bool {
				if as, ok := nd.(*ast.AssignStmt); ok && len(as.Lhs) == 1 {
					if f := core.FieldOf(info, as.Lhs[0]); f != nil && core.RefName(f) == "errors" && at(as.Pos()) > lastAppendPos {
						lastAppendPos = at(as.Pos())
					}
				}
				return true
			})
			w.WalkBody(u.Decl.Body, nil)
		}
		// the predicate inlined as a flag loop over the recorded errors: that loop is the stop decision
		var flagObjs []types.Object
		if stopCalls == 0 {
			for _, u := range units {
				u := u
				info := u.Pkg.TypesInfo
				var outer []ast.Node
				var visit func(n ast.Node, depth int)
				visit = func(n ast.Node, depth int) {
					ast.Inspect(n, func(m ast.Node) bool {
						if m == nil || m == n {
							return true
						}
						switch x := m.(type) {
						case *ast.RangeStmt:
							if fl := core.FieldOf(info, x.X); fl != nil && core.RefName(fl) == "errors" {
								raised := false
								ast.Inspect(x.Body, func(k ast.Node) bool {
									if as, isAs := k.(*ast.AssignStmt); isAs && len(as.Lhs) == 1 && len(as.Rhs) == 1 {
										if v, _ := core.ConstString(info, as.Rhs[0]); v == "true" {
											if id, isID := ast.Unparen(as.Lhs[0]).(*ast.Ident); isID {
												raised = true
												flagObjs = append(flagObjs, info.ObjectOf(id))
											}
										}
									}
									return true
								})
								if raised {
									stopCalls++
									if u == fd {
										stopPos = x.Pos()
									} else {
										stopPos = callPos[u]
									}
									if depth > 0 || helperInLoop[u] {
										inLoop++
									}
								}
							}
							visit(x.Body, depth+1)
							return false
						case *ast.ForStmt:
							visit(x.Body, depth+1)
							return false
						}
						return true
					})
				}
				_ = outer
				visit(u.Decl.Body, 0)
			}
		}
		r.Check(stopCalls == 1 && inLoop == 0 && stopPos > lastAppendPos, rule, fd.Key()+": the stop decision is taken once, after every error of this directory was recorded", p.Pos(fd.Decl.Pos()),
			"one stopProcessing() call, outside loops, after the last append to da.errors", "the stop decision is taken inside the loop over the errors or before all of them are recorded: only some errors decide")
		// the flag returned is true whenever stopProcessing() held
		okFlag := false
		for _, u := range units {
			info := u.Pkg.TypesInfo
			ast.Inspect(u.Decl.Body, func(nd ast.Node) bool {
				ifs, ok := nd.(*ast.IfStmt)
				if !ok {
					return true
				}
				if c, ok := ast.Unparen(ifs.Cond).(*ast.CallExpr); ok {
					if fn := core.Callee(info, c); fn != nil && core.RefName(fn) == "stopProcessing" {
						for _, st := range ifs.Body.List {
							if as, ok := st.(*ast.AssignStmt); ok && len(as.Rhs) == 1 {
								if v, _ := core.ConstString(info, as.Rhs[0]); v == "true" {
									okFlag = true
								}
							}
						}
					}
				}
				return true
			})
		}
		// inlined form: the flag raised in the loop is itself a result of the function (named result or returned variable)
		if !okFlag && len(flagObjs) > 0 {
			for _, u := range units {
				info := u.Pkg.TypesInfo
				sigU := u.Obj.Type().(*types.Signature)
				for i := 0; i < sigU.Results().Len(); i++ {
					for _, fo := range flagObjs {
						if types.Object(sigU.Results().At(i)) == fo {
							okFlag = true
						}
					}
				}
				ast.Inspect(u.Decl.Body, func(nd ast.Node) bool {
					if ret, isRet := nd.(*ast.ReturnStmt); isRet {
						for _, res := range ret.Results {
							if id, isID := ast.Unparen(res).(*ast.Ident); isID {
								for _, fo := range flagObjs {
									if info.ObjectOf(id) == fo {
										okFlag = true
									}
								}
							}
						}
					}
					return true
				})
			}
		}
		r.Check(okFlag, rule, fd.Key()+": the caller is told to stop whenever stopProcessing() holds", p.Pos(fd.Decl.Pos()), "shouldStop = true under stopProcessing()", "the stop flag is not set under stopProcessing()")
	} else {
		r.Lost(rule, "getConnlistAnalysis")
	}
	if fd := p.Func(core.PkgDiff, "DiffAnalyzer", "ConnDiffFromResourceInfos"); fd != nil {
		info := fd.Pkg.TypesInfo
		// every getConnlistAnalysis call is immediately followed by `if shouldStop { return ... }`, before the diff computation
		var analysis []*ast.CallExpr
		var compute *ast.CallExpr
		ast.Inspect(fd.Decl.Body, func(nd ast.Node) bool {
			if c, ok := nd.(*ast.CallExpr); ok {
				if fn := core.Callee(info, c); fn != nil {
					switch core.RefName(fn) {
					case "getConnlistAnalysis":
						analysis = append(analysis, c)
					case "computeDiffFromConnlistResults":
						compute = c
					}
				}
			}
			return true
		})
		ok := len(analysis) == 2 && compute != nil
		if ok {
			// the stop flag of an analysis, by role: the bool among the results the call is bound to, or the bool field of
			// the struct it returns
			flagPaths := map[string]bool{}
			for _, c := range analysis {
				as, isAs := enclosingStmt(fd.Decl.Body, c.Pos()).(*ast.AssignStmt)
				if !isAs || len(as.Rhs) != 1 {
					continue
				}
				res := core.Callee(info, c).Type().(*types.Signature).Results()
				isBool := func(t types.Type) bool {
					b, ok := t.Underlying().(*types.Basic)
					return ok && b.Kind() == types.Bool
				}
				if res.Len() == len(as.Lhs) && res.Len() > 1 {
					for i := 0; i < res.Len(); i++ {
						if id, isID := as.Lhs[i].(*ast.Ident); isID && isBool(res.At(i).Type()) {
							flagPaths[id.Name] = true
						}
					}
				} else if res.Len() == 1 && len(as.Lhs) == 1 {
					if st, isSt := res.At(0).Type().Underlying().(*types.Struct); isSt {
						if id, isID := as.Lhs[0].(*ast.Ident); isID {
							for i := 0; i < st.NumFields(); i++ {
								if isBool(st.Field(i).Type()) {
									flagPaths[id.Name+"."+core.RefName(st.Field(i))] = true
								}
							}
						}
					}
				}
			}
			fm, _, found := FactsAt(fd, compute, nil)
			nNeg := 0
			if found {
				for _, a := range facts.Atoms(fm) {
					if strings.HasPrefix(a, "b:") && flagPaths[strings.TrimPrefix(facts.StripVersions(a), "b:")] && facts.Entails(fm, facts.Not{X: facts.Atom(a)}) {
						nNeg++
					}
				}
			}
			ok = nNeg == 2
		}
		r.Check(ok, rule, fd.Key()+": the diff is computed only when neither directory's analysis said stop", p.Pos(fd.Decl.Pos()), "computeDiffFromConnlistResults is dominated by !shouldStop of both analyses", "the diff can be computed although the analysis of a directory asked to stop (severe error with stop-on-error, or fatal error): a partial report")
	} else {
		r.Lost(rule, "ConnDiffFromResourceInfos")
	}
	// sibling cross-check (F15): callers of GetResourceInfosFromDirPath test the error list with len(...) > 0
	scan := p.Func(core.PkgScanner, "", "GetResourceInfosFromDirPath")
	if scan == nil {
		r.Lost(rule+"-scan", "fsscanner.GetResourceInfosFromDirPath")
		return
	}
	for _, cs := range CallsTo(p, scan.Obj) {
		info := cs.In.Pkg.TypesInfo
		// the error-list variable(s)
		var errVars []types.Object
		ast.Inspect(cs.In.Decl.Body, func(nd ast.Node) bool {
			if as, ok := nd.(*ast.AssignStmt); ok && len(as.Rhs) == 1 && ast.Unparen(as.Rhs[0]) == ast.Expr(cs.Call) && len(as.Lhs) == 2 {
				if id, ok := as.Lhs[1].(*ast.Ident); ok {
					errVars = append(errVars, info.ObjectOf(id))
				}
			}
			return true
		})
		for _, ev := range errVars {
			bad := ""
			tested := false
			ast.Inspect(cs.In.Decl.Body, func(nd ast.Node) bool {
				be, ok := nd.(*ast.BinaryExpr)
				if !ok {
					return true
				}
				if id, ok := ast.Unparen(be.X).(*ast.Ident); ok && info.ObjectOf(id) == ev && core.IsNil(info, be.Y) {
					bad = "compared with nil at " + p.Pos(be.Pos())
				}
				if c, ok := ast.Unparen(be.X).(*ast.CallExpr); ok && core.IsBuiltinCall(info, c, "len") {
					if id, ok := ast.Unparen(c.Args[0]).(*ast.Ident); ok && info.ObjectOf(id) == ev {
						tested = true
					}
				}
				return true
			})
			r.Check(bad == "" && tested, rule+"-scan", fmt.Sprintf("%s: tests the scanner's error list %s by its length", cs.In.Key(), core.RefName(ev)), p.Pos(cs.Call.Pos()),
				"len(errs) > 0", "the scanner always returns a non-nil (possibly empty) error slice; this caller's test ("+bad+") is then always true, so with stop-on-error a directory read without errors yields no report")
		}
	}
	r.Floor(rule+"-scan", 3)
	r.Floor(rule, 6)
}

func gateAnalysis(p *core.Program, r *core.Report, rule string, fd *core.FuncDecl, analysisName string) {
	info := fd.Pkg.TypesInfo
	var analysis *ast.CallExpr
	ast.Inspect(fd.Decl.Body, func(nd ast.Node) bool {
		if c, ok := nd.(*ast.CallExpr); ok {
			if fn := core.Callee(info, c); fn != nil && core.RefName(fn) == analysisName {
				analysis = c
			}
		}
		return true
	})
	if analysis == nil {
		r.Bad(rule, fd.Key()+": the analysis runs only when processing need not stop", p.Pos(fd.Decl.Pos()), "call of "+analysisName+" not found")
		return
	}
	fm, _, found := FactsAt(fd, analysis, nil)
	ok := false
	if found {
		for _, a := range facts.Atoms(fm) {
			if strings.HasSuffix(a, ".stopProcessing()") && facts.Entails(fm, facts.Not{X: facts.Atom(a)}) {
				ok = true
			}
		}
	}
	r.Check(ok, rule, fd.Key()+": the analysis runs only when processing need not stop", p.Pos(analysis.Pos()), "dominated by !stopProcessing()", "the connectivity analysis can run although a fatal error, or a severe error under stop-on-error, was recorded")
	// inside the stop branch: an error return iff fatal, else empty results
	w := facts.NewWalker(info)
	okRet := true
	n := 0
	w.OnStmt = func(s ast.Stmt, f facts.Formula) {
		ret, isRet := s.(*ast.ReturnStmt)
		if !isRet {
			return
		}
		stopped := false
		for _, a := range facts.Atoms(f) {
			if strings.HasSuffix(a, ".stopProcessing()") && facts.Entails(f, facts.Atom(a)) {
				stopped = true
			}
		}
		if !stopped {
			return
		}
		n++
		// no connections on this path: first result is nil or an empty composite literal
		first := ast.Unparen(ret.Results[0])
		if core.IsNil(info, first) {
			return
		}
		if cl, ok := first.(*ast.CompositeLit); ok && len(cl.Elts) == 0 {
			return
		}
		okRet = false
	}
	w.WalkBody(fd.Decl.Body, nil)
	r.Check(okRet && n >= 2, rule, fd.Key()+": when processing stops, no connections are returned", p.Pos(fd.Decl.Pos()), "every return under stopProcessing() yields nil or an empty list", "a return under stopProcessing() hands out connections")
}

// internalErrorsOnly: functions whose errors are internal-consistency errors, unreachable for well-formed intermediate data.
var internalErrorsOnly = map[string]string{
	"diffConnectionsLists": "its only errors come from mergeIPblocks (\"unexpected empty ConnsPair\", \"src/dst is not IP type as expected\"): internal consistency of the diff map, unreachable for lists produced by the refinement",
}

// ErrorRecording: at the API boundary every error return is recorded in Errors().
func ErrorRecording(p *core.Program, r *core.Report, rule string) {
	type tgt struct{ pkg, recv string }
	for _, t := range []tgt{{core.PkgConnlist, "ConnlistAnalyzer"}, {core.PkgDiff, "DiffAnalyzer"}} {
		methods := p.Methods(t.pkg, t.recv)
		records := map[*types.Func]bool{}
		// fixpoint: a method "records" if every error return is dominated by an append to x.errors, or forwards the error of a recording method
		type retInfo struct {
			ret  *ast.ReturnStmt
			okBy string
		}
		check := func(fd *core.FuncDecl) (all bool, bad string) {
			info := fd.Pkg.TypesInfo
			sig := fd.Obj.Type().(*types.Signature)
			if sig.Results().Len() == 0 || !core.IsErrorType(sig.Results().At(sig.Results().Len()-1).Type()) {
				return true, ""
			}
			w := facts.NewWalker(info)
			all = true
			// state: 1 once an append to errors happened; reset is not needed (monotone)
			w.Transfer = func(st int, n ast.Node, f facts.Formula) int {
				if as, ok := n.(*ast.AssignStmt); ok && len(as.Lhs) == 1 {
					if fl := core.FieldOf(info, as.Lhs[0]); fl != nil && core.RefName(fl) == "errors" {
						return 1
					}
				}
				if c, ok := n.(*ast.CallExpr); ok {
					if fn := core.Callee(info, c); fn != nil && records[fn] {
						return 2 // a recording callee ran: its error (if any) is recorded
					}
					if fn := core.Callee(info, c); fn != nil && core.RefName(fn) == "copyFpErrs" {
						return 1
					}
				}
				return st
			}
			w.OnExit = func(st int, ret *ast.ReturnStmt, f facts.Formula) {
				if ret == nil || w.FuncLitDepth > 0 {
					return
				}
				last := ret.Results[len(ret.Results)-1]
				if len(ret.Results) == 1 && sig.Results().Len() > 1 {
					// return f(...): forwarding a recording method
					if c, ok := ast.Unparen(ret.Results[0]).(*ast.CallExpr); ok {
						if fn := core.Callee(info, c); fn != nil && (records[fn] || fn == fd.Obj) {
							return
						}
						if fn := core.Callee(info, c); fn != nil && internalErrorsOnly[core.RefName(fn)] != "" {
							return
						}
					}
					all = false
					bad = p.Pos(ret.Pos())
					return
				}
				if core.IsNil(info, last) {
					return
				}
				if st == 0 {
					// an error obtained from hasFatalError() is by definition already in the list
					if c, ok := ast.Unparen(last).(*ast.CallExpr); ok {
						if fn := core.Callee(info, c); fn != nil && core.RefName(fn) == "hasFatalError" {
							return
						}
					}
					if id, ok := ast.Unparen(last).(*ast.Ident); ok {
						// follow (up to two) single definitions: errVal = err; err := x.hasFatalError()
						cur := id
						for depth := 0; depth < 3 && cur != nil; depth++ {
							d, _ := defOf(fd, cur)
							if d == nil {
								break
							}
							if c, ok := ast.Unparen(d).(*ast.CallExpr); ok {
								if fn := core.Callee(info, c); fn != nil && core.RefName(fn) == "hasFatalError" {
									return
								}
								break
							}
							cur, _ = ast.Unparen(d).(*ast.Ident)
						}
					}
					if facts.Entails(f, facts.Atom("nil:"+w.Path(last))) {
						return
					}
					all = false
					if bad == "" {
						bad = p.Pos(ret.Pos())
					}
				}
			}
			w.WalkBody(fd.Decl.Body, nil)
			return all, bad
		}
		for changed := true; changed; {
			changed = false
			for _, m := range methods {
				if records[m.Obj] {
					continue
				}
				if ok, _ := check(m); ok {
					records[m.Obj] = true
					changed = true
				}
			}
		}
		n := 0
		for _, m := range methods {
			sig := m.Obj.Type().(*types.Signature)
			if !m.Obj.Exported() || sig.Results().Len() == 0 || !core.IsErrorType(sig.Results().At(sig.Results().Len()-1).Type()) {
				continue
			}
			if strings.Contains(core.RefName(m.Obj), "K8sCluster") {
				r.Add(rule, m.Key()+": every error returned is recorded in Errors()", p.Pos(m.Decl.Pos()), core.Excepted, "live-cluster path (API errors of the client are returned as they are); outside the property, which is about manifests")
				continue
			}
			n++
			_, bad := check(m)
			r.Check(records[m.Obj], rule, m.Key()+": every error returned is recorded in Errors()", p.Pos(m.Decl.Pos()), "each error return is dominated by an append to the analyzer's error list (or forwards a method that records)", "an error is returned at "+bad+" without having been appended to the analyzer's error list: Errors() misses a fatal error")
		}
		_ = n
	}
	r.Floor(rule, 5)
}

// DocIsolation is C13-a.
func DocIsolation(p *core.Program, r *core.Report, rule string) {
	fd := p.Func(core.PkgParser, "", "ResourceInfoListToK8sObjectsList")
	conv := p.Func(core.PkgParser, "", "resourceInfoToK8sObject")
	if fd == nil || conv == nil {
		r.Lost(rule, "parser.ResourceInfoListToK8sObjectsList / resourceInfoToK8sObject")
		return
	}
	info := fd.Pkg.TypesInfo
	// the conversion loop: loop-carried state is only appends and set-only flags
	var loop *ast.RangeStmt
	ast.Inspect(fd.Decl.Body, func(nd ast.Node) bool {
		if rs, ok := nd.(*ast.RangeStmt); ok && loop == nil {
			loop = rs
		}
		return true
	})
	if loop == nil {
		r.Bad(rule, fd.Key()+": per-document conversion loop", p.Pos(fd.Decl.Pos()), "no loop over the resource infos")
		return
	}
	bad := ""
	ast.Inspect(loop.Body, func(nd ast.Node) bool {
		switch x := nd.(type) {
		case *ast.AssignStmt:
			if x.Tok == token.DEFINE {
				return true
			}
			for i, l := range x.Lhs {
				id, ok := ast.Unparen(l).(*ast.Ident)
				if !ok {
					bad = "store through " + core.ExprStr(l)
					continue
				}
				o := info.ObjectOf(id)
				if o == nil {
					continue // the blank identifier
				}
				if o.Pos() >= loop.Pos() && o.Pos() <= loop.End() {
					continue // declared inside the loop
				}
				rhs := ast.Unparen(x.Rhs[min(i, len(x.Rhs)-1)])
				if c, ok := rhs.(*ast.CallExpr); ok && core.IsBuiltinCall(info, c, "append") && core.ExprStr(c.Args[0]) == id.Name {
					continue
				}
				if v, ok := core.ConstString(info, rhs); ok && v == "true" {
					continue
				}
				bad = fmt.Sprintf("%s is assigned %s inside the loop", id.Name, core.ExprStr(rhs))
			}
		case *ast.BranchStmt:
			if x.Tok == token.CONTINUE {
				return true // judged below on its path condition
			}
			bad = x.Tok.String() + " inside the conversion loop at " + p.Pos(x.Pos())
		case *ast.ReturnStmt:
			bad = "return inside the conversion loop at " + p.Pos(x.Pos())
		}
		return true
	})
	// a `continue` is a decision about THIS document only if its path condition talks about variables of the iteration
	// only (declared inside the loop, or the loop variables) - not about state that other documents left behind
	{
		inLoop := func(o types.Object) bool { return o != nil && o.Pos() >= loop.Pos() && o.Pos() <= loop.End() }
		lw := facts.NewWalker(info)
		lw.OnBranch = func(b *ast.BranchStmt, states uint64, f facts.Formula) {
			if b.Tok != token.CONTINUE || b.Pos() < loop.Pos() || b.Pos() > loop.End() || bad != "" {
				return
			}
			for _, a := range facts.Atoms(f) {
				txt := facts.StripVersions(a)
				if i := strings.Index(txt, ":"); i >= 0 {
					txt = txt[i+1:]
				}
				isId := func(c byte) bool {
					return c == '_' || c >= '0' && c <= '9' || c >= 'a' && c <= 'z' || c >= 'A' && c <= 'Z'
				}
				for k := 0; k < len(txt); {
					if isId(txt[k]) && !(txt[k] >= '0' && txt[k] <= '9') {
						e := k
						for e < len(txt) && isId(txt[e]) {
							e++
						}
						if k == 0 || txt[k-1] != '.' {
							if o := objNamed(fd, txt[k:e]); o != nil && !inLoop(o) {
								if v, isV := o.(*types.Var); isV && v.Parent() != nil && v.Pkg() != nil && v.Parent() != v.Pkg().Scope() {
									// a parameter is not loop-carried state either
									isParam := false
									sig := fd.Obj.Type().(*types.Signature)
									for q := 0; q < sig.Params().Len(); q++ {
										if types.Object(sig.Params().At(q)) == o {
											isParam = true
										}
									}
									if !isParam {
										bad = "the continue at " + p.Pos(b.Pos()) + " depends on " + txt[k:e] + ", which outlives the iteration"
									}
								}
							}
						}
						k = e
						continue
					}
					k++
				}
			}
		}
		lw.WalkBody(fd.Decl.Body, nil)
	}
	r.Check(bad == "", rule, fd.Key()+": converting one document cannot affect how another is converted or whether it is kept", p.Pos(loop.Pos()),
		"loop-carried state: appends to the result/error lists and set-only flags; no break/continue/return", "the per-document loop carries state between documents or can skip documents: "+bad)
	// the converter writes nothing but its own fresh object
	cinfo := conv.Pkg.TypesInfo
	cbad := ""
	ast.Inspect(conv.Decl.Body, func(nd ast.Node) bool {
		if as, ok := nd.(*ast.AssignStmt); ok && as.Tok != token.DEFINE {
			for _, l := range as.Lhs {
				root := core.RootIdent(l)
				if root == nil {
					continue
				}
				if isPkgVar(cinfo, root) || isParamOrRecv(conv, cinfo, root) {
					if _, isID := ast.Unparen(l).(*ast.Ident); !isID || isPkgVar(cinfo, root) {
						cbad = "writes " + core.ExprStr(l)
					}
				}
			}
		}
		return true
	})
	r.Check(cbad == "", rule, conv.Key()+": writes only its own fresh object", p.Pos(conv.Decl.Pos()), "no store to package variables or through parameters", "the per-document converter has a side effect outside its result: "+cbad)
	// a kept object is appended iff it was converted (non-nil, kind set)
	w := facts.NewWalker(info)
	okKeep := false
	w.OnStmt = func(s ast.Stmt, f facts.Formula) {
		as, ok := s.(*ast.AssignStmt)
		if !ok || len(as.Rhs) != 1 {
			return
		}
		c, ok := ast.Unparen(as.Rhs[0]).(*ast.CallExpr)
		if !ok || !core.IsBuiltinCall(info, c, "append") || !strings.Contains(info.TypeOf(c.Args[0]).String(), "K8sObject") {
			return
		}
		// the appended element (`*obj`, `obj`) is known to be non-nil
		if len(c.Args) >= 2 {
			if root := core.RootIdent(c.Args[1]); root != nil {
				if facts.Entails(f, facts.MkNot(facts.Atom("nil:"+w.Path(root)))) {
					okKeep = true
				}
			}
		}
	}
	w.WalkBody(fd.Decl.Body, nil)
	r.Check(okKeep, rule, fd.Key()+": an object is kept only if its document converted", p.Pos(fd.Decl.Pos()), "append under k8sObj != nil", "objects are appended without the non-nil test")
	// a failed conversion is reported: in the converter, every return of a nil object with a nil error is the unknown-kind skip
	cw := facts.NewWalker(cinfo)
	nSkip, nErr := 0, 0
	var targetVars []*types.Var
	ast.Inspect(conv.Decl.Body, func(nd ast.Node) bool {
		if c, ok := nd.(*ast.CallExpr); ok && len(c.Args) == 2 {
			if fn := core.Callee(cinfo, c); fn != nil && fn.Name() == "FromUnstructured" {
				if id, isId := ast.Unparen(c.Args[1]).(*ast.Ident); isId {
					if v, isV := cinfo.ObjectOf(id).(*types.Var); isV {
						targetVars = append(targetVars, v)
					}
				}
			}
		}
		return true
	})
	cw.OnStmt = func(s ast.Stmt, f facts.Formula) {
		ret, ok := s.(*ast.ReturnStmt)
		if !ok || len(ret.Results) != 2 || cw.FuncLitDepth > 0 {
			return
		}
		if core.IsNil(cinfo, ret.Results[0]) {
			if core.IsNil(cinfo, ret.Results[1]) {
				nSkip++
				// only under objField == nil (kind not in the parser's table)
				okSkip := false
				// the typed target of the conversion: the local handed to FromUnstructured as its destination
				for _, tv := range targetVars {
					if facts.Entails(f, facts.Atom("nil:"+cw.PathOfVar(tv))) {
						okSkip = true
					}
				}
				r.Check(okSkip, rule, conv.Key()+": a document is skipped silently only when its kind is not one the analysis uses", p.Pos(ret.Pos()), "nil,nil only under objField == nil", "a document can be dropped without an error although its kind is known")
			} else {
				nErr++
			}
		}
	}
	cw.WalkBody(conv.Decl.Body, nil)
	r.Check(nErr >= 2 && nSkip == 1, rule, conv.Key()+": failed conversions return a malformed-document error", p.Pos(conv.Decl.Pos()), fmt.Sprintf("%d error returns, %d silent skip", nErr, nSkip), "the converter's error returns changed shape")
}

func min(a, b int) int {
	if a < b {
		return a
	}
	return b
}

var _ = sort.Strings

// errorDropAllowed: "function | callee" -> reason.
var errorDropAllowed = map[string]string{
	"netpol/eval.(*PolicyEngine).insertAdminNetworkPolicy | deleteAdminNetworkPolicy": "roll-back of a rejected insertion; deleteAdminNetworkPolicy has no error return other than nil, and the conflict error is the one returned",
}

// ErrorsNotDropped: the error result of a module function is never discarded (expression statement, `_`, or a
// variable that is overwritten before it is looked at is judged by `propagates` where a property needs it).
func ErrorsNotDropped(p *core.Program, r *core.Report, rule string) {
	n := 0
	for _, fd := range p.Funcs {
		info := fd.Pkg.TypesInfo
		returnsErr := func(c *ast.CallExpr) *types.Func {
			fn := core.Callee(info, c)
			if fn == nil || !p.IsModuleFunc(fn) {
				return nil
			}
			sig, ok := fn.Type().(*types.Signature)
			if !ok || sig.Results().Len() == 0 || !core.IsErrorType(sig.Results().At(sig.Results().Len()-1).Type()) {
				return nil
			}
			return fn
		}
		report := func(c *ast.CallExpr, fn *types.Func, how string) {
			key := fd.Key() + " | " + core.RefName(fn)
			construct := fmt.Sprintf("%s: the error of %s is looked at", fd.Key(), core.RefName(fn))
			if why, ok := errorDropAllowed[key]; ok {
				r.Add(rule, construct, p.Pos(c.Pos()), core.Excepted, why)
				return
			}
			r.Bad(rule, construct, p.Pos(c.Pos()), "the error returned by "+core.RefName(fn)+" is discarded ("+how+"): a failure of the analysis (an unreadable document, a conflicting policy, an invalid rule) goes unreported and the result is silently partial")
		}
		ast.Inspect(fd.Decl.Body, func(nd ast.Node) bool {
			switch x := nd.(type) {
			case *ast.ExprStmt:
				if c, ok := ast.Unparen(x.X).(*ast.CallExpr); ok {
					if fn := returnsErr(c); fn != nil {
						n++
						report(c, fn, "the call is a statement of its own")
					}
				}
			case *ast.GoStmt:
				if fn := returnsErr(x.Call); fn != nil {
					n++
					report(x.Call, fn, "go statement")
				}
			case *ast.DeferStmt:
				if fn := returnsErr(x.Call); fn != nil {
					n++
					report(x.Call, fn, "deferred call")
				}
			case *ast.AssignStmt:
				if len(x.Rhs) != 1 {
					return true
				}
				c, ok := ast.Unparen(x.Rhs[0]).(*ast.CallExpr)
				if !ok {
					return true
				}
				fn := returnsErr(c)
				if fn == nil {
					return true
				}
				n++
				last := x.Lhs[len(x.Lhs)-1]
				if id, isID := last.(*ast.Ident); isID && id.Name == "_" {
					report(c, fn, "assigned to _")
				} else {
					r.OK(rule, fmt.Sprintf("%s: the error of %s is bound at %s", fd.Key(), core.RefName(fn), core.ExprStr(last)), p.Pos(c.Pos()), "bound to a variable")
				}
			}
			return true
		})
	}
	r.RuleCounts[rule+"-sites"] = n
	r.Floor(rule+"-sites", 100)
}

// extractedHelpers returns fd followed by the module functions it calls that the reference tree does not have - blocks
// of fd that were extracted into helpers since the rules were confirmed - and, for each of them, the position in fd of
// the first call to it. Rules that read "the statements of fd" read those bodies too, placing a helper's statements at
// the position of its call.
func extractedHelpers(p *core.Program, fd *core.FuncDecl) (units []*core.FuncDecl, callPos map[*core.FuncDecl]token.Pos) {
	units = []*core.FuncDecl{fd}
	callPos = map[*core.FuncDecl]token.Pos{}
	info := fd.Pkg.TypesInfo
	ast.Inspect(fd.Decl.Body, func(nd ast.Node) bool {
		c, ok := nd.(*ast.CallExpr)
		if !ok {
			return true
		}
		fn := core.Callee(info, c)
		if fn == nil || !p.IsModuleFunc(fn) {
			return true
		}
		h := p.ByObj[fn]
		if h == nil || h == fd || h.Pkg != fd.Pkg || p.RefHasFunc(h.Key()) {
			return true
		}
		if _, seen := callPos[h]; !seen {
			callPos[h] = c.Pos()
			units = append(units, h)
		}
		return true
	})
	return units, callPos
}

// stopFlagName: e names a variable that is also assigned `true` inside a loop over the recorded errors of fd (the stop flag).
func stopFlagName(info *types.Info, fd *core.FuncDecl, e ast.Expr) bool {
	id, ok := ast.Unparen(e).(*ast.Ident)
	if !ok {
		return false
	}
	o := info.ObjectOf(id)
	found := false
	ast.Inspect(fd.Decl.Body, func(nd ast.Node) bool {
		rs, isR := nd.(*ast.RangeStmt)
		if !isR {
			return true
		}
		if fl := core.FieldOf(info, rs.X); fl == nil || core.RefName(fl) != "errors" {
			return true
		}
		ast.Inspect(rs.Body, func(m ast.Node) bool {
			if as, isAs := m.(*ast.AssignStmt); isAs && len(as.Lhs) == 1 {
				if lid, isID := ast.Unparen(as.Lhs[0]).(*ast.Ident); isID && info.ObjectOf(lid) == o {
					found = true
				}
			}
			return true
		})
		return true
	})
	return found
}
