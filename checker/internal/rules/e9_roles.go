package rules

import (
	"fmt"
	"go/ast"
	"go/types"
	"sort"
	"strings"

	"npverif/internal/core"
)

// E9 — endpoint roles. Every peer value on the query paths is either the
// source or the destination of the connection under evaluation. Roles are
// inferred from the API entry points (their first peer parameter is the
// source, the second the destination) and propagated through calls,
// conversions and local definitions; a parameter that receives both roles at
// different call sites is "mixed".
//
// Rules decided with the roles:
//   R-port   the peer handed to a port matcher/collector (a function that takes a rule's port list) is the destination;
//   R-peer   a rule's From list is matched against the source, its To list against the destination;
//   R-dir    a policy is asked whether it selects the destination for ingress and the source for egress.

type Role uint8

const (
	RoleNone Role = 0
	RoleSrc  Role = 1
	RoleDst  Role = 2
	RoleMix  Role = 3
)

func (r Role) String() string {
	switch r {
	case RoleSrc:
		return "source"
	case RoleDst:
		return "destination"
	case RoleMix:
		return "mixed(source at some call sites, destination at others)"
	}
	return "unknown"
}

type roleAnalysis struct {
	p       *core.Program
	roles   map[types.Object]Role // parameters and locals
	funcs   []*core.FuncDecl
	changed bool
}

func isPeerish(t types.Type) bool {
	if t == nil {
		return false
	}
	s := t.String()
	return strings.HasSuffix(s, "eval.Peer") || strings.HasSuffix(s, "k8s.Peer") || strings.HasSuffix(s, "connlist.Peer") ||
		strings.HasSuffix(s, "k8s.PodPeer") || strings.HasSuffix(s, "k8s.WorkloadPeer") || strings.HasSuffix(s, "k8s.IPBlockPeer") || strings.HasSuffix(s, "k8s.Pod")
}

// carrierStruct: t (or what it points to) is a struct type of the module that is not itself a peer and has a peer field.
func carrierStruct(t types.Type) (*types.Struct, *types.Named) {
	if t == nil || isPeerish(t) {
		return nil, nil
	}
	if pt, ok := t.Underlying().(*types.Pointer); ok {
		t = pt.Elem()
		if isPeerish(t) {
			return nil, nil
		}
	}
	nt, ok := t.(*types.Named)
	if !ok || nt.Obj().Pkg() == nil || !strings.HasPrefix(nt.Obj().Pkg().Path(), core.ModPath) {
		return nil, nil
	}
	st, ok := nt.Underlying().(*types.Struct)
	if !ok {
		return nil, nil
	}
	for i := 0; i < st.NumFields(); i++ {
		if isPeerish(st.Field(i).Type()) {
			return st, nt
		}
	}
	return nil, nil
}

func (a *roleAnalysis) set(o types.Object, r Role) {
	if o == nil || r == RoleNone {
		return
	}
	if a.roles[o]|r != a.roles[o] {
		a.roles[o] |= r
		a.changed = true
	}
}

// exprRole computes the role of an expression from the roles of the variables it is derived from.
func (a *roleAnalysis) exprRole(info *types.Info, e ast.Expr) Role {
	e = ast.Unparen(e)
	switch x := e.(type) {
	case *ast.Ident:
		return a.roles[info.ObjectOf(x)]
	case *ast.TypeAssertExpr:
		return a.exprRole(info, x.X)
	case *ast.StarExpr:
		return a.exprRole(info, x.X)
	case *ast.UnaryExpr:
		return a.exprRole(info, x.X)
	case *ast.SelectorExpr:
		// q.src, q.dst: a peer field of a parameter object (a module struct that is not itself a peer) has the role of
		// what was stored in that field
		if f := core.FieldOf(info, x); f != nil {
			if isPeerish(f.Type()) && !isPeerish(info.TypeOf(x.X)) {
				if r, ok := a.roles[f]; ok {
					return r
				}
			}
			// peer.Pod, currentPeer.Pod: a field of a roled value keeps the role
			return a.exprRole(info, x.X)
		}
	case *ast.CallExpr:
		// conversions and derivations: getPeer(src), convertPeerToPodPeer(srcPeer), x.GetPeerPod()
		var r Role
		if se, ok := ast.Unparen(x.Fun).(*ast.SelectorExpr); ok {
			if sel := info.Selections[se]; sel != nil && sel.Kind() == types.MethodVal {
				if isPeerish(info.TypeOf(se.X)) {
					r |= a.exprRole(info, se.X)
				}
			}
		}
		for _, arg := range x.Args {
			r |= a.exprRole(info, arg)
		}
		return r
	case *ast.CompositeLit:
		// a parameter object: a module struct that is not a peer but carries peers - each peer field takes the role of
		// its value, the object as a whole has none
		if st, nt := carrierStruct(info.TypeOf(x)); st != nil {
			for i, el := range x.Elts {
				var fld *types.Var
				val := el
				if kv, ok := el.(*ast.KeyValueExpr); ok {
					val = kv.Value
					if id, isID := kv.Key.(*ast.Ident); isID {
						fld, _ = info.ObjectOf(id).(*types.Var)
					}
				} else if i < st.NumFields() {
					fld = st.Field(i)
				}
				if fld != nil && isPeerish(fld.Type()) {
					a.set(fld, a.exprRole(info, val))
				}
			}
			_ = nt
			return RoleNone
		}
		var r Role
		for _, el := range x.Elts {
			if kv, ok := el.(*ast.KeyValueExpr); ok {
				r |= a.exprRole(info, kv.Value)
			} else {
				r |= a.exprRole(info, el)
			}
		}
		return r
	}
	return RoleNone
}

func (a *roleAnalysis) run(entries map[*types.Func][2]int) {
	a.roles = map[types.Object]Role{}
	for fn, idx := range entries {
		sig := fn.Type().(*types.Signature)
		if idx[0] < sig.Params().Len() {
			a.roles[sig.Params().At(idx[0])] = RoleSrc
		}
		if idx[1] < sig.Params().Len() {
			a.roles[sig.Params().At(idx[1])] = RoleDst
		}
	}
	var roots []*types.Func
	for fn := range entries {
		roots = append(roots, fn)
	}
	for fn := range a.p.Reachable(roots...) {
		if fd := a.p.ByObj[fn]; fd != nil {
			a.funcs = append(a.funcs, fd)
		}
	}
	sort.Slice(a.funcs, func(i, j int) bool { return a.funcs[i].Key() < a.funcs[j].Key() })
	for iter := 0; iter < 20; iter++ {
		a.changed = false
		for _, fd := range a.funcs {
			a.propagate(fd)
		}
		if !a.changed {
			break
		}
	}
}

func (a *roleAnalysis) propagate(fd *core.FuncDecl) {
	info := fd.Pkg.TypesInfo
	ast.Inspect(fd.Decl.Body, func(n ast.Node) bool {
		switch x := n.(type) {
		case *ast.AssignStmt:
			if len(x.Rhs) == 1 && len(x.Lhs) >= 1 {
				// v := f(roled), v, err := f(roled): first result takes the role
				if id, ok := x.Lhs[0].(*ast.Ident); ok && id.Name != "_" {
					if o := info.ObjectOf(id); o != nil && (isPeerish(o.Type()) || len(x.Lhs) == 1) {
						if isPeerish(o.Type()) {
							a.set(o, a.exprRole(info, x.Rhs[0]))
						}
					}
				}
			} else if len(x.Rhs) == len(x.Lhs) {
				for i, l := range x.Lhs {
					if id, ok := l.(*ast.Ident); ok && id.Name != "_" {
						if o := info.ObjectOf(id); o != nil && isPeerish(o.Type()) {
							a.set(o, a.exprRole(info, x.Rhs[i]))
						}
					}
				}
			}
			// q.src = e: a peer field of a parameter object
			if len(x.Rhs) == len(x.Lhs) {
				for i, l := range x.Lhs {
					if se, ok := ast.Unparen(l).(*ast.SelectorExpr); ok {
						if f := core.FieldOf(info, se); f != nil && isPeerish(f.Type()) {
							if st, _ := carrierStruct(info.TypeOf(se.X)); st != nil {
								a.set(f, a.exprRole(info, x.Rhs[i]))
							}
						}
					}
				}
			}
		case *ast.TypeSwitchStmt:
			// switch currentPeer := peer.(type): the bound variable keeps the role (implicit objects per clause)
			if as, ok := x.Assign.(*ast.AssignStmt); ok && len(as.Rhs) == 1 {
				r := a.exprRole(info, as.Rhs[0])
				for _, cc := range x.Body.List {
					if o := info.Implicits[cc]; o != nil {
						a.set(o, r)
					}
				}
			}
		case *ast.CallExpr:
			fn := core.Callee(info, x)
			if fn == nil {
				return true
			}
			for _, g := range a.p.Impls(fn) {
				if a.p.ByObj[g] == nil {
					continue
				}
				sig := g.Type().(*types.Signature)
				for i, arg := range x.Args {
					pi := i
					if pi >= sig.Params().Len() {
						continue
					}
					a.set(sig.Params().At(pi), a.exprRole(info, arg))
				}
				// receiver of a method on a peer-ish value
				if se, ok := ast.Unparen(x.Fun).(*ast.SelectorExpr); ok && sig.Recv() != nil && isPeerish(sig.Recv().Type()) {
					a.set(sig.Recv(), a.exprRole(info, se.X))
				}
			}
		}
		return true
	})
}

// fieldOrigin traces an expression back, through single local definitions, to
// the API field it was loaded from ("From", "To", "Ingress", ...).
func fieldOrigin(fd *core.FuncDecl, e ast.Expr, depth int) string {
	info := fd.Pkg.TypesInfo
	e = ast.Unparen(e)
	if se, ok := e.(*ast.SelectorExpr); ok {
		if f := core.FieldOf(info, se); f != nil && f.Pkg() != nil && isAPIPkg(f.Pkg().Path()) {
			return core.RefName(f)
		}
	}
	if id, ok := e.(*ast.Ident); ok && depth < 3 {
		o := info.ObjectOf(id)
		var def ast.Expr
		n := 0
		ast.Inspect(fd.Decl.Body, func(nd ast.Node) bool {
			if as, ok := nd.(*ast.AssignStmt); ok && len(as.Lhs) == len(as.Rhs) {
				for i, l := range as.Lhs {
					if lid, ok := l.(*ast.Ident); ok && info.ObjectOf(lid) == o {
						def = as.Rhs[i]
						n++
					}
				}
			}
			return true
		})
		if n == 1 {
			return fieldOrigin(fd, def, depth+1)
		}
	}
	return ""
}

// EndpointRoles runs the role rules.
func EndpointRoles(p *core.Program, r *core.Report, rulePrefix string) {
	entries := map[*types.Func][2]int{}
	for _, e := range []struct {
		recv, name string
	}{{"PolicyEngine", "CheckIfAllowed"}, {"PolicyEngine", "AllAllowedConnectionsBetweenWorkloadPeers"}, {"PolicyEngine", "allAllowedConnections"}, {"PolicyEngine", "checkIfAllowedNew"}} {
		if fd := p.Func(core.PkgEval, e.recv, e.name); fd != nil {
			entries[fd.Obj] = [2]int{0, 1}
		}
	}
	if len(entries) < 2 {
		r.Lost(rulePrefix+"-role", "query entries CheckIfAllowed / AllAllowedConnectionsBetweenWorkloadPeers")
		return
	}
	a := &roleAnalysis{p: p}
	a.run(entries)

	isPortList := func(t types.Type) bool {
		s := t.String()
		return strings.Contains(s, "[]k8s.io/api/networking/v1.NetworkPolicyPort") || strings.Contains(s, "[]sigs.k8s.io/network-policy-api/apis/v1alpha1.AdminNetworkPolicyPort")
	}
	// R-port: functions taking a rule's port list and a peer: the peer the ports are resolved on is the destination.
	// With one peer parameter that is the one; with several, it is the parameter handed on (together with a port list)
	// to the port peer of a callee, or used to convert a named port. Other peer parameters (the other end of the rule,
	// whatever it is called and wherever it stands) are the subject of R-peer below.
	nPort := 0
	type portFn struct {
		fd    *core.FuncDecl
		peers []*types.Var
	}
	var portFns []portFn
	portPeer := map[*types.Func]map[*types.Var]bool{}
	for _, fd := range a.funcs {
		sig := fd.Obj.Type().(*types.Signature)
		hasPorts := false
		for i := 0; i < sig.Params().Len(); i++ {
			if isPortList(sig.Params().At(i).Type()) {
				hasPorts = true
			}
		}
		if !hasPorts {
			continue
		}
		var peers []*types.Var
		for i := 0; i < sig.Params().Len(); i++ {
			if isPeerish(sig.Params().At(i).Type()) {
				peers = append(peers, sig.Params().At(i))
			}
		}
		if len(peers) == 0 {
			continue
		}
		portFns = append(portFns, portFn{fd, peers})
		portPeer[fd.Obj] = map[*types.Var]bool{}
		if len(peers) == 1 {
			portPeer[fd.Obj][peers[0]] = true
		}
	}
	for changed := true; changed; {
		changed = false
		for _, pf := range portFns {
			if len(pf.peers) < 2 {
				continue
			}
			info := pf.fd.Pkg.TypesInfo
			ast.Inspect(pf.fd.Decl.Body, func(n ast.Node) bool {
				call, ok := n.(*ast.CallExpr)
				if !ok {
					return true
				}
				fn := core.Callee(info, call)
				if fn == nil {
					return true
				}
				if pp, isPortFn := portPeer[fn]; isPortFn {
					csig := fn.Type().(*types.Signature)
					for i, arg := range call.Args {
						if i >= csig.Params().Len() || !pp[csig.Params().At(i)] {
							continue
						}
						if id, isId := ast.Unparen(arg).(*ast.Ident); isId {
							if v, isV := info.ObjectOf(id).(*types.Var); isV && !portPeer[pf.fd.Obj][v] {
								for _, pv := range pf.peers {
									if pv == v {
										portPeer[pf.fd.Obj][v] = true
										changed = true
									}
								}
							}
						}
					}
				}
				// named-port conversion on a peer: peer.ConvertPodNamedPort(..) / GetPeerPod().ConvertPodNamedPort
				if strings.Contains(core.RefName(fn), "NamedPort") {
					var roots []ast.Expr
					if se, isSe := ast.Unparen(call.Fun).(*ast.SelectorExpr); isSe {
						roots = append(roots, se.X)
					}
					roots = append(roots, call.Args...)
					for _, e := range roots {
						if root := core.RootIdent(e); root != nil {
							if v, isV := info.ObjectOf(root).(*types.Var); isV && !portPeer[pf.fd.Obj][v] {
								for _, pv := range pf.peers {
									if pv == v {
										portPeer[pf.fd.Obj][v] = true
										changed = true
									}
								}
							}
						}
					}
				}
				return true
			})
		}
	}
	for _, pf := range portFns {
		fd := pf.fd
		for _, pv := range pf.peers {
			if !portPeer[fd.Obj][pv] {
				continue
			}
			role := a.roles[pv]
			nPort++
			allowNone := role == RoleNone && calledWithNilOnly(p, fd, pv)
			r.Check(role == RoleDst || allowNone, rulePrefix+"-role-port", fmt.Sprintf("%s: peer parameter %s (ports are resolved on it) is the destination", fd.Key(), core.Stable(fd.Pkg.TypesInfo, paramIdent(fd, pv))), p.Pos(fd.Decl.Pos()),
				"role inferred from all call sites: "+role.String(),
				"the peer on which a rule's ports (named ports!) are resolved receives the "+role.String()+" at its call sites; ports always belong to the destination pod")
		}
	}
	r.Floor(rulePrefix+"-role-port", 8)

	// R-peer: From lists meet the source, To lists the destination
	for _, fd := range a.funcs {
		info := fd.Pkg.TypesInfo
		ast.Inspect(fd.Decl.Body, func(n ast.Node) bool {
			call, ok := n.(*ast.CallExpr)
			if !ok || len(call.Args) < 2 {
				return true
			}
			var origin string
			var listIdx int
			for i, arg := range call.Args {
				if o := fieldOrigin(fd, arg, 0); o == "From" || o == "To" {
					origin, listIdx = o, i
					break
				}
			}
			if origin == "" {
				return true
			}
			// the peer argument(s) following the list
			fn := core.Callee(info, call)
			if fn == nil || !p.IsModuleFunc(fn) {
				return true
			}
			var peerArgs []ast.Expr
			for i, arg := range call.Args {
				if i != listIdx && isPeerish(info.TypeOf(arg)) {
					peerArgs = append(peerArgs, arg)
				}
			}
			if len(peerArgs) == 0 {
				return true
			}
			want := RoleSrc
			if origin == "To" {
				want = RoleDst
			}
			got := a.exprRole(info, peerArgs[0])
			r.Check(got == want, rulePrefix+"-role-peer", fmt.Sprintf("%s: rule.%s is matched against the %s (call of %s)", fd.Key(), origin, want, core.RefName(fn)), p.Pos(call.Pos()),
				"the peer argument "+core.ExprStr(peerArgs[0])+" has role "+got.String(),
				fmt.Sprintf("a rule's %s list is matched against %s, whose role is %s; ingress rules list sources (from), egress rules list destinations (to)", origin, core.ExprStr(peerArgs[0]), got))
			return true
		})
	}
	r.Floor(rulePrefix+"-role-peer", 8)

	// R-dir: Selects(peer, direction) pairs the destination with ingress and the source with egress
	for _, fd := range a.funcs {
		info := fd.Pkg.TypesInfo
		ast.Inspect(fd.Decl.Body, func(n ast.Node) bool {
			call, ok := n.(*ast.CallExpr)
			if !ok || len(call.Args) != 2 {
				return true
			}
			fn := core.Callee(info, call)
			if fn == nil || !p.IsModuleFunc(fn) || !(core.RefName(fn) == "Selects" || core.RefName(fn) == "getPoliciesSelectingPod") {
				return true
			}
			if !isPeerish(info.TypeOf(call.Args[0])) {
				return true
			}
			dir := ""
			if v, ok := core.ConstString(info, call.Args[1]); ok {
				switch v {
				case "true", "Ingress":
					dir = "ingress"
				case "false", "Egress":
					dir = "egress"
				}
			}
			if dir == "" {
				return true // direction passed through (checked at the caller that fixes it)
			}
			want := RoleDst
			if dir == "egress" {
				want = RoleSrc
			}
			got := a.exprRole(info, call.Args[0])
			r.Check(got == want, rulePrefix+"-role-dir", fmt.Sprintf("%s: %s(%s, %s) asks about the %s", fd.Key(), core.RefName(fn), core.ExprStr(call.Args[0]), dir, want), p.Pos(call.Pos()),
				"peer role "+got.String(), fmt.Sprintf("policies govern the destination on ingress and the source on egress, but %s(…, %s) is asked about %s, whose role is %s", core.RefName(fn), dir, core.ExprStr(call.Args[0]), got))
			return true
		})
	}
	r.Floor(rulePrefix+"-role-dir", 8)
	r.Extra["roles_functions_analysed"] = len(a.funcs)
}

func calledWithNilOnly(p *core.Program, fd *core.FuncDecl, pv *types.Var) bool {
	sig := fd.Obj.Type().(*types.Signature)
	idx := -1
	for i := 0; i < sig.Params().Len(); i++ {
		if sig.Params().At(i) == pv {
			idx = i
		}
	}
	sites := CallsTo(p, fd.Obj)
	if len(sites) == 0 {
		return false
	}
	for _, cs := range sites {
		if idx >= len(cs.Call.Args) || !core.IsNil(cs.In.Pkg.TypesInfo, cs.Call.Args[idx]) {
			return false
		}
	}
	return true
}

// paramIdent returns the declaring identifier of parameter v of fd.
func paramIdent(fd *core.FuncDecl, v *types.Var) ast.Node {
	for _, fl := range fd.Decl.Type.Params.List {
		for _, nm := range fl.Names {
			if fd.Pkg.TypesInfo.Defs[nm] == types.Object(v) {
				return nm
			}
		}
	}
	return fd.Decl.Name
}
