package rules

import (
	"fmt"
	"go/ast"
	"go/token"
	"go/types"
	"regexp"
	"strings"

	"npverif/internal/core"
	"npverif/internal/facts"
)

// ---------------------------------------------------------------- pair roles (C04)

var (
	role1 = regexp.MustCompile(`(?i)(first|ref1|dir1|conns?1|infos1|workloads1|peers?1|errs1|Path1|^(c|conn|res|ip)1$)`)
	role2 = regexp.MustCompile(`(?i)(second|ref2|dir2|conns?2|infos2|workloads2|peers?2|errs2|Path2|^(c|conn|res|ip)2$)`)
)

func roleOf(name string) int {
	a, b := role1.MatchString(name), role2.MatchString(name)
	switch {
	case a && !b:
		return 1
	case b && !a:
		return 2
	}
	return 0
}

// rolesIn: which sides the variables and fields mentioned in e belong to. Names of functions, types and packages carry
// no side (NewPeer2PeerConnection is not "peer 2"); a local that only names a sub-expression stands for that expression.
func rolesIn(info *types.Info, scope ast.Node, e ast.Node) (has1, has2 bool) {
	var visit func(e ast.Node, depth int)
	visit = func(e ast.Node, depth int) {
		ast.Inspect(e, func(n ast.Node) bool {
			id, ok := n.(*ast.Ident)
			if !ok {
				return true
			}
			if info != nil {
				if _, isVar := info.ObjectOf(id).(*types.Var); !isVar {
					return true
				}
				if scope != nil && depth < 3 && roleOf(id.Name) == 0 {
					if d := ResolveLocal(info, scope, id); d != ast.Expr(id) {
						visit(d, depth+1)
						return true
					}
				}
			}
			switch roleOf(id.Name) {
			case 1:
				has1 = true
			case 2:
				has2 = true
			}
			return true
		})
	}
	visit(e, 0)
	return
}

// PairRoleConsistency is C04-f: package diff carries every datum twice (first/second report, conn1/conn2, ref1/ref2).
// A binding whose target belongs to one side must not be computed from the other side only.
func PairRoleConsistency(p *core.Program, r *core.Report, rule string) {
	n := 0
	for _, fd := range p.FuncsIn(core.PkgDiff) {
		check := func(lhsName string, rhs ast.Node, pos token.Pos) {
			k := roleOf(lhsName)
			if k == 0 {
				return
			}
			h1, h2 := rolesIn(fd.Pkg.TypesInfo, fd.Decl.Body, rhs)
			if !h1 && !h2 {
				return
			}
			n++
			crossed := (k == 1 && h2 && !h1) || (k == 2 && h1 && !h2)
			r.Check(!crossed, rule, fmt.Sprintf("%s: %s is computed from its own side", fd.Key(), lhsName), p.Pos(pos), "",
				fmt.Sprintf("%s (side %d) is computed only from data of side %d (%s): the two reports are mixed up, so a changed connection can be keyed, compared or reported as unchanged/added/removed wrongly", lhsName, k, 3-k, strings.TrimSpace(core.ExprStr(rhs))))
		}
		ast.Inspect(fd.Decl.Body, func(nd ast.Node) bool {
			switch x := nd.(type) {
			case *ast.AssignStmt:
				if len(x.Lhs) == len(x.Rhs) {
					for i, l := range x.Lhs {
						if id := lastName(l); id != "" {
							check(id, x.Rhs[i], x.Pos())
						}
					}
				}
			case *ast.KeyValueExpr:
				if id, ok := x.Key.(*ast.Ident); ok {
					check(id.Name, x.Value, x.Pos())
				}
			case *ast.CallExpr:
				// a call whose parameters carry no side (one input is handled at a time) is handed data of ONE side: an
				// argument that belongs to side 1 next to one that belongs to side 2 mixes the two inputs
				// (appendErrs(errs1, dirPath2, false)). Functions that take the pair (conns1, conns2, ...) are not meant.
				fn := core.Callee(fd.Pkg.TypesInfo, x)
				if fn == nil || !p.IsModuleFunc(fn) {
					return true
				}
				sig := fn.Type().(*types.Signature)
				var only1, only2 []string
				var t1, t2 []types.Type
				for i, a := range x.Args {
					if i >= sig.Params().Len() || sig.Variadic() {
						break
					}
					h1, h2 := rolesIn(fd.Pkg.TypesInfo, fd.Decl.Body, a)
					switch {
					case h1 && !h2:
						only1 = append(only1, core.ExprStr(a))
						t1 = append(t1, sig.Params().At(i).Type())
					case h2 && !h1:
						only2 = append(only2, core.ExprStr(a))
						t2 = append(t2, sig.Params().At(i).Type())
					}
				}
				// a callee that takes the pair has two parameters of one type for the two sides (conns1, conns2 / set1, set2)
				for _, a := range t1 {
					for _, b := range t2 {
						if types.Identical(a, b) {
							only1, only2 = nil, nil
						}
					}
				}
				if len(only1)+len(only2) >= 2 {
					n++
					r.Check(len(only1) == 0 || len(only2) == 0, rule, fmt.Sprintf("%s: the call of %s is handed data of one side", fd.Key(), core.RefName(fn)), p.Pos(x.Pos()), "",
						fmt.Sprintf("the call handles one input at a time but is handed %v (side 1) together with %v (side 2): what is recorded or computed for one input is taken from the other", only1, only2))
				}
			}
			return true
		})
	}
	r.RuleCounts[rule] = n
	r.Floor(rule, 8)
}

func lastName(e ast.Expr) string {
	switch x := ast.Unparen(e).(type) {
	case *ast.Ident:
		return x.Name
	case *ast.SelectorExpr:
		return x.Sel.Name
	}
	return ""
}

// ---------------------------------------------------------------- two-sided equality (C04-e / C11)

// SymmetricEquality: an Equal method over a map-valued field must compare both ways: reflect.DeepEqual, or a length
// comparison plus one lookup loop, or two lookup loops; a missing key makes the sets unequal.
func SymmetricEquality(p *core.Program, r *core.Report, rule string) {
	n := 0
	for _, tn := range []string{"ConnectionSet", "PortSet"} {
		fd := p.Func(core.PkgCommon, tn, "Equal")
		if fd == nil {
			r.Lost(rule, "(*"+tn+").Equal")
			continue
		}
		info := fd.Pkg.TypesInfo
		sig := fd.Obj.Type().(*types.Signature)
		recv, other := sig.Recv(), sig.Params().At(0)
		nt := p.LookupType(core.PkgCommon, tn)
		st := nt.Underlying().(*types.Struct)
		for i := 0; i < st.NumFields(); i++ {
			f := st.Field(i)
			if _, isMap := f.Type().Underlying().(*types.Map); !isMap {
				continue
			}
			n++
			deep, lenCmp := false, false
			ranged := map[types.Object]bool{}
			missingIsUnequal := false
			onField := func(e ast.Expr, who *types.Var) bool {
				se, ok := ast.Unparen(e).(*ast.SelectorExpr)
				if !ok || core.FieldOf(info, se) != f {
					return false
				}
				id, ok := ast.Unparen(se.X).(*ast.Ident)
				return ok && info.ObjectOf(id) == who
			}
			ast.Inspect(fd.Decl.Body, func(nd ast.Node) bool {
				switch x := nd.(type) {
				case *ast.CallExpr:
					if fn := core.Callee(info, x); fn != nil && fn.Pkg() != nil && fn.Pkg().Path() == "reflect" && core.RefName(fn) == "DeepEqual" && len(x.Args) == 2 {
						if (onField(x.Args[0], recv) && onField(x.Args[1], other)) || (onField(x.Args[1], recv) && onField(x.Args[0], other)) {
							deep = true
						}
					}
				case *ast.BinaryExpr:
					if x.Op == token.NEQ || x.Op == token.EQL {
						a, okA := isLenOf(info, x.X)
						b, okB := isLenOf(info, x.Y)
						if okA && okB && ((onField(a, recv) && onField(b, other)) || (onField(a, other) && onField(b, recv))) {
							lenCmp = true
						}
					}
				case *ast.RangeStmt:
					for _, who := range []*types.Var{recv, other} {
						if onField(x.X, who) {
							ranged[who] = true
							// inside: `v, ok := <opposite>.F[k]` with `if !ok { return false }`
							ast.Inspect(x.Body, func(m ast.Node) bool {
								ifs, isIf := m.(*ast.IfStmt)
								if !isIf {
									return true
								}
								if ue, isU := ast.Unparen(ifs.Cond).(*ast.UnaryExpr); isU && ue.Op == token.NOT {
									if ret := LastReturn(ifs.Body); ret != nil && len(ret.Results) == 1 && core.ExprStr(ret.Results[0]) == "false" {
										missingIsUnequal = true
									}
								}
								return true
							})
						}
					}
				}
				return true
			})
			// the same, decided on paths: in a loop over one side's map, the comma-ok lookup in the other side's map is known
			// to have succeeded wherever the body goes on to the next key (whatever the shape of the test: `if !ok {return
			// false}`, `if !ok || !eq {return false}`, a switch)
			if !missingIsUnequal {
				var okVars []*types.Var
				ast.Inspect(fd.Decl.Body, func(nd ast.Node) bool {
					as, isAs := nd.(*ast.AssignStmt)
					if !isAs || len(as.Lhs) != 2 || len(as.Rhs) != 1 {
						return true
					}
					ix, isIx := ast.Unparen(as.Rhs[0]).(*ast.IndexExpr)
					if !isIx || !(onField(ix.X, recv) || onField(ix.X, other)) {
						return true
					}
					if id, isId := as.Lhs[1].(*ast.Ident); isId {
						if v, isV := info.ObjectOf(id).(*types.Var); isV {
							okVars = append(okVars, v)
						}
					}
					return true
				})
				if len(okVars) > 0 {
					w := facts.NewWalker(info)
					all, seen := true, false
					w.OnLoopBodyEnd = func(loop ast.Stmt, states uint64, f facts.Formula) {
						rs, isRs := loop.(*ast.RangeStmt)
						if !isRs || !(onField(rs.X, recv) || onField(rs.X, other)) {
							return
						}
						seen = true
						known := false
						for _, v := range okVars {
							if facts.Entails(f, facts.Atom("b:"+w.PathOfVar(v))) {
								known = true
							}
						}
						if !known && facts.Satisfiable(f) {
							all = false
						}
					}
					w.OnBranch = func(b *ast.BranchStmt, states uint64, f facts.Formula) {
						if b.Tok != token.CONTINUE || len(w.Loops) == 0 {
							return
						}
						known := false
						for _, v := range okVars {
							if facts.Entails(f, facts.Atom("b:"+w.PathOfVar(v))) {
								known = true
							}
						}
						if !known {
							all = false
						}
					}
					w.WalkBody(fd.Decl.Body, nil)
					missingIsUnequal = seen && all
				}
			}
			ok := deep || (lenCmp && (ranged[recv] || ranged[other]) && missingIsUnequal) || (ranged[recv] && ranged[other] && missingIsUnequal)
			r.Check(ok, rule, fmt.Sprintf("%s: %s is compared in both directions", fd.Key(), core.RefName(f)), p.Pos(fd.Decl.Pos()), "DeepEqual, or equal lengths + lookup of every key, a missing key meaning unequal",
				fmt.Sprintf("the comparison of %s is one-sided (no length comparison and no second loop, or a missing key is tolerated): a set that has an additional protocol/name compares equal to one that lacks it, so diff reports a real change as unchanged and A.Equal(B) != B.Equal(A)", core.RefName(f)))
		}
	}
	r.RuleCounts[rule] = n
	r.Floor(rule, 3)
}

func isLenOf(info *types.Info, e ast.Expr) (ast.Expr, bool) {
	c, ok := ast.Unparen(e).(*ast.CallExpr)
	if !ok || !core.IsBuiltinCall(info, c, "len") || len(c.Args) != 1 {
		return nil, false
	}
	return c.Args[0], true
}

// ---------------------------------------------------------------- entire-cluster classification (C06-e)

// ClusterWideCondition is C06-e: a rule peer is recorded as exposure to the entire cluster only when its
// namespaceSelector is present and empty and its podSelector is absent or empty (a missing namespaceSelector means
// the policy's own namespace); the rule-less case records external + cluster-wide exposure under `no peers`.
func ClusterWideCondition(p *core.Program, r *core.Report, rule string) {
	fd := p.Func(core.PkgK8s, "NetworkPolicy", "getSelectorsAndUpdateExposureClusterWideConns")
	if fd == nil {
		r.Lost(rule, "(*NetworkPolicy).getSelectorsAndUpdateExposureClusterWideConns")
		return
	}
	info := fd.Pkg.TypesInfo
	n := 0
	w := facts.NewWalker(info)
	w.Inline = true
	// tests on a local that merely names a selector of the rule peer (nsSelector := rule.NamespaceSelector) are tests on that selector
	w.Atomize = func(w *facts.Walker, e ast.Expr) facts.Formula {
		be, ok := e.(*ast.BinaryExpr)
		if !ok || (be.Op != token.EQL && be.Op != token.NEQ) {
			return nil
		}
		x, y := ast.Unparen(be.X), ast.Unparen(be.Y)
		if core.IsNil(info, x) || isConstZero(info, x) {
			x, y = y, x
		}
		var at facts.Formula
		switch {
		case core.IsNil(info, y):
			if u := Unfold(info, fd.Decl.Body, x); u != core.ExprStr(x) {
				at = facts.Atom("nil:" + u)
			}
		case isConstZero(info, y):
			if u := Unfold(info, fd.Decl.Body, x); u != core.ExprStr(x) {
				at = facts.Atom("eq:" + u + "==0")
			}
		}
		if at != nil && be.Op == token.NEQ {
			return facts.MkNot(at)
		}
		return at
	}
	w.OnExpr = func(e ast.Expr, f facts.Formula) {
		c, ok := e.(*ast.CallExpr)
		if !ok {
			return
		}
		fn := core.Callee(info, c)
		if fn == nil || core.RefName(fn) != "updateNetworkPolicyExposureClusterWideConns" || len(c.Args) != 4 {
			return
		}
		n++
		ext := core.ExprStr(c.Args[0])
		txt := facts.StripVersions(facts.String(f))
		construct := fmt.Sprintf("%s: exposure to the entire cluster (external=%s) is recorded only for an all-namespaces, all-pods peer", fd.Key(), ext)
		if ext == "true" {
			// no peers at all
			ok2 := false
			for _, a := range facts.Atoms(f) {
				if strings.HasPrefix(a, "empty:") && facts.Entails(f, facts.Atom(a)) {
					ok2 = true
				}
			}
			r.Check(ok2, rule, construct, p.Pos(c.Pos()), "under len(peers) == 0", "external + entire-cluster exposure is recorded although the rule has peers ("+txt+")")
			return
		}
		var nsNonNil, nsEmpty, podOK bool
		for _, a := range facts.Atoms(f) {
			s := facts.StripVersions(a)
			if strings.HasPrefix(s, "nil:") && strings.HasSuffix(s, ".NamespaceSelector") && facts.Entails(f, facts.Not{X: facts.Atom(a)}) {
				nsNonNil = true
			}
			if strings.HasPrefix(s, "eq:") && strings.HasSuffix(s, ".NamespaceSelector.Size()==0") && facts.Entails(f, facts.Atom(a)) {
				nsEmpty = true
			}
		}
		// podSelector nil or empty
		var podNil, podEmpty facts.Formula
		for _, a := range facts.Atoms(f) {
			s := facts.StripVersions(a)
			if strings.HasPrefix(s, "nil:") && strings.HasSuffix(s, ".PodSelector") {
				podNil = facts.Atom(a)
			}
			if strings.HasPrefix(s, "eq:") && strings.HasSuffix(s, ".PodSelector.Size()==0") {
				podEmpty = facts.Atom(a)
			}
		}
		if podNil != nil && podEmpty != nil {
			podOK = facts.Entails(f, facts.Or{L: podNil, R: podEmpty})
		}
		r.Check(nsNonNil && nsEmpty && podOK, rule, construct, p.Pos(c.Pos()), "namespaceSelector != nil && namespaceSelector.Size() == 0 && (podSelector == nil || podSelector.Size() == 0)",
			"a rule peer is classified as `entire cluster` under "+txt+": the namespaceSelector must be present AND empty (a missing namespaceSelector restricts the peer to the policy's own namespace) and the podSelector absent or empty; otherwise an exposure to the entire cluster is reported that pods of other namespaces cannot realize")
	}
	w.WalkBody(fd.Decl.Body, nil)
	r.RuleCounts[rule] = n
	r.Floor(rule, 2)
}

func isConstZero(info *types.Info, e ast.Expr) bool {
	v, ok := constInt64(info, e)
	return ok && v == 0
}
