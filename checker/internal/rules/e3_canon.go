package rules

import (
	"fmt"
	"go/ast"
	"go/token"
	"go/types"
	"strings"

	"npverif/internal/core"
	"npverif/internal/facts"
)

// Frozen table for C11-c: mutators that add to AllowedProtocols and may leave
// the canonical-form check out, each with the argument why they cannot create
// a full set spelled as three ranges.
var canonExceptions = map[string]string{
	"netpol/internal/common.(*ConnectionSet).Intersection":                        "the only store copies an entry of `other` into a receiver that was AllowAll, and only when other.AllowAll is false: the result equals `other`, which is canonical by induction (a canonical set that is not AllowAll is not full)",
	"netpol/internal/common.(*ConnectionSet).addAllConns":                         "unexported; deliberately spells the full set as three ranges inside Subtract, immediately before a non-empty, non-full set is subtracted from it",
	"netpol/internal/common.(*ConnectionSet).Subtract":                            "expands AllowAll through addAllConns and then removes a non-empty subtrahend; the subtrahend holds a numeric port wherever it holds anything, because named ports enter a set only for unknown/representative destinations (exposure analysis), where admin policies - the only users of Subtract - are rejected at insertion",
	"netpol/internal/common.(*ConnectionSet).ReplaceNamedPortWithMatchingPortNum": "the replaced name moves to ExcludedNamedPorts, so the port set is not IsAll() afterwards and the protocol cannot complete a full set",
}

// CanonicalForm is C11-c / C05-c: the representation invariant "a set that
// denotes all connections has AllowAll == true and an empty protocol map" is
// re-established by every mutator of ConnectionSet that can grow the protocol
// map, and nothing outside package common can break it (encapsulation).
func CanonicalForm(p *core.Program, r *core.Report, rule string) {
	cs := p.LookupType(core.PkgCommon, "ConnectionSet")
	if cs == nil {
		r.Lost(rule, "type common.ConnectionSet")
		return
	}
	protoField := p.Field(core.PkgCommon, "ConnectionSet", "AllowedProtocols")
	allField := p.Field(core.PkgCommon, "ConnectionSet", "AllowAll")
	canon := p.Func(core.PkgCommon, "ConnectionSet", "checkIfAllConnections")
	if canon != nil && core.RefName(canon.Obj) != "checkIfAllConnections" {
		canon = nil // resolved to a caller that absorbed it: handled as the inlined form below
	}
	if protoField == nil || allField == nil {
		r.Lost(rule, "ConnectionSet.AllowedProtocols / AllowAll")
		return
	}
	// The canonicalisation written in place (the helper inlined into its callers): `if <fullness predicate of the receiver>
	// { recv.AllowAll = true; recv.AllowedProtocols = <empty map> }`. The fullness predicate is found by what it does: a
	// parameterless bool method of ConnectionSet that asks IsAll of entries of the protocol map.
	fullPreds := map[*types.Func]bool{}
	for _, m := range p.Methods(core.PkgCommon, "ConnectionSet") {
		sig := m.Obj.Type().(*types.Signature)
		if sig.Params().Len() != 0 || sig.Results().Len() != 1 {
			continue
		}
		if b, ok := sig.Results().At(0).Type().Underlying().(*types.Basic); !ok || b.Kind() != types.Bool {
			continue
		}
		asks := false
		ast.Inspect(m.Decl.Body, func(n ast.Node) bool {
			if c, ok := n.(*ast.CallExpr); ok {
				if fn := core.Callee(m.Pkg.TypesInfo, c); fn != nil && core.RefName(fn) == "IsAll" && core.RecvTypeName(fn.Type().(*types.Signature)) == "PortSet" {
					asks = true
				}
			}
			return true
		})
		if asks {
			fullPreds[m.Obj] = true
		}
	}
	inlineCanon := map[*ast.CallExpr]bool{} // predicate calls that guard an in-place canonicalisation
	nInline, badInline := 0, ""
	for _, m := range p.Methods(core.PkgCommon, "ConnectionSet") {
		info := m.Pkg.TypesInfo
		ast.Inspect(m.Decl.Body, func(n ast.Node) bool {
			ifs, ok := n.(*ast.IfStmt)
			if !ok {
				return true
			}
			c, isCall := ast.Unparen(ifs.Cond).(*ast.CallExpr)
			if !isCall || !fullPreds[core.Callee(info, c)] {
				return true
			}
			setsFlag, clearsMap := false, false
			for _, st := range ifs.Body.List {
				as, isAs := st.(*ast.AssignStmt)
				if !isAs || len(as.Lhs) != 1 || len(as.Rhs) != 1 {
					continue
				}
				if core.FieldOf(info, as.Lhs[0]) == allField {
					if v, isC := core.ConstString(info, as.Rhs[0]); isC && v == "true" {
						setsFlag = true
					}
				}
				if core.FieldOf(info, as.Lhs[0]) == protoField {
					if cl, isCl := ast.Unparen(as.Rhs[0]).(*ast.CompositeLit); isCl && len(cl.Elts) == 0 {
						clearsMap = true
					}
					if mk, isMk := ast.Unparen(as.Rhs[0]).(*ast.CallExpr); isMk && core.IsBuiltinCall(info, mk, "make") && len(mk.Args) == 1 {
						clearsMap = true
					}
				}
			}
			if canon != nil && m.Obj == canon.Obj {
				return true
			}
			nInline++
			if setsFlag && clearsMap {
				inlineCanon[c] = true
			} else if badInline == "" {
				badInline = m.Key() + " at " + p.Pos(ifs.Pos())
			}
			return true
		})
	}
	if canon == nil {
		if nInline == 0 {
			r.Lost(rule, "checkIfAllConnections (or its in-place form: if <all ports of all protocols> { AllowAll = true; AllowedProtocols = {} })")
			return
		}
		r.Check(badInline == "", rule, "netpol/internal/common.(*ConnectionSet).checkIfAllConnections: sets AllowAll and empties the protocol map", "-",
			"the canonicalisation is written in place under the fullness predicate", "the in-place canonicalisation in "+badInline+" no longer sets AllowAll=true with an empty protocol map: full sets stay spelled as three ranges")
	}
	var canonObj *types.Func
	if canon != nil {
		canonObj = canon.Obj
	}
	// the canonicaliser itself must set the flag and clear the map under the fullness test
	if canon != nil {
		setsFlag, clearsMap := false, false
		// the two writes, in the canonicaliser itself or in a method of the set it calls (a constant argument binds
		// the callee's parameter)
		var effects func(g *core.FuncDecl, bound map[types.Object]string, depth int)
		effects = func(g *core.FuncDecl, bound map[types.Object]string, depth int) {
			info := g.Pkg.TypesInfo
			ast.Inspect(g.Decl.Body, func(n ast.Node) bool {
				switch x := n.(type) {
				case *ast.AssignStmt:
					for i, l := range x.Lhs {
						if i >= len(x.Rhs) {
							continue
						}
						if core.FieldOf(info, l) == allField {
							if v, ok := core.ConstString(info, x.Rhs[i]); ok && v == "true" {
								setsFlag = true
							}
							if id, isId := ast.Unparen(x.Rhs[i]).(*ast.Ident); isId && bound[info.ObjectOf(id)] == "true" {
								setsFlag = true
							}
						}
						if core.FieldOf(info, l) == protoField {
							if cl, ok := ast.Unparen(x.Rhs[i]).(*ast.CompositeLit); ok && len(cl.Elts) == 0 {
								clearsMap = true
							}
							if c, ok := ast.Unparen(x.Rhs[i]).(*ast.CallExpr); ok && core.IsBuiltinCall(info, c, "make") && len(c.Args) == 1 {
								clearsMap = true
							}
						}
					}
				case *ast.CallExpr:
					if depth >= 1 {
						return true
					}
					fn := core.Callee(info, x)
					hd := p.ByObj[fn]
					if hd == nil || hd == g {
						return true
					}
					hsig := fn.Type().(*types.Signature)
					if hsig.Recv() == nil || !core.TypeIs(hsig.Recv().Type(), core.PkgCommon, "ConnectionSet") {
						return true
					}
					b := map[types.Object]string{}
					for k, a := range x.Args {
						if v, ok := core.ConstString(info, a); ok && k < hsig.Params().Len() {
							b[hsig.Params().At(k)] = v
						}
					}
					effects(hd, b, depth+1)
				}
				return true
			})
		}
		effects(canon, nil, 0)
		r.Check(setsFlag && clearsMap, rule, canon.Key()+": sets AllowAll and empties the protocol map", p.Pos(canon.Decl.Pos()),
			"canonicaliser has the expected shape", "checkIfAllConnections no longer sets AllowAll=true with an empty protocol map: full sets stay spelled as three ranges")
	}
	growers := map[string]bool{"Union": true, "AddPort": true, "AddPortRange": true}
	for _, m := range p.Methods(core.PkgCommon, "ConnectionSet") {
		info := m.Pkg.TypesInfo
		sig := m.Obj.Type().(*types.Signature)
		recv := sig.Recv()
		if recv == nil {
			continue
		}
		isRecvRooted := func(e ast.Expr) bool {
			id := core.RootIdent(e)
			return id != nil && info.ObjectOf(id) == recv
		}
		// grow events: store into recv.AllowedProtocols[...] of a non-empty value, or a growing PortSet call on one of its entries
		isGrow := func(n ast.Node) bool {
			switch x := n.(type) {
			case *ast.AssignStmt:
				for _, l := range x.Lhs {
					if ix, ok := ast.Unparen(l).(*ast.IndexExpr); ok && core.FieldOf(info, ix.X) == protoField && isRecvRooted(ix.X) {
						return true
					}
				}
			case *ast.CallExpr:
				fn := core.Callee(info, x)
				if fn == nil {
					return false
				}
				se, ok := ast.Unparen(x.Fun).(*ast.SelectorExpr)
				if !ok {
					return false
				}
				if core.RecvTypeName(fn.Type().(*types.Signature)) == "PortSet" && growers[core.RefName(fn)] {
					// receiver is an entry of the receiver's protocol map (directly or through a local loaded from it)
					return entryOfProtoMap(info, m, se.X, protoField, recv)
				}
				// unexported helpers of ConnectionSet that grow (addAllConns, AddConnection called on the receiver)
				if core.RecvTypeName(fn.Type().(*types.Signature)) == "ConnectionSet" && isRecvRooted(se.X) && fn != canonObj && fn != m.Obj {
					if fd := p.ByObj[fn]; fd != nil && growsProtoMap(p, fd, protoField) {
						return !establishesCanon(p, fd, canonObj)
					}
				}
			}
			return false
		}
		isCanon := func(n ast.Node) bool {
			switch x := n.(type) {
			case *ast.CallExpr:
				fn := core.Callee(info, x)
				if (canonObj != nil && fn == canonObj) || inlineCanon[x] {
					return true
				}
				// a callee that itself ends canonical
				if fn != nil && core.RecvTypeName(fn.Type().(*types.Signature)) == "ConnectionSet" && fn != m.Obj {
					if fd := p.ByObj[fn]; fd != nil && growsProtoMap(p, fd, protoField) && establishesCanon(p, fd, canonObj) {
						return true
					}
				}
			case *ast.AssignStmt:
				for i, l := range x.Lhs {
					if core.FieldOf(info, l) == allField && isRecvRooted(l) && i < len(x.Rhs) {
						if v, ok := core.ConstString(info, x.Rhs[i]); ok && v == "true" {
							return true
						}
					}
				}
			}
			return false
		}
		grows := false
		ast.Inspect(m.Decl.Body, func(n ast.Node) bool {
			if isGrow(n) {
				grows = true
			}
			return true
		})
		if !grows {
			continue
		}
		w := facts.NewWalker(info)
		bad := ""
		w.Transfer = func(st int, n ast.Node, f facts.Formula) int {
			if isCanon(n) {
				return 0
			}
			if isGrow(n) {
				return 1
			}
			return st
		}
		w.OnExit = func(st int, ret *ast.ReturnStmt, f facts.Formula) {
			if st == 1 && bad == "" {
				if ret != nil {
					bad = p.Pos(ret.Pos())
				} else {
					bad = p.Pos(m.Decl.End())
				}
			}
		}
		w.WalkBody(m.Decl.Body, nil)
		c := m.Key() + ": grows the protocol map and re-establishes the canonical form"
		switch {
		case bad == "":
			r.OK(rule, c, p.Pos(m.Decl.Pos()), "every exit after a growth has passed checkIfAllConnections (or set AllowAll)")
		case canonExceptions[m.Key()] != "":
			r.Add(rule, c, p.Pos(m.Decl.Pos()), core.Excepted, canonExceptions[m.Key()])
		default:
			r.Bad(rule, c, p.Pos(m.Decl.Pos()),
				"the method can add ports to the protocol map and return (at "+bad+") without the canonical-form check: a set covering all ports of TCP, UDP and SCTP stays spelled as three ranges, is not Equal to the AllowAll set and prints differently",
				"method: "+m.Key(), "exit without canonicalisation: "+bad)
		}
	}
	r.Floor(rule, 4)

	// encapsulation: the two fields are written, and the struct is built, only inside package common
	// (one reasoned constructor outside: it copies the flag of the row it rebuilds)
	for _, fd := range p.Funcs {
		if fd.Pkg.PkgPath == core.PkgCommon {
			continue
		}
		info := fd.Pkg.TypesInfo
		// the reviewed constructor may fill the set it builds field by field instead of in the literal
		rebuilds := fd.Pkg.PkgPath == core.PkgConnlist && core.RefName(fd.Obj) == "GetConnectionSetFromP2PConnection"
		fresh := map[types.Object]bool{}
		if rebuilds {
			ast.Inspect(fd.Decl.Body, func(n ast.Node) bool {
				if as, ok := n.(*ast.AssignStmt); ok && len(as.Lhs) == 1 && len(as.Rhs) == 1 {
					rhs := ast.Unparen(as.Rhs[0])
					if ue, isU := rhs.(*ast.UnaryExpr); isU && ue.Op == token.AND {
						rhs = ast.Unparen(ue.X)
					}
					if cl, isCl := rhs.(*ast.CompositeLit); isCl && core.TypeIs(info.TypeOf(cl), core.PkgCommon, "ConnectionSet") {
						if id, isID := as.Lhs[0].(*ast.Ident); isID {
							fresh[info.ObjectOf(id)] = true
						}
					}
				}
				return true
			})
		}
		ast.Inspect(fd.Decl.Body, func(n ast.Node) bool {
			switch x := n.(type) {
			case *ast.AssignStmt:
				for _, l := range x.Lhs {
					if rid := core.RootIdent(l); rebuilds && rid != nil && fresh[info.ObjectOf(rid)] {
						continue // judged with the literal below
					}
					if f := core.FieldOf(info, l); f == protoField || f == allField {
						r.Bad(rule+"-encap", fd.Key()+": writes ConnectionSet."+core.RefName(f)+" directly", p.Pos(x.Pos()), "the representation of a connection set is written outside package common: the canonical-form invariant is no longer protected by the package's operations")
					}
					if ix, ok := ast.Unparen(l).(*ast.IndexExpr); ok && core.FieldOf(info, ix.X) == protoField {
						r.Bad(rule+"-encap", fd.Key()+": stores into ConnectionSet.AllowedProtocols directly", p.Pos(x.Pos()), "the protocol map of a connection set is updated outside package common")
					}
				}
			case *ast.CompositeLit:
				if core.TypeIs(info.TypeOf(x), core.PkgCommon, "ConnectionSet") {
					c := fd.Key() + ": builds a ConnectionSet literal"
					if fd.Pkg.PkgPath == core.PkgConnlist && core.RefName(fd.Obj) == "GetConnectionSetFromP2PConnection" {
						ok := literalCopiesRow(info, x, allField, protoField)
						if !ok {
							// the flag written after the literal, from the row
							for _, fw := range FieldWrites(info, fd.Decl.Body) {
								if nm, _ := callName(info, fw.Value); fw.Field == allField && nm == "AllProtocolsAndPorts" {
									ok = true
								}
							}
						}
						r.Check(ok, rule+"-encap", c, p.Pos(x.Pos()), "rebuilds a set from a result row: AllowAll is the row's AllProtocolsAndPorts() and the map is filled from the row's ranges (canonical iff the row is)",
							"the literal no longer takes AllowAll from the row's AllProtocolsAndPorts(): rebuilt sets are not canonical and equalConns compares them")
					} else {
						r.Bad(rule+"-encap", c, p.Pos(x.Pos()), "a ConnectionSet is built by a composite literal outside package common (constructors MakeConnectionSet/Copy keep the invariant)")
					}
				}
			}
			return true
		})
	}
	r.Floor(rule+"-encap", 1)
}

func literalCopiesRow(info *types.Info, cl *ast.CompositeLit, allField, protoField *types.Var) bool {
	okAll := false
	for _, el := range cl.Elts {
		kv, ok := el.(*ast.KeyValueExpr)
		if !ok {
			return false
		}
		id, ok := kv.Key.(*ast.Ident)
		if !ok {
			continue
		}
		if info.ObjectOf(id) == allField {
			if call, ok := ast.Unparen(kv.Value).(*ast.CallExpr); ok {
				if fn := core.Callee(info, call); fn != nil && core.RefName(fn) == "AllProtocolsAndPorts" {
					okAll = true
				}
			}
		}
	}
	return okAll
}

func entryOfProtoMap(info *types.Info, m *core.FuncDecl, e ast.Expr, protoField *types.Var, recv *types.Var) bool {
	e = ast.Unparen(e)
	if ix, ok := e.(*ast.IndexExpr); ok {
		if core.FieldOf(info, ix.X) == protoField {
			id := core.RootIdent(ix.X)
			return id != nil && info.ObjectOf(id) == recv
		}
	}
	if id, ok := e.(*ast.Ident); ok {
		// local defined from recv.AllowedProtocols[...] (assignment or range)
		o := info.ObjectOf(id)
		found := false
		ast.Inspect(m.Decl.Body, func(n ast.Node) bool {
			switch x := n.(type) {
			case *ast.AssignStmt:
				if len(x.Rhs) == 1 && len(x.Lhs) >= 1 {
					if lid, ok := x.Lhs[0].(*ast.Ident); ok && info.ObjectOf(lid) == o {
						if ix, ok := ast.Unparen(x.Rhs[0]).(*ast.IndexExpr); ok && core.FieldOf(info, ix.X) == protoField {
							if rid := core.RootIdent(ix.X); rid != nil && info.ObjectOf(rid) == recv {
								found = true
							}
						}
					}
				}
			case *ast.RangeStmt:
				if vid, ok := x.Value.(*ast.Ident); ok && info.ObjectOf(vid) == o && core.FieldOf(info, x.X) == protoField {
					if rid := core.RootIdent(x.X); rid != nil && info.ObjectOf(rid) == recv {
						found = true
					}
				}
			}
			return true
		})
		return found
	}
	return false
}

func growsProtoMap(p *core.Program, fd *core.FuncDecl, protoField *types.Var) bool {
	info := fd.Pkg.TypesInfo
	grows := false
	ast.Inspect(fd.Decl.Body, func(n ast.Node) bool {
		if as, ok := n.(*ast.AssignStmt); ok {
			for _, l := range as.Lhs {
				if ix, ok := ast.Unparen(l).(*ast.IndexExpr); ok && core.FieldOf(info, ix.X) == protoField {
					grows = true
				}
			}
		}
		if call, ok := n.(*ast.CallExpr); ok {
			if fn := core.Callee(info, call); fn != nil && fn != fd.Obj && core.RecvTypeName(fn.Type().(*types.Signature)) == "ConnectionSet" {
				if g := p.ByObj[fn]; g != nil && g != fd && strings.HasPrefix(core.RefName(fn), "Add") {
					grows = true
				}
			}
		}
		return true
	})
	return grows
}

// establishesCanon: every normal exit of fd after a growth has passed the canonicaliser.
func establishesCanon(p *core.Program, fd *core.FuncDecl, canon *types.Func) bool {
	info := fd.Pkg.TypesInfo
	last := false
	// conservative and simple: the canonicaliser is called by the last statement of the body
	if n := len(fd.Decl.Body.List); n > 0 {
		if es, ok := fd.Decl.Body.List[n-1].(*ast.ExprStmt); ok {
			if call, ok := es.X.(*ast.CallExpr); ok && canon != nil && core.Callee(info, call) == canon {
				last = true
			}
		}
	}
	return last
}

var _ = fmt.Sprintf
