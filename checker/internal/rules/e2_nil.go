package rules

import (
	"fmt"
	"go/ast"
	"go/token"
	"go/types"
	"sort"
	"strings"

	"npverif/internal/core"
	"npverif/internal/facts"
)

// E2 — nil-guard analysis for decoded input and absent engine state.
//
// Maybe-nil sources:
//   N1 pointer-typed fields of structs declared in the external API packages (decoded from YAML: absent => nil)
//   N2 pointer-typed fields of module structs that may be nil (frozen list, cross-checked mechanically)
//   N3 results of the k8s.Peer getters (nil depending on PeerType)
//   N4 nil literals / nil-seeded locals passed to a callee that dereferences the parameter
//   N5 map lookups of pointer type dereferenced without comma-ok
//   N6 the value co-returned with an error, used where the error is known to be non-nil
//   N7 single-value type assertions
//   N8 constant index without a length fact
//   N9 panicking calls (panic/log.Fatal/os.Exit reachability; library preconditions)
//   N10 termination shape

var apiPkgPrefixes = []string{
	"k8s.io/api/",
	"k8s.io/apimachinery/pkg/apis/meta/v1",
	"github.com/openshift/api/",
	"sigs.k8s.io/network-policy-api/",
}

func isAPIPkg(path string) bool {
	for _, p := range apiPkgPrefixes {
		if strings.HasPrefix(path, p) {
			return true
		}
	}
	return false
}

// Module fields that may legitimately be nil (N2). Key: "pkgShort.Type.Field".
var n2Fields = map[string]string{
	"netpol/eval.PolicyEngine.baselineAdminNetpol":                "nil until a BaselineAdminNetworkPolicy is inserted, and after its deletion",
	"netpol/eval.evalCache.cache":                                 "nil when the lru cache could not be created",
	"netpol/eval/internal/k8s.PodPeer.NamespaceObject":            "nil for representative peers",
	"netpol/eval/internal/k8s.Pod.RepresentativePodLabelSelector": "nil for real pods and for 'any pod' representatives",
	"netpol/eval/internal/k8s.Pod.RepresentativeNsLabelSelector":  "nil for real pods",
	"manifests/parser.K8sObject.*":                                "only the field matching Kind is set (discharged by the kind tables, E6)",
}

// Reasoned exceptions: construct -> reason (one named construct each).
var e2Exceptions = map[string]string{
	"netpol/eval.(*PolicyEngine).getPoliciesSelectingPod: assertion peer.(*k8s.PodPeer) [N7]":                                                                                                                                                     "dominated by the PeerType()==IPBlockType early return; the only non-IP implementation of k8s.Peer is *PodPeer",
	"netpol/eval/internal/k8s.doesNamespacesFieldMatchPeer: deref of ‹k8s.Peer›.GetPeerNamespace() [N3]":                                                                                                                                          "peer is a pod here (IP test above); namespace objects are attached by getPeer/convertPeerToPodPeer for every real pod, and representative peers (nil namespace) never meet admin policies because exposure analysis rejects admin policies at insertion",
	"netpol/eval/internal/k8s.doesPodsFieldMatchPeer: deref of ‹k8s.Peer›.GetPeerNamespace() [N3]":                                                                                                                                                "same as doesNamespacesFieldMatchPeer",
	"netpol/eval.(*PolicyEngine).removeRedundantRepresentativePeers: deref of ‹*eval.PolicyEngine›.namespacesMap[‹*k8s.Pod›.Namespace] [N5]":                                                                                                      "the namespace was inserted by the resolveSingleMissingNamespace call that precedes the lookup in the same function (its error is returned before)",
	"netpol/internal/common.(*ConnectionSet).ReplaceNamedPortWithMatchingPortNum: deref of ‹*common.PortSet› (alias of ‹*common.ConnectionSet›.AllowedProtocols[‹v1.Protocol›] [N5]) [N4]":                                                        "called only from checkAndConvertNamedPortsInConnection with protocols that are keys of GetNamedPorts() of the very set the copy was made from, so the protocol is present",
	"netpol/eval.(*PolicyEngine).GetSelectedPeers: assertion ‹eval.Peer›.(*k8s.WorkloadPeer) [N7]":                                                                                                                                                "peer ranges over the values of createPodOwnersMap, which stores only &k8s.WorkloadPeer{} (its single store, checked by rule E2-N7-store)",
	"netpol/eval.(*PolicyEngine).allAllowedConnectionsBetweenPeers: assertion ‹eval.Peer›.(k8s.Peer) [N7]":                                                                                                                                        "callers pass only *k8s.PodPeer (converted) or IP peers under IsPeerIPType (checked by rule E2-N7-callers)",
	"netpol/diff.(mapListConnPairs).mergeBySrcOrDstIPPeers: constant index ‹[]*diff.connsPair›[0] [N8]":                                                                                                                                           "srcOrdstIPgroup ranges over the values of a map whose entries are created only by append of one element (diffMap.update / addConnsPair), hence non-empty",
	"netpol/eval.(*PolicyEngine).insertWorkload: ‹*k8s.Pod› (declared without initialiser and assigned only by a range loop that may not run) passed to netpol/eval.(*PolicyEngine).removeRedundantRepresentativePeers (dereferenced there) [N4]": "PodsFromWorkloadObject returns a slice of numReplicas pods and numReplicas is only ever the constant 1 or 2, so the loop runs at least once (checked by rule E2-N4-len)",
	"netpol/connlist/internal/ingressanalyzer.(*IngressAnalyzer).getIngressPeerConnection: deref of ‹*common.ConnectionSet› (alias of result of netpol/eval.GetPeerExposedTCPConnections (has a `return nil`) [N11]) [N11]":                       "GetPeerExposedTCPConnections returns nil only for IP peers and unknown peer types; the peers here are the values stored by mapServiceToPeers, which come from GetSelectedPeers and are *k8s.WorkloadPeer (E2-N7-store)",
}

// Peer-type invariants of parameters (N3): "function | param#i | @notIP" -> why the parameter is a pod peer whenever the
// function runs. The dereference may sit in the function itself or in a helper it hands the parameter to.
var n3ParamInvariant = map[string]string{
	"netpol/eval/internal/k8s.ruleConnections | param#1 | @notIP":        "reached only through updatePolicyConns after egressRuleSelectsPeer/ingressRuleSelectsPeer matched a Namespaces/Pods peer, which never match an IP block (C02-d), so dst is a pod; ANP named ports on IP destinations cannot occur",
	"netpol/eval/internal/k8s.anpPortContains | param#3 | @notIP":        "same invariant as ruleConnections: the rule's peer matched dst before the ports are examined, and admin-policy peers never match IP blocks",
	"netpol/eval.updatePeerXgressClusterWideExposure | param#1 | @notIP": "called with the policy that selected src for egress; NetworkPolicies select only pods (getPoliciesSelectingPod returns none for an IP block)",
	"netpol/eval.updatePeerXgressClusterWideExposure | param#2 | @notIP": "called with the policy that selected dst for ingress; NetworkPolicies select only pods (getPoliciesSelectingPod returns none for an IP block)",
}

// Lookups that the callers make present (N5): "function | lookup keyed by param#i" -> reason. Covers every map lookup
// in the function whose key is that parameter, however the map is reached (a field, an accessor, a local alias).
var n5KeyedByParam = map[string]string{
	"netpol/connlist.(*exposureMaps).appendPeerXgressExposureData | lookup keyed by param#0": "every call is dominated by addNewEntry(peer, _, isIngress) on the same peer and direction in the calling function (checked by rule E2-N5-pre)",
}

// Field invariants that hold inside one function (N2): "function | owner.Field" -> why the field is set for the values the
// function handles. Covers a dereference in the function and one in a helper the value is handed to.
var n2FieldInvariant = map[string]string{
	"* | netpol/eval.evalCache.cache": "cache is nil only when lru.New fails, which it does only for size <= 0; newEvalCacheWithSize clamps the size to [10,10000]. Not reachable by any input - wherever the field is dereferenced",
	"netpol/eval.(*PolicyEngine).removeRepresentativePeersMatchingLabels | netpol/eval/internal/k8s.Pod.RepresentativeNsLabelSelector": "entries of representativePeersMap are created only by addRepresentativePod, which stores a non-nil namespace selector (nil with an empty namespace is an error return, nil with a namespace is replaced by the name-label selector)",
}

// suffixField describes the last field of arg<suffix> as "pkg.Type.Field" ("" when it cannot be resolved).
func suffixField(info *types.Info, arg ast.Expr, suffix string) string {
	t := info.TypeOf(arg)
	desc := ""
	for _, name := range strings.Split(strings.TrimPrefix(suffix, "."), ".") {
		if t == nil {
			return ""
		}
		if pt, ok := t.Underlying().(*types.Pointer); ok {
			t = pt.Elem()
		}
		obj, _, _ := types.LookupFieldOrMethod(t, true, nil, name)
		if obj == nil && core.NamedOf(t) != nil && core.NamedOf(t).Obj().Pkg() != nil {
			obj, _, _ = types.LookupFieldOrMethod(t, true, core.NamedOf(t).Obj().Pkg(), name)
		}
		fld, ok := obj.(*types.Var)
		if !ok {
			return ""
		}
		owner := ""
		if nt := core.NamedOf(t); nt != nil && nt.Obj().Pkg() != nil {
			owner = core.ShortPkg(nt.Obj().Pkg().Path()) + "." + nt.Obj().Name()
		}
		desc = owner + "." + name
		t = fld.Type()
	}
	return desc
}

type nilAnalysis struct {
	p        *core.Program
	r        *core.Report
	requires map[*types.Func]map[string]string // fn -> "idx|suffix" -> witness position
	changed  bool
	report   bool
	getters  map[*types.Func]bool // N3 getters (interface method and implementations)
	peerType map[*types.Func]bool
	n2       map[*types.Var]string
	counts   map[string]int
	mayNil   map[*types.Func]map[int]string // result index -> witness: may be nil on a non-error return (N11)
	nilGuard map[*types.Func]map[int]int    // result index -> index of the bool result that is false whenever the nil is returned (-1: none)
}

// NilGuards runs E2 over all production packages.
func NilGuards(p *core.Program, r *core.Report) {
	a := &nilAnalysis{p: p, r: r, nilGuard: map[*types.Func]map[int]int{}, mayNil: map[*types.Func]map[int]string{}, requires: map[*types.Func]map[string]string{}, getters: map[*types.Func]bool{}, peerType: map[*types.Func]bool{}, n2: map[*types.Var]string{}, counts: map[string]int{}}
	a.resolve()
	// pass 1: requires-summaries to a fixpoint
	for iter := 0; iter < 12; iter++ {
		a.changed = false
		for _, fd := range p.Funcs {
			a.analyse(fd)
		}
		if !a.changed {
			break
		}
	}
	// pass 2: obligations
	a.report = true
	for _, fd := range p.Funcs {
		a.analyse(fd)
	}
	a.apiEntriesWithRequires()
	a.panicReachability()
	a.termination()
	var reqs []string
	for fn, m := range a.requires {
		for k := range m {
			if !strings.HasSuffix(k, "|") { // only the interesting ones (field paths)
				reqs = append(reqs, core.FuncKey(fn)+" requires param "+k+" != nil")
			}
		}
	}
	sort.Strings(reqs)
	r.Extra["e2_requires_summaries"] = reqs
}

func (a *nilAnalysis) resolve() {
	p := a.p
	if pk := p.ByPath[core.PkgK8s]; pk != nil {
		if tn, ok := pk.Types.Scope().Lookup("Peer").(*types.TypeName); ok {
			if iface, ok := tn.Type().Underlying().(*types.Interface); ok {
				for i := 0; i < iface.NumMethods(); i++ {
					m := iface.Method(i)
					sig := m.Type().(*types.Signature)
					if sig.Results().Len() == 1 {
						if _, isPtr := sig.Results().At(0).Type().(*types.Pointer); isPtr && sig.Params().Len() == 0 {
							a.getters[m] = true
							for _, impl := range p.Impls(m) {
								a.getters[impl] = true
							}
						}
					}
					if core.RefName(m) == "PeerType" {
						a.peerType[m] = true
						for _, impl := range p.Impls(m) {
							a.peerType[impl] = true
						}
					}
				}
			}
		}
	}
	if len(a.getters) == 0 {
		a.r.Lost("E2-N3", "k8s.Peer getters returning pointers")
	}
	for key, why := range n2Fields {
		parts := strings.Split(key, ".")
		if len(parts) < 3 || parts[len(parts)-1] == "*" {
			continue
		}
		pkg := core.ModPath + "/pkg/" + strings.Join(parts[:len(parts)-2], ".")
		if f := p.Field(pkg, parts[len(parts)-2], parts[len(parts)-1]); f != nil && why != "" {
			a.n2[f] = why
		}
	}
}

// ---------------------------------------------------------------- per function

type nilFunc struct {
	a       *nilAnalysis
	fd      *core.FuncDecl
	info    *types.Info
	w       *facts.Walker
	params  map[types.Object]int
	n5Param map[string]int // printed map lookups keyed by a parameter -> parameter index
	// locals that may hold nil: var x *T (no init), x := nil, or alias of a maybe-nil source
	seeded map[types.Object]string
	// v, err := f(): v -> (err object, version path of err at the definition)
	coErr    map[types.Object]string
	curStmt  ast.Stmt
	defs     map[types.Object]ast.Expr // single-assignment definitions of locals (for N9 validation idioms)
	stores   map[string]bool           // m[k] = ... stores seen so far in the function (N5 store-then-use), by printed lvalue
	okVars   map[types.Object]string   // ok variable of `v, ok := m[k]` -> printed m[k]
	seedKind map[types.Object]string
	// idiom `if e != nil { errVar = e; v = nil }`: v is nil only together with a non-nil errVar
	nilImpliesErr map[types.Object]types.Object
	guardVar      map[types.Object]types.Object // N11: bool variable that is true whenever the value is non-nil
	rangeReseed   map[*ast.RangeStmt]reseed
	valVars       map[types.Object]types.Object // value variable of the same comma-ok -> ok variable
	coErrObjs     map[types.Object]types.Object
}

// correlatedNilAssignments recognises `if e != nil { errVar = e; v = nil }`.
func correlatedNilAssignments(fd *core.FuncDecl) map[types.Object]types.Object {
	info := fd.Pkg.TypesInfo
	out := map[types.Object]types.Object{}
	// candidates; a variable assigned nil anywhere else loses the correlation
	nilAssigns := map[types.Object]int{}
	ast.Inspect(fd.Decl.Body, func(n ast.Node) bool {
		if as, ok := n.(*ast.AssignStmt); ok && len(as.Lhs) == len(as.Rhs) {
			for i, l := range as.Lhs {
				if id, ok := l.(*ast.Ident); ok && core.IsNil(info, as.Rhs[i]) {
					nilAssigns[info.ObjectOf(id)]++
				}
			}
		}
		return true
	})
	ast.Inspect(fd.Decl.Body, func(n ast.Node) bool {
		ifs, ok := n.(*ast.IfStmt)
		if !ok {
			return true
		}
		be, ok := ast.Unparen(ifs.Cond).(*ast.BinaryExpr)
		if !ok || be.Op != token.NEQ || !core.IsNil(info, be.Y) {
			return true
		}
		cid, ok := ast.Unparen(be.X).(*ast.Ident)
		if !ok || !core.IsErrorType(info.TypeOf(cid)) {
			return true
		}
		var errVar types.Object
		var nils []types.Object
		for _, st := range ifs.Body.List {
			as, ok := st.(*ast.AssignStmt)
			if !ok || len(as.Lhs) != 1 || len(as.Rhs) != 1 || as.Tok != token.ASSIGN {
				continue
			}
			lid, ok := as.Lhs[0].(*ast.Ident)
			if !ok {
				continue
			}
			if rid, ok := ast.Unparen(as.Rhs[0]).(*ast.Ident); ok && info.ObjectOf(rid) == info.ObjectOf(cid) {
				errVar = info.ObjectOf(lid)
			}
			if core.IsNil(info, as.Rhs[0]) {
				nils = append(nils, info.ObjectOf(lid))
			}
		}
		if errVar != nil {
			for _, v := range nils {
				if nilAssigns[v] == 1 {
					out[v] = errVar
				}
			}
		}
		return true
	})
	return out
}

type reseed struct {
	o   types.Object
	why string
}

// rangesGeneratedPods: x is a local whose every assignment in the function is the first result of k8s.PodsFromWorkloadObject,
// which returns at least one pod whenever its error is nil (rule E2-N4-len); the error return precedes any use because a
// range over the nil slice of the error path assigns nothing either way and the seeded variable is only reported after the loop.
func (f *nilFunc) rangesGeneratedPods(x ast.Expr, fm facts.Formula) bool {
	id, ok := ast.Unparen(x).(*ast.Ident)
	if !ok {
		return false
	}
	o, ok := f.info.ObjectOf(id).(*types.Var)
	gen := f.a.p.Func(core.PkgK8s, "", "PodsFromWorkloadObject")
	if !ok || gen == nil || o.IsField() || o.Parent() == nil || o.Parent() == o.Pkg().Scope() {
		return false
	}
	if _, isParam := f.params[o]; isParam {
		return false
	}
	n, good := 0, true
	var errObj types.Object
	ast.Inspect(f.fd.Decl.Body, func(m ast.Node) bool {
		switch s := m.(type) {
		case *ast.AssignStmt:
			for i, l := range s.Lhs {
				lid, ok := ast.Unparen(l).(*ast.Ident)
				if !ok || f.info.ObjectOf(lid) != o {
					continue
				}
				n++
				c, isCall := ast.Unparen(s.Rhs[0]).(*ast.CallExpr)
				if i != 0 || len(s.Rhs) != 1 || len(s.Lhs) != 2 || !isCall || core.Callee(f.info, c) != gen.Obj {
					good = false
					continue
				}
				if eid, ok := ast.Unparen(s.Lhs[1]).(*ast.Ident); ok {
					errObj = f.info.ObjectOf(eid)
				}
			}
		case *ast.UnaryExpr:
			if s.Op == token.AND {
				if lid, ok := ast.Unparen(s.X).(*ast.Ident); ok && f.info.ObjectOf(lid) == o {
					good = false
				}
			}
		}
		return true
	})
	if n != 1 || !good || errObj == nil {
		return false
	}
	// on every path reaching the loop the error of that call is known to be nil
	ev, ok := errObj.(*types.Var)
	return ok && facts.Entails(fm, facts.Atom("nil:"+f.w.PathOfVar(ev)))
}

// reassigned: the variable is assigned (or its address taken) somewhere in the function body.
func (f *nilFunc) reassigned(o types.Object) bool {
	found := false
	ast.Inspect(f.fd.Decl.Body, func(m ast.Node) bool {
		switch s := m.(type) {
		case *ast.AssignStmt:
			for _, l := range s.Lhs {
				if id, ok := ast.Unparen(l).(*ast.Ident); ok && f.info.ObjectOf(id) == o {
					found = true
				}
			}
		case *ast.UnaryExpr:
			if id, ok := ast.Unparen(s.X).(*ast.Ident); ok && s.Op == token.AND && f.info.ObjectOf(id) == o {
				found = true
			}
		case *ast.RangeStmt:
			for _, l := range []ast.Expr{s.Key, s.Value} {
				if id, ok := l.(*ast.Ident); ok && s.Tok == token.ASSIGN && f.info.ObjectOf(id) == o {
					found = true
				}
			}
		}
		return !found
	})
	return found
}

func (a *nilAnalysis) analyse(fd *core.FuncDecl) {
	f := &nilFunc{a: a, fd: fd, guardVar: map[types.Object]types.Object{}, seedKind: map[types.Object]string{}, rangeReseed: map[*ast.RangeStmt]reseed{}, info: fd.Pkg.TypesInfo, params: map[types.Object]int{}, seeded: map[types.Object]string{}, coErr: map[types.Object]string{},
		defs: map[types.Object]ast.Expr{}, stores: map[string]bool{}, okVars: map[types.Object]string{}, valVars: map[types.Object]types.Object{}}
	sig := fd.Obj.Type().(*types.Signature)
	for i := 0; i < sig.Params().Len(); i++ {
		f.params[sig.Params().At(i)] = i
	}
	f.nilImpliesErr = correlatedNilAssignments(fd)
	w := facts.NewWalker(f.info)
	f.w = w
	w.Atomize = f.atomize
	w.OnStmt = func(s ast.Stmt, fm facts.Formula) {
		switch s.(type) {
		case *ast.BlockStmt, *ast.IfStmt, *ast.ForStmt, *ast.RangeStmt, *ast.SwitchStmt, *ast.TypeSwitchStmt, *ast.LabeledStmt:
		default:
			f.curStmt = s
		}
		if ret, ok := s.(*ast.ReturnStmt); ok && w.FuncLitDepth == 0 {
			f.recordNilReturns(ret, fm)
		}
		if ds, ok := s.(*ast.DeclStmt); ok {
			if gd, ok := ds.Decl.(*ast.GenDecl); ok && gd.Tok == token.VAR {
				for _, sp := range gd.Specs {
					vs := sp.(*ast.ValueSpec)
					if len(vs.Values) == 0 {
						for _, n := range vs.Names {
							o := f.info.ObjectOf(n)
							if o != nil && isNilable(o.Type()) {
								f.seeded[o] = "declared without initialiser"
							}
						}
					}
				}
			}
		}
		if rs, ok := s.(*ast.RangeStmt); ok && rs.Tok == token.ASSIGN {
			// for _, x = range xs: inside the body x is an element; after the loop it still holds its previous value if xs was empty
			if id, ok := rs.Value.(*ast.Ident); ok {
				if o := f.info.ObjectOf(id); o != nil {
					if why, was := f.seeded[o]; was {
						delete(f.seeded, o)
						if f.rangesGeneratedPods(rs.X, fm) {
							// the loop runs at least once (premise E2-N4-len): after it the variable holds an element
							f.a.counts["N4-len-range"]++
							return
						}
						if pid, ok := ast.Unparen(rs.X).(*ast.Ident); ok && !fd.Obj.Exported() {
							if idx, isParam := f.params[f.info.ObjectOf(pid)]; isParam && !f.reassigned(f.info.ObjectOf(pid)) {
								// the ranged slice is a parameter of an internal function: its callers must pass a non-empty one
								f.addRequires(idx, "@nonEmpty", f.a.p.Pos(rs.Pos()))
								return
							}
						}
						f.rangeReseed[rs] = reseed{o, why + " and assigned only by a range loop that may not run"}
					}
				}
			}
		}
	}
	w.OnLoopBodyEnd = func(loop ast.Stmt, states uint64, fm facts.Formula) {
		if rs, ok := loop.(*ast.RangeStmt); ok {
			if rsd, ok := f.rangeReseed[rs]; ok {
				f.seeded[rsd.o] = rsd.why
			}
		}
	}
	w.OnAssign = f.onAssign
	w.OnExpr = f.onExpr
	w.WalkBody(fd.Decl.Body, nil)
}

// recordNilReturns: N11 summary - which results may be nil when the function returns without an error.
func (f *nilFunc) recordNilReturns(ret *ast.ReturnStmt, fm facts.Formula) {
	sig := f.fd.Obj.Type().(*types.Signature)
	res := sig.Results()
	if len(ret.Results) == 1 && res.Len() > 1 {
		// return g(...): forwards g's results, including its nil-on-success summary
		if call, ok := ast.Unparen(ret.Results[0]).(*ast.CallExpr); ok {
			if fn := core.Callee(f.info, call); fn != nil {
				for _, g := range f.a.p.Impls(fn) {
					for i, why := range f.a.mayNil[g] {
						m := f.a.mayNil[f.fd.Obj]
						if m == nil {
							m = map[int]string{}
							f.a.mayNil[f.fd.Obj] = m
						}
						if _, ok := m[i]; !ok {
							m[i] = "forwards " + core.FuncKey(g) + ", which " + why
							f.a.changed = true
							if f.a.nilGuard[f.fd.Obj] == nil {
								f.a.nilGuard[f.fd.Obj] = map[int]int{}
							}
							f.a.nilGuard[f.fd.Obj][i] = f.a.nilGuard[g][i]
						}
					}
				}
			}
		}
		return
	}
	if len(ret.Results) != res.Len() || res.Len() == 0 {
		return
	}
	if IsErrorReturn(f.a.p, f.w, f.fd.Obj, ret, fm) {
		return
	}
	for i, e := range ret.Results {
		t := res.At(i).Type()
		if core.IsErrorType(t) || !isNilable(t) {
			continue
		}
		why := ""
		e = ast.Unparen(e)
		if id, ok := e.(*ast.Ident); ok {
			if ev, ok := f.nilImpliesErr[f.info.ObjectOf(id)]; ok {
				if lid, ok := ast.Unparen(ret.Results[len(ret.Results)-1]).(*ast.Ident); ok && f.info.ObjectOf(lid) == ev {
					continue // nil only together with the non-nil error returned alongside
				}
			}
		}
		switch {
		case core.IsNil(f.info, e):
			why = "has a `return nil`"
		default:
			if kind, desc := f.source(e, fm); (kind == "N4" || kind == "N11") && !f.nonNil(e, kind, fm) {
				why = "returns " + desc + " at " + f.a.p.Pos(ret.Pos())
			}
		}
		if why == "" {
			continue
		}
		// correlated flag: the nil is returned together with a constant false in a bool result
		guard := -1
		for j, e2 := range ret.Results {
			if b, ok := res.At(j).Type().Underlying().(*types.Basic); ok && b.Kind() == types.Bool {
				if v, ok := core.ConstString(f.info, e2); ok && v == "false" {
					guard = j
				}
			}
		}
		m := f.a.mayNil[f.fd.Obj]
		if m == nil {
			m = map[int]string{}
			f.a.mayNil[f.fd.Obj] = m
		}
		if _, ok := m[i]; !ok {
			m[i] = why
			f.a.changed = true
			if f.a.nilGuard[f.fd.Obj] == nil {
				f.a.nilGuard[f.fd.Obj] = map[int]int{}
			}
			f.a.nilGuard[f.fd.Obj][i] = guard
		} else if g, ok := f.a.nilGuard[f.fd.Obj][i]; ok && g != guard && g != -1 {
			f.a.nilGuard[f.fd.Obj][i] = -1 // not every nil return carries the same flag
			f.a.changed = true
		}
	}
}

func isNilable(t types.Type) bool {
	if t == nil {
		return false
	}
	switch t.Underlying().(type) {
	case *types.Pointer, *types.Interface:
		return true
	}
	return false
}

func (f *nilFunc) atomize(w *facts.Walker, e ast.Expr) facts.Formula {
	// X.PeerType() == k8s.IPBlockType / PodType ; X.IsPeerIPType()
	if be, ok := e.(*ast.BinaryExpr); ok && (be.Op == token.EQL || be.Op == token.NEQ) {
		l, r := ast.Unparen(be.X), ast.Unparen(be.Y)
		if c, ok := l.(*ast.CallExpr); !ok || !f.isPeerTypeCall(c) {
			l, r = r, l
		}
		if c, ok := l.(*ast.CallExpr); ok && f.isPeerTypeCall(c) {
			recv := c.Fun.(*ast.SelectorExpr).X
			var at facts.Formula
			switch constName(f.info, r) {
			case "IPBlockType":
				at = facts.Atom("isIP:" + w.Path(recv))
			case "PodType":
				at = facts.Not{X: facts.Atom("isIP:" + w.Path(recv))}
			}
			if at != nil {
				if be.Op == token.NEQ {
					return facts.MkNot(at)
				}
				return at
			}
		}
	}
	if c, ok := e.(*ast.CallExpr); ok {
		if fn := core.Callee(f.info, c); fn != nil && core.RefName(fn) == "IsPeerIPType" {
			if se, ok := c.Fun.(*ast.SelectorExpr); ok {
				return facts.Atom("isIP:" + w.Path(se.X))
			}
		}
	}
	return nil
}

func constName(info *types.Info, e ast.Expr) string {
	switch x := ast.Unparen(e).(type) {
	case *ast.Ident:
		if c, ok := info.Uses[x].(*types.Const); ok {
			return c.Name()
		}
	case *ast.SelectorExpr:
		if c, ok := info.Uses[x.Sel].(*types.Const); ok {
			return c.Name()
		}
	}
	return ""
}

func (f *nilFunc) isPeerTypeCall(c *ast.CallExpr) bool {
	if _, ok := c.Fun.(*ast.SelectorExpr); !ok {
		return false
	}
	fn := core.Callee(f.info, c)
	return fn != nil && f.a.peerType[fn]
}

func (f *nilFunc) onAssign(lhs, rhs ast.Expr, st ast.Stmt, fm facts.Formula) {
	id, ok := ast.Unparen(lhs).(*ast.Ident)
	if !ok || id.Name == "_" {
		// m[k] = ... store (N5 store-then-use)
		if ix, ok := ast.Unparen(lhs).(*ast.IndexExpr); ok {
			f.stores[core.ExprStr(ix)] = true
		}
		return
	}
	o := f.info.ObjectOf(id)
	if o == nil {
		return
	}
	as, isAssign := st.(*ast.AssignStmt)
	// definitions (for N9 idioms)
	if _, seen := f.defs[o]; !seen && rhs != nil {
		f.defs[o] = rhs
	} else {
		f.defs[o] = nil // assigned more than once
	}
	if _, isDecl := st.(*ast.DeclStmt); isDecl && rhs == nil {
		return // `var x *T`: stays nil-seeded (recorded by OnStmt)
	}
	delete(f.seeded, o)
	delete(f.seedKind, o)
	delete(f.coErr, o)
	if rhs == nil {
		return
	}
	if isAssign && len(as.Lhs) > 1 && len(as.Rhs) == 1 {
		// multi-value forms
		switch rx := ast.Unparen(as.Rhs[0]).(type) {
		case *ast.CallExpr:
			// N11: result #i of a callee that may return nil on success
			if fn := core.Callee(f.info, rx); fn != nil {
				for i, l := range as.Lhs {
					if l != lhs {
						continue
					}
					for _, g := range f.a.p.Impls(fn) {
						if why, ok := f.a.mayNil[g][i]; ok && isNilable(o.Type()) {
							f.seeded[o] = "result #" + fmt.Sprint(i) + " of " + core.FuncKey(g) + ", which " + why + " without an error"
							f.seedKind[o] = "N11"
							if gi, ok := f.a.nilGuard[g][i]; ok && gi >= 0 && gi < len(as.Lhs) {
								if gid, ok := as.Lhs[gi].(*ast.Ident); ok && gid.Name != "_" {
									f.guardVar[o] = f.info.ObjectOf(gid)
								}
							}
						}
					}
				}
			}
			// v, err := f()
			last := as.Lhs[len(as.Lhs)-1]
			if lid, ok := last.(*ast.Ident); ok && lid.Name != "_" && core.IsErrorType(f.info.TypeOf(lid)) && id != lid && isNilable(o.Type()) {
				// the err variable gets its new version after the statement: record by object, resolved lazily
				f.coErr[o] = lid.Name
				f.coErrObj(o, f.info.ObjectOf(lid))
			}
		case *ast.IndexExpr:
			// v, ok := m[k]
			if len(as.Lhs) == 2 {
				if okid, ok2 := as.Lhs[1].(*ast.Ident); ok2 && okid.Name != "_" {
					okObj := f.info.ObjectOf(okid)
					if id == as.Lhs[0] {
						f.valVars[o] = okObj
					}
					f.okVars[okObj] = core.ExprStr(rx)
				}
			}
		}
		return
	}
	if core.IsNil(f.info, rhs) && isNilable(o.Type()) {
		f.seeded[o] = "assigned nil"
		return
	}
	// alias of a maybe-nil source
	if kind, desc := f.source(rhs, fm); kind != "" && isNilable(o.Type()) {
		if !f.nonNil(rhs, kind, fm) {
			f.seeded[o] = "alias of " + desc + " [" + kind + "]"
			if kind == "N11" {
				f.seedKind[o] = "N11"
			}
		}
	}
}

func (f *nilFunc) coErrObj(v, err types.Object) {
	if f.coErrObjs == nil {
		f.coErrObjs = map[types.Object]types.Object{}
	}
	f.coErrObjs[v] = err
}

// source classifies e as a maybe-nil source.
func (f *nilFunc) source(e ast.Expr, fm facts.Formula) (kind, desc string) {
	e = ast.Unparen(e)
	switch x := e.(type) {
	case *ast.Ident:
		if core.IsNil(f.info, x) {
			return "N4", "nil literal"
		}
		o := f.info.ObjectOf(x)
		if why, ok := f.seeded[o]; ok {
			if k := f.seedKind[o]; k != "" {
				return k, core.Stable(f.info, x) + " (" + why + ")"
			}
			return "N4", core.Stable(f.info, x) + " (" + why + ")"
		}
		if okObj, ok := f.valVars[o]; ok && okObj != nil {
			if _, isPtr := o.Type().Underlying().(*types.Pointer); isPtr {
				return "N5v", core.Stable(f.info, x) + " (value of a comma-ok map lookup, nil when the key is absent)"
			}
		}
	case *ast.SelectorExpr:
		if fld := core.FieldOf(f.info, x); fld != nil {
			if _, isPtr := fld.Type().Underlying().(*types.Pointer); isPtr {
				if fld.Pkg() != nil && isAPIPkg(fld.Pkg().Path()) {
					return "N1", fieldDesc(f.info, x)
				}
				if _, ok := f.a.n2[fld]; ok {
					return "N2", fieldDesc(f.info, x)
				}
			}
		}
	case *ast.CallExpr:
		if fn := core.Callee(f.info, x); fn != nil && f.a.getters[fn] {
			if se, ok := x.Fun.(*ast.SelectorExpr); ok {
				return "N3", core.Stable(f.info, se.X) + "." + core.RefName(fn) + "()"
			}
		}
		if fn := core.Callee(f.info, x); fn != nil {
			for _, g := range f.a.p.Impls(fn) {
				if why, ok := f.a.mayNil[g][0]; ok && g.Type().(*types.Signature).Results().Len() == 1 {
					return "N11", "result of " + core.FuncKey(g) + " (" + why + ")"
				}
			}
		}
	case *ast.IndexExpr:
		if mt, ok := f.info.TypeOf(x.X).Underlying().(*types.Map); ok {
			if _, isPtr := mt.Elem().Underlying().(*types.Pointer); isPtr {
				d := core.Stable(f.info, x)
				if id, isId := ast.Unparen(x.Index).(*ast.Ident); isId {
					if idx, isParam := f.params[f.info.ObjectOf(id)]; isParam {
						if f.n5Param == nil {
							f.n5Param = map[string]int{}
						}
						f.n5Param[d] = idx
					}
				}
				return "N5", d
			}
		}
	}
	return "", ""
}

// paramKeyedLookup: desc describes (an alias of) a map lookup keyed by a parameter for which the function has a tabled
// caller-side guarantee.
func (f *nilFunc) paramKeyedLookup(desc string) (string, string, bool) {
	for d, idx := range f.n5Param {
		if desc == d || strings.Contains(desc, "alias of "+d+" [N5]") {
			key := fmt.Sprintf("%s | lookup keyed by param#%d", f.fd.Key(), idx)
			if why, ok := n5KeyedByParam[key]; ok {
				return key, why, true
			}
		}
	}
	return "", "", false
}

func fieldDesc(info *types.Info, se *ast.SelectorExpr) string {
	sel := info.Selections[se]
	return core.ShortPkg(core.FieldOwnerName(sel)) + "." + se.Sel.Name
}

// nonNil decides whether the maybe-nil source e is known non-nil under fm.
func (f *nilFunc) nonNil(e ast.Expr, kind string, fm facts.Formula) bool {
	e = ast.Unparen(e)
	if facts.Entails(fm, facts.Not{X: facts.Atom("nil:" + f.w.Path(e))}) {
		return true
	}
	switch kind {
	case "N3":
		call := e.(*ast.CallExpr)
		fn := core.Callee(f.info, call)
		recv := call.Fun.(*ast.SelectorExpr).X
		isIP := facts.Atom("isIP:" + f.w.Path(recv))
		switch {
		case strings.Contains(core.RefName(fn), "IPBlock"):
			return facts.Entails(fm, isIP)
		case strings.Contains(core.RefName(fn), "Namespace"):
			return false // a pod peer may still have no namespace object (N2): only a nil test discharges it
		default:
			return facts.Entails(fm, facts.Not{X: isIP})
		}
	case "N5":
		return f.mapLookupSafe(e.(*ast.IndexExpr), fm)
	case "N11":
		if id, ok := e.(*ast.Ident); ok {
			if gv, ok := f.guardVar[f.info.ObjectOf(id)].(*types.Var); ok {
				return facts.Entails(fm, facts.Atom("b:"+f.w.PathOfVar(gv)))
			}
		}
	case "N5v":
		if id, ok := e.(*ast.Ident); ok {
			if okObj, ok := f.valVars[f.info.ObjectOf(id)].(*types.Var); ok {
				return facts.Entails(fm, facts.Atom("b:"+f.w.PathOfVar(okObj)))
			}
		}
	}
	return false
}

// mapLookupSafe recognises the idioms that make m[k] present.
func (f *nilFunc) mapLookupSafe(ix *ast.IndexExpr, fm facts.Formula) bool {
	s := core.ExprStr(ix)
	// (a) comma-ok on the same m[k] whose ok holds here
	for okObj, what := range f.okVars {
		if what == s {
			if v, ok := okObj.(*types.Var); ok && facts.Entails(fm, facts.Atom("b:"+f.w.PathOfVar(v))) {
				return true
			}
		}
	}
	// (b) range over the same map with the key variable as index
	for _, l := range f.w.Loops {
		if rs, ok := l.(*ast.RangeStmt); ok && rs.Key != nil {
			if core.ExprStr(rs.X) == core.ExprStr(ix.X) && core.ExprStr(rs.Key) == core.ExprStr(ix.Index) {
				return true
			}
		}
	}
	// (c) ensure-then-use / store-then-use with the same key earlier in the function
	if f.stores[s] {
		return true
	}
	return false
}

func (f *nilFunc) construct(what, kind string) string {
	return fmt.Sprintf("%s: %s [%s]", f.fd.Key(), what, kind)
}

// paramSuffix: if e is rooted at a parameter through field selections only,
// returns (index, ".f.g").
func (f *nilFunc) paramSuffix(e ast.Expr) (int, string, bool) {
	suffix := ""
	for {
		switch x := ast.Unparen(e).(type) {
		case *ast.Ident:
			idx, ok := f.params[f.info.ObjectOf(x)]
			return idx, suffix, ok
		case *ast.SelectorExpr:
			if core.FieldOf(f.info, x) == nil {
				return 0, "", false
			}
			suffix = "." + x.Sel.Name + suffix
			e = x.X
		default:
			return 0, "", false
		}
	}
}

func (f *nilFunc) addRequires(idx int, suffix, witness string) {
	m := f.a.requires[f.fd.Obj]
	if m == nil {
		m = map[string]string{}
		f.a.requires[f.fd.Obj] = m
	}
	k := fmt.Sprintf("%d|%s", idx, suffix)
	if _, ok := m[k]; !ok {
		m[k] = witness
		f.a.changed = true
	}
}

// requirePeerType records that parameter idx of the current function must have the given peer type: discharged by a
// tabled invariant of that parameter, or exported to the callers.
func (f *nilFunc) requirePeerType(idx int, req string, pos string) {
	key := fmt.Sprintf("%s | param#%d | %s", f.fd.Key(), idx, req)
	if why, ok := n3ParamInvariant[key]; ok {
		if f.a.report {
			f.a.r.Add("E2-N3", key, pos, core.Excepted, why)
		}
		return
	}
	f.addRequires(idx, req, pos)
}

// deref handles one dereference of target t.
func (f *nilFunc) deref(t ast.Expr, at ast.Node, fm facts.Formula) {
	t = ast.Unparen(t)
	tt := f.info.TypeOf(t)
	if tt == nil {
		return
	}
	_, isPtr := tt.Underlying().(*types.Pointer)
	_, isIface := tt.Underlying().(*types.Interface)
	if !isPtr && !isIface {
		return
	}
	kind, desc := f.source(t, fm)
	// N6: value co-returned with an error, used where the error is non-nil
	if id, ok := t.(*ast.Ident); ok {
		f.checkCoErr(id, at, fm)
	}
	if kind == "" {
		// plain pointer: only interesting as a requires-summary on a parameter
		if idx, suffix, ok := f.paramSuffix(t); ok && suffix == "" {
			if !facts.Entails(fm, facts.Not{X: facts.Atom("nil:" + f.w.Path(t))}) {
				f.addRequires(idx, "", f.a.p.Pos(at.Pos()))
			}
		}
		return
	}
	if f.nonNil(t, kind, fm) {
		if f.a.report {
			f.a.r.OK("E2-"+kind, f.construct("deref of "+desc, kind), f.a.p.Pos(at.Pos()), "guarded: the path condition entails that it is not nil")
		}
		return
	}
	// not discharged locally: push to the callers when it is a field path of a parameter
	if kind == "N1" || kind == "N2" {
		if idx, suffix, ok := f.paramSuffix(t); ok && suffix != "" {
			f.addRequires(idx, suffix, f.a.p.Pos(at.Pos()))
			if f.a.report {
				f.a.r.OK("E2-"+kind, f.construct("deref of "+desc, kind), f.a.p.Pos(at.Pos()), "exported as a requires-summary: every call site must establish that it is not nil")
			}
			return
		}
	}
	c := f.construct("deref of "+desc, kind)
	if why, ok := e2Exceptions[c]; ok {
		if f.a.report {
			f.a.r.Add("E2-"+kind, c, f.a.p.Pos(at.Pos()), core.Excepted, why)
		}
		return
	}
	if why, ok := n2FieldInvariant[f.fd.Key()+" | "+desc]; ok && kind == "N2" {
		if f.a.report {
			f.a.r.Add("E2-N2", f.fd.Key()+" | "+desc, f.a.p.Pos(at.Pos()), core.Excepted, why)
		}
		return
	}
	if why, ok := n2FieldInvariant["* | "+desc]; ok && kind == "N2" {
		if f.a.report {
			f.a.r.Add("E2-N2", "* | "+desc, f.a.p.Pos(at.Pos()), core.Excepted, why)
		}
		return
	}
	if key, why, ok := f.paramKeyedLookup(desc); ok && (kind == "N5" || kind == "N4") {
		if f.a.report {
			f.a.r.Add("E2-N5", key, f.a.p.Pos(at.Pos()), core.Excepted, why)
		}
		return
	}
	// N3 on a peer parameter (a helper extracted from a guarded region): the peer-type precondition goes to the callers
	if kind == "N3" {
		if call, isCall := t.(*ast.CallExpr); isCall {
			if se, isSe := call.Fun.(*ast.SelectorExpr); isSe {
				fn := core.Callee(f.info, call)
				if idx, suffix, isParam := f.paramSuffix(se.X); isParam && suffix == "" && fn != nil && !strings.Contains(core.RefName(fn), "Namespace") {
					req := "@notIP"
					if strings.Contains(core.RefName(fn), "IPBlock") {
						req = "@isIP"
					}
					f.requirePeerType(idx, req, f.a.p.Pos(at.Pos()))
					if f.a.report {
						f.a.r.OK("E2-"+kind, c, f.a.p.Pos(at.Pos()), "a precondition on the parameter: a tabled invariant of it, or every call site must establish the peer type of the argument")
					}
					return
				}
			}
		}
	}
	if !f.a.report {
		return
	}
	f.a.r.Bad("E2-"+kind, c, f.a.p.Pos(at.Pos()),
		fmt.Sprintf("%s may be nil here (%s) and is dereferenced; no nil test, PeerType test or other recognised guard dominates the use: a panic for the input that leaves it unset", desc, kindDoc(kind)),
		"function: "+f.fd.Key(), "dereference: "+core.ExprStr(at)+" at "+f.a.p.Pos(at.Pos()), "facts in scope: "+facts.StripVersions(facts.String(fm)))
}

func kindDoc(kind string) string {
	switch kind {
	case "N1":
		return "optional pointer field of an API object decoded from a manifest: absent => nil"
	case "N2":
		return "module field that is nil in some states"
	case "N3":
		return "peer getter that returns nil for the other peer type"
	case "N4":
		return "nil literal or local that is nil on some path"
	case "N5", "N5v":
		return "map lookup of a key that may be absent yields nil"
	case "N11":
		return "result of a function that returns nil without an error on some path"
	}
	return kind
}

func (f *nilFunc) checkCoErr(id *ast.Ident, at ast.Node, fm facts.Formula) {
	o := f.info.ObjectOf(id)
	if _, ok := f.coErr[o]; !ok {
		return
	}
	errObj, _ := f.coErrObjs[o].(*types.Var)
	if errObj == nil {
		return
	}
	if ret, isRet := f.curStmt.(*ast.ReturnStmt); isRet {
		for _, res := range ret.Results {
			if ast.Unparen(res) == ast.Expr(id) {
				return // handed back together with the error: the conventional `return v, err`
			}
		}
	}
	if facts.Entails(fm, facts.Not{X: facts.Atom("nil:" + f.w.PathOfVar(errObj))}) {
		c := f.construct("use of "+id.Name+" co-returned with "+core.RefName(errObj)+" on the error path", "N6")
		if f.a.report {
			f.a.r.Bad("E2-N6", c, f.a.p.Pos(at.Pos()),
				fmt.Sprintf("%s was returned together with %s and is used where %s != nil is known: by convention it is the zero value (nil) there", id.Name, core.RefName(errObj), core.RefName(errObj)),
				"function: "+f.fd.Key(), "use: "+core.ExprStr(at)+" at "+f.a.p.Pos(at.Pos()))
		}
	}
}

func (f *nilFunc) onExpr(e ast.Expr, fm facts.Formula) {
	switch x := e.(type) {
	case *ast.StarExpr:
		f.deref(x.X, x, fm)
	case *ast.SelectorExpr:
		if sel := f.info.Selections[x]; sel != nil {
			if xt := f.info.TypeOf(x.X); xt != nil {
				if _, isPtr := xt.Underlying().(*types.Pointer); isPtr {
					f.deref(x.X, x, fm)
				} else if _, isIface := xt.Underlying().(*types.Interface); isIface && sel.Kind() == types.MethodVal {
					f.deref(x.X, x, fm) // a method call on a nil interface value panics
				}
			}
		}
	case *ast.CallExpr:
		f.call(x, fm)
	case *ast.TypeAssertExpr:
		f.assertion(x, fm)
	case *ast.IndexExpr:
		f.constIndex(x, fm)
	case *ast.UnaryExpr:
		if x.Op == token.AND {
			if id, ok := ast.Unparen(x.X).(*ast.Ident); ok {
				delete(f.seeded, f.info.ObjectOf(id)) // address escapes: the callee fills it (errors.As, Decode, ...)
			}
		}
	}
}

// call checks arguments against the callee's requires-summary and the N9 preconditions.
func (f *nilFunc) call(c *ast.CallExpr, fm facts.Formula) {
	fn := core.Callee(f.info, c)
	if fn == nil {
		return
	}
	f.libraryPrecondition(c, fn, fm)
	// N6: a co-returned value passed along on the error path
	for _, arg := range c.Args {
		if id, ok := ast.Unparen(arg).(*ast.Ident); ok {
			f.checkCoErr(id, c, fm)
		}
	}
	for _, g := range f.a.p.Impls(fn) {
		reqs := f.a.requires[g]
		if len(reqs) == 0 {
			continue
		}
		var keys []string
		for k := range reqs {
			keys = append(keys, k)
		}
		sort.Strings(keys)
		for _, k := range keys {
			var idx int
			var suffix string
			parts := strings.SplitN(k, "|", 2)
			fmt.Sscanf(parts[0], "%d", &idx)
			suffix = parts[1]
			if idx >= len(c.Args) || c.Ellipsis.IsValid() {
				continue
			}
			arg := ast.Unparen(c.Args[idx])
			f.argObligation(c, g, idx, suffix, arg, reqs[k], fm)
		}
	}
}

func (f *nilFunc) argObligation(c *ast.CallExpr, callee *types.Func, idx int, suffix string, arg ast.Expr, witness string, fm facts.Formula) {
	if suffix == "@notIP" || suffix == "@isIP" {
		isIP := facts.Formula(facts.Atom("isIP:" + f.w.Path(arg)))
		want := isIP
		if suffix == "@notIP" {
			want = facts.Not{X: isIP}
		}
		cst := f.construct(fmt.Sprintf("%s passed to %s (its peer-type getter is dereferenced there)", core.Stable(f.info, arg), core.FuncKey(callee)), "N3")
		if facts.Entails(fm, want) {
			if f.a.report {
				f.a.r.OK("E2-N3", cst, f.a.p.Pos(c.Pos()), "the call site establishes the peer type the callee relies on")
			}
			return
		}
		if why, ok := e2Exceptions[cst]; ok {
			if f.a.report {
				f.a.r.Add("E2-N3", cst, f.a.p.Pos(c.Pos()), core.Excepted, why)
			}
			return
		}
		if pi, ps, ok := f.paramSuffix(arg); ok && ps == "" {
			f.requirePeerType(pi, suffix, f.a.p.Pos(c.Pos()))
			return
		}
		if f.a.report {
			f.a.r.Bad("E2-N3", cst, f.a.p.Pos(c.Pos()),
				fmt.Sprintf("%s dereferences a peer-type getter of this argument (at %s) and the call site does not establish the peer type (%s)", core.FuncKey(callee), witness, suffix),
				"caller: "+f.fd.Key(), "call: "+core.ExprStr(c)+" at "+f.a.p.Pos(c.Pos()), "facts in scope: "+facts.StripVersions(facts.String(fm)))
		}
		return
	}
	if suffix == "@nonEmpty" {
		cst := f.construct(fmt.Sprintf("%s passed to %s (which uses its loop variable after ranging over this argument)", core.Stable(f.info, arg), core.FuncKey(callee)), "N4")
		if cl, ok := arg.(*ast.CompositeLit); ok && len(cl.Elts) > 0 {
			if f.a.report {
				f.a.r.OK("E2-N4", cst, f.a.p.Pos(c.Pos()), "a literal with at least one element")
			}
			return
		}
		if f.rangesGeneratedPods(arg, fm) {
			if f.a.report {
				f.a.r.OK("E2-N4", cst, f.a.p.Pos(c.Pos()), "the pods generated for a workload: at least one (premise E2-N4-len), and the error of the generating call is nil here")
			}
			return
		}
		if id, ok := arg.(*ast.Ident); ok && !f.fd.Obj.Exported() {
			if pi, isParam := f.params[f.info.ObjectOf(id)]; isParam && !f.reassigned(f.info.ObjectOf(id)) {
				f.addRequires(pi, "@nonEmpty", f.a.p.Pos(c.Pos()))
				return
			}
		}
		if f.a.report {
			f.a.r.Bad("E2-N4", cst, f.a.p.Pos(c.Pos()),
				fmt.Sprintf("%s ranges over this argument with a variable declared outside the loop and uses that variable afterwards (at %s); the call site does not show that the slice is non-empty, and with an empty slice the variable stays nil", core.FuncKey(callee), witness),
				"caller: "+f.fd.Key(), "call: "+core.ExprStr(c)+" at "+f.a.p.Pos(c.Pos()))
		}
		return
	}
	path := f.w.Path(arg) + suffix
	if suffix != "" {
		// (*p).F and (&v).F are p.F and v.F
		switch x := ast.Unparen(arg).(type) {
		case *ast.StarExpr:
			path = f.w.Path(x.X) + suffix
		case *ast.UnaryExpr:
			if x.Op == token.AND {
				path = f.w.Path(x.X) + suffix
			}
		}
	}
	if suffix == "" {
		kind, desc := f.source(arg, fm)
		if kind == "" {
			// an ordinary pointer: propagate to our own callers if it is a parameter path
			if pi, ps, ok := f.paramSuffix(arg); ok && ps == "" && !facts.Entails(fm, facts.Not{X: facts.Atom("nil:" + path)}) {
				f.addRequires(pi, "", f.a.p.Pos(c.Pos()))
			}
			return
		}
		if f.nonNil(arg, kind, fm) {
			if f.a.report {
				f.a.r.OK("E2-"+kind, f.construct(fmt.Sprintf("%s passed to %s (dereferenced there)", desc, core.FuncKey(callee)), kind), f.a.p.Pos(c.Pos()), "guarded at the call site")
			}
			return
		}
		if (kind == "N1" || kind == "N2") && f.pushUp(arg, "") {
			return
		}
		if !f.a.report {
			return
		}
		cst := f.construct(fmt.Sprintf("%s passed to %s (dereferenced there)", desc, core.FuncKey(callee)), kind)
		if why, ok := e2Exceptions[cst]; ok {
			f.a.r.Add("E2-"+kind, cst, f.a.p.Pos(c.Pos()), core.Excepted, why)
			return
		}
		f.a.r.Bad("E2-"+kind, cst, f.a.p.Pos(c.Pos()),
			fmt.Sprintf("%s may be nil (%s) and is passed to %s, which dereferences that parameter without a guard (at %s)", desc, kindDoc(kind), core.FuncKey(callee), witness),
			"caller: "+f.fd.Key(), "call: "+core.ExprStr(c)+" at "+f.a.p.Pos(c.Pos()), "callee dereference: "+witness)
		return
	}
	// field path of the argument: the callee dereferences arg<suffix>, an optional API/module field
	if facts.Entails(fm, facts.Not{X: facts.Atom("nil:" + path)}) {
		if f.a.report {
			f.a.r.OK("E2-N1", f.construct(fmt.Sprintf("%s%s established non-nil for %s", core.Stable(f.info, arg), suffix, core.FuncKey(callee)), "N1"), f.a.p.Pos(c.Pos()), "the call site establishes the callee's requires-summary")
		}
		return
	}
	if why, ok := n2FieldInvariant[f.fd.Key()+" | "+suffixField(f.info, arg, suffix)]; ok {
		if f.a.report {
			f.a.r.Add("E2-N2", f.fd.Key()+" | "+suffixField(f.info, arg, suffix), f.a.p.Pos(c.Pos()), core.Excepted, why)
		}
		return
	}
	if f.pushUp(arg, suffix) {
		return
	}
	if !f.a.report {
		return
	}
	cst := f.construct(fmt.Sprintf("%s%s not established non-nil for %s", core.Stable(f.info, arg), suffix, core.FuncKey(callee)), "N1")
	if why, ok := e2Exceptions[cst]; ok {
		f.a.r.Add("E2-N1", cst, f.a.p.Pos(c.Pos()), core.Excepted, why)
		return
	}
	f.a.r.Bad("E2-N1", cst, f.a.p.Pos(c.Pos()),
		fmt.Sprintf("%s dereferences %s of its parameter (at %s) and this call site does not establish that %s%s is not nil", core.FuncKey(callee), suffix, witness, core.ExprStr(arg), suffix),
		"caller: "+f.fd.Key(), "call: "+core.ExprStr(c)+" at "+f.a.p.Pos(c.Pos()), "callee dereference: "+witness)
}

// pushUp exports the obligation to our own callers when arg is a field path of a parameter.
func (f *nilFunc) pushUp(arg ast.Expr, suffix string) bool {
	if pi, ps, ok := f.paramSuffix(arg); ok && ps+suffix != "" {
		f.addRequires(pi, ps+suffix, f.a.p.Pos(arg.Pos()))
		return true
	}
	return false
}

// ---------------------------------------------------------------- N7 assertions

func (f *nilFunc) assertion(x *ast.TypeAssertExpr, fm facts.Formula) {
	if x.Type == nil || !f.a.report {
		return // type switch
	}
	// comma-ok form?
	if as, ok := f.curStmt.(*ast.AssignStmt); ok && len(as.Lhs) == 2 && len(as.Rhs) == 1 && ast.Unparen(as.Rhs[0]) == ast.Expr(x) {
		return
	}
	if vs, ok := f.curStmt.(*ast.DeclStmt); ok {
		_ = vs
	}
	st := f.info.TypeOf(x.X)
	tt := f.info.TypeOf(x.Type)
	if st == nil || tt == nil {
		return
	}
	c := f.construct("assertion "+core.Stable(f.info, x), "N7")
	pos := f.a.p.Pos(x.Pos())
	iface, _ := st.Underlying().(*types.Interface)
	if iface != nil && iface.NumMethods() > 0 {
		// closed world over module types
		all, n := true, 0
		for _, nt := range f.a.p.Named {
			if _, isI := nt.Underlying().(*types.Interface); isI {
				continue
			}
			for _, t := range []types.Type{nt, types.NewPointer(nt)} {
				if types.Implements(t, iface) {
					n++
					if !assertableTo(t, tt) {
						all = false
					}
					break
				}
			}
		}
		if all && n > 0 {
			f.a.r.OK("E2-N7", c, pos, fmt.Sprintf("closed world: all %d module types implementing %s satisfy the asserted type", n, st.String()))
			return
		}
		// dominated by a PeerType / IsPeerIPType fact: the non-IP implementations must all satisfy the type
		if f.peerFactDischarges(x, tt, iface, fm) {
			f.a.r.OK("E2-N7", c, pos, "dominated by a PeerType fact that excludes the implementations not satisfying the asserted type")
			return
		}
	} else if iface != nil {
		// interface{} subject: kind<->type table (checked by E6 / C17-c); here: the assertion sits under a kind case naming the same type
		if f.kindCaseDischarges(x, tt, fm) {
			f.a.r.OK("E2-N7", c, pos, "under the case of the kind constant with the asserted type's name (kind<->type agreement is rule E6-kindtype)")
			return
		}
	}
	if why, ok := e2Exceptions[c]; ok {
		f.a.r.Add("E2-N7", c, pos, core.Excepted, why)
		return
	}
	f.a.r.Bad("E2-N7", c, pos, "single-value type assertion that can fail: not every implementation of the static type satisfies the asserted type, and no dominating type/kind fact was recognised",
		"function: "+f.fd.Key(), "facts in scope: "+facts.StripVersions(facts.String(fm)))
}

func assertableTo(t, target types.Type) bool {
	if ti, ok := target.Underlying().(*types.Interface); ok {
		return types.Implements(t, ti)
	}
	return types.Identical(t, target)
}

func (f *nilFunc) peerFactDischarges(x *ast.TypeAssertExpr, tt types.Type, iface *types.Interface, fm facts.Formula) bool {
	isIP := facts.Atom("isIP:" + f.w.Path(x.X))
	var wantIP bool
	switch {
	case facts.Entails(fm, isIP):
		wantIP = true
	case facts.Entails(fm, facts.Not{X: isIP}):
		wantIP = false
	default:
		return false
	}
	n := 0
	for _, nt := range f.a.p.Named {
		if _, isI := nt.Underlying().(*types.Interface); isI {
			continue
		}
		t := types.Type(types.NewPointer(nt))
		if !types.Implements(t, iface) {
			continue
		}
		ip := strings.Contains(nt.Obj().Name(), "IPBlock")
		if ip != wantIP {
			continue
		}
		n++
		if !assertableTo(t, tt) {
			return false
		}
	}
	return n > 0
}

func (f *nilFunc) kindCaseDischarges(x *ast.TypeAssertExpr, tt types.Type, fm facts.Formula) bool {
	nt := core.NamedOf(tt)
	if nt == nil {
		return false
	}
	want := "==\"" + nt.Obj().Name() + "\""
	for _, c := range facts.Conjuncts(fm) {
		if a, ok := c.(facts.Atom); ok && strings.HasPrefix(string(a), "eq:") && strings.HasSuffix(string(a), want) {
			return true
		}
	}
	return false
}

// ---------------------------------------------------------------- N8 constant index

func (f *nilFunc) constIndex(x *ast.IndexExpr, fm facts.Formula) {
	if !f.a.report {
		return
	}
	t := f.info.TypeOf(x.X)
	if t == nil {
		return
	}
	if _, ok := t.Underlying().(*types.Slice); !ok {
		return
	}
	tv, ok := f.info.Types[ast.Unparen(x.Index)]
	if !ok || tv.Value == nil {
		return
	}
	c := f.construct("constant index "+core.Stable(f.info, x), "N8")
	pos := f.a.p.Pos(x.Pos())
	idx := tv.Value.ExactString()
	bg := facts.MkAnd(fm, facts.LenImplications(fm))
	path := f.w.Path(x.X)
	ok2 := false
	if idx == "0" {
		ok2 = facts.Entails(bg, facts.Not{X: facts.Atom("empty:" + path)})
	}
	if !ok2 {
		// a composite literal / make with constant length defined in this function
		if id, isID := ast.Unparen(x.X).(*ast.Ident); isID {
			if def := f.defs[f.info.ObjectOf(id)]; def != nil {
				if cl, isCL := ast.Unparen(def).(*ast.CompositeLit); isCL {
					var n int64
					fmt.Sscanf(idx, "%d", &n)
					if int64(len(cl.Elts)) > n {
						ok2 = true
					}
				}
			}
		}
	}
	if !ok2 {
		if n, isConst := f.a.constLenPkgVar(f.info, x.X); isConst {
			var k int64
			fmt.Sscanf(idx, "%d", &k)
			if k < int64(n) {
				f.a.r.OK("E2-N8", c, pos, fmt.Sprintf("package-level slice initialised with %d elements and never assigned elsewhere", n))
				return
			}
		}
	}
	if ok2 {
		f.a.r.OK("E2-N8", c, pos, "a length fact on the same access path dominates the index")
		return
	}
	if why, ok := e2Exceptions[c]; ok {
		f.a.r.Add("E2-N8", c, pos, core.Excepted, why)
		return
	}
	f.a.r.Bad("E2-N8", c, pos, "constant index without a dominating length fact on the same access path: index out of range for an empty slice",
		"function: "+f.fd.Key(), "facts in scope: "+facts.StripVersions(facts.String(fm)))
}

// constLenPkgVar: e names a package-level slice variable initialised by a
// composite literal and never assigned (or appended to) anywhere in the module.
func (a *nilAnalysis) constLenPkgVar(info *types.Info, e ast.Expr) (int, bool) {
	id, ok := ast.Unparen(e).(*ast.Ident)
	if !ok {
		return 0, false
	}
	v, ok := info.ObjectOf(id).(*types.Var)
	if !ok || v.Pkg() == nil || v.Parent() != v.Pkg().Scope() {
		return 0, false
	}
	n := -1
	for _, pk := range a.p.Pkgs {
		if pk.Types != v.Pkg() {
			continue
		}
		for _, file := range pk.Syntax {
			for _, d := range file.Decls {
				gd, ok := d.(*ast.GenDecl)
				if !ok {
					continue
				}
				for _, sp := range gd.Specs {
					vs, ok := sp.(*ast.ValueSpec)
					if !ok {
						continue
					}
					for i, nm := range vs.Names {
						if pk.TypesInfo.Defs[nm] == v && i < len(vs.Values) {
							if cl, ok := ast.Unparen(vs.Values[i]).(*ast.CompositeLit); ok {
								n = len(cl.Elts)
							}
						}
					}
				}
			}
		}
	}
	if n < 0 {
		return 0, false
	}
	for _, fd := range a.p.Funcs {
		bad := false
		ast.Inspect(fd.Decl.Body, func(nd ast.Node) bool {
			if as, ok := nd.(*ast.AssignStmt); ok {
				for _, l := range as.Lhs {
					if root := core.RootIdent(l); root != nil && fd.Pkg.TypesInfo.ObjectOf(root) == v {
						if _, isIdx := ast.Unparen(l).(*ast.IndexExpr); !isIdx {
							bad = true
						}
					}
				}
			}
			return true
		})
		if bad {
			return 0, false
		}
	}
	return n, true
}

// ---------------------------------------------------------------- N9 library preconditions

func (f *nilFunc) libraryPrecondition(c *ast.CallExpr, fn *types.Func, fm facts.Formula) {
	if !f.a.report || fn.Pkg() == nil {
		return
	}
	full := fn.Pkg().Path() + "." + core.RefName(fn)
	switch full {
	case "github.com/np-guard/models/pkg/netset.IPBlockFromIPAddress":
		// panics (index out of range) unless the string is an IPv4 address: net.ParseIP(s).To4() must be known non-nil
		cst := f.construct("call of netset.IPBlockFromIPAddress("+core.Stable(f.info, c.Args[0])+")", "N9")
		pos := f.a.p.Pos(c.Pos())
		if f.ipv4Validated(c.Args[0], fm) {
			f.a.r.OK("E2-N9", cst, pos, "dominated by net.ParseIP(arg).To4() != nil on the same argument")
			return
		}
		f.a.r.Bad("E2-N9", cst, pos, "netset.IPBlockFromIPAddress indexes net.ParseIP(s).To4() without a check and panics on any IPv6 (or, through its error path, leaves the caller a nil block); the argument is not validated as IPv4 on every path to the call",
			"function: "+f.fd.Key(), "facts in scope: "+facts.StripVersions(facts.String(fm)))
	}
	if fn.Pkg().Path() == "github.com/np-guard/models/pkg/interval" && (core.RefName(fn) == "Min" || core.RefName(fn) == "Max") {
		if core.RecvTypeName(fn.Type().(*types.Signature)) == "CanonicalSet" {
			cst := f.construct("call of interval.CanonicalSet."+core.RefName(fn), "N9")
			f.a.r.Bad("E2-N9", cst, f.a.p.Pos(c.Pos()), "CanonicalSet.Min/Max panic on an empty set and no emptiness guard is recognised", "function: "+f.fd.Key())
		}
	}
}

// ipv4Validated: some local v := net.ParseIP(<same arg>) with facts |= v.To4() != nil.
func (f *nilFunc) ipv4Validated(arg ast.Expr, fm facts.Formula) bool {
	want := core.ExprStr(arg)
	for o, def := range f.defs {
		if def == nil {
			continue
		}
		call, ok := ast.Unparen(def).(*ast.CallExpr)
		if !ok || len(call.Args) != 1 {
			continue
		}
		fn := core.Callee(f.info, call)
		if fn == nil || fn.Pkg() == nil || fn.Pkg().Path() != "net" || core.RefName(fn) != "ParseIP" {
			continue
		}
		if core.ExprStr(call.Args[0]) != want {
			continue
		}
		v, ok := o.(*types.Var)
		if !ok {
			continue
		}
		if facts.Entails(fm, facts.Not{X: facts.Atom("nil:" + f.w.PathOfVar(v) + ".To4()")}) {
			return true
		}
	}
	return false
}

// ---------------------------------------------------------------- API entries, N9 reachability, N10

// apiEntriesWithRequires: an exported function of a public package that
// dereferences an optional field of its parameter has nobody to establish it.
func (a *nilAnalysis) apiEntriesWithRequires() {
	called := map[*types.Func]bool{}
	for _, fd := range a.p.Funcs {
		for _, c := range a.p.CalleesOf(fd) {
			if c != fd.Obj {
				called[c] = true
			}
		}
	}
	for fn, m := range a.requires {
		if called[fn] {
			continue
		}
		for k, wit := range m {
			if strings.HasSuffix(k, "|") {
				continue
			}
			a.r.Bad("E2-N1", core.FuncKey(fn)+": entry dereferences optional field "+k+" of its parameter", wit,
				"no caller inside the module can establish that the optional field is set; the dereference is unguarded", "function: "+core.FuncKey(fn), "dereference at "+wit)
		}
	}
}

// panicReachability: explicit panics / process exits in production code.
func (a *nilAnalysis) panicReachability() {
	n := 0
	for _, fd := range a.p.Funcs {
		info := fd.Pkg.TypesInfo
		ast.Inspect(fd.Decl.Body, func(nd ast.Node) bool {
			call, ok := nd.(*ast.CallExpr)
			if !ok {
				return true
			}
			what := ""
			if core.IsBuiltinCall(info, call, "panic") {
				what = "panic"
			} else if fn := core.Callee(info, call); fn != nil && fn.Pkg() != nil {
				full := fn.Pkg().Path() + "." + core.RefName(fn)
				if full == "os.Exit" || strings.HasPrefix(full, "log.Fatal") || strings.HasPrefix(full, "log.Panic") {
					what = full
				}
			}
			if what == "" {
				return true
			}
			n++
			c := fd.Key() + ": " + what
			if fd.Pkg.PkgPath == core.PkgCLI && core.RefName(fd.Obj) == "Execute" && what == "os.Exit" {
				a.r.OK("E2-N9-exit", c, a.p.Pos(call.Pos()), "the process exit of the CLI entry point (C18-c)")
			} else {
				a.r.Bad("E2-N9-exit", c, a.p.Pos(call.Pos()), "explicit "+what+" in library code: an input that reaches it terminates the caller instead of yielding an error", "function: "+fd.Key())
			}
			return true
		})
	}
	a.r.Floor("E2-N9-exit", 1)
}

// termination: the static call graph of the module is acyclic and every loop is a range or a counted loop.
func (a *nilAnalysis) termination() {
	// recursion
	state := map[*types.Func]int{}
	var stack []*types.Func
	var cyc []string
	var visit func(fn *types.Func)
	visit = func(fn *types.Func) {
		state[fn] = 1
		stack = append(stack, fn)
		if fd := a.p.ByObj[fn]; fd != nil {
			// only real calls count (a function mentioned as a value is not a call)
			ast.Inspect(fd.Decl.Body, func(n ast.Node) bool {
				call, ok := n.(*ast.CallExpr)
				if !ok {
					return true
				}
				callee := core.Callee(fd.Pkg.TypesInfo, call)
				if callee != nil && !a.p.IsModuleFunc(callee) {
					return true // a method of a foreign interface (error.Error, fmt.Stringer): dynamic dispatch outside the static module graph
				}
				for _, g := range a.p.Impls(callee) {
					if a.p.ByObj[g] == nil {
						continue
					}
					switch state[g] {
					case 0:
						visit(g)
					case 1:
						cyc = append(cyc, core.FuncKey(fn)+" -> "+core.FuncKey(g))
					}
				}
				return true
			})
		}
		stack = stack[:len(stack)-1]
		state[fn] = 2
	}
	for _, fd := range a.p.Funcs {
		if state[fd.Obj] == 0 {
			visit(fd.Obj)
		}
	}
	sort.Strings(cyc)
	if len(cyc) == 0 {
		a.r.OK("E2-N10", "module call graph (static callees, interface calls expanded) is acyclic", "-", fmt.Sprintf("%d functions, no recursion", len(a.p.Funcs)))
	} else {
		for _, c := range cyc {
			a.r.Bad("E2-N10", "recursive call "+c, "-", "recursion in the module: termination would need a ranking argument that this rule does not have")
		}
	}
	// loops
	for _, fd := range a.p.Funcs {
		info := fd.Pkg.TypesInfo
		ast.Inspect(fd.Decl.Body, func(n ast.Node) bool {
			fs, ok := n.(*ast.ForStmt)
			if !ok {
				return true
			}
			c := fd.Key() + ": for " + core.Stable(fd.Pkg.TypesInfo, fs.Cond)
			if countedLoop(info, fs) {
				a.r.OK("E2-N10", c, a.p.Pos(fs.Pos()), "counted loop: index compared with a loop-invariant bound and stepped by a constant")
			} else {
				a.r.Bad("E2-N10", c, a.p.Pos(fs.Pos()), "a for loop that is neither a range nor a counted loop over len()/a bound: termination is not evident from its shape", "function: "+fd.Key())
			}
			return true
		})
	}
}

func countedLoop(info *types.Info, fs *ast.ForStmt) bool {
	be, ok := fs.Cond.(*ast.BinaryExpr)
	if !ok {
		return false
	}
	id, ok := ast.Unparen(be.X).(*ast.Ident)
	if !ok {
		return false
	}
	switch be.Op {
	case token.LSS, token.LEQ, token.GTR, token.GEQ, token.NEQ:
	default:
		return false
	}
	inc, ok := fs.Post.(*ast.IncDecStmt)
	if !ok {
		return false
	}
	pid, ok := ast.Unparen(inc.X).(*ast.Ident)
	if !ok || info.ObjectOf(pid) != info.ObjectOf(id) {
		return false
	}
	// the index is not assigned in the body and the bound does not mention a variable assigned in the body
	obj := info.ObjectOf(id)
	assigned := map[types.Object]bool{}
	ast.Inspect(fs.Body, func(n ast.Node) bool {
		switch x := n.(type) {
		case *ast.AssignStmt:
			for _, l := range x.Lhs {
				if lid, ok := ast.Unparen(l).(*ast.Ident); ok {
					assigned[info.ObjectOf(lid)] = true
				}
			}
		case *ast.IncDecStmt:
			if lid, ok := ast.Unparen(x.X).(*ast.Ident); ok {
				assigned[info.ObjectOf(lid)] = true
			}
		}
		return true
	})
	if assigned[obj] {
		return false
	}
	okBound := true
	ast.Inspect(be.Y, func(n ast.Node) bool {
		if bid, ok := n.(*ast.Ident); ok && assigned[info.ObjectOf(bid)] {
			okBound = false
		}
		return true
	})
	return okBound
}

// NilAuxiliary checks the mechanical side conditions that the frozen E2
// exceptions rely on, so that an exception cannot silently outlive its reason.
func NilAuxiliary(p *core.Program, r *core.Report) {
	// E2-N5-pre: appendPeerXgressExposureData(peer, _, dir) is dominated by addNewEntry(peer, _, dir)
	appendFd := p.Func(core.PkgConnlist, "exposureMaps", "appendPeerXgressExposureData")
	addFd := p.Func(core.PkgConnlist, "exposureMaps", "addNewEntry")
	if appendFd == nil || addFd == nil {
		r.Lost("E2-N5-pre", "exposureMaps.appendPeerXgressExposureData / addNewEntry")
	} else {
		for _, cs := range CallsTo(p, appendFd.Obj) {
			info := cs.In.Pkg.TypesInfo
			dom, _, found := Dominated(cs.In, cs.Call, func(n ast.Node) bool {
				c, ok := n.(*ast.CallExpr)
				if !ok || core.Callee(info, c) != addFd.Obj || len(c.Args) != 3 || len(cs.Call.Args) != 3 {
					return false
				}
				return core.ExprStr(c.Args[0]) == core.ExprStr(cs.Call.Args[0]) && core.ExprStr(c.Args[2]) == core.ExprStr(cs.Call.Args[2])
			})
			r.Check(found && dom, "E2-N5-pre", cs.In.Key()+": appendPeerXgressExposureData after addNewEntry on the same peer and direction", p.Pos(cs.Call.Pos()),
				"dominated by the ensure call", "the exposure entry of the peer is dereferenced by appendPeerXgressExposureData but no addNewEntry on the same peer and direction dominates this call: nil map entry")
		}
		r.Floor("E2-N5-pre", 2)
	}
	// E2-N4-len: PodsFromWorkloadObject returns at least one pod: the slice length is a variable assigned positive constants only
	if fd := p.Func(core.PkgK8s, "", "PodsFromWorkloadObject"); fd == nil {
		r.Lost("E2-N4-len", "k8s.PodsFromWorkloadObject")
	} else {
		info := fd.Pkg.TypesInfo
		ast.Inspect(fd.Decl.Body, func(n ast.Node) bool {
			c, ok := n.(*ast.CallExpr)
			if !ok || !core.IsBuiltinCall(info, c, "make") || len(c.Args) < 2 {
				return true
			}
			if sl, ok := info.TypeOf(c.Args[0]).Underlying().(*types.Slice); !ok || !core.TypeIs(sl.Elem(), core.PkgK8s, "Pod") {
				return true
			}
			okLen := false
			why := ""
			if v, ok := constInt64(info, c.Args[1]); ok {
				okLen = v >= 1
			} else if id, ok := ast.Unparen(c.Args[1]).(*ast.Ident); ok {
				o := info.ObjectOf(id)
				okLen = true
				nAssign := 0
				ast.Inspect(fd.Decl.Body, func(m ast.Node) bool {
					switch x := m.(type) {
					case *ast.AssignStmt:
						for i, l := range x.Lhs {
							if lid, ok := ast.Unparen(l).(*ast.Ident); ok && info.ObjectOf(lid) == o {
								nAssign++
								if i >= len(x.Rhs) {
									okLen = false
									continue
								}
								if v, ok := constInt64(info, x.Rhs[i]); !ok || v < 1 {
									// or the result of a module helper whose every return is a positive constant
									if !returnsPositiveConstants(p, info, x.Rhs[i]) {
										okLen = false
										why = core.ExprStr(x)
									}
								}
							}
						}
					case *ast.IncDecStmt:
						if lid, ok := ast.Unparen(x.X).(*ast.Ident); ok && info.ObjectOf(lid) == o {
							okLen = false
						}
					}
					return true
				})
				if nAssign == 0 {
					okLen = false
				}
			}
			r.Check(okLen, "E2-N4-len", fd.Key()+": returns at least one pod (slice length is a positive constant)", p.Pos(c.Pos()), "the length is assigned the constants 1 or 2 only",
				"the number of pods generated for a workload is no longer a positive constant ("+why+"): with zero pods insertWorkload passes a nil pod on, and a negative count panics in make")
			return true
		})
		r.Floor("E2-N4-len", 1)
	}
	// E2-N7-store: createPodOwnersMap stores only *k8s.WorkloadPeer values
	if fd := p.Func(core.PkgEval, "PolicyEngine", "createPodOwnersMap"); fd == nil {
		r.Lost("E2-N7-store", "(*PolicyEngine).createPodOwnersMap")
	} else {
		info := fd.Pkg.TypesInfo
		ast.Inspect(fd.Decl.Body, func(n ast.Node) bool {
			as, ok := n.(*ast.AssignStmt)
			if !ok {
				return true
			}
			for i, l := range as.Lhs {
				ix, ok := ast.Unparen(l).(*ast.IndexExpr)
				if !ok || i >= len(as.Rhs) {
					continue
				}
				if _, isMap := info.TypeOf(ix.X).Underlying().(*types.Map); !isMap {
					continue
				}
				t := info.TypeOf(as.Rhs[i])
				r.Check(core.TypeIs(t, core.PkgK8s, "WorkloadPeer"), "E2-N7-store", fd.Key()+": stores a *k8s.WorkloadPeer", p.Pos(as.Pos()),
					"the only value type stored in the owners map", "createPodOwnersMap stores a value that is not a *k8s.WorkloadPeer; GetSelectedPeers asserts that type unconditionally")
			}
			return true
		})
		r.Floor("E2-N7-store", 1)
	}
	// E2-N7-callers: arguments of allAllowedConnectionsBetweenPeers are k8s.Peer implementations
	if fd := p.Func(core.PkgEval, "PolicyEngine", "allAllowedConnectionsBetweenPeers"); fd == nil {
		r.Lost("E2-N7-callers", "(*PolicyEngine).allAllowedConnectionsBetweenPeers")
	} else {
		k8sPeer := p.LookupType(core.PkgK8s, "Peer")
		for _, cs := range CallsTo(p, fd.Obj) {
			info := cs.In.Pkg.TypesInfo
			fm, w, _ := FactsAt(cs.In, cs.Call, func(w *facts.Walker, e ast.Expr) facts.Formula {
				if c, ok := e.(*ast.CallExpr); ok {
					if fn := core.Callee(info, c); fn != nil && core.RefName(fn) == "IsPeerIPType" {
						if se, ok := c.Fun.(*ast.SelectorExpr); ok {
							return facts.Atom("isIP:" + w.Path(se.X))
						}
					}
				}
				return nil
			})
			for i, arg := range cs.Call.Args {
				arg = ast.Unparen(arg)
				okArg, how := false, ""
				t := info.TypeOf(arg)
				if k8sPeer != nil {
					if iface, ok := k8sPeer.Underlying().(*types.Interface); ok && types.Implements(t, iface) {
						okArg, how = true, "static type implements k8s.Peer"
					}
				}
				if ta, ok := arg.(*ast.TypeAssertExpr); ok && !okArg {
					if iface, ok := k8sPeer.Underlying().(*types.Interface); ok && types.Implements(info.TypeOf(ta.X), iface) {
						okArg, how = true, "re-assertion of a k8s.Peer value"
					}
				}
				if !okArg && fm != nil && facts.Entails(fm, facts.Atom("isIP:"+w.Path(arg))) {
					okArg, how = true, "under IsPeerIPType(): the only IP implementation of eval.Peer is *k8s.IPBlockPeer, which implements k8s.Peer"
				}
				r.Check(okArg, "E2-N7-callers", fmt.Sprintf("%s: argument %d (%s) of allAllowedConnectionsBetweenPeers is a k8s.Peer", cs.In.Key(), i, core.Stable(cs.In.Pkg.TypesInfo, arg)), p.Pos(cs.Call.Pos()),
					how, "allAllowedConnectionsBetweenPeers asserts its arguments to k8s.Peer unconditionally; this argument is not known to be one (a *k8s.WorkloadPeer is not)")
			}
		}
		r.Floor("E2-N7-callers", 6)
	}
}

func constInt64(info *types.Info, e ast.Expr) (int64, bool) {
	tv, ok := info.Types[ast.Unparen(e)]
	if !ok || tv.Value == nil {
		return 0, false
	}
	var v int64
	if _, err := fmt.Sscanf(tv.Value.ExactString(), "%d", &v); err != nil {
		return 0, false
	}
	return v, true
}

// hasCompositeResult: some return statement of fd has a composite literal among its results.
func hasCompositeResult(fd *core.FuncDecl) bool {
	found := false
	ast.Inspect(fd.Decl.Body, func(n ast.Node) bool {
		if ret, ok := n.(*ast.ReturnStmt); ok {
			for _, res := range ret.Results {
				if _, isCl := ast.Unparen(res).(*ast.CompositeLit); isCl {
					found = true
				}
			}
		}
		return !found
	})
	return found
}

// ConstructorCompleteness is rule E2-N12. A pointer field of a module struct that is dereferenced somewhere without
// being a declared may-be-nil field (table n2Fields) is assumed non-nil by the code; then every construction of the
// owning struct - a composite literal of it, or of a struct that contains it by value - must set the field (in the
// literal, through a constructor call for the containing value, or by an assignment to the new object in the same
// function). Otherwise some object reaches the dereference with a nil field.
var n12Exceptions = map[string]string{
	"netpol/eval.(*PolicyEngine).addRepresentativePod: literal of Pod leaves IngressExposureData.ClusterWideConnection unset": "representative pods are never selected by a policy (NetworkPolicy.Selects returns false under IsPodRepresentative, rule E2-N12-rep), and the cluster-wide connection of a pod is touched only for the pod a policy selected",
	"netpol/eval.(*PolicyEngine).addRepresentativePod: literal of Pod leaves EgressExposureData.ClusterWideConnection unset":  "same as the ingress field",
}

func ConstructorCompleteness(p *core.Program, r *core.Report) {
	// 1. pointer fields of module structs that are dereferenced (selected from / method called on) somewhere
	type fieldInfo struct {
		owner *types.Named
		fld   *types.Var
		pos   token.Pos
	}
	assumed := map[*types.Var]fieldInfo{}
	declaredNil := map[*types.Var]bool{}
	for key := range n2Fields {
		parts := strings.Split(key, ".")
		if len(parts) < 3 || parts[len(parts)-1] == "*" {
			continue
		}
		pkg := core.ModPath + "/pkg/" + strings.Join(parts[:len(parts)-2], ".")
		if f := p.Field(pkg, parts[len(parts)-2], parts[len(parts)-1]); f != nil {
			declaredNil[f] = true
		}
	}
	ownerOf := map[*types.Var]*types.Named{}
	for _, nt := range p.Named {
		if st, ok := nt.Underlying().(*types.Struct); ok {
			for i := 0; i < st.NumFields(); i++ {
				ownerOf[st.Field(i)] = nt
			}
		}
	}
	for _, fd := range p.Funcs {
		info := fd.Pkg.TypesInfo
		ast.Inspect(fd.Decl.Body, func(nd ast.Node) bool {
			se, ok := nd.(*ast.SelectorExpr)
			if !ok {
				return true
			}
			inner, ok := ast.Unparen(se.X).(*ast.SelectorExpr)
			if !ok {
				return true
			}
			f := core.FieldOf(info, inner)
			if f == nil || declaredNil[f] || ownerOf[f] == nil {
				return true
			}
			pt, ok := f.Type().Underlying().(*types.Pointer)
			if !ok {
				return true
			}
			if nt := core.NamedOf(pt.Elem()); nt == nil || nt.Obj().Pkg() == nil || !strings.HasPrefix(nt.Obj().Pkg().Path(), core.ModPath) {
				return true // API objects are covered by N1
			}
			if _, seen := assumed[f]; !seen {
				assumed[f] = fieldInfo{ownerOf[f], f, se.Pos()}
			}
			return true
		})
	}
	// 2. paths from a containing struct to an assumed field through by-value struct fields
	type path struct {
		names []string
		fld   *types.Var
	}
	var pathsOf func(nt *types.Named, depth int) []path
	pathsOf = func(nt *types.Named, depth int) []path {
		var out []path
		st, ok := nt.Underlying().(*types.Struct)
		if !ok || depth > 2 {
			return nil
		}
		for i := 0; i < st.NumFields(); i++ {
			f := st.Field(i)
			if _, ok := assumed[f]; ok {
				out = append(out, path{[]string{core.RefName(f)}, f})
			}
			if inner := core.NamedOf(f.Type()); inner != nil {
				if _, isPtr := f.Type().Underlying().(*types.Pointer); !isPtr && inner.Obj().Pkg() != nil && strings.HasPrefix(inner.Obj().Pkg().Path(), core.ModPath) {
					for _, sub := range pathsOf(inner, depth+1) {
						out = append(out, path{append([]string{core.RefName(f)}, sub.names...), sub.fld})
					}
				}
			}
		}
		return out
	}
	// 3. every composite literal of a struct with such paths
	n := 0
	for _, fd := range p.Funcs {
		info := fd.Pkg.TypesInfo
		// a literal that is itself a result of a return whose error is non-nil is a placeholder: callers do not use a value
		// co-returned with an error (that convention is rule N6)
		placeholder := map[*ast.CompositeLit]bool{}
		if hasCompositeResult(fd) {
			fd := fd
			ew := facts.NewWalker(info)
			ew.OnStmt = func(st ast.Stmt, f facts.Formula) {
				ret, isRet := st.(*ast.ReturnStmt)
				if !isRet || ew.FuncLitDepth != 0 || len(ret.Results) < 2 || !IsErrorReturn(p, ew, fd.Obj, ret, f) {
					return
				}
				for _, res := range ret.Results[:len(ret.Results)-1] {
					if cl, isCl := ast.Unparen(res).(*ast.CompositeLit); isCl {
						placeholder[cl] = true
					}
				}
			}
			ew.WalkBody(fd.Decl.Body, nil)
		}
		ast.Inspect(fd.Decl.Body, func(nd ast.Node) bool {
			cl, ok := nd.(*ast.CompositeLit)
			if !ok || placeholder[cl] {
				return true
			}
			nt := core.NamedOf(info.TypeOf(cl))
			if nt == nil || nt.Obj().Pkg() == nil || !strings.HasPrefix(nt.Obj().Pkg().Path(), core.ModPath) {
				return true
			}
			if _, isStruct := nt.Underlying().(*types.Struct); !isStruct {
				return true
			}
			paths := pathsOf(nt, 0)
			if len(paths) == 0 {
				return true
			}
			set := map[string]bool{}
			for _, el := range cl.Elts {
				if kv, isKV := el.(*ast.KeyValueExpr); isKV && !core.IsNil(info, kv.Value) {
					set[core.ExprStr(kv.Key)] = true
				}
			}
			// the variable the literal is bound to, and later assignments v.F... = in the same function
			var bound types.Object
			ast.Inspect(fd.Decl.Body, func(m ast.Node) bool {
				if as, isAs := m.(*ast.AssignStmt); isAs && len(as.Lhs) == 1 && len(as.Rhs) == 1 {
					rhs := ast.Unparen(as.Rhs[0])
					if ue, isU := rhs.(*ast.UnaryExpr); isU && ue.Op == token.AND {
						rhs = ast.Unparen(ue.X)
					}
					if rhs == ast.Expr(cl) {
						if id, isID := as.Lhs[0].(*ast.Ident); isID {
							bound = info.ObjectOf(id)
						}
					}
				}
				return true
			})
			if bound != nil {
				ast.Inspect(fd.Decl.Body, func(m ast.Node) bool {
					if as, isAs := m.(*ast.AssignStmt); isAs {
						for i, l := range as.Lhs {
							se, isSe := ast.Unparen(l).(*ast.SelectorExpr)
							if !isSe {
								continue
							}
							if id := core.RootIdent(se); id == nil || info.ObjectOf(id) != bound {
								continue
							}
							if i < len(as.Rhs) && core.IsNil(info, as.Rhs[i]) {
								continue
							}
							// v.A.B = ...  sets the path A.B (and everything below A when A itself is assigned)
							chain := strings.TrimPrefix(core.ExprStr(se), core.ExprStr(core.RootIdent(se))+".")
							set[chain] = true
						}
					}
					return true
				})
			}
			for _, pa := range paths {
				full := strings.Join(pa.names, ".")
				ok := false
				for i := 1; i <= len(pa.names); i++ {
					if set[strings.Join(pa.names[:i], ".")] {
						ok = true
					}
				}
				n++
				construct := fmt.Sprintf("%s: literal of %s leaves %s unset", fd.Key(), nt.Obj().Name(), full)
				okConstruct := fmt.Sprintf("%s: literal of %s sets %s", fd.Key(), nt.Obj().Name(), full)
				if ok {
					r.OK("E2-N12", okConstruct, p.Pos(cl.Pos()), "set in the literal or assigned to the new object in the same function")
					continue
				}
				if why, isEx := n12Exceptions[construct]; isEx {
					r.Add("E2-N12", construct, p.Pos(cl.Pos()), core.Excepted, why)
					continue
				}
				r.Bad("E2-N12", construct, p.Pos(cl.Pos()), fmt.Sprintf("%s.%s is dereferenced without a nil test (e.g. at %s) and is not a declared may-be-nil field, but this construction of %s leaves it nil: an object built here panics when it reaches that dereference", assumed[pa.fld].owner.Obj().Name(), core.RefName(pa.fld), p.Pos(assumed[pa.fld].pos), nt.Obj().Name()))
			}
			return true
		})
	}
	r.RuleCounts["E2-N12"] = n
	r.RuleCounts["E2-N12-fields"] = len(assumed)
	// premise of the two exceptions: policies never select representative pods
	if sel := p.Func(core.PkgK8s, "NetworkPolicy", "Selects"); sel != nil {
		info := sel.Pkg.TypesInfo
		ok := false
		ast.Inspect(sel.Decl.Body, func(nd ast.Node) bool {
			ifs, isIf := nd.(*ast.IfStmt)
			if !isIf {
				return true
			}
			c, isC := ast.Unparen(ifs.Cond).(*ast.CallExpr)
			if !isC {
				return true
			}
			if fn := core.Callee(info, c); fn == nil || core.RefName(fn) != "IsPodRepresentative" {
				return true
			}
			if ret := LastReturn(ifs.Body); ret != nil && len(ret.Results) == 2 && core.ExprStr(ret.Results[0]) == "false" {
				ok = true
			}
			return true
		})
		r.Check(ok, "E2-N12-rep", sel.Key()+": a representative pod is never selected by a policy", p.Pos(sel.Decl.Pos()), "if p.IsPodRepresentative() { return false, nil }", "NetworkPolicy.Selects no longer rejects representative pods: they can now reach the cluster-wide exposure update with nil exposure data")
	}
}

// returnsPositiveConstants: e is a call of a module function all of whose return statements give an integer constant >= 1.
func returnsPositiveConstants(p *core.Program, info *types.Info, e ast.Expr) bool {
	c, ok := ast.Unparen(e).(*ast.CallExpr)
	if !ok {
		return false
	}
	hd := p.ByObj[core.Callee(info, c)]
	if hd == nil {
		return false
	}
	hinfo := hd.Pkg.TypesInfo
	n, all := 0, true
	ast.Inspect(hd.Decl.Body, func(m ast.Node) bool {
		if _, isLit := m.(*ast.FuncLit); isLit {
			return false
		}
		if ret, isRet := m.(*ast.ReturnStmt); isRet {
			n++
			if len(ret.Results) != 1 {
				all = false
			} else if v, isC := constInt64(hinfo, ret.Results[0]); !isC || v < 1 {
				all = false
			}
		}
		return true
	})
	return n > 0 && all
}
