package rules

import (
	"fmt"
	"go/ast"
	"go/token"
	"go/types"
	"sort"
	"strings"

	"npverif/internal/core"
	"npverif/internal/facts"
)

// The conflict messages of package netpolerrors (C19).
var conflictNames = []string{"SamePriorityErr", "PriorityValueErr", "ANPsWithSameNameErr", "NPWithSameNameError", "BANPAlreadyExists", "BANPNameAssertion", "NotSupportedPodResourcesErrorStr"}

type conflictSite struct {
	fd   *core.FuncDecl
	node ast.Node
	name string
	inFL *ast.FuncLit
}

func findConflictSites(p *core.Program) []conflictSite {
	want := map[string]bool{}
	for _, n := range conflictNames {
		want[n] = true
	}
	var out []conflictSite
	for _, fd := range p.Funcs {
		info := fd.Pkg.TypesInfo
		var stack []*ast.FuncLit
		var visit func(n ast.Node)
		visit = func(n ast.Node) {
			ast.Inspect(n, func(m ast.Node) bool {
				if m == nil {
					return true
				}
				if fl, ok := m.(*ast.FuncLit); ok && m != n {
					stack = append(stack, fl)
					visit(fl.Body)
					stack = stack[:len(stack)-1]
					return false
				}
				var id *ast.Ident
				switch x := m.(type) {
				case *ast.SelectorExpr:
					id = x.Sel
				}
				if id == nil {
					return true
				}
				o := info.Uses[id]
				if o == nil || o.Pkg() == nil || o.Pkg().Path() != core.PkgErrors || !want[core.RefName(o)] {
					return true
				}
				var fl *ast.FuncLit
				if len(stack) > 0 {
					fl = stack[len(stack)-1]
				}
				out = append(out, conflictSite{fd: fd, node: m, name: core.RefName(o), inFL: fl})
				return true
			})
		}
		visit(fd.Decl.Body)
	}
	sort.Slice(out, func(i, j int) bool {
		if out[i].fd.Key() != out[j].fd.Key() {
			return out[i].fd.Key() < out[j].fd.Key()
		}
		return out[i].node.Pos() < out[j].node.Pos()
	})
	return out
}

// enclosingStmt finds the innermost statement of body that contains pos.
func enclosingStmt(body ast.Node, pos token.Pos) ast.Stmt {
	var best ast.Stmt
	ast.Inspect(body, func(n ast.Node) bool {
		if s, ok := n.(ast.Stmt); ok && s.Pos() <= pos && pos < s.End() {
			switch s.(type) {
			case *ast.BlockStmt, *ast.IfStmt, *ast.ForStmt, *ast.RangeStmt, *ast.SwitchStmt, *ast.CaseClause, *ast.TypeSwitchStmt:
			default:
				best = s
			}
		}
		return true
	})
	return best
}

// ConflictDetectors is C19-a: every conflict message has a creation site on
// the list path, the created error leaves its function, and every caller up
// to the API entry propagates it.
func ConflictDetectors(p *core.Program, r *core.Report, rule string) {
	sites := findConflictSites(p)
	list := ListEntries(p)
	if len(list) == 0 {
		r.Lost(rule, "ConnlistFromResourceInfos")
		return
	}
	reach := p.Reachable(list...)
	seen := map[string]int{}
	carriers := map[*types.Func]bool{}
	for i, s := range sites {
		info := s.fd.Pkg.TypesInfo
		seen[s.name]++
		c := fmt.Sprintf("%s: conflict %s #%d leaves the function as its error", s.fd.Key(), s.name, i+1)
		if !reach[s.fd.Obj] {
			r.Add(rule, c, p.Pos(s.node.Pos()), core.Excepted, "not on the list path (informational)")
			continue
		}
		ok, why := false, ""
		if s.inFL == nil {
			st := enclosingStmt(s.fd.Decl.Body, s.node.Pos())
			switch x := st.(type) {
			case *ast.ReturnStmt:
				ok = true
			case *ast.AssignStmt:
				// errMsgPart1 := conflict(...) ... return errors.New(errMsgPart1 + ...): follow the local into a return
				if id, isID := x.Lhs[0].(*ast.Ident); isID {
					o := info.ObjectOf(id)
					ast.Inspect(s.fd.Decl.Body, func(n ast.Node) bool {
						if ret, isRet := n.(*ast.ReturnStmt); isRet {
							ast.Inspect(ret, func(m ast.Node) bool {
								if rid, isR := m.(*ast.Ident); isR && info.ObjectOf(rid) == o {
									ok = true
								}
								return true
							})
						}
						return true
					})
				}
				why = "the message is stored in a local that is not returned"
			default:
				why = "the message is neither returned nor stored"
			}
		} else {
			// inside a callback: assigned to a variable captured from the enclosing function, which returns it afterwards
			st := enclosingStmt(s.inFL.Body, s.node.Pos())
			as, isAs := st.(*ast.AssignStmt)
			if isAs && as.Tok == token.ASSIGN && len(as.Lhs) == 1 {
				if id, isID := as.Lhs[0].(*ast.Ident); isID {
					o := info.ObjectOf(id)
					captured := o.Pos() < s.inFL.Pos() || o.Pos() > s.inFL.End()
					returned := false
					n := len(s.fd.Decl.Body.List)
					if ret, isRet := s.fd.Decl.Body.List[n-1].(*ast.ReturnStmt); isRet && len(ret.Results) == 1 {
						if rid, isR := ast.Unparen(ret.Results[0]).(*ast.Ident); isR && info.ObjectOf(rid) == o {
							returned = true
						}
					}
					ok = captured && returned
					if !captured {
						why = "the error variable is local to the callback (shadowed): the enclosing function never sees it"
					} else if !returned {
						why = "the enclosing function does not return the captured error variable"
					}
				}
			} else {
				why = "inside a callback the message must be assigned (=, not :=) to a captured error variable"
			}
		}
		if ok {
			carriers[s.fd.Obj] = true
			r.OK(rule, c, p.Pos(s.node.Pos()), "returned directly, or through a captured variable returned by the enclosing function")
		} else {
			r.Bad(rule, c, p.Pos(s.node.Pos()), "the conflict is detected but its error does not leave the function: "+why)
		}
	}
	for _, n := range conflictNames {
		if seen[n] == 0 {
			r.Bad(rule, "conflict "+n+" has a detector", "-", "no code creates the error "+n+" any more: that conflict is resolved silently by input order")
		}
	}
	// a captured error variable may only be assigned non-nil errors inside the callback (a later comparison must not reset it)
	for _, s := range sites {
		if s.inFL == nil {
			continue
		}
		info := s.fd.Pkg.TypesInfo
		st := enclosingStmt(s.inFL.Body, s.node.Pos())
		as, ok := st.(*ast.AssignStmt)
		if !ok {
			continue
		}
		id, ok := as.Lhs[0].(*ast.Ident)
		if !ok {
			continue
		}
		o := info.ObjectOf(id)
		bad := ""
		ast.Inspect(s.inFL.Body, func(n ast.Node) bool {
			a2, isAs := n.(*ast.AssignStmt)
			if !isAs {
				return true
			}
			for i, l := range a2.Lhs {
				lid, isID := l.(*ast.Ident)
				if !isID || info.ObjectOf(lid) != o || i >= len(a2.Rhs) {
					continue
				}
				if c, isC := ast.Unparen(a2.Rhs[i]).(*ast.CallExpr); !isC || !AlwaysReturnsError(p, core.Callee(info, c)) {
					bad = core.ExprStr(a2) + " at " + p.Pos(a2.Pos())
				}
			}
			return true
		})
		r.Check(bad == "", rule+"-sticky", s.fd.Key()+": the error captured by the sort callback is only ever set to a non-nil error", p.Pos(s.inFL.Pos()), "every assignment inside the callback is a constructor call",
			"inside the comparison callback the captured error is assigned a value that may be nil ("+bad+"): a later comparison resets an earlier conflict, so only the last comparison decides and a conflicting pair can be accepted depending on its position")
	}
	// the same for every callback handed to a library function (invoked once per comparison / element) on the path:
	// an assignment to a captured error variable must not be able to store nil, wherever the message is created
	for fn := range reach {
		fd := p.ByObj[fn]
		if fd == nil {
			continue
		}
		info := fd.Pkg.TypesInfo
		ast.Inspect(fd.Decl.Body, func(nd ast.Node) bool {
			call, ok := nd.(*ast.CallExpr)
			if !ok {
				return true
			}
			if cal := core.Callee(info, call); cal == nil || p.IsModuleFunc(cal) {
				return true
			}
			for _, a := range call.Args {
				fl, isFL := ast.Unparen(a).(*ast.FuncLit)
				if !isFL {
					continue
				}
				ast.Inspect(fl.Body, func(m ast.Node) bool {
					a2, isAs := m.(*ast.AssignStmt)
					if !isAs || a2.Tok == token.DEFINE {
						return true
					}
					for i, l := range a2.Lhs {
						lid, isID := l.(*ast.Ident)
						if !isID {
							continue
						}
						v, isV := info.ObjectOf(lid).(*types.Var)
						if !isV || !core.IsErrorType(v.Type()) || (v.Pos() >= fl.Pos() && v.Pos() < fl.End()) {
							continue
						}
						var rhs ast.Expr
						if len(a2.Rhs) == len(a2.Lhs) {
							rhs = a2.Rhs[i]
						} else if len(a2.Rhs) == 1 {
							rhs = a2.Rhs[0]
						}
						c, isC := ast.Unparen(rhs).(*ast.CallExpr)
						okNonNil := isC && AlwaysReturnsError(p, core.Callee(info, c))
						r.Check(okNonNil, rule+"-sticky", fmt.Sprintf("%s: callback of %s assigns the captured error %s only non-nil values", fd.Key(), core.ExprStr(call.Fun), lid.Name), p.Pos(a2.Pos()), "the right-hand side always yields an error",
							"inside a callback that the library invokes repeatedly the captured error is assigned a value that may be nil ("+core.ExprStr(a2)+"): a later invocation resets an earlier conflict, so whether a conflicting pair is rejected depends on the order of comparisons, i.e. on its position in the input")
					}
					return true
				})
			}
			return true
		})
	}
	// carrier chain: callers propagate
	for changed := true; changed; {
		changed = false
		for fn := range reach {
			fd := p.ByObj[fn]
			if fd == nil || carriers[fn] {
				continue
			}
			sig := fn.Type().(*types.Signature)
			if sig.Results().Len() == 0 || !core.IsErrorType(sig.Results().At(sig.Results().Len()-1).Type()) {
				continue
			}
			for _, c := range p.CalleesOf(fd) {
				if carriers[c] {
					carriers[fn] = true
					changed = true
					break
				}
			}
		}
	}
	n := 0
	var fns []*core.FuncDecl
	for fn := range reach {
		if fd := p.ByObj[fn]; fd != nil {
			fns = append(fns, fd)
		}
	}
	sort.Slice(fns, func(i, j int) bool { return fns[i].Key() < fns[j].Key() })
	for _, fd := range fns {
		info := fd.Pkg.TypesInfo
		// calls of carriers inside fd
		var calls []*ast.CallExpr
		ast.Inspect(fd.Decl.Body, func(nd ast.Node) bool {
			if c, ok := nd.(*ast.CallExpr); ok {
				for _, g := range p.Impls(core.Callee(info, c)) {
					if carriers[g] {
						calls = append(calls, c)
						break
					}
				}
			}
			return true
		})
		for ci, call := range calls {
			n++
			ok, why := propagates(p, fd, call)
			callee := core.Callee(info, call)
			r.Check(ok, rule+"-prop", fmt.Sprintf("%s: the error of %s (call #%d) is propagated", fd.Key(), core.RefName(callee), ci+1), p.Pos(call.Pos()), why, "a conflict error can be lost here: "+why)
		}
	}
	r.Floor(rule+"-prop", 15)
	r.Floor(rule, 7)
	_ = n
	// recorded as fatal at the API boundary: rule C13-c-rec covers recording; here: the entry returns nil results with the error
}

// propagates: the error result of call (inside fd) is returned, or bound to a variable that is returned / tested before being overwritten.
func propagates(p *core.Program, fd *core.FuncDecl, call *ast.CallExpr) (bool, string) {
	info := fd.Pkg.TypesInfo
	st := enclosingStmt(fd.Decl.Body, call.Pos())
	switch x := st.(type) {
	case *ast.ReturnStmt:
		return true, "returned directly"
	case *ast.ExprStmt:
		return false, "the call's results are discarded"
	case *ast.AssignStmt:
		// which lhs gets the error (last result)
		if len(x.Rhs) != 1 || ast.Unparen(x.Rhs[0]) != ast.Expr(call) {
			return false, "unrecognised binding of the call"
		}
		last := x.Lhs[len(x.Lhs)-1]
		id, ok := last.(*ast.Ident)
		if !ok || id.Name == "_" {
			return false, "the error result is assigned to _"
		}
		ev, _ := info.ObjectOf(id).(*types.Var)
		if ev == nil {
			return false, "no error variable"
		}
		w := facts.NewWalker(info)
		bad := ""
		w.Transfer = func(s int, n ast.Node, f facts.Formula) int {
			if n == ast.Node(x) {
				return 1
			}
			if s == 1 {
				if as, ok := n.(*ast.AssignStmt); ok && n != ast.Node(x) {
					for _, l := range as.Lhs {
						if lid, ok := l.(*ast.Ident); ok && info.ObjectOf(lid) == ev {
							if !facts.Entails(f, facts.Atom("nil:"+w.PathOfVar(ev))) && bad == "" {
								bad = "the error variable is overwritten at " + p.Pos(as.Pos()) + " before it was tested"
							}
							return 0
						}
					}
				}
			}
			return s
		}
		w.Refine = func(s int, f facts.Formula) int {
			if s == 1 && facts.Entails(f, facts.Atom("nil:"+w.PathOfVar(ev))) {
				return 0 // tested: no error on this path
			}
			return s
		}
		w.OnExit = func(s int, ret *ast.ReturnStmt, f facts.Formula) {
			if s != 1 || bad != "" || w.FuncLitDepth > 0 {
				return
			}
			if facts.Entails(f, facts.Atom("nil:"+w.PathOfVar(ev))) {
				return // tested: no error on this path
			}
			if ret != nil && len(ret.Results) > 0 {
				lastRes := ast.Unparen(ret.Results[len(ret.Results)-1])
				if rid, ok := lastRes.(*ast.Ident); ok && info.ObjectOf(rid) == ev {
					return
				}
				if IsErrorReturn(p, w, fd.Obj, ret, f) {
					return // wrapped / converted on the failing branch
				}
			}
			if ret == nil {
				// named result
				sig := fd.Obj.Type().(*types.Signature)
				if sig.Results().Len() > 0 && sig.Results().At(sig.Results().Len()-1) == ev {
					return
				}
			}
			pos := fd.Decl.End()
			if ret != nil {
				pos = ret.Pos()
			}
			bad = "the function can return at " + p.Pos(pos) + " without returning or having tested the error"
		}
		w.WalkBody(fd.Decl.Body, nil)
		if bad != "" {
			return false, bad
		}
		return true, "bound to " + id.Name + ", which is returned or tested on every path"
	case *ast.IfStmt:
		return true, "tested in the if initialiser"
	}
	// call in an if-init: `if err := f(); err != nil { return err }`
	var ifs *ast.IfStmt
	ast.Inspect(fd.Decl.Body, func(n ast.Node) bool {
		if i, ok := n.(*ast.IfStmt); ok && i.Init != nil && i.Init.Pos() <= call.Pos() && call.End() <= i.Init.End() {
			ifs = i
		}
		return true
	})
	if ifs != nil {
		return true, "tested in the if initialiser"
	}
	return false, "unrecognised use of the call"
}

// CheckBeforeWrite is C19-b.
func CheckBeforeWrite(p *core.Program, r *core.Report, rule string) {
	type guard struct {
		fn    string
		store func(info *types.Info, as *ast.AssignStmt) bool
		need  func(w *facts.Walker, f facts.Formula, as *ast.AssignStmt) bool
		what  string
	}
	netpols := p.Field(core.PkgEval, "PolicyEngine", "netpolsMap")
	anps := p.Field(core.PkgEval, "PolicyEngine", "adminNetpolsMap")
	banp := p.Field(core.PkgEval, "PolicyEngine", "baselineAdminNetpol")
	if netpols == nil || anps == nil || banp == nil {
		r.Lost(rule, "PolicyEngine.netpolsMap / adminNetpolsMap / baselineAdminNetpol")
		return
	}
	lhsIndexOf := func(info *types.Info, as *ast.AssignStmt, fld *types.Var, depth int) *ast.IndexExpr {
		if len(as.Lhs) != 1 {
			return nil
		}
		ix, ok := ast.Unparen(as.Lhs[0]).(*ast.IndexExpr)
		if !ok {
			return nil
		}
		base := ix.X
		for d := 1; d < depth; d++ {
			inner, ok := ast.Unparen(base).(*ast.IndexExpr)
			if !ok {
				return nil
			}
			base = inner.X
		}
		if core.FieldOf(info, base) != fld {
			return nil
		}
		return ix
	}
	guards := []guard{
		{"insertNetworkPolicy", func(info *types.Info, as *ast.AssignStmt) bool { return lhsIndexOf(info, as, netpols, 2) != nil },
			func(w *facts.Walker, f facts.Formula, as *ast.AssignStmt) bool {
				// !ok of a comma-ok lookup of the same element
				for _, a := range facts.Atoms(f) {
					if strings.HasPrefix(a, "b:ok") && facts.Entails(f, facts.Not{X: facts.Atom(a)}) {
						return true
					}
				}
				return false
			}, "a NetworkPolicy is stored only after the same (namespace, name) was found absent"},
		{"insertAdminNetworkPolicy", func(info *types.Info, as *ast.AssignStmt) bool { return lhsIndexOf(info, as, anps, 1) != nil },
			func(w *facts.Walker, f facts.Formula, as *ast.AssignStmt) bool {
				want := "b:" + w.Path(as.Lhs[0])
				return facts.Entails(f, facts.Not{X: facts.Atom(want)})
			}, "an AdminNetworkPolicy name is registered only after it was found unregistered"},
		{"insertBaselineAdminNetworkPolicy", func(info *types.Info, as *ast.AssignStmt) bool {
			return len(as.Lhs) == 1 && core.FieldOf(info, as.Lhs[0]) == banp && !core.IsNil(info, as.Rhs[0])
		},
			func(w *facts.Walker, f facts.Formula, as *ast.AssignStmt) bool {
				okNil := facts.Entails(f, facts.Atom("nil:"+w.Path(as.Lhs[0])))
				okName := false
				for _, a := range facts.Atoms(f) {
					if strings.HasPrefix(a, "eq:") && strings.HasSuffix(a, ".Name==\"default\"") && facts.Entails(f, facts.Atom(a)) {
						okName = true
					}
				}
				return okNil && okName
			}, "the BANP is stored only when none is present and its name is `default`"},
	}
	for _, g := range guards {
		fd := p.Func(core.PkgEval, "PolicyEngine", g.fn)
		if fd == nil {
			r.Lost(rule, g.fn)
			continue
		}
		info := fd.Pkg.TypesInfo
		w := facts.NewWalker(info)
		found, ok := false, true
		w.OnStmt = func(s ast.Stmt, f facts.Formula) {
			as, isAs := s.(*ast.AssignStmt)
			if !isAs || !g.store(info, as) {
				return
			}
			found = true
			if !g.need(w, f, as) {
				ok = false
			}
		}
		w.WalkBody(fd.Decl.Body, nil)
		r.Check(found && ok, rule, fd.Key()+": "+g.what, p.Pos(fd.Decl.Pos()), "the uniqueness test dominates the store, on the same key", "the store is not dominated by its uniqueness test (or the test is on a different key): a duplicate silently replaces the earlier object, so input order decides")
	}
	// the NetworkPolicy comma-ok is on the same element that is stored
	if fd := p.Func(core.PkgEval, "PolicyEngine", "insertNetworkPolicy"); fd != nil {
		info := fd.Pkg.TypesInfo
		var lookups, stores []string
		ast.Inspect(fd.Decl.Body, func(n ast.Node) bool {
			as, ok := n.(*ast.AssignStmt)
			if !ok {
				return true
			}
			if len(as.Lhs) == 2 && len(as.Rhs) == 1 {
				if ix, ok := ast.Unparen(as.Rhs[0]).(*ast.IndexExpr); ok {
					if inner, ok := ast.Unparen(ix.X).(*ast.IndexExpr); ok && core.FieldOf(info, inner.X) == netpols {
						lookups = append(lookups, core.ExprStr(ix))
					}
				}
			}
			if ix := lhsIndexOf(info, as, netpols, 2); ix != nil {
				stores = append(stores, core.ExprStr(ix))
			}
			return true
		})
		r.Check(len(stores) == 1 && len(lookups) >= 1 && lookups[len(lookups)-1] == stores[0], rule, fd.Key()+": the duplicate test looks up exactly the element that is stored", p.Pos(fd.Decl.Pos()), strings.Join(stores, ","), fmt.Sprintf("lookup %v vs store %v", lookups, stores))
	}
}

// ConflictPositionIndependence is C19-c.
func ConflictPositionIndependence(p *core.Program, r *core.Report, rule string) {
	// the bulk loader visits every object: no early exit but errors
	if fd := p.Func(core.PkgEval, "PolicyEngine", "addObjectsByKind"); fd != nil {
		info := fd.Pkg.TypesInfo
		w := facts.NewWalker(info)
		bad := ""
		w.OnStmt = func(s ast.Stmt, f facts.Formula) {
			if len(w.Loops) == 0 || bad != "" {
				return
			}
			switch x := s.(type) {
			case *ast.BranchStmt:
				if x.Tok == token.BREAK && !inSwitchOnly(fd.Decl.Body, x) {
					bad = "break at " + p.Pos(x.Pos())
				}
			case *ast.ReturnStmt:
				if !IsErrorReturn(p, w, fd.Obj, x, f) {
					bad = "non-error return at " + p.Pos(x.Pos())
				}
			}
		}
		w.WalkBody(fd.Decl.Body, nil)
		r.Check(bad == "", rule, fd.Key()+": every input object is inserted (the loop is left early only on an error)", p.Pos(fd.Decl.Pos()), "", "the insertion loop can stop before all objects were seen: a conflict later in the input goes undetected ("+bad+")")
	} else {
		r.Lost(rule, "addObjectsByKind")
	}
	// the label-consistency check runs for every pod
	if fd := p.Func(core.PkgEval, "PolicyEngine", "createPodOwnersMap"); fd != nil {
		info := fd.Pkg.TypesInfo
		w := facts.NewWalker(info)
		okCall, bad := false, ""
		w.Transfer = func(st int, n ast.Node, f facts.Formula) int {
			if _, ok := n.(*ast.RangeStmt); ok {
				return 0
			}
			if c, ok := n.(*ast.CallExpr); ok {
				if fn := core.Callee(info, c); fn != nil && core.RefName(fn) == "checkConsistentLabelsForPodsOfSameOwner" {
					okCall = true
					return 1
				}
			}
			return st
		}
		w.OnBranch = func(b *ast.BranchStmt, states uint64, f facts.Formula) {
			if states&1 != 0 && bad == "" {
				bad = b.Tok.String() + " before the check at " + p.Pos(b.Pos())
			}
		}
		w.OnLoopBodyEnd = func(l ast.Stmt, states uint64, f facts.Formula) {
			if states&1 != 0 && bad == "" {
				bad = "an iteration can end without the check"
			}
		}
		w.WalkBody(fd.Decl.Body, nil)
		r.Check(okCall && bad == "", rule, fd.Key()+": the labels of every pod are compared with its owner's first pod", p.Pos(fd.Decl.Pos()), "checkConsistentLabelsForPodsOfSameOwner on every iteration", "some pods skip the same-owner label check: "+bad)
	} else {
		r.Lost(rule, "createPodOwnersMap")
	}
	// label comparison is by presence (comma-ok), not by value: an empty value differs from an absent label
	if fd := p.Func(core.PkgEval, "", "diffBetweenPodsLabels"); fd != nil {
		info := fd.Pkg.TypesInfo
		nLoops, nPresence := 0, 0
		ast.Inspect(fd.Decl.Body, func(n ast.Node) bool {
			rs, ok := n.(*ast.RangeStmt)
			if !ok {
				return true
			}
			nLoops++
			has := false
			ast.Inspect(rs.Body, func(m ast.Node) bool {
				as, ok := m.(*ast.AssignStmt)
				if !ok || len(as.Lhs) != 2 || len(as.Rhs) != 1 {
					return true
				}
				if ix, ok := ast.Unparen(as.Rhs[0]).(*ast.IndexExpr); ok {
					if f := core.FieldOf(info, ix.X); f != nil && core.RefName(f) == "Labels" {
						if core.ExprStr(ix.Index) == core.ExprStr(rs.Key) {
							has = true
						}
					}
				}
				return true
			})
			if has {
				nPresence++
			}
			return true
		})
		r.Check(nLoops == 2 && nPresence == 2, rule, fd.Key()+": labels are compared by presence in both directions", p.Pos(fd.Decl.Pos()), "both loops test `_, ok := other.Labels[key]`", "a label's absence is not tested by a comma-ok lookup in both directions: a label with an empty value then equals a missing label and pods of one owner with different label sets are accepted")
	} else {
		r.Lost(rule, "diffBetweenPodsLabels")
	}
	// the single-policy case of the priority check is handled outside the sort callback
	if fd := p.Func(core.PkgEval, "PolicyEngine", "sortAdminNetpolsByPriority"); fd != nil {
		info := fd.Pkg.TypesInfo
		ok := false
		ast.Inspect(fd.Decl.Body, func(n ast.Node) bool {
			ifs, isIf := n.(*ast.IfStmt)
			if !isIf {
				return true
			}
			s := core.ExprStr(ifs.Cond)
			if strings.Contains(s, "== 1") && strings.Contains(s, "HasValidPriority") {
				for _, st := range ifs.Body.List {
					if ret, isRet := st.(*ast.ReturnStmt); isRet && len(ret.Results) == 1 {
						if c, isC := ast.Unparen(ret.Results[0]).(*ast.CallExpr); isC && AlwaysReturnsError(p, core.Callee(info, c)) {
							ok = true
						}
					}
				}
			}
			return true
		})
		r.Check(ok, rule, fd.Key()+": a single policy's priority is validated outside the comparison callback", p.Pos(fd.Decl.Pos()), "len == 1 && !HasValidPriority() -> error", "with one admin policy the sort never calls the comparison, and the separate validation of that case is gone")
	}
	r.Floor(rule, 4)
}
