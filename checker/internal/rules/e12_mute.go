package rules

import (
	"fmt"
	"go/ast"
	"go/token"
	"go/types"
	"strings"

	"npverif/internal/core"
	"npverif/internal/facts"
)

// MuteDecidesLoggingOnly is C04-mute. diff computes its two connectivity reports with analyzers built with
// WithMuteErrsAndWarns (so that messages are not logged twice); the diff is exact with respect to what `list` reports only
// if that option changes nothing but logging. Decided as an effect rule: starting from the analyzer's mute field, every
// value the flag flows to (arguments -> parameters, stores into fields and locals) is a mute value; in every function of
// the module a statement whose path condition depends on a mute value may only log (a method of logger.Logger, a
// print, a helper that only logs), define a local of the dependent region, or return without a result. A store, a
// result, a continue/break or a call made for its effect that depends on the flag makes muted and un-muted runs compute
// different things.
func MuteDecidesLoggingOnly(p *core.Program, r *core.Report, rule string) {
	root := p.Field(core.PkgConnlist, "ConnlistAnalyzer", "muteErrsAndWarns")
	if root == nil {
		r.Lost(rule, "connlist.ConnlistAnalyzer.muteErrsAndWarns")
		return
	}
	mute := map[types.Object]bool{root: true}
	isMuteExpr := func(info *types.Info, e ast.Expr) bool {
		switch x := ast.Unparen(e).(type) {
		case *ast.Ident:
			return mute[info.ObjectOf(x)]
		case *ast.SelectorExpr:
			return mute[info.ObjectOf(x.Sel)]
		}
		return false
	}
	// propagation of the flag: arguments, literal fields, assignments
	for changed := true; changed; {
		changed = false
		add := func(o types.Object) {
			if o != nil && !mute[o] {
				if b, ok := o.Type().Underlying().(*types.Basic); ok && b.Kind() == types.Bool {
					mute[o] = true
					changed = true
				}
			}
		}
		for _, fd := range p.Funcs {
			info := fd.Pkg.TypesInfo
			ast.Inspect(fd.Decl.Body, func(n ast.Node) bool {
				switch x := n.(type) {
				case *ast.CallExpr:
					fn := core.Callee(info, x)
					if fn == nil {
						return true
					}
					for _, g := range p.Impls(fn) {
						sig := g.Type().(*types.Signature)
						for i, a := range x.Args {
							if isMuteExpr(info, a) && i < sig.Params().Len() && !sig.Variadic() {
								add(sig.Params().At(i))
							}
						}
					}
				case *ast.KeyValueExpr:
					if id, ok := x.Key.(*ast.Ident); ok && isMuteExpr(info, x.Value) {
						if v, isVar := info.ObjectOf(id).(*types.Var); isVar && v.IsField() {
							add(v)
						}
					}
				case *ast.AssignStmt:
					if len(x.Lhs) == len(x.Rhs) {
						for i, rhs := range x.Rhs {
							if !isMuteExpr(info, rhs) {
								continue
							}
							switch l := ast.Unparen(x.Lhs[i]).(type) {
							case *ast.Ident:
								add(info.ObjectOf(l))
							case *ast.SelectorExpr:
								add(info.ObjectOf(l.Sel))
							}
						}
					}
				}
				return true
			})
		}
	}
	r.RuleCounts[rule+"-values"] = len(mute)
	r.Floor(rule+"-values", 4) // two analyzer fields and the parser's parameters

	isLoggerCall := func(info *types.Info, c *ast.CallExpr) bool {
		fn := core.Callee(info, c)
		if fn == nil || fn.Pkg() == nil {
			return false
		}
		switch fn.Pkg().Path() {
		case core.PkgLogger, "log":
			return true
		case "fmt":
			return strings.HasPrefix(fn.Name(), "Print") || strings.HasPrefix(fn.Name(), "Fprint")
		}
		return false
	}
	// logOnly(fn): a module function whose statements do nothing but log
	var logOnly func(fn *types.Func, depth int) bool
	logOnly = func(fn *types.Func, depth int) bool {
		fd := p.ByObj[fn]
		if fd == nil || fd.Decl.Body == nil || depth > 2 || fn.Type().(*types.Signature).Results().Len() > 0 {
			return false
		}
		info := fd.Pkg.TypesInfo
		ok := true
		ast.Inspect(fd.Decl.Body, func(n ast.Node) bool {
			switch x := n.(type) {
			case *ast.ExprStmt:
				c, isCall := x.X.(*ast.CallExpr)
				if !isCall {
					ok = false
					return false
				}
				if isLoggerCall(info, c) {
					return false
				}
				if g := core.Callee(info, c); g == nil || !logOnly(g, depth+1) {
					ok = false
				}
				return false
			case *ast.AssignStmt:
				for _, l := range x.Lhs {
					if _, isID := ast.Unparen(l).(*ast.Ident); !isID {
						ok = false
					}
				}
			case *ast.IncDecStmt, *ast.GoStmt, *ast.DeferStmt, *ast.SendStmt:
				ok = false
			}
			return ok
		})
		return ok
	}

	n := 0
	for _, fd := range p.Funcs {
		info := fd.Pkg.TypesInfo
		uses := false
		ast.Inspect(fd.Decl.Body, func(nd ast.Node) bool {
			if e, ok := nd.(ast.Expr); ok && !uses {
				switch e.(type) {
				case *ast.Ident, *ast.SelectorExpr:
					if isMuteExpr(info, e) {
						uses = true
					}
				}
			}
			return !uses
		})
		if !uses {
			continue
		}
		w := facts.NewWalker(info)
		w.Atomize = func(w *facts.Walker, e ast.Expr) facts.Formula {
			if isMuteExpr(info, e) {
				return facts.Atom("mute")
			}
			return nil
		}
		bad := ""
		tested := false
		depLocals := map[types.Object]bool{}
		localTarget := func(l ast.Expr) (types.Object, bool) {
			id, ok := ast.Unparen(l).(*ast.Ident)
			if !ok {
				return nil, false
			}
			if id.Name == "_" {
				return nil, true
			}
			return info.ObjectOf(id), true
		}
		w.OnStmt = func(s ast.Stmt, f facts.Formula) {
			if !facts.DependsOn(f, "mute") {
				return
			}
			tested = true
			if bad != "" {
				return
			}
			flag := func(what string) {
				bad = fmt.Sprintf("%s at %s depends on the mute flag (path: %s)", what, p.Pos(s.Pos()), facts.StripVersions(facts.String(f)))
			}
			switch x := s.(type) {
			case *ast.ReturnStmt:
				if len(x.Results) > 0 {
					flag("the result returned")
				}
			case *ast.BranchStmt:
				flag(x.Tok.String())
			case *ast.AssignStmt:
				for _, l := range x.Lhs {
					o, isLocal := localTarget(l)
					switch {
					case !isLocal:
						flag("the store to " + core.ExprStr(l))
					case o == nil:
					case x.Tok == token.DEFINE:
						depLocals[o] = true
					case !depLocals[o]:
						flag("the assignment to " + core.ExprStr(l) + " (declared outside the muted region)")
					}
				}
			case *ast.DeclStmt:
				if gd, ok := x.Decl.(*ast.GenDecl); ok {
					for _, sp := range gd.Specs {
						if vs, ok := sp.(*ast.ValueSpec); ok {
							for _, nm := range vs.Names {
								depLocals[info.ObjectOf(nm)] = true
							}
						}
					}
				}
			case *ast.IncDecStmt:
				if o, isLocal := localTarget(x.X); !isLocal || (o != nil && !depLocals[o]) {
					flag("the update of " + core.ExprStr(x.X))
				}
			case *ast.ExprStmt:
				c, isCall := x.X.(*ast.CallExpr)
				if !isCall {
					return
				}
				if isLoggerCall(info, c) {
					return
				}
				if g := core.Callee(info, c); g != nil && logOnly(g, 0) {
					return
				}
				flag("the call " + core.ExprStr(c.Fun) + "(...), made for its effect,")
			case *ast.GoStmt, *ast.DeferStmt, *ast.SendStmt:
				flag("a go/defer/send statement")
			}
		}
		w.WalkBody(fd.Decl.Body, nil)
		if !tested {
			continue // the flag is only handed on
		}
		n++
		r.Check(bad == "", rule, fd.Key()+": the mute option decides logging only", p.Pos(fd.Decl.Pos()),
			"every statement whose execution depends on the flag logs, defines a local of that region, or returns nothing",
			bad+": diff builds its analyzers muted, `list` does not, so the connectivity diff compares is no longer the connectivity list reports")
	}
	r.RuleCounts[rule] = n
	r.Floor(rule, 3)
}
