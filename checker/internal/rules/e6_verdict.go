package rules

import (
	"fmt"
	"go/ast"
	"go/token"
	"go/types"
	"strings"

	"npverif/internal/core"
	"npverif/internal/facts"
)

// VerdictDependence is C03-b: in the eval-side port matchers a positive answer
// returned from inside the loop over a rule's ports depends on the protocol of
// the current port entry and (unless the entry has no port) on its port value;
// the list-side siblings build their sets from both.
func VerdictDependence(p *core.Program, r *core.Report, rule string) {
	targets := []*core.FuncDecl{p.Func(core.PkgK8s, "NetworkPolicy", "ruleConnsContain"), p.Func(core.PkgK8s, "", "anpPortContains")}
	names := []string{"(*NetworkPolicy).ruleConnsContain", "anpPortContains"}
	for i, fd := range targets {
		if fd == nil {
			r.Lost(rule, names[i])
			continue
		}
		info := fd.Pkg.TypesInfo
		sig := fd.Obj.Type().(*types.Signature)
		var protoParam, portParam *types.Var
		for j := 0; j < sig.Params().Len(); j++ {
			switch core.RefName(sig.Params().At(j)) {
			case "protocol":
				protoParam = sig.Params().At(j)
			case "port":
				portParam = sig.Params().At(j)
			}
		}
		// role-based fallback: the two string parameters, in order (protocol, port)
		if protoParam == nil || portParam == nil {
			var strs []*types.Var
			for j := 0; j < sig.Params().Len(); j++ {
				if b, ok := sig.Params().At(j).Type().Underlying().(*types.Basic); ok && b.Kind() == types.String {
					strs = append(strs, sig.Params().At(j))
				}
			}
			if len(strs) == 2 {
				protoParam, portParam = strs[0], strs[1]
			}
		}
		if protoParam == nil || portParam == nil {
			r.Add(rule, fd.Key()+": protocol and port parameters", p.Pos(fd.Decl.Pos()), core.Undecided, "could not identify the queried protocol and port parameters")
			continue
		}
		// variables derived from the port parameter (intPort := ParseInt(port, ...))
		derived := map[types.Object]bool{portParam: true}
		ast.Inspect(fd.Decl.Body, func(n ast.Node) bool {
			if as, ok := n.(*ast.AssignStmt); ok && len(as.Rhs) == 1 {
				uses := false
				ast.Inspect(as.Rhs[0], func(m ast.Node) bool {
					if id, ok := m.(*ast.Ident); ok && derived[info.ObjectOf(id)] {
						uses = true
					}
					return true
				})
				if uses {
					if id, ok := as.Lhs[0].(*ast.Ident); ok {
						derived[info.ObjectOf(id)] = true
					}
				}
			}
			return true
		})
		w := facts.NewWalker(info)
		n := 0
		w.OnStmt = func(s ast.Stmt, f facts.Formula) {
			ret, ok := s.(*ast.ReturnStmt)
			if !ok || len(ret.Results) == 0 || len(w.Loops) == 0 {
				return
			}
			if v, ok := core.ConstString(info, ret.Results[0]); !ok || v != "true" {
				return
			}
			n++
			// atoms known true at the return
			protoOK, portOK, portNil := false, false, false
			protoPath := w.PathOfVar(protoParam)
			for _, a := range facts.Atoms(f) {
				if !facts.Entails(f, facts.Atom(a)) {
					continue
				}
				if strings.Contains(a, protoPath) && (strings.Contains(a, ".Protocol") || strings.Contains(a, "Protocol")) {
					protoOK = true
				}
				for o := range derived {
					if v, ok := o.(*types.Var); ok && strings.Contains(a, w.PathOfVar(v)) {
						portOK = true
					}
				}
				if strings.HasPrefix(a, "nil:") && strings.HasSuffix(a, ".Port") {
					portNil = true
				}
			}
			c := fmt.Sprintf("%s: positive answer #%d inside the port loop depends on the entry's protocol and port", fd.Key(), n)
			switch {
			case !protoOK:
				r.Bad(rule, c, p.Pos(ret.Pos()), "true is returned for a port entry without comparing the entry's protocol with the queried protocol: eval allows e.g. UDP on a TCP-only rule, list does not (path condition: "+facts.StripVersions(facts.String(f))+")")
			case !portOK && !portNil:
				r.Bad(rule, c, p.Pos(ret.Pos()), "true is returned for a port entry that has a port without comparing it with the queried port (path condition: "+facts.StripVersions(facts.String(f))+")")
			default:
				r.OK(rule, c, p.Pos(ret.Pos()), "guarded by a comparison of the entry's protocol with the query"+map[bool]string{true: " (entry without port: all ports)", false: " and of its port range with the queried port"}[portNil && !portOK])
			}
		}
		w.WalkBody(fd.Decl.Body, nil)
		if n == 0 {
			r.Bad(rule, fd.Key()+": has a positive answer inside the port loop", p.Pos(fd.Decl.Pos()), "no `return true` inside the loop over the rule's ports was found")
		}
	}
	r.Floor(rule, 2) // a floor against vacuity, not a count: merging duplicated per-port calls is ordinary maintenance
}

// AlwaysAllowedParity is C03-d: list and eval apply the same always-allowed
// predicates (pod to itself, node IP) before any policy or cache is consulted.
func AlwaysAllowedParity(p *core.Program, r *core.Report, rule string) {
	sites := []*core.FuncDecl{p.Func(core.PkgEval, "PolicyEngine", "CheckIfAllowed"), p.Func(core.PkgEval, "PolicyEngine", "allAllowedConnectionsBetweenPeers")}
	var preds [2]map[string]bool
	policyCall := func(fn *types.Func) bool {
		if fn == nil {
			return false
		}
		switch core.RefName(fn) {
		case "hasConnectionResult", "allowedXgressConnection", "allAllowedXgressConnections", "getConnectionResult":
			return p.IsModuleFunc(fn)
		}
		return false
	}
	for i, fd := range sites {
		if fd == nil {
			r.Lost(rule, []string{"CheckIfAllowed", "allAllowedConnectionsBetweenPeers"}[i])
			return
		}
		info := fd.Pkg.TypesInfo
		preds[i] = map[string]bool{}
		// The guard is read off the paths, not off one if-statement: G = the disjunction of the path conditions of the
		// exits that return the top verdict before any cache or policy call (helpers inlined). Its atoms, with the two
		// peers written by role, are the site's always-allowed predicates.
		roleOf := func(path string) string {
			// a peer variable: by the parameter (first = source, second = destination) it derives from
			base := facts.StripVersions(path)
			var obj types.Object
			ast.Inspect(fd.Decl, func(n ast.Node) bool {
				if id, ok := n.(*ast.Ident); ok && id.Name == base && obj == nil {
					if o := info.ObjectOf(id); o != nil {
						if _, isV := o.(*types.Var); isV {
							obj = o
						}
					}
				}
				return obj == nil
			})
			if obj == nil {
				return path
			}
			switch paramOrigin(fd, obj, 0) {
			case 0:
				return "#src"
			case 1:
				return "#dst"
			}
			return path
		}
		normalise := func(a string) string {
			// replace identifiers inside the atom by their role
			var b strings.Builder
			isId := func(c byte) bool {
				return c == '_' || c == '#' || c >= '0' && c <= '9' || c >= 'a' && c <= 'z' || c >= 'A' && c <= 'Z'
			}
			for k := 0; k < len(a); {
				if isId(a[k]) {
					e := k
					for e < len(a) && isId(a[e]) {
						e++
					}
					word := a[k:e]
					if (k == 0 || (a[k-1] != '.' && a[k-1] != ':')) || (k > 0 && a[k-1] == ':') {
						if rw := roleOf(word); strings.HasPrefix(rw, "#") {
							word = rw
						}
					}
					b.WriteString(word)
					k = e
					continue
				}
				b.WriteByte(a[k])
				k++
			}
			return b.String()
		}
		w := facts.NewWalker(info)
		w.Inline = true
		// only pure combinations of other predicates are unfolded (a helper that names the always-allowed cases); a
		// predicate that compares something itself stays one proposition
		w.NoInline = func(in *types.Info, c *ast.CallExpr) bool {
			ib := p.InlineBool(in, c)
			if ib == nil {
				return true
			}
			leaf := len(ib.Guards) > 0
			ast.Inspect(ib.Expr, func(n ast.Node) bool {
				switch x := n.(type) {
				case *ast.BinaryExpr:
					if x.Op != token.LOR && x.Op != token.LAND {
						leaf = true
					}
				case *ast.CallExpr:
					if fn := core.Callee(ib.Info, x); fn == nil || !p.IsModuleFunc(fn) {
						leaf = true
					}
				}
				return !leaf
			})
			return leaf
		}
		w.Transfer = func(st int, n ast.Node, f facts.Formula) int {
			if c, ok := n.(*ast.CallExpr); ok && policyCall(core.Callee(info, c)) {
				return 1
			}
			return st
		}
		var guard facts.Formula = facts.False{}
		nTop := 0
		var firstTop ast.Node
		isTop := func(e ast.Expr) bool {
			if v, ok := core.ConstString(info, e); ok && v == "true" {
				return true
			}
			if c, ok := ast.Unparen(e).(*ast.CallExpr); ok {
				if fn := core.Callee(info, c); fn != nil && core.RefName(fn) == "MakeConnectionSet" && len(c.Args) == 1 {
					if v, ok := core.ConstString(info, c.Args[0]); ok && v == "true" {
						return true
					}
				}
			}
			return false
		}
		w.OnExit = func(st int, ret *ast.ReturnStmt, f facts.Formula) {
			if w.FuncLitDepth > 0 || ret == nil || len(ret.Results) == 0 || st != 0 || !isTop(ret.Results[0]) {
				return
			}
			if IsErrorReturn(p, w, fd.Obj, ret, f) {
				return
			}
			nTop++
			if firstTop == nil {
				firstTop = ret
			}
			guard = facts.MkOr(guard, f)
		}
		// at every cache / policy call the guard's predicates are known to be false
		late := ""
		w.OnExpr = func(e ast.Expr, f facts.Formula) {
			c, ok := e.(*ast.CallExpr)
			if !ok || w.FuncLitDepth > 0 || !policyCall(core.Callee(info, c)) {
				return
			}
			w.AtCalls = append(w.AtCalls, facts.CallFact{Call: c, F: f})
		}
		w.WalkBody(fd.Decl.Body, nil)
		if nTop == 0 {
			r.Bad(rule, fd.Key()+": a pod may always talk to itself", p.Pos(fd.Decl.Pos()), "the always-allowed guard is gone: no exit returns the top verdict before the cache and the policies are consulted")
			continue
		}
		// the atoms of the guard that are about the two peers (error tests etc. are background)
		var gAtoms []string
		for _, a := range facts.Atoms(guard) {
			na := normalise(facts.StripVersions(a))
			if strings.Contains(na, "#src") || strings.Contains(na, "#dst") {
				if strings.HasPrefix(a, "nil:") {
					continue
				}
				gAtoms = append(gAtoms, a)
				preds[i][na] = true
			}
		}
		var disj facts.Formula = facts.False{}
		for _, a := range gAtoms {
			disj = facts.MkOr(disj, facts.Atom(a))
		}
		// G must hold whenever one of its predicates holds (each predicate alone is sufficient): G is their disjunction
		// modulo the background (error tests that precede it)
		okDisj := true
		for _, a := range gAtoms {
			// exists a guard path that this atom alone enables: guard restricted by the other atoms false is implied by a
			rest := facts.Formula(facts.True{})
			for _, b := range gAtoms {
				if b != a {
					rest = facts.MkAnd(rest, facts.MkNot(facts.Atom(b)))
				}
			}
			if !facts.Satisfiable(facts.MkAnd(facts.MkAnd(guard, facts.Atom(a)), rest)) {
				okDisj = false
			}
		}
		r.Check(okDisj && facts.Entails(guard, disj), rule, fd.Key()+": the always-allowed guard returns allow-all", p.Pos(firstTop.Pos()), fmt.Sprintf("top verdict before any cache / policy call under %s", facts.StripVersions(facts.String(disj))), "the always-allowed guard no longer returns the top verdict for each of its cases alone")
		for _, cf := range w.AtCalls {
			for _, a := range gAtoms {
				if !facts.Entails(cf.F, facts.MkNot(facts.Atom(a))) && late == "" {
					late = core.RefName(core.Callee(info, cf.Call)) + " at " + p.Pos(cf.Call.Pos()) + " can run while " + facts.StripVersions(a) + " holds"
				}
			}
		}
		r.Check(late == "", rule, fd.Key()+": the always-allowed guard precedes cache and policy evaluation", p.Pos(firstTop.Pos()), "no cache lookup or policy evaluation before the guard", "cache or policies are consulted before the always-allowed guard: "+late)
	}
	if preds[0] != nil && preds[1] != nil && len(preds[0])+len(preds[1]) > 0 {
		same := len(preds[0]) == len(preds[1])
		for k := range preds[0] {
			if !preds[1][k] {
				same = false
			}
		}
		r.Check(same && len(preds[0]) >= 3, rule, "eval and list use the same always-allowed predicates", "-", fmt.Sprintf("%v", keys(preds[0])), fmt.Sprintf("eval guards with %v, list with %v", keys(preds[0]), keys(preds[1])))
	}
}

// paramOrigin: the index of the single parameter that obj (a local or a parameter) derives from through its definitions
// (-1: none or several).
func paramOrigin(fd *core.FuncDecl, obj types.Object, depth int) int {
	info := fd.Pkg.TypesInfo
	sig := fd.Obj.Type().(*types.Signature)
	for i := 0; i < sig.Params().Len(); i++ {
		if types.Object(sig.Params().At(i)) == obj {
			return i
		}
	}
	if depth > 3 {
		return -1
	}
	res := -2
	ast.Inspect(fd.Decl.Body, func(n ast.Node) bool {
		as, ok := n.(*ast.AssignStmt)
		if !ok {
			return true
		}
		for li, l := range as.Lhs {
			id, isId := l.(*ast.Ident)
			if !isId || info.ObjectOf(id) != obj {
				continue
			}
			var rhs ast.Expr
			if len(as.Rhs) == len(as.Lhs) {
				rhs = as.Rhs[li]
			} else if len(as.Rhs) == 1 {
				rhs = as.Rhs[0]
			}
			if rhs == nil {
				continue
			}
			ast.Inspect(rhs, func(m ast.Node) bool {
				mid, isM := m.(*ast.Ident)
				if !isM {
					return true
				}
				o := info.ObjectOf(mid)
				v, isV := o.(*types.Var)
				if !isV || v.IsField() || o == obj || v.Parent() == nil || v.Pkg() == nil || v.Parent() == v.Pkg().Scope() {
					return true
				}
				if sig.Recv() != nil && o == types.Object(sig.Recv()) {
					return true
				}
				k := paramOrigin(fd, o, depth+1)
				if k >= 0 {
					if res == -2 || res == k {
						res = k
					} else {
						res = -1
					}
				}
				return true
			})
		}
		return true
	})
	if res == -2 {
		return -1
	}
	return res
}

func roleWord(s string) string {
	l := strings.ToLower(s)
	switch {
	case strings.HasPrefix(l, "src"):
		return "src"
	case strings.HasPrefix(l, "dst"):
		return "dst"
	}
	return s
}

func keys(m map[string]bool) []string {
	var out []string
	for k := range m {
		out = append(out, k)
	}
	sortStrings(out)
	return out
}

func sortStrings(s []string) {
	for i := 1; i < len(s); i++ {
		for j := i; j > 0 && s[j] < s[j-1]; j-- {
			s[j], s[j-1] = s[j-1], s[j]
		}
	}
}

// NamespaceResolutionOnEval is C03-c: on the eval path a pod whose Namespace
// object is missing is resolved (as the bulk loader of list does), not refused.
func NamespaceResolutionOnEval(p *core.Program, r *core.Report, rule string) {
	entry := p.Func(core.PkgEval, "PolicyEngine", "CheckIfAllowed")
	fld := p.Field(core.PkgEval, "PolicyEngine", "namespacesMap")
	resolve := p.Func(core.PkgEval, "PolicyEngine", "resolveSingleMissingNamespace")
	if entry == nil || fld == nil || resolve == nil {
		r.Lost(rule, "CheckIfAllowed / PolicyEngine.namespacesMap / resolveSingleMissingNamespace")
		return
	}
	n := 0
	for fn := range p.Reachable(entry.Obj) {
		fd := p.ByObj[fn]
		if fd == nil || fd.Obj == resolve.Obj {
			continue
		}
		info := fd.Pkg.TypesInfo
		ast.Inspect(fd.Decl.Body, func(nd ast.Node) bool {
			ix, ok := nd.(*ast.IndexExpr)
			if !ok || core.FieldOf(info, ix.X) != fld {
				return true
			}
			// a read (not the store in insertNamespace)
			isStore := false
			ast.Inspect(fd.Decl.Body, func(m ast.Node) bool {
				if as, ok := m.(*ast.AssignStmt); ok {
					for _, l := range as.Lhs {
						if ast.Unparen(l) == ast.Expr(ix) {
							isStore = true
						}
					}
				}
				return true
			})
			if isStore {
				return true
			}
			n++
			// the enclosing statement node for dominance: find the innermost call/assign containing ix
			var target ast.Node
			ast.Inspect(fd.Decl.Body, func(m ast.Node) bool {
				// the innermost node at which the walker reports the path state
				switch s := m.(type) {
				case *ast.AssignStmt, *ast.ReturnStmt, *ast.CallExpr, *ast.DeclStmt, *ast.RangeStmt:
					if s.Pos() <= ix.Pos() && ix.End() <= s.End() {
						if rs, isRange := s.(*ast.RangeStmt); isRange && !(rs.X.Pos() <= ix.Pos() && ix.End() <= rs.X.End()) {
							return true // in the body, not the ranged expression
						}
						target = s
					}
				}
				return true
			})
			if target == nil {
				r.Add(rule, fd.Key()+": lookup of namespacesMap on the eval path", p.Pos(ix.Pos()), core.Undecided, "lookup is not inside an assignment, return, call or declaration")
				return true
			}
			dom, _, found := Dominated(fd, target, func(x ast.Node) bool {
				c, ok := x.(*ast.CallExpr)
				return ok && core.Callee(info, c) == resolve.Obj && len(c.Args) == 1 && core.ExprStr(c.Args[0]) == core.ExprStr(ix.Index)
			})
			r.Check(found && dom, rule, fd.Key()+": lookup of namespacesMap["+core.ExprStr(ix.Index)+"] on the eval path follows the resolution of a missing namespace", p.Pos(ix.Pos()),
				"dominated by resolveSingleMissingNamespace on the same key", "on the eval path the namespace of a pod is looked up without resolving a missing Namespace object first: list analyses such resources (resolveMissingNamespaces), eval would fail or see no namespace labels")
			return true
		})
	}
	r.Floor(rule, 1)
	_ = n
}
