package rules

import (
	"fmt"
	"go/ast"
	"go/types"
	"strings"

	"npverif/internal/core"
	"npverif/internal/facts"
)

// VerdictDependence is C03-b: in the eval-side port matchers a positive answer
// returned from inside the loop over a rule's ports depends on the protocol of
// the current port entry and (unless the entry has no port) on its port value;
// the list-side siblings build their sets from both.
func VerdictDependence(p *core.Program, r *core.Report, rule string) {
	targets := []*core.FuncDecl{p.Func(core.PkgK8s, "NetworkPolicy", "ruleConnsContain"), p.Func(core.PkgK8s, "", "anpPortContains")}
	names := []string{"(*NetworkPolicy).ruleConnsContain", "anpPortContains"}
	for i, fd := range targets {
		if fd == nil {
			r.Lost(rule, names[i])
			continue
		}
		info := fd.Pkg.TypesInfo
		sig := fd.Obj.Type().(*types.Signature)
		var protoParam, portParam *types.Var
		for j := 0; j < sig.Params().Len(); j++ {
			switch sig.Params().At(j).Name() {
			case "protocol":
				protoParam = sig.Params().At(j)
			case "port":
				portParam = sig.Params().At(j)
			}
		}
		// role-based fallback: the two string parameters, in order (protocol, port)
		if protoParam == nil || portParam == nil {
			var strs []*types.Var
			for j := 0; j < sig.Params().Len(); j++ {
				if b, ok := sig.Params().At(j).Type().Underlying().(*types.Basic); ok && b.Kind() == types.String {
					strs = append(strs, sig.Params().At(j))
				}
			}
			if len(strs) == 2 {
				protoParam, portParam = strs[0], strs[1]
			}
		}
		if protoParam == nil || portParam == nil {
			r.Add(rule, fd.Key()+": protocol and port parameters", p.Pos(fd.Decl.Pos()), core.Undecided, "could not identify the queried protocol and port parameters")
			continue
		}
		// variables derived from the port parameter (intPort := ParseInt(port, ...))
		derived := map[types.Object]bool{portParam: true}
		ast.Inspect(fd.Decl.Body, func(n ast.Node) bool {
			if as, ok := n.(*ast.AssignStmt); ok && len(as.Rhs) == 1 {
				uses := false
				ast.Inspect(as.Rhs[0], func(m ast.Node) bool {
					if id, ok := m.(*ast.Ident); ok && derived[info.ObjectOf(id)] {
						uses = true
					}
					return true
				})
				if uses {
					if id, ok := as.Lhs[0].(*ast.Ident); ok {
						derived[info.ObjectOf(id)] = true
					}
				}
			}
			return true
		})
		w := facts.NewWalker(info)
		n := 0
		w.OnStmt = func(s ast.Stmt, f facts.Formula) {
			ret, ok := s.(*ast.ReturnStmt)
			if !ok || len(ret.Results) == 0 || len(w.Loops) == 0 {
				return
			}
			if v, ok := core.ConstString(info, ret.Results[0]); !ok || v != "true" {
				return
			}
			n++
			// atoms known true at the return
			protoOK, portOK, portNil := false, false, false
			protoPath := w.PathOfVar(protoParam)
			for _, a := range facts.Atoms(f) {
				if !facts.Entails(f, facts.Atom(a)) {
					continue
				}
				if strings.Contains(a, protoPath) && (strings.Contains(a, ".Protocol") || strings.Contains(a, "Protocol")) {
					protoOK = true
				}
				for o := range derived {
					if v, ok := o.(*types.Var); ok && strings.Contains(a, w.PathOfVar(v)) {
						portOK = true
					}
				}
				if strings.HasPrefix(a, "nil:") && strings.HasSuffix(a, ".Port") {
					portNil = true
				}
			}
			c := fmt.Sprintf("%s: positive answer #%d inside the port loop depends on the entry's protocol and port", fd.Key(), n)
			switch {
			case !protoOK:
				r.Bad(rule, c, p.Pos(ret.Pos()), "true is returned for a port entry without comparing the entry's protocol with the queried protocol: eval allows e.g. UDP on a TCP-only rule, list does not (path condition: "+facts.StripVersions(facts.String(f))+")")
			case !portOK && !portNil:
				r.Bad(rule, c, p.Pos(ret.Pos()), "true is returned for a port entry that has a port without comparing it with the queried port (path condition: "+facts.StripVersions(facts.String(f))+")")
			default:
				r.OK(rule, c, p.Pos(ret.Pos()), "guarded by a comparison of the entry's protocol with the query"+map[bool]string{true: " (entry without port: all ports)", false: " and of its port range with the queried port"}[portNil && !portOK])
			}
		}
		w.WalkBody(fd.Decl.Body, nil)
		if n == 0 {
			r.Bad(rule, fd.Key()+": has a positive answer inside the port loop", p.Pos(fd.Decl.Pos()), "no `return true` inside the loop over the rule's ports was found")
		}
	}
	r.Floor(rule, 4)
}

// AlwaysAllowedParity is C03-d: list and eval apply the same always-allowed
// predicates (pod to itself, node IP) before any policy or cache is consulted.
func AlwaysAllowedParity(p *core.Program, r *core.Report, rule string) {
	sites := []*core.FuncDecl{p.Func(core.PkgEval, "PolicyEngine", "CheckIfAllowed"), p.Func(core.PkgEval, "PolicyEngine", "allAllowedConnectionsBetweenPeers")}
	var preds [2]map[string]bool
	for i, fd := range sites {
		if fd == nil {
			r.Lost(rule, []string{"CheckIfAllowed", "allAllowedConnectionsBetweenPeers"}[i])
			return
		}
		info := fd.Pkg.TypesInfo
		preds[i] = map[string]bool{}
		// the guard: an if whose condition is a disjunction of module predicate calls and whose body returns the top verdict
		var guard *ast.IfStmt
		ast.Inspect(fd.Decl.Body, func(n ast.Node) bool {
			ifs, ok := n.(*ast.IfStmt)
			if !ok || guard != nil {
				return true
			}
			hasSelf := false
			ast.Inspect(ifs.Cond, func(m ast.Node) bool {
				if c, ok := m.(*ast.CallExpr); ok {
					if fn := core.Callee(info, c); fn != nil && fn.Name() == "isPodToItself" {
						hasSelf = true
					}
				}
				return true
			})
			if hasSelf {
				guard = ifs
			}
			return true
		})
		if guard == nil {
			r.Bad(rule, fd.Key()+": a pod may always talk to itself", p.Pos(fd.Decl.Pos()), "the always-allowed guard (isPodToItself || isPeerNodeIP ...) is gone")
			continue
		}
		ast.Inspect(guard.Cond, func(m ast.Node) bool {
			if c, ok := m.(*ast.CallExpr); ok {
				if fn := core.Callee(info, c); fn != nil && p.IsModuleFunc(fn) {
					var args []string
					for _, a := range c.Args {
						// normalise the two argument spellings (srcPeer/srcK8sPeer) to positions
						args = append(args, roleWord(core.ExprStr(a)))
					}
					preds[i][fn.Name()+"("+strings.Join(args, ",")+")"] = true
				}
			}
			return true
		})
		// body returns the top element
		okTop := false
		ast.Inspect(guard.Body, func(m ast.Node) bool {
			if ret, ok := m.(*ast.ReturnStmt); ok && len(ret.Results) > 0 {
				if v, ok := core.ConstString(info, ret.Results[0]); ok && v == "true" {
					okTop = true
				}
				if c, ok := ast.Unparen(ret.Results[0]).(*ast.CallExpr); ok {
					if fn := core.Callee(info, c); fn != nil && fn.Name() == "MakeConnectionSet" && len(c.Args) == 1 {
						if v, ok := core.ConstString(info, c.Args[0]); ok && v == "true" {
							okTop = true
						}
					}
				}
			}
			return true
		})
		r.Check(okTop, rule, fd.Key()+": the always-allowed guard returns allow-all", p.Pos(guard.Pos()), "returns true / MakeConnectionSet(true)", "the always-allowed guard no longer returns the top verdict")
		// the guard dominates every policy/cache call
		bad := ""
		ast.Inspect(fd.Decl.Body, func(m ast.Node) bool {
			c, ok := m.(*ast.CallExpr)
			if !ok || c.Pos() < guard.End() {
				return true
			}
			return true
		})
		// calls evaluating policies or the cache must come after the guard (structurally: positioned after it at top level)
		for _, st := range fd.Decl.Body.List {
			if st.Pos() >= guard.Pos() {
				break
			}
			ast.Inspect(st, func(m ast.Node) bool {
				if c, ok := m.(*ast.CallExpr); ok {
					if fn := core.Callee(info, c); fn != nil {
						switch fn.Name() {
						case "hasConnectionResult", "allowedXgressConnection", "allAllowedXgressConnections":
							bad = fn.Name() + " at " + p.Pos(c.Pos())
						}
					}
				}
				return true
			})
		}
		r.Check(bad == "", rule, fd.Key()+": the always-allowed guard precedes cache and policy evaluation", p.Pos(guard.Pos()), "no cache lookup or policy evaluation before the guard", "cache or policies are consulted before the always-allowed guard: "+bad)
	}
	if preds[0] != nil && preds[1] != nil {
		same := len(preds[0]) == len(preds[1])
		for k := range preds[0] {
			if !preds[1][k] {
				same = false
			}
		}
		r.Check(same && len(preds[0]) >= 3, rule, "eval and list use the same always-allowed predicates", "-", fmt.Sprintf("%v", keys(preds[0])), fmt.Sprintf("eval guards with %v, list with %v", keys(preds[0]), keys(preds[1])))
	}
}

func roleWord(s string) string {
	l := strings.ToLower(s)
	switch {
	case strings.HasPrefix(l, "src"):
		return "src"
	case strings.HasPrefix(l, "dst"):
		return "dst"
	}
	return s
}

func keys(m map[string]bool) []string {
	var out []string
	for k := range m {
		out = append(out, k)
	}
	sortStrings(out)
	return out
}

func sortStrings(s []string) {
	for i := 1; i < len(s); i++ {
		for j := i; j > 0 && s[j] < s[j-1]; j-- {
			s[j], s[j-1] = s[j-1], s[j]
		}
	}
}

// NamespaceResolutionOnEval is C03-c: on the eval path a pod whose Namespace
// object is missing is resolved (as the bulk loader of list does), not refused.
func NamespaceResolutionOnEval(p *core.Program, r *core.Report, rule string) {
	entry := p.Func(core.PkgEval, "PolicyEngine", "CheckIfAllowed")
	fld := p.Field(core.PkgEval, "PolicyEngine", "namespacesMap")
	resolve := p.Func(core.PkgEval, "PolicyEngine", "resolveSingleMissingNamespace")
	if entry == nil || fld == nil || resolve == nil {
		r.Lost(rule, "CheckIfAllowed / PolicyEngine.namespacesMap / resolveSingleMissingNamespace")
		return
	}
	n := 0
	for fn := range p.Reachable(entry.Obj) {
		fd := p.ByObj[fn]
		if fd == nil || fd.Obj == resolve.Obj {
			continue
		}
		info := fd.Pkg.TypesInfo
		ast.Inspect(fd.Decl.Body, func(nd ast.Node) bool {
			ix, ok := nd.(*ast.IndexExpr)
			if !ok || core.FieldOf(info, ix.X) != fld {
				return true
			}
			// a read (not the store in insertNamespace)
			isStore := false
			ast.Inspect(fd.Decl.Body, func(m ast.Node) bool {
				if as, ok := m.(*ast.AssignStmt); ok {
					for _, l := range as.Lhs {
						if ast.Unparen(l) == ast.Expr(ix) {
							isStore = true
						}
					}
				}
				return true
			})
			if isStore {
				return true
			}
			n++
			// the enclosing statement node for dominance: find the innermost call/assign containing ix
			var target ast.Node
			ast.Inspect(fd.Decl.Body, func(m ast.Node) bool {
				switch s := m.(type) {
				case *ast.AssignStmt:
					if s.Pos() <= ix.Pos() && ix.End() <= s.End() {
						target = s
					}
				}
				return true
			})
			if target == nil {
				r.Add(rule, fd.Key()+": lookup of namespacesMap on the eval path", p.Pos(ix.Pos()), core.Undecided, "lookup is not inside an assignment")
				return true
			}
			dom, _, found := Dominated(fd, target, func(x ast.Node) bool {
				c, ok := x.(*ast.CallExpr)
				return ok && core.Callee(info, c) == resolve.Obj && len(c.Args) == 1 && core.ExprStr(c.Args[0]) == core.ExprStr(ix.Index)
			})
			r.Check(found && dom, rule, fd.Key()+": lookup of namespacesMap["+core.ExprStr(ix.Index)+"] on the eval path follows the resolution of a missing namespace", p.Pos(ix.Pos()),
				"dominated by resolveSingleMissingNamespace on the same key", "on the eval path the namespace of a pod is looked up without resolving a missing Namespace object first: list analyses such resources (resolveMissingNamespaces), eval would fail or see no namespace labels")
			return true
		})
	}
	r.Floor(rule, 1)
	_ = n
}
