package rules

import (
	"fmt"
	"go/ast"
	"go/constant"
	"go/token"
	"go/types"
	"sort"
	"strings"

	"npverif/internal/core"
	"npverif/internal/facts"
)

// Rules added after seeding round 5 (changes made two or more calls below the functions the properties name).

// portSetBinaryOps: the methods of PortSet that take another *PortSet.
func portSetBinaryOps(p *core.Program) []*core.FuncDecl {
	var out []*core.FuncDecl
	for _, fd := range p.FuncsIn(core.PkgCommon) {
		sig := fd.Obj.Type().(*types.Signature)
		if sig.Recv() == nil || !core.TypeIs(sig.Recv().Type(), core.PkgCommon, "PortSet") || sig.Params().Len() != 1 {
			continue
		}
		if !core.TypeIs(sig.Params().At(0).Type(), core.PkgCommon, "PortSet") {
			continue
		}
		out = append(out, fd)
	}
	return out
}

// PortSetMutatorsTotal is C11-j: a mutating binary operation of PortSet (no result: Union, Intersection, subtract) has no
// exit on which it has consulted fewer components of its operand than it consults on some other path. A fast path such as
// `if p.IsAll() { return }` in Union leaves the named ports of the operand out: the union is then no longer commutative
// ({1-65535} u {http} differs from {http} u {1-65535}), and every fold over an unordered collection of policies becomes
// order dependent.
func PortSetMutatorsTotal(p *core.Program, r *core.Report, rule string) {
	n := 0
	for _, fd := range portSetBinaryOps(p) {
		sig := fd.Obj.Type().(*types.Signature)
		if sig.Results().Len() != 0 {
			continue
		}
		info := fd.Pkg.TypesInfo
		other := sig.Params().At(0)
		comps := []string{"Ports", "NamedPorts", "ExcludedNamedPorts"}
		bit := func(name string) int {
			for i, c := range comps {
				if c == name {
					return 1 << uint(i)
				}
			}
			return 0
		}
		// component of the operand read by an expression (other.X anywhere inside)
		readsOf := func(n ast.Node) int {
			m := 0
			ast.Inspect(n, func(x ast.Node) bool {
				if se, ok := x.(*ast.SelectorExpr); ok {
					if id, isID := ast.Unparen(se.X).(*ast.Ident); isID && info.ObjectOf(id) == other {
						if f := core.FieldOf(info, se); f != nil {
							m |= bit(core.RefName(f))
						}
					}
				}
				return true
			})
			return m
		}
		w := facts.NewWalker(info)
		w.Transfer = func(st int, nd ast.Node, f facts.Formula) int {
			switch x := nd.(type) {
			case *ast.AssignStmt, *ast.CallExpr, *ast.RangeStmt, *ast.IncDecStmt:
				if rs, ok := x.(*ast.RangeStmt); ok {
					return st | readsOf(rs.X)
				}
				return st | readsOf(x)
			}
			return st
		}
		type exit struct {
			st  int
			pos token.Pos
			f   facts.Formula
		}
		var exits []exit
		w.OnExit = func(st int, ret *ast.ReturnStmt, f facts.Formula) {
			if w.FuncLitDepth > 0 || !facts.Satisfiable(f) {
				return
			}
			pos := fd.Decl.Body.Rbrace
			if ret != nil {
				pos = ret.Pos()
			}
			exits = append(exits, exit{st, pos, f})
		}
		w.WalkBody(fd.Decl.Body, nil)
		all := 0
		for _, e := range exits {
			all |= e.st
		}
		n++
		bad := ""
		for _, e := range exits {
			if e.st != all && bad == "" {
				var missing []string
				for i, c := range comps {
					if all&(1<<uint(i)) != 0 && e.st&(1<<uint(i)) == 0 {
						missing = append(missing, c)
					}
				}
				bad = fmt.Sprintf("the exit at %s is reached without consulting %s of the operand (path: %s)", p.Pos(e.pos), strings.Join(missing, ", "), facts.StripVersions(facts.String(e.f)))
			}
		}
		r.Check(bad == "" && len(exits) > 0, rule, fd.Key()+": every exit has consulted the same components of the operand", p.Pos(fd.Decl.Pos()), "",
			bad+": a shortcut in a set operation that skips a component makes the operation depend on the order of its operands (and on the history of the receiver)")
	}
	r.RuleCounts[rule] = n
	r.Floor(rule, 2)
}

// PortSetPredicateVocabulary is C11-k: the comparing operations of PortSet (a bool result: ContainedIn, Equal) decide about
// the numbered ports through the interval library's own set comparisons (IsSubset, Equal, IsEmpty) only. A measure of the
// representation (NumIntervals, Min, Max, ...) used as a shortcut is not a set comparison: {80,443} has more ranges than
// {1-1000} and is contained in it. ConnectionSet.Subtract deletes an entry exactly when ContainedIn holds, so a false
// negative leaves an empty port set in the protocol map (C05, C11-h).
func PortSetPredicateVocabulary(p *core.Program, r *core.Report, rule string) {
	allowed := map[string]bool{"IsSubset": true, "Equal": true, "IsEmpty": true, "ContainedIn": true}
	n := 0
	for _, fd := range portSetBinaryOps(p) {
		sig := fd.Obj.Type().(*types.Signature)
		if sig.Results().Len() != 1 {
			continue
		}
		if b, ok := sig.Results().At(0).Type().Underlying().(*types.Basic); !ok || b.Kind() != types.Bool {
			continue
		}
		info := fd.Pkg.TypesInfo
		n++
		bad := ""
		ast.Inspect(fd.Decl.Body, func(nd ast.Node) bool {
			c, ok := nd.(*ast.CallExpr)
			if !ok {
				return true
			}
			se, ok := ast.Unparen(c.Fun).(*ast.SelectorExpr)
			if !ok {
				return true
			}
			t := info.TypeOf(se.X)
			if t == nil || !strings.Contains(t.String(), "models/pkg/interval.CanonicalSet") {
				return true
			}
			if fn := core.Callee(info, c); fn != nil && !allowed[fn.Name()] && bad == "" {
				bad = fmt.Sprintf("%s at %s", core.ExprStr(c), p.Pos(c.Pos()))
			}
			return true
		})
		r.Check(bad == "", rule, fd.Key()+": the numbered ports are compared by the interval library's set comparisons only", p.Pos(fd.Decl.Pos()), "IsSubset / Equal / IsEmpty",
			"the comparison consults "+bad+", which is a measure of the representation, not a set comparison: the answer can be wrong for sets made of several ranges")
	}
	r.RuleCounts[rule] = n
	r.Floor(rule, 2)
}

// RenderersRangeOverOwnMap is C09-str: the functions that turn a ConnectionSet into text or into the protocol->ranges map
// (String, ProtocolsAndPortsMap) build their result in loops over the receiver's own protocol map. A loop over a fixed
// list of protocols with lookups drops every key that is not in the list - the keys are the protocol texts of the policy
// rules as written.
func RenderersRangeOverOwnMap(p *core.Program, r *core.Report, rule string) {
	fld := p.Field(core.PkgCommon, "ConnectionSet", "AllowedProtocols")
	if fld == nil {
		r.Lost(rule, "common.ConnectionSet.AllowedProtocols")
		return
	}
	n := 0
	for _, name := range []string{"String", "ProtocolsAndPortsMap"} {
		fd := p.Func(core.PkgCommon, "ConnectionSet", name)
		if fd == nil {
			r.Lost(rule, "(*ConnectionSet)."+name)
			continue
		}
		info := fd.Pkg.TypesInfo
		own, bad := 0, ""
		var visit func(nd ast.Node, depth int)
		visit = func(nd ast.Node, depth int) {
			ast.Inspect(nd, func(x ast.Node) bool {
				if x == nd {
					return true
				}
				switch l := x.(type) {
				case *ast.FuncLit:
					return false
				case *ast.RangeStmt:
					if depth == 0 {
						if FieldBehind(fd, l.X) == fld {
							own++
						} else if t := info.TypeOf(l.X); t != nil {
							if _, isMapOrSlice := t.Underlying().(*types.Map); isMapOrSlice || isProtocolList(t) {
								if bad == "" {
									bad = fmt.Sprintf("the loop at %s ranges over %s", p.Pos(l.Pos()), core.Stable(info, l.X))
								}
							}
						}
					}
					visit(l.Body, depth+1)
					return false
				case *ast.ForStmt:
					visit(l.Body, depth+1)
					return false
				}
				return true
			})
		}
		visit(fd.Decl.Body, 0)
		n++
		r.Check(own >= 1 && bad == "", rule, fd.Key()+": the rendering is built in a loop over the set's own protocol map", p.Pos(fd.Decl.Pos()), "",
			"the protocols that are rendered are not the keys of the set's own map ("+bad+"): a protocol stored under any other key is computed, and reported by the API, but missing from the text")
	}
	r.RuleCounts[rule] = n
	r.Floor(rule, 2)
}

func isProtocolList(t types.Type) bool {
	sl, ok := t.Underlying().(*types.Slice)
	if !ok {
		return false
	}
	return strings.HasSuffix(sl.Elem().String(), "k8s.io/api/core/v1.Protocol")
}

// PodSpecReadAlike is C17-spec: the two constructors of pods - from a Pod resource and from the pod template of a workload
// resource - read the same fields of the pod spec and of its containers (transitively, through helpers of the package).
// A field consulted for bare pods only (say the ports of sidecar init containers) makes the connectivity of a workload
// depend on how it was expressed.
func PodSpecReadAlike(p *core.Program, r *core.Report, rule string) {
	a := p.Func(core.PkgK8s, "", "PodFromCoreObject")
	b := p.Func(core.PkgK8s, "", "PodsFromWorkloadObject")
	if a == nil || b == nil {
		r.Lost(rule, "k8s.PodFromCoreObject / k8s.PodsFromWorkloadObject")
		return
	}
	reads := func(root *core.FuncDecl) map[string]bool {
		out := map[string]bool{}
		for fn := range p.Reachable(root.Obj) {
			fd := p.ByObj[fn]
			if fd == nil || fd.Pkg.PkgPath != core.PkgK8s {
				continue
			}
			info := fd.Pkg.TypesInfo
			ast.Inspect(fd.Decl.Body, func(nd ast.Node) bool {
				se, ok := nd.(*ast.SelectorExpr)
				if !ok {
					return true
				}
				f := core.FieldOf(info, se)
				if f == nil {
					return true
				}
				t := info.TypeOf(se.X)
				if t == nil {
					return true
				}
				if pt, isPtr := t.Underlying().(*types.Pointer); isPtr {
					t = pt.Elem()
				}
				nt := core.NamedOf(t)
				if nt == nil || nt.Obj().Pkg() == nil || nt.Obj().Pkg().Path() != "k8s.io/api/core/v1" {
					return true
				}
				switch nt.Obj().Name() {
				case "PodSpec", "Container", "ContainerPort":
					out[nt.Obj().Name()+"."+f.Name()] = true
				}
				return true
			})
		}
		return out
	}
	ra, rb := reads(a), reads(b)
	var onlyA, onlyB []string
	for k := range ra {
		if !rb[k] {
			onlyA = append(onlyA, k)
		}
	}
	for k := range rb {
		if !ra[k] {
			onlyB = append(onlyB, k)
		}
	}
	sort.Strings(onlyA)
	sort.Strings(onlyB)
	r.RuleCounts[rule+"-fields"] = len(ra)
	r.Floor(rule+"-fields", 2)
	r.Check(len(onlyA) == 0 && len(onlyB) == 0, rule, "k8s.PodFromCoreObject and k8s.PodsFromWorkloadObject read the same fields of the pod spec and its containers", p.Pos(a.Decl.Pos()), fmt.Sprintf("%d fields", len(ra)),
		fmt.Sprintf("the constructor for Pod resources alone reads %v, the constructor for workload resources alone reads %v: the same pod template gives different pods depending on the kind of resource that carries it", onlyA, onlyB))
}

// BulkLoaderInsertsEveryObject is C19-all: in the bulk loader (addObjectsByKind) every clause of the kind switch hands its
// object to the engine on every path through the clause: nothing is skipped before the insertion. The checks that reject
// a conflicting input (duplicate names, priorities, inconsistent labels of the pods of one owner) run during or after
// insertion and see only what was inserted.
func BulkLoaderInsertsEveryObject(p *core.Program, r *core.Report, rule string) {
	fd := p.Func(core.PkgEval, "PolicyEngine", "addObjectsByKind")
	if fd == nil {
		r.Lost(rule, "(*PolicyEngine).addObjectsByKind")
		return
	}
	info := fd.Pkg.TypesInfo
	n := 0
	ast.Inspect(fd.Decl.Body, func(nd ast.Node) bool {
		sw, ok := nd.(*ast.SwitchStmt)
		if !ok || sw.Tag == nil {
			return true
		}
		if f := core.FieldOf(info, sw.Tag); f == nil || core.RefName(f) != "Kind" {
			return true
		}
		for _, cc := range sw.Body.List {
			cl := cc.(*ast.CaseClause)
			if cl.List == nil {
				continue
			}
			w := facts.NewWalker(info)
			bad := ""
			w.Transfer = func(st int, x ast.Node, f facts.Formula) int {
				if c, ok := x.(*ast.CallExpr); ok {
					if fn := core.Callee(info, c); fn != nil && p.IsModuleFunc(fn) && len(c.Args) >= 1 && isEngineMethod(fn) {
						// a method of the engine that receives a field of the parsed object
						for _, a := range c.Args {
							if se, ok := ast.Unparen(a).(*ast.SelectorExpr); ok {
								if t := info.TypeOf(se.X); t != nil && core.TypeIs(t, core.PkgParser, "K8sObject") {
									return 1
								}
							}
						}
					}
				}
				return st
			}
			w.OnBranch = func(b *ast.BranchStmt, states uint64, f facts.Formula) {
				if states&1 != 0 && bad == "" && b.Tok != token.FALLTHROUGH {
					bad = fmt.Sprintf("%s at %s leaves the clause before the object is inserted", b.Tok, p.Pos(b.Pos()))
				}
			}
			w.OnExit = func(st int, ret *ast.ReturnStmt, f facts.Formula) {
				if st == 0 && bad == "" && facts.Satisfiable(f) {
					at := cl.End()
					if ret != nil {
						at = ret.Pos()
					}
					bad = fmt.Sprintf("the clause can end at %s without having inserted the object (path: %s)", p.Pos(at), facts.StripVersions(facts.String(f)))
				}
			}
			inserts := false
			ast.Inspect(&ast.BlockStmt{List: cl.Body}, func(x ast.Node) bool {
				if w.Transfer(0, x, facts.True{}) == 1 {
					inserts = true
				}
				return !inserts
			})
			if !inserts {
				continue // a kind the engine does not hold (Service, Route, Ingress: read by the ingress analyzer)
			}
			w.WalkBody(&ast.BlockStmt{List: cl.Body}, nil)
			n++
			var kinds []string
			for _, e := range cl.List {
				kinds = append(kinds, core.ExprStr(e))
			}
			r.Check(bad == "", rule, fd.Key()+": every "+strings.Join(kinds, "/")+" object of the input is handed to the engine", p.Pos(cl.Pos()), "",
				bad+": an input object that is skipped is not seen by the checks that reject conflicting inputs, so whether a conflict is reported depends on which objects were skipped (e.g. on their order)")
		}
		return false
	})
	r.RuleCounts[rule] = n
	r.Floor(rule, 8)
}

// PeersListOrder is C06-order: GetPeersList hands out the IP-block peers before the workload peers and does not re-order
// the list. The exposure bookkeeping of connlist records a workload's cluster-wide exposure at the first pair that has it
// as destination and relies on the policies of that destination having been evaluated for that pair - which holds when
// the first sources are IP peers (no egress policy can restrict them), and fails when a workload whose egress is
// restricted sorts first.
func PeersListOrder(p *core.Program, r *core.Report, rule string) {
	fd := p.Func(core.PkgEval, "PolicyEngine", "GetPeersList")
	if fd == nil {
		r.Lost(rule, "(*PolicyEngine).GetPeersList")
		return
	}
	info := fd.Pkg.TypesInfo
	sorted := ""
	ast.Inspect(fd.Decl.Body, func(nd ast.Node) bool {
		if c, ok := nd.(*ast.CallExpr); ok {
			if fn := core.Callee(info, c); fn != nil && fn.Pkg() != nil && (fn.Pkg().Path() == "sort" || fn.Pkg().Path() == "slices") && len(c.Args) > 0 {
				if t := info.TypeOf(c.Args[0]); t != nil {
					if sl, ok := t.Underlying().(*types.Slice); ok && strings.HasSuffix(sl.Elem().String(), "eval.Peer") {
						sorted = core.ExprStr(c.Fun) + " at " + p.Pos(c.Pos())
					}
				}
			}
		}
		return true
	})
	// order of the stores: typestate 0 -> 1 at the first store of an IP peer, a workload-peer store in state 0 is early
	isIPPeerExpr := func(e ast.Expr) bool {
		e = ResolveLocal(info, fd.Decl.Body, e)
		found := false
		ast.Inspect(e, func(x ast.Node) bool {
			if cl, ok := x.(*ast.CompositeLit); ok && core.TypeIs(info.TypeOf(cl), core.PkgK8s, "IPBlockPeer") {
				found = true
			}
			return true
		})
		return found
	}
	isWorkloadPeerExpr := func(e ast.Expr) bool {
		t := info.TypeOf(e)
		return t != nil && (core.TypeIs(t, core.PkgK8s, "WorkloadPeer") || strings.HasSuffix(t.String(), "eval.Peer")) && !isIPPeerExpr(e)
	}
	early, nIP, nW := "", 0, 0
	w := facts.NewWalker(info)
	peerStored := func(as *ast.AssignStmt) ast.Expr {
		if len(as.Lhs) != 1 || len(as.Rhs) != 1 {
			return nil
		}
		if ix, isIx := ast.Unparen(as.Lhs[0]).(*ast.IndexExpr); isIx {
			if sl, isSl := info.TypeOf(ix.X).Underlying().(*types.Slice); isSl && strings.HasSuffix(sl.Elem().String(), "eval.Peer") {
				return as.Rhs[0]
			}
		}
		if c, isCall := ast.Unparen(as.Rhs[0]).(*ast.CallExpr); isCall && core.IsBuiltinCall(info, c, "append") && len(c.Args) == 2 {
			if sl, isSl := info.TypeOf(c.Args[0]).Underlying().(*types.Slice); isSl && strings.HasSuffix(sl.Elem().String(), "eval.Peer") {
				return c.Args[1]
			}
		}
		return nil
	}
	w.Transfer = func(st int, nd ast.Node, f facts.Formula) int {
		if rs, isRange := nd.(*ast.RangeStmt); isRange {
			// passing the loop that stores the IP peers (the partition always has at least 0.0.0.0/0, so it is not empty)
			ipLoop := false
			ast.Inspect(rs.Body, func(x ast.Node) bool {
				if as, ok := x.(*ast.AssignStmt); ok {
					if v := peerStored(as); v != nil && isIPPeerExpr(v) {
						ipLoop = true
					}
				}
				return true
			})
			if ipLoop {
				return 1
			}
			return st
		}
		// a helper of the module that is handed the list and the map of the workload peers adds them
		if c, isCall := nd.(*ast.CallExpr); isCall && p.ByObj[core.Callee(info, c)] != nil {
			hasList, hasMap := false, false
			for _, a := range c.Args {
				t := info.TypeOf(a)
				if t == nil {
					continue
				}
				if sl, isSl := t.Underlying().(*types.Slice); isSl && strings.HasSuffix(sl.Elem().String(), "eval.Peer") {
					hasList = true
				}
				if mp, isMap := t.Underlying().(*types.Map); isMap && (core.TypeIs(mp.Elem(), core.PkgK8s, "WorkloadPeer") || strings.HasSuffix(mp.Elem().String(), "eval.Peer")) {
					hasMap = true
				}
			}
			if hasList && hasMap {
				nW++
				if st == 0 && early == "" {
					early = p.Pos(c.Pos())
				}
			}
			return st
		}
		as, ok := nd.(*ast.AssignStmt)
		if !ok || len(as.Lhs) != 1 || len(as.Rhs) != 1 {
			return st
		}
		var val ast.Expr
		if ix, isIx := ast.Unparen(as.Lhs[0]).(*ast.IndexExpr); isIx {
			if sl, isSl := info.TypeOf(ix.X).Underlying().(*types.Slice); isSl && strings.HasSuffix(sl.Elem().String(), "eval.Peer") {
				val = as.Rhs[0]
			}
		}
		if c, isCall := ast.Unparen(as.Rhs[0]).(*ast.CallExpr); isCall && core.IsBuiltinCall(info, c, "append") && len(c.Args) == 2 {
			if sl, isSl := info.TypeOf(c.Args[0]).Underlying().(*types.Slice); isSl && strings.HasSuffix(sl.Elem().String(), "eval.Peer") {
				val = c.Args[1]
			}
		}
		if val == nil {
			return st
		}
		switch {
		case isIPPeerExpr(val):
			nIP++
			return 1
		case isWorkloadPeerExpr(val):
			nW++
			if st == 0 && early == "" {
				early = p.Pos(as.Pos())
			}
		}
		return st
	}
	w.WalkBody(fd.Decl.Body, nil)
	bad := ""
	switch {
	case sorted != "":
		bad = "the list is re-ordered by " + sorted
	case nIP == 0 || nW == 0:
		bad = "the stores of the IP peers and of the workload peers into the list were not found"
	case early != "":
		bad = "a workload peer is stored (at " + early + ") on a path on which no IP peer has been stored yet"
	}
	r.Check(bad == "", rule, fd.Key()+": IP peers come first in the peers list, which is not re-ordered", p.Pos(fd.Decl.Pos()), "",
		bad+": the first source a workload meets as a destination may then be a workload with restricted egress, the destination's ingress policies are not evaluated for that pair, and its exposure is recorded as `not protected / all connections`")
}

// MapFieldsAllocated is E2-N12-map: a map-typed field of a struct of package common that some method of the struct writes
// through (`x.F[k] = v`) without testing it for nil first must be set to a non-nil map by every composite literal of the
// struct and by every assignment of a whole struct value (`*x = T{...}`): a write into a nil map panics. The same maps
// compared with reflect.DeepEqual must be allocated for another reason: DeepEqual tells a nil map from an empty one.
func MapFieldsAllocated(p *core.Program, r *core.Report, rule string) {
	type key struct {
		owner *types.Named
		fld   *types.Var
	}
	written := map[key]string{}
	for _, fd := range p.FuncsIn(core.PkgCommon) {
		info := fd.Pkg.TypesInfo
		note := func(e ast.Expr, why string, pos token.Pos) {
			se, ok := ast.Unparen(e).(*ast.SelectorExpr)
			if !ok {
				return
			}
			f := core.FieldOf(info, se)
			if f == nil {
				return
			}
			if _, isMap := f.Type().Underlying().(*types.Map); !isMap {
				return
			}
			t := info.TypeOf(se.X)
			if pt, isPtr := t.Underlying().(*types.Pointer); isPtr {
				t = pt.Elem()
			}
			nt := core.NamedOf(t)
			if nt == nil || nt.Obj().Pkg() == nil || nt.Obj().Pkg().Path() != core.PkgCommon {
				return
			}
			if _, seen := written[key{nt, f}]; !seen {
				written[key{nt, f}] = why + " at " + p.Pos(pos)
			}
		}
		ast.Inspect(fd.Decl.Body, func(nd ast.Node) bool {
			switch x := nd.(type) {
			case *ast.AssignStmt:
				for _, l := range x.Lhs {
					if ix, ok := ast.Unparen(l).(*ast.IndexExpr); ok {
						note(ix.X, "written through", x.Pos())
					}
				}
			case *ast.CallExpr:
				if fn := core.Callee(info, x); fn != nil && fn.Pkg() != nil && fn.Pkg().Path() == "reflect" && fn.Name() == "DeepEqual" {
					for _, a := range x.Args {
						note(a, "compared with reflect.DeepEqual (nil and empty differ)", x.Pos())
					}
				}
			}
			return true
		})
	}
	n := 0
	for _, fd := range p.Funcs {
		info := fd.Pkg.TypesInfo
		ast.Inspect(fd.Decl.Body, func(nd ast.Node) bool {
			cl, ok := nd.(*ast.CompositeLit)
			if !ok {
				return true
			}
			nt := core.NamedOf(info.TypeOf(cl))
			if nt == nil {
				return true
			}
			set := map[string]bool{}
			for _, el := range cl.Elts {
				if kv, isKV := el.(*ast.KeyValueExpr); isKV && !core.IsNil(info, kv.Value) {
					if id, isID := kv.Key.(*ast.Ident); isID {
						set[id.Name] = true
					}
				}
			}
			// later assignments v.F = ... to the variable the literal is bound to, in the same function
			var bound types.Object
			ast.Inspect(fd.Decl.Body, func(m ast.Node) bool {
				if as, isAs := m.(*ast.AssignStmt); isAs && len(as.Lhs) == 1 && len(as.Rhs) == 1 {
					rhs := ast.Unparen(as.Rhs[0])
					if ue, isU := rhs.(*ast.UnaryExpr); isU && ue.Op == token.AND {
						rhs = ast.Unparen(ue.X)
					}
					if rhs == ast.Expr(cl) {
						if id, isID := as.Lhs[0].(*ast.Ident); isID {
							bound = info.ObjectOf(id)
						}
					}
				}
				return true
			})
			if bound != nil {
				ast.Inspect(fd.Decl.Body, func(m ast.Node) bool {
					if as, isAs := m.(*ast.AssignStmt); isAs {
						for i, l := range as.Lhs {
							if se, isSe := ast.Unparen(l).(*ast.SelectorExpr); isSe {
								if id, isID := ast.Unparen(se.X).(*ast.Ident); isID && info.ObjectOf(id) == bound && i < len(as.Rhs) && !core.IsNil(info, as.Rhs[i]) {
									set[se.Sel.Name] = true
								}
							}
						}
					}
					return true
				})
			}
			var keys []key
			for k := range written {
				if k.owner == nt {
					keys = append(keys, k)
				}
			}
			sort.Slice(keys, func(i, j int) bool { return keys[i].fld.Name() < keys[j].fld.Name() })
			for _, k := range keys {
				n++
				r.Check(set[k.fld.Name()], rule, fmt.Sprintf("%s: literal of %s allocates the map %s", fd.Key(), nt.Obj().Name(), core.RefName(k.fld)), p.Pos(cl.Pos()), "",
					fmt.Sprintf("%s.%s is %s, but this construction leaves it nil: a later write panics (assignment to entry in nil map), and an equality test tells this object from an equal one built elsewhere", nt.Obj().Name(), core.RefName(k.fld), written[k]))
			}
			return true
		})
	}
	r.RuleCounts[rule] = n
	r.Floor(rule, 4)
}

func isEngineMethod(fn *types.Func) bool {
	recv := fn.Type().(*types.Signature).Recv()
	return recv != nil && core.TypeIs(recv.Type(), core.PkgEval, "PolicyEngine")
}

// PortSetTextLossless is C04-key-lossless: the text of a port set - which, through ConnectionSet.String, is part of the
// grouping key of diff's IP re-merge (`(peer);(conn1);(conn2)`, rule C04-d) and of every report line - renders the numbered
// ports through the interval library's String() of the whole set. A rendering assembled from Intervals() / NumIntervals()
// (an abbreviation, a cap on the number of ranges) is not injective: two different sets get the same key, are merged, and
// all merged addresses get the connections of the group's first member.
func PortSetTextLossless(p *core.Program, r *core.Report, rule string) {
	root := p.Func(core.PkgCommon, "PortSet", "String")
	if root == nil {
		r.Lost(rule, "(*PortSet).String")
		return
	}
	n, whole := 0, 0
	bad := ""
	seen := map[*types.Func]bool{}
	var visit func(fd *core.FuncDecl, depth int)
	visit = func(fd *core.FuncDecl, depth int) {
		if fd == nil || seen[fd.Obj] || depth > 2 || fd.Pkg.PkgPath != core.PkgCommon {
			return
		}
		seen[fd.Obj] = true
		info := fd.Pkg.TypesInfo
		ast.Inspect(fd.Decl.Body, func(nd ast.Node) bool {
			c, ok := nd.(*ast.CallExpr)
			if !ok {
				return true
			}
			fn := core.Callee(info, c)
			if fn == nil {
				return true
			}
			if g := p.ByObj[fn]; g != nil {
				visit(g, depth+1)
				return true
			}
			se, ok := ast.Unparen(c.Fun).(*ast.SelectorExpr)
			if !ok {
				return true
			}
			if t := info.TypeOf(se.X); t != nil && strings.Contains(t.String(), "models/pkg/interval.CanonicalSet") {
				n++
				if fn.Name() == "String" {
					whole++
				} else if bad == "" {
					bad = fmt.Sprintf("%s in %s (%s)", core.ExprStr(c), fd.Key(), p.Pos(c.Pos()))
				}
			}
			return true
		})
	}
	visit(root, 0)
	r.Check(bad == "" && whole >= 1, rule, root.Key()+": the numbered ports are rendered by the interval library's String() of the whole set", p.Pos(root.Decl.Pos()), "",
		"the text of a port set is assembled from "+bad+": an abbreviated or capped rendering is not injective, and the text is a grouping key of the diff (two different connection sets merge) and the content of every report line")
	r.RuleCounts[rule] = n
	r.Floor(rule, 1)
}

// PeersListHandedOut is C04-peers: diff decides which workloads are new or lost from the peers list that the connectivity
// analysis returns beside the connections. Whenever the engine has pods and no focus workload is in play (diff never sets
// one), every successful return of getConnectionsList hands out the list computed from PolicyEngine.GetPeersList - also
// when there are no connections to report. An "empty result" shortcut that returns an empty peers list makes every
// workload of that side look removed (or added).
func PeersListHandedOut(p *core.Program, r *core.Report, rule string) {
	fd := p.Func(core.PkgConnlist, "ConnlistAnalyzer", "getConnectionsList")
	get := p.Func(core.PkgEval, "PolicyEngine", "GetPeersList")
	if fd == nil || get == nil {
		r.Lost(rule, "(*ConnlistAnalyzer).getConnectionsList / (*PolicyEngine).GetPeersList")
		return
	}
	info := fd.Pkg.TypesInfo
	// the locals that hold the peers: the first result of GetPeersList and what is computed from it by one call
	holds := map[types.Object]bool{}
	for changed := true; changed; {
		changed = false
		ast.Inspect(fd.Decl.Body, func(nd ast.Node) bool {
			as, ok := nd.(*ast.AssignStmt)
			if !ok || len(as.Rhs) != 1 {
				return true
			}
			c, isCall := ast.Unparen(as.Rhs[0]).(*ast.CallExpr)
			if !isCall {
				return true
			}
			from := core.Callee(info, c) == get.Obj
			for _, a := range c.Args {
				if id, isID := ast.Unparen(a).(*ast.Ident); isID && holds[info.ObjectOf(id)] {
					from = true
				}
			}
			if id, isID := as.Lhs[0].(*ast.Ident); isID && from && !holds[info.ObjectOf(id)] && info.ObjectOf(id) != nil {
				if _, isSlice := info.ObjectOf(id).Type().Underlying().(*types.Slice); isSlice {
					holds[info.ObjectOf(id)] = true
					changed = true
				}
			}
			return true
		})
	}
	n := 0
	bad := ""
	w := facts.NewWalker(info)
	w.OnStmt = func(s ast.Stmt, f facts.Formula) {
		ret, ok := s.(*ast.ReturnStmt)
		if !ok || w.FuncLitDepth > 0 || !facts.Satisfiable(f) || IsErrorReturn(p, w, fd.Obj, ret, f) {
			return
		}
		n++
		if len(ret.Results) == 3 {
			e := ast.Unparen(ret.Results[1])
			for step := 0; step < 3; step++ {
				if id, isID := e.(*ast.Ident); isID && holds[info.ObjectOf(id)] {
					return
				}
				next := ast.Unparen(ResolveLocal(info, fd.Decl.Body, e))
				if next == e {
					break
				}
				e = next
			}
		}
		// excused: no pods at all, or a focus workload is set
		for _, a := range facts.Atoms(f) {
			sa := facts.StripVersions(a)
			if strings.HasPrefix(sa, "b:") && strings.HasSuffix(sa, ".HasPodPeers()") && facts.Entails(f, facts.MkNot(facts.Atom(a))) {
				return
			}
			if strings.HasPrefix(sa, "eq:") && strings.Contains(sa, ".focusWorkload==\"\"") && facts.Entails(f, facts.MkNot(facts.Atom(a))) {
				return
			}
		}
		// ... or a boolean helper answered in a way it only answers when a focus workload is set
		for call, atom := range w.CallAtoms {
			g := p.ByObj[core.Callee(info, call)]
			if g == nil {
				continue
			}
			for _, want := range []bool{true, false} {
				fa := facts.Formula(facts.Atom(atom))
				if !want {
					fa = facts.MkNot(fa)
				}
				if facts.Entails(f, fa) && answersOnlyWithFocus(p, g, want) {
					return
				}
			}
		}
		if bad == "" {
			bad = fmt.Sprintf("the return at %s (path: %s) does not hand out the list computed from GetPeersList", p.Pos(ret.Pos()), facts.StripVersions(facts.String(f)))
		}
	}
	w.WalkBody(fd.Decl.Body, nil)
	r.Check(bad == "" && len(holds) > 0 && n >= 2, rule, fd.Key()+": every successful return hands out the peers list (unless there are no pods, or a focus workload is set)", p.Pos(fd.Decl.Pos()), "",
		bad+": diff takes the workloads of each side from this list, so every workload of a side with nothing to report is classified as lost or new")
}

// NilNamespaceSelectorMatchesByKey is C07-b-nil (found as defect F21). addRepresentativePod gives a rule with a nil
// namespaceSelector in a policy of namespace N the same key - hence the same, de-duplicated representative peer - as a rule
// whose namespaceSelector is exactly {kubernetes.io/metadata.name: N}. Whichever rule is seen first creates the peer: from
// the nil-selector rule it lives in namespace N, from the explicit rule it lives in no namespace and only carries the
// selector. The matcher must therefore decide the nil-selector case by what the key is made of: where ruleSelectsPeer
// handles `NamespaceSelector == nil`, the verdict has to consult the representative peer's namespace SELECTOR (directly or
// in a helper), not the pod's Namespace field alone - otherwise the exposure of the nil-selector rule is unreported
// whenever the explicit rule came first.
func NilNamespaceSelectorMatchesByKey(p *core.Program, r *core.Report, rule string) {
	fd := p.Func(core.PkgK8s, "NetworkPolicy", "ruleSelectsPeer")
	if fd == nil {
		r.Lost(rule, "(*NetworkPolicy).ruleSelectsPeer")
		return
	}
	info := fd.Pkg.TypesInfo
	readsSelector := func(e ast.Node) bool {
		found := false
		var visit func(n ast.Node, depth int)
		visit = func(n ast.Node, depth int) {
			ast.Inspect(n, func(x ast.Node) bool {
				switch y := x.(type) {
				case *ast.SelectorExpr:
					if f := core.FieldOf(info, y); f != nil && core.RefName(f) == "RepresentativeNsLabelSelector" {
						found = true
					}
				case *ast.CallExpr:
					if g := p.ByObj[core.Callee(info, y)]; g != nil && depth < 2 && g.Pkg.PkgPath == core.PkgK8s {
						visit(g.Decl.Body, depth+1)
					}
				}
				return !found
			})
		}
		visit(e, 0)
		return found
	}
	n := 0
	bad := ""
	isBool := func(t types.Type) bool {
		b, ok := t.Underlying().(*types.Basic)
		return ok && b.Kind() == types.Bool
	}
	// analyse: in g, every non-constant boolean that is assigned or returned where the rule peer's namespace selector is
	// known to be nil (the selector being `<x>.NamespaceSelector`, or the parameter sel of a helper that was handed one)
	var analyse func(g *core.FuncDecl, sel *types.Var, depth int)
	analyse = func(g *core.FuncDecl, sel *types.Var, depth int) {
		ginfo := g.Pkg.TypesInfo
		w := facts.NewWalker(ginfo)
		under := func(f facts.Formula) bool {
			nsNil := false
			for _, a := range facts.Atoms(f) {
				sa := facts.StripVersions(a)
				if !strings.HasPrefix(sa, "nil:") || !facts.Entails(f, facts.Atom(a)) {
					continue
				}
				if sel != nil && a == "nil:"+w.PathOfVar(sel) {
					return true
				}
				if strings.HasSuffix(sa, ".NamespaceSelector") {
					nsNil = true
				}
			}
			if !nsNil {
				return false
			}
			// ... of a selector peer (the podSelector is set), not in the ipBlock branch where both selectors are nil
			for _, a := range facts.Atoms(f) {
				if sa := facts.StripVersions(a); strings.HasPrefix(sa, "nil:") && strings.HasSuffix(sa, ".PodSelector") && facts.Entails(f, facts.MkNot(facts.Atom(a))) {
					return true
				}
			}
			return false
		}
		judge := func(e ast.Expr, pos token.Pos) {
			if _, isConst := core.ConstString(ginfo, e); isConst {
				return
			}
			n++
			found := false
			var visit func(x ast.Node, d int)
			visit = func(x ast.Node, d int) {
				ast.Inspect(x, func(y ast.Node) bool {
					switch z := y.(type) {
					case *ast.SelectorExpr:
						if f := core.FieldOf(ginfo, z); f != nil && core.RefName(f) == "RepresentativeNsLabelSelector" {
							found = true
						}
					case *ast.CallExpr:
						if h := p.ByObj[core.Callee(ginfo, z)]; h != nil && d < 2 && h.Pkg.PkgPath == core.PkgK8s {
							hinfo := ginfo
							ginfo = h.Pkg.TypesInfo
							visit(h.Decl.Body, d+1)
							ginfo = hinfo
						}
					}
					return !found
				})
			}
			visit(e, 0)
			if !found && bad == "" {
				bad = fmt.Sprintf("at %s the verdict is %s", p.Pos(pos), core.ExprStr(e))
			}
		}
		w.OnStmt = func(s ast.Stmt, f facts.Formula) {
			if w.FuncLitDepth > 0 {
				return
			}
			switch x := s.(type) {
			case *ast.AssignStmt:
				if len(x.Lhs) == 1 && len(x.Rhs) == 1 && under(f) {
					if t := ginfo.TypeOf(x.Lhs[0]); t != nil && isBool(t) {
						judge(x.Rhs[0], x.Pos())
					}
				}
			case *ast.ReturnStmt:
				if sel != nil && len(x.Results) >= 1 && under(f) {
					if t := ginfo.TypeOf(x.Results[0]); t != nil && isBool(t) {
						judge(x.Results[0], x.Pos())
					}
				}
			}
		}
		w.WalkBody(g.Decl.Body, nil)
		if depth >= 2 {
			return
		}
		// helpers of the package that are handed the namespace selector
		ast.Inspect(g.Decl.Body, func(nd ast.Node) bool {
			c, ok := nd.(*ast.CallExpr)
			if !ok {
				return true
			}
			h := p.ByObj[core.Callee(ginfo, c)]
			if h == nil || h == g || h.Pkg.PkgPath != core.PkgK8s {
				return true
			}
			hs := h.Obj.Type().(*types.Signature)
			for i, a := range c.Args {
				if i >= hs.Params().Len() {
					break
				}
				isSel := strings.HasSuffix(core.ExprStr(ResolveLocal(ginfo, g.Decl.Body, a)), ".NamespaceSelector")
				if id, isID := ast.Unparen(a).(*ast.Ident); isID && sel != nil && ginfo.ObjectOf(id) == sel {
					isSel = true
				}
				if isSel && strings.HasSuffix(hs.Params().At(i).Type().String(), "LabelSelector") {
					analyse(h, hs.Params().At(i), depth+1)
				}
			}
			return true
		})
	}
	analyse(fd, nil, 0)
	_ = info
	_ = readsSelector
	r.Check(bad == "" && n >= 1, rule, fd.Key()+": a rule without namespaceSelector matches a representative peer by the peer's namespace selector, as the de-duplication key does", p.Pos(fd.Decl.Pos()), "",
		"for a rule with a nil namespaceSelector "+bad+", which never consults the representative peer's namespace selector: the representative peer shared (same key) with a rule that names the namespace by its name label has no Namespace when that rule came first, so the nil-selector rule does not select it and its exposure is not reported")
}

// answersOnlyWithFocus: every return of the boolean function g that gives the constant `answer` lies on a path that
// entails focusWorkload != "" (and g has such a return, and no computed answers).
func answersOnlyWithFocus(p *core.Program, g *core.FuncDecl, answer bool) bool {
	ginfo := g.Pkg.TypesInfo
	okAll, some := true, false
	gw := facts.NewWalker(ginfo)
	gw.OnStmt = func(s ast.Stmt, f facts.Formula) {
		ret, ok := s.(*ast.ReturnStmt)
		if !ok || gw.FuncLitDepth > 0 || len(ret.Results) != 1 || !facts.Satisfiable(f) {
			return
		}
		v, isConst := core.ConstString(ginfo, ret.Results[0])
		if !isConst {
			okAll = false
			return
		}
		if (v == "true") != answer {
			return
		}
		some = true
		focus := false
		for _, a := range facts.Atoms(f) {
			if sa := facts.StripVersions(a); strings.HasPrefix(sa, "eq:") && strings.Contains(sa, ".focusWorkload==\"\"") && facts.Entails(f, facts.MkNot(facts.Atom(a))) {
				focus = true
			}
		}
		if !focus {
			okAll = false
		}
	}
	gw.WalkBody(g.Decl.Body, nil)
	return okAll && some
}

// PodReplacementInvalidates is C15-upd (found as defect F22). The verdict cache is keyed by (namespace, owner, hash of the
// labels) of the two pods, and is deliberately not cleared when a pod is inserted. But a pod object that REPLACES an
// existing one (same namespace and name: an update in place) may differ from it in what the key does not contain - its
// container ports, by which the named ports of policy rules are resolved. So wherever the engine stores a pod into its
// pods map, a comma-ok lookup of the map under the same key must guard a call that removes cached results (a method of
// the cache that reaches Remove / Purge of the lru), before the store. The fake ingress-controller pod (never cached: it
// has no owner) is the one reviewed exception.
func PodReplacementInvalidates(p *core.Program, r *core.Report, rule string) {
	pods := p.Field(core.PkgEval, "PolicyEngine", "podsMap")
	if pods == nil {
		r.Lost(rule, "PolicyEngine.podsMap")
		return
	}
	// methods of evalCache that remove cached results (transitively)
	inval := map[*types.Func]bool{}
	for changed := true; changed; {
		changed = false
		for _, m := range p.Methods(core.PkgEval, "evalCache") {
			if inval[m.Obj] {
				continue
			}
			info := m.Pkg.TypesInfo
			ast.Inspect(m.Decl.Body, func(n ast.Node) bool {
				c, ok := n.(*ast.CallExpr)
				if !ok {
					return true
				}
				fn := core.Callee(info, c)
				if fn == nil {
					return true
				}
				if inval[fn] || ((fn.Name() == "Remove" || fn.Name() == "Purge") && fn.Pkg() != nil && strings.Contains(fn.Pkg().Path(), "golang-lru")) {
					if !inval[m.Obj] {
						inval[m.Obj] = true
						changed = true
					}
				}
				return true
			})
		}
	}
	exceptions := map[string]string{
		"AddPodByNameAndNamespace": "stores the fake ingress-controller pod, which has no owner: pairs with it are never cached, and the name is reserved",
	}
	n := 0
	for _, fd := range p.FuncsIn(core.PkgEval) {
		info := fd.Pkg.TypesInfo
		var stores []*ast.AssignStmt
		ast.Inspect(fd.Decl.Body, func(nd ast.Node) bool {
			if as, ok := nd.(*ast.AssignStmt); ok && len(as.Lhs) == 1 {
				if ix, isIx := ast.Unparen(as.Lhs[0]).(*ast.IndexExpr); isIx && core.FieldOf(info, ix.X) == pods && as.Tok == token.ASSIGN {
					stores = append(stores, as)
				}
			}
			return true
		})
		if len(stores) == 0 {
			continue
		}
		// comma-ok lookups of the pods map: ok variable -> key text
		okVars := map[types.Object]string{}
		ast.Inspect(fd.Decl.Body, func(nd ast.Node) bool {
			if as, ok := nd.(*ast.AssignStmt); ok && len(as.Lhs) == 2 && len(as.Rhs) == 1 {
				if ix, isIx := ast.Unparen(as.Rhs[0]).(*ast.IndexExpr); isIx && core.FieldOf(info, ix.X) == pods {
					if id, isID := as.Lhs[1].(*ast.Ident); isID && id.Name != "_" {
						okVars[info.ObjectOf(id)] = Unfold(info, fd.Decl.Body, ix.Index)
					}
				}
			}
			return true
		})
		// invalidating calls that run under such an ok, with the key they are guarded by
		guarded := map[string]token.Pos{}
		w := facts.NewWalker(info)
		w.OnExpr = func(e ast.Expr, f facts.Formula) {
			c, ok := e.(*ast.CallExpr)
			if !ok || !inval[core.Callee(info, c)] {
				return
			}
			for o, key := range okVars {
				if v, isVar := o.(*types.Var); isVar && facts.Entails(f, facts.Atom("b:"+w.PathOfVar(v))) {
					if _, seen := guarded[key]; !seen {
						guarded[key] = c.Pos()
					}
				}
			}
		}
		w.WalkBody(fd.Decl.Body, nil)
		for _, st := range stores {
			n++
			key := Unfold(info, fd.Decl.Body, ast.Unparen(st.Lhs[0]).(*ast.IndexExpr).Index)
			c := fd.Key() + ": a pod object that replaces an existing one drops the cached results of its workload"
			if why, ok := exceptions[core.RefName(fd.Obj)]; ok {
				r.Add(rule, c, p.Pos(st.Pos()), core.Excepted, why)
				continue
			}
			at, ok := guarded[key]
			r.Check(ok && at < st.Pos(), rule, c, p.Pos(st.Pos()), "a lookup of the pods map under the same key guards a call that removes cached results, before the store",
				"the pod is stored under "+key+" without removing what the cache holds for the object it may replace: the cache key holds the labels of a pod but not its container ports, so after an in-place update with other ports a named port of a policy rule is answered from the verdict computed for the replaced object")
		}
	}
	r.RuleCounts[rule] = n
	r.Floor(rule, 2)
}

// InvalidationMatchesByContainment is C15-inv-match. When the last pod of an owner goes (or a pod object is replaced) the
// cache removes the results of that owner by scanning its keys. A cache key is `<owner key of src>/<owner key of dst>/
// <protocol>/<port>`, every part of which may itself contain the separator; the one predicate that finds every key an
// owner takes part in, whatever the layout, is containment of the owner key. It removes too much at worst (a longer owner
// key that contains this one), never too little. A narrower predicate (prefix / suffix after stripping "the connection",
// a split and compare) has to agree with how keyPerConnection lays the key out, and an entry that survives the deletion
// of its workload is served to the next workload of that name: so in a loop over the keys of the lru, a Remove is guarded
// by strings.Contains(<the key>, <owner key>) and by nothing else.
func InvalidationMatchesByContainment(p *core.Program, r *core.Report, rule string) {
	n := 0
	for _, m := range p.Methods(core.PkgEval, "evalCache") {
		info := m.Pkg.TypesInfo
		ast.Inspect(m.Decl.Body, func(nd ast.Node) bool {
			rs, ok := nd.(*ast.RangeStmt)
			if !ok {
				return true
			}
			// a loop over <lru>.Keys() (directly or through a local)
			x := ast.Unparen(ResolveLocal(info, m.Decl.Body, rs.X))
			c, isCall := x.(*ast.CallExpr)
			if !isCall {
				return true
			}
			if fn := core.Callee(info, c); fn == nil || fn.Name() != "Keys" || fn.Pkg() == nil || !strings.Contains(fn.Pkg().Path(), "golang-lru") {
				return true
			}
			ast.Inspect(rs.Body, func(x2 ast.Node) bool {
				rc, isC := x2.(*ast.CallExpr)
				if !isC {
					return true
				}
				if fn := core.Callee(info, rc); fn == nil || fn.Name() != "Remove" || fn.Pkg() == nil || !strings.Contains(fn.Pkg().Path(), "golang-lru") {
					return true
				}
				n++
				fm, _, found := FactsAt(m, rc, nil)
				bad := ""
				contains := false
				if !found {
					bad = "the path condition of the Remove could not be computed"
				} else {
					fmLoop, _, _ := FactsAt(m, rs, nil)
					for _, a := range facts.Atoms(fm) {
						pos, neg := facts.Entails(fm, facts.Atom(a)), facts.Entails(fm, facts.MkNot(facts.Atom(a)))
						if !pos && !neg {
							continue
						}
						if fmLoop != nil && (facts.Entails(fmLoop, facts.Atom(a)) || facts.Entails(fmLoop, facts.MkNot(facts.Atom(a)))) {
							continue // decided before the scan started (e.g. "no pods are left for this owner"), not per key
						}
						sa := facts.StripVersions(a)
						if strings.HasPrefix(sa, "nil:") {
							continue // nil tests of the cache itself
						}
						if pos && strings.HasPrefix(sa, "b:strings.Contains(") {
							contains = true
							continue
						}
						if bad == "" {
							bad = "the removal also depends on " + sa
						}
					}
				}
				if bad == "" && !contains {
					bad = "the removal is not guarded by strings.Contains(<cache key>, <owner key>)"
				}
				if bad != "" {
					// the one narrower predicate that can be checked against the layout of the key: the key split at the
					// separator and the owner-key-sized field groups compared with the owner key as a whole
					if why, ok := splitFormMatchesLayout(p, m, rs, rc); ok {
						r.OK(rule, m.Key()+": cached results of an owner are found by containment of the owner key", p.Pos(rc.Pos()), why)
						return true
					} else if why != "" {
						bad += "; as a split-and-compare it does not agree with the layout of the key: " + why
					}
				}
				r.Check(bad == "", rule, m.Key()+": cached results of an owner are found by containment of the owner key", p.Pos(rc.Pos()), "strings.Contains(cacheKey, ownerKey)",
					bad+": a predicate narrower than containment has to agree with the layout of the key (owner keys and the connection part contain the separator themselves); a result that survives the deletion of its workload is served to the next workload of that name")
				return true
			})
			return true
		})
	}
	r.RuleCounts[rule] = n
	r.Floor(rule, 1)
}

// IngressAnalyzerEmptiness is C16-ia-empty (also a condition of C10). The ingress analyzer "has nothing to say" exactly
// when there is no Service, or there is neither a Route nor an Ingress: IsEmpty() <=> noServices | (noRoutes & noIngresses).
// connlist asks it to decide whether the ingress-controller pod is added and whether `--focusworkload ingress-controller`
// names something that exists (an empty result must come with the warning). Decided as a formula: the disjunction over
// the exits of IsEmpty of (path condition & returned condition) is equivalent to that table over the three emptiness
// atoms - whatever the shape; a sum of lengths compared with zero, or a dropped disjunct, is not.
func IngressAnalyzerEmptiness(p *core.Program, r *core.Report, rule string) {
	fd := p.Func(core.PkgIngress, "IngressAnalyzer", "IsEmpty")
	if fd == nil {
		r.Lost(rule, "(*IngressAnalyzer).IsEmpty")
		return
	}
	info := fd.Pkg.TypesInfo
	var answer facts.Formula = facts.False{}
	w := facts.NewWalker(info)
	w.Inline = true
	w.OnStmt = func(s ast.Stmt, f facts.Formula) {
		ret, ok := s.(*ast.ReturnStmt)
		if !ok || w.FuncLitDepth > 0 || len(ret.Results) != 1 {
			return
		}
		answer = facts.MkOr(answer, facts.MkAnd(f, w.Cond(ret.Results[0])))
	}
	w.WalkBody(fd.Decl.Body, nil)
	find := func(field string) facts.Formula {
		for _, a := range facts.Atoms(answer) {
			sa := facts.StripVersions(a)
			if strings.HasPrefix(sa, "eq:len(") && strings.HasSuffix(sa, "."+field+")==0") {
				return facts.Atom(a)
			}
			if strings.HasPrefix(sa, "empty:") && strings.HasSuffix(sa, "."+field) {
				return facts.Atom(a)
			}
		}
		return nil
	}
	s, ro, in := find("servicesToPortsAndPeersMap"), find("routesToServicesMap"), find("k8sIngressToServicesMap")
	ok := s != nil && ro != nil && in != nil
	if ok {
		want := facts.Or{L: s, R: facts.And{L: ro, R: in}}
		ok = facts.Equivalent(facts.True{}, answer, want)
	}
	r.Check(ok, rule, fd.Key()+": empty iff no services, or neither routes nor ingresses", p.Pos(fd.Decl.Pos()), "",
		"IsEmpty() is "+facts.StripVersions(facts.String(answer))+", not `no services | (no routes & no ingresses)`: with Services but no Ingress/Route (or the reverse) the analyzer counts as non-empty, the ingress-controller pod is taken to exist, and a focus on it returns an empty report without the warning")
}

// PriorityRangeBothBounds is C19-range: HasValidPriority accepts a priority only inside [MinANPPriority, MaxANPPriority] -
// both bounds. The API type's validation marker only acts on an API server; manifests read from a directory can carry any
// value, and a negative priority would sort first and silently get the highest precedence. Decided as a formula: the
// function's answer entails both `priority >= Min` and `priority <= Max` (any spelling of the two comparisons).
func PriorityRangeBothBounds(p *core.Program, r *core.Report, rule string) {
	fd := p.Func(core.PkgK8s, "AdminNetworkPolicy", "HasValidPriority")
	if fd == nil {
		r.Lost(rule, "(*AdminNetworkPolicy).HasValidPriority")
		return
	}
	info := fd.Pkg.TypesInfo
	lo, hi := false, false
	// every comparison of the priority field with a constant, with the sense in which it appears in a positive answer
	var answer facts.Formula = facts.False{}
	cmpOf := map[string]string{} // atom -> "lo" / "hi"
	w := facts.NewWalker(info)
	w.Atomize = func(w *facts.Walker, e ast.Expr) facts.Formula {
		be, ok := e.(*ast.BinaryExpr)
		if !ok {
			return nil
		}
		x, y, op := ast.Unparen(be.X), ast.Unparen(be.Y), be.Op
		if _, isC := constInt64(info, x); isC {
			x, y = y, x
			switch op {
			case token.LSS:
				op = token.GTR
			case token.GTR:
				op = token.LSS
			case token.LEQ:
				op = token.GEQ
			case token.GEQ:
				op = token.LEQ
			}
		}
		if !fieldPathEndsWith(info, x, "AdminNetworkPolicySpec", "Priority") {
			return nil
		}
		v, isC := constInt64(info, y)
		if !isC {
			return nil
		}
		minV, maxV := int64(0), int64(1000)
		if pk := p.ByPath[core.PkgCommon]; pk != nil {
			if c, ok := pk.Types.Scope().Lookup("MinANPPriority").(*types.Const); ok {
				minV, _ = constInt64FromConst(c)
			}
			if c, ok := pk.Types.Scope().Lookup("MaxANPPriority").(*types.Const); ok {
				maxV, _ = constInt64FromConst(c)
			}
		}
		switch {
		case (op == token.GEQ && v == minV) || (op == token.GTR && v == minV-1):
			cmpOf["prio>=min"] = "lo"
			return facts.Atom("prio>=min")
		case (op == token.LSS && v == minV) || (op == token.LEQ && v == minV-1):
			cmpOf["prio>=min"] = "lo"
			return facts.MkNot(facts.Atom("prio>=min"))
		case (op == token.LEQ && v == maxV) || (op == token.LSS && v == maxV+1):
			cmpOf["prio<=max"] = "hi"
			return facts.Atom("prio<=max")
		case (op == token.GTR && v == maxV) || (op == token.GEQ && v == maxV+1):
			cmpOf["prio<=max"] = "hi"
			return facts.MkNot(facts.Atom("prio<=max"))
		}
		return nil
	}
	w.OnStmt = func(s ast.Stmt, f facts.Formula) {
		ret, ok := s.(*ast.ReturnStmt)
		if !ok || w.FuncLitDepth > 0 || len(ret.Results) != 1 {
			return
		}
		answer = facts.MkOr(answer, facts.MkAnd(f, w.Cond(ret.Results[0])))
	}
	w.WalkBody(fd.Decl.Body, nil)
	lo = facts.Entails(answer, facts.Atom("prio>=min")) && cmpOf["prio>=min"] != ""
	hi = facts.Entails(answer, facts.Atom("prio<=max")) && cmpOf["prio<=max"] != ""
	r.Check(lo && hi && facts.Satisfiable(answer), rule, fd.Key()+": a priority is valid only inside [MinANPPriority, MaxANPPriority]", p.Pos(fd.Decl.Pos()), "",
		fmt.Sprintf("a positive answer of HasValidPriority does not imply both bounds (lower bound implied: %v, upper bound implied: %v): an AdminNetworkPolicy with an out-of-range priority is accepted, sorted, and takes precedence accordingly", lo, hi))
}

func constInt64FromConst(c *types.Const) (int64, bool) {
	return constant.Int64Val(c.Val())
}

// OwnerLabelsComparedCompletely is C19-labels: the comparison that rejects pods of one owner with different labels looks
// at every key of both label maps: its loops skip nothing (no continue, no filter on the key). A key that is left out of
// the comparison lets two pods that differ in it be merged into one workload silently - and policies may select by it.
func OwnerLabelsComparedCompletely(p *core.Program, r *core.Report, rule string) {
	fd := p.Func(core.PkgEval, "", "diffBetweenPodsLabels")
	if fd == nil {
		r.Lost(rule, "eval.diffBetweenPodsLabels")
		return
	}
	info := fd.Pkg.TypesInfo
	n := 0
	bad := ""
	w := facts.NewWalker(info)
	// the comma-ok results of lookups in a label map
	okOfLookup := map[types.Object]bool{}
	ast.Inspect(fd.Decl.Body, func(nd ast.Node) bool {
		if as, ok := nd.(*ast.AssignStmt); ok && len(as.Lhs) == 2 && len(as.Rhs) == 1 {
			if ix, isIx := ast.Unparen(as.Rhs[0]).(*ast.IndexExpr); isIx {
				if se, isSe := ast.Unparen(ix.X).(*ast.SelectorExpr); isSe && se.Sel.Name == "Labels" {
					if id, isID := as.Lhs[1].(*ast.Ident); isID {
						okOfLookup[info.ObjectOf(id)] = true
					}
				}
			}
		}
		return true
	})
	w.OnBranch = func(b *ast.BranchStmt, states uint64, f facts.Formula) {
		if len(w.Loops) == 0 || b.Tok != token.CONTINUE || bad != "" {
			return
		}
		// a continue after the key was looked up in the other pod's labels (found, and equal) is the comparison itself;
		// a continue decided by the key alone is a filter
		for _, a := range facts.Atoms(f) {
			if !facts.Entails(f, facts.Atom(a)) && !facts.Entails(f, facts.MkNot(facts.Atom(a))) {
				continue
			}
			if strings.Contains(a, ".Labels[") {
				return
			}
			for o := range okOfLookup {
				if v, isVar := o.(*types.Var); isVar && strings.HasPrefix(a, "b:"+w.PathOfVar(v)) {
					return
				}
			}
		}
		bad = fmt.Sprintf("the loop is continued at %s under %s", p.Pos(b.Pos()), facts.StripVersions(facts.String(f)))
	}
	w.WalkBody(fd.Decl.Body, nil)
	ast.Inspect(fd.Decl.Body, func(nd ast.Node) bool {
		rs, ok := nd.(*ast.RangeStmt)
		if !ok {
			return true
		}
		if se, isSe := ast.Unparen(rs.X).(*ast.SelectorExpr); isSe && se.Sel.Name == "Labels" {
			n++
			// a comparison in the body that sits under a test of the key other than a lookup in the other map
			key, _ := rs.Key.(*ast.Ident)
			ast.Inspect(rs.Body, func(x ast.Node) bool {
				ifs, isIf := x.(*ast.IfStmt)
				if !isIf || key == nil || bad != "" {
					return true
				}
				ast.Inspect(ifs.Cond, func(y ast.Node) bool {
					c, isCall := y.(*ast.CallExpr)
					if !isCall {
						return true
					}
					for _, a := range c.Args {
						if id, isID := ast.Unparen(a).(*ast.Ident); isID && info.ObjectOf(id) == info.ObjectOf(key) {
							bad = fmt.Sprintf("the key is tested by %s at %s", core.ExprStr(c), p.Pos(c.Pos()))
						}
					}
					return true
				})
				return true
			})
		}
		return true
	})
	r.Check(bad == "" && n >= 2, rule, fd.Key()+": every label key of both pods is compared", p.Pos(fd.Decl.Pos()), "",
		"the comparison of the labels of two pods of one owner leaves keys out ("+bad+"): pods that differ only in such a key are merged into one workload without an error, although a policy may select by that key")
}

// AdminCheckUnderSubjectSelection is C03-subject: on the eval path the rules of an (Baseline)AdminNetworkPolicy are
// consulted for a pair only when the policy's subject selects the pod the direction is about - the destination for
// ingress, the source for egress - exactly as the list path does. Every call of Check{Ingress,Egress}ConnAllowed is
// either on a path that entails a positive `<policy>.Selects(<peer>, <isIngress>)` with the matching direction constant,
// or the callee makes that test itself (a Selects call on one of its parameters with the matching constant, whose
// negative outcome returns). Folding the test into one of the two callees only leaves the other direction unguarded.
func AdminCheckUnderSubjectSelection(p *core.Program, r *core.Report, rule string) {
	n := 0
	calleeGuards := func(g *core.FuncDecl, ingress bool) bool {
		if g == nil {
			return false
		}
		ginfo := g.Pkg.TypesInfo
		want := "false"
		if ingress {
			want = "true"
		}
		guards := false
		gw := facts.NewWalker(ginfo)
		selAtoms := map[string]bool{}
		gw.OnExpr = func(e ast.Expr, f facts.Formula) {
			c, ok := e.(*ast.CallExpr)
			if !ok || len(c.Args) != 2 {
				return
			}
			if fn := core.Callee(ginfo, c); fn == nil || core.RefName(fn) != "Selects" {
				return
			}
			if v, isC := core.ConstString(ginfo, c.Args[1]); !isC || v != want {
				return
			}
			selAtoms[core.ExprStr(c)] = true
		}
		gw.OnStmt = func(s ast.Stmt, f facts.Formula) {
			if _, isRet := s.(*ast.ReturnStmt); !isRet || len(selAtoms) == 0 {
				return
			}
			// a return on a path where the selection result (a local bound to the call) is known to be false
			for _, a := range facts.Atoms(f) {
				if strings.HasPrefix(a, "b:") && facts.Entails(f, facts.MkNot(facts.Atom(a))) && strings.Contains(strings.ToLower(a), "select") {
					guards = true
				}
			}
		}
		gw.WalkBody(g.Decl.Body, nil)
		return guards
	}
	for _, fd := range p.FuncsIn(core.PkgEval) {
		info := fd.Pkg.TypesInfo
		// locals bound to a Selects call: object -> (peer text, direction constant)
		type sel struct {
			peer, dir string
			dirVar    *types.Var // the direction is a variable (isIngress): judged by its value on the path
		}
		selVars := map[types.Object]sel{}
		ast.Inspect(fd.Decl.Body, func(nd ast.Node) bool {
			as, ok := nd.(*ast.AssignStmt)
			if !ok || len(as.Rhs) != 1 || len(as.Lhs) < 1 {
				return true
			}
			c, isCall := ast.Unparen(as.Rhs[0]).(*ast.CallExpr)
			if !isCall || len(c.Args) != 2 {
				return true
			}
			if fn := core.Callee(info, c); fn == nil || core.RefName(fn) != "Selects" {
				return true
			}
			dir, _ := core.ConstString(info, c.Args[1])
			var dirVar *types.Var
			if did, isID := ast.Unparen(c.Args[1]).(*ast.Ident); isID && dir == "" {
				dirVar, _ = info.ObjectOf(did).(*types.Var)
			}
			if id, isID := as.Lhs[0].(*ast.Ident); isID {
				selVars[info.ObjectOf(id)] = sel{core.ExprStr(c.Args[0]), dir, dirVar}
			}
			return true
		})
		w := facts.NewWalker(info)
		w.OnExpr = func(e ast.Expr, f facts.Formula) {
			c, ok := e.(*ast.CallExpr)
			if !ok {
				return
			}
			fn := core.Callee(info, c)
			if fn == nil {
				return
			}
			name := core.RefName(fn)
			if name != "CheckIngressConnAllowed" && name != "CheckEgressConnAllowed" {
				return
			}
			rt := core.RecvTypeName(fn.Type().(*types.Signature))
			if rt != "AdminNetworkPolicy" && rt != "BaselineAdminNetworkPolicy" {
				return
			}
			ingress := name == "CheckIngressConnAllowed"
			want := "false"
			if ingress {
				want = "true"
			}
			n++
			ok2 := false
			for o, sv := range selVars {
				v, isVar := o.(*types.Var)
				if !isVar || !facts.Entails(f, facts.Atom("b:"+w.PathOfVar(v))) {
					continue
				}
				if sv.dir == want {
					ok2 = true
				}
				if sv.dirVar != nil {
					da := facts.Formula(facts.Atom("b:" + w.PathOfVar(sv.dirVar)))
					if !ingress {
						da = facts.MkNot(da)
					}
					if facts.Entails(f, da) {
						ok2 = true
					}
				}
			}
			if !ok2 {
				for _, g := range p.Impls(fn) {
					if calleeGuards(p.ByObj[g], ingress) {
						ok2 = true
					}
				}
			}
			r.Check(ok2, rule, fmt.Sprintf("%s: %s.%s is consulted only for a pod the policy's subject selects", fd.Key(), rt, name), p.Pos(c.Pos()), "",
				"the rules of the policy are applied to a pair although nothing on this path (or in the callee) established that its subject selects the "+map[bool]string{true: "destination", false: "source"}[ingress]+": eval applies the policy to pods it does not select, list does not")
		}
		w.WalkBody(fd.Decl.Body, nil)
	}
	r.RuleCounts[rule] = n
	r.Floor(rule, 2)
}

// SearchResultIndexGuarded is E2-N13 (C12): the position returned by a search (slices.Index / IndexFunc, strings.Index*,
// bytes.Index*) is -1 when nothing is found; used as an index or a slice bound it must sit on a path on which that case
// is excluded (a comparison of the variable with -1 or 0 decided on the path). Otherwise an input without a match -
// typically a dangling cross reference between two manifests - is an index-out-of-range panic instead of an empty result.
func SearchResultIndexGuarded(p *core.Program, r *core.Report, rule string) {
	n := 0
	isSearch := func(fn *types.Func) bool {
		if fn == nil || fn.Pkg() == nil {
			return false
		}
		switch fn.Pkg().Path() {
		case "slices", "strings", "bytes":
			return strings.HasPrefix(fn.Name(), "Index") || strings.HasPrefix(fn.Name(), "LastIndex")
		}
		return false
	}
	for _, fd := range p.Funcs {
		info := fd.Pkg.TypesInfo
		found := map[types.Object]string{}
		ast.Inspect(fd.Decl.Body, func(nd ast.Node) bool {
			as, ok := nd.(*ast.AssignStmt)
			if !ok || len(as.Lhs) != 1 || len(as.Rhs) != 1 {
				return true
			}
			c, isCall := ast.Unparen(as.Rhs[0]).(*ast.CallExpr)
			if !isCall || !isSearch(core.Callee(info, c)) {
				return true
			}
			if id, isID := as.Lhs[0].(*ast.Ident); isID {
				found[info.ObjectOf(id)] = core.ExprStr(c.Fun)
			}
			return true
		})
		if len(found) == 0 {
			continue
		}
		w := facts.NewWalker(info)
		w.OnExpr = func(e ast.Expr, f facts.Formula) {
			var used []ast.Expr
			switch x := e.(type) {
			case *ast.IndexExpr:
				used = []ast.Expr{x.Index}
			case *ast.SliceExpr:
				used = []ast.Expr{x.Low, x.High}
			default:
				return
			}
			for _, u := range used {
				if u == nil {
					continue
				}
				id, ok := ast.Unparen(u).(*ast.Ident)
				if !ok {
					continue
				}
				o := info.ObjectOf(id)
				how, isFound := found[o]
				if !isFound {
					continue
				}
				n++
				v := o.(*types.Var)
				path := w.PathOfVar(v)
				guarded := false
				for _, a := range facts.Atoms(f) {
					if !strings.Contains(a, path) {
						continue
					}
					if facts.Entails(f, facts.Atom(a)) || facts.Entails(f, facts.MkNot(facts.Atom(a))) {
						guarded = true // a comparison of the position decided on this path
					}
				}
				r.Check(guarded, rule, fmt.Sprintf("%s: the position found by %s is used as an index only where a match is known", fd.Key(), how), p.Pos(e.Pos()), "",
					"the result of "+how+" is used as an index / bound without a test for -1 on the path: with no match (e.g. a reference to something the input does not declare) this is an index-out-of-range panic")
			}
		}
		w.WalkBody(fd.Decl.Body, nil)
	}
	r.RuleCounts[rule] = n
}
