package rules

import (
	"fmt"
	"go/types"
	"sort"
	"strings"

	"golang.org/x/tools/go/ssa"

	"npverif/internal/core"
)

// E3a — effects, aliasing and field-read sets of the functions of package
// common (the connection-set algebra), computed on the module's SSA.

// Library methods (np-guard/models interval.CanonicalSet) that write their
// receiver; every other library operation used by the package returns a fresh
// value (read from the library source: Union/Intersect/Subtract start from
// Copy(), Copy allocates).
var libWritesRecv = map[string]bool{"AddInterval": true, "AddHole": true}

type effRoot struct {
	param  int  // index into fn.Params, -1 if not a parameter
	loaded bool // reached through at least one load/field/index
}

// EffSummary is the effect summary of one function.
type EffSummary struct {
	Writes      map[int]bool            // parameter index whose structure is written
	AliasInto   map[[2]int]bool         // [from, into]: a pointer reachable from `from` is stored into the structure of `into`
	RetAlias    map[int]bool            // a pointer into the parameter's structure is returned
	FieldReads  map[int]map[string]bool // fields of the parameter's struct that are read (FieldAddr), transitively through callees
	FieldWrites map[int]map[string]bool
}

type effAnalysis struct {
	sums map[*ssa.Function]*EffSummary
}

func paramIndex(fn *ssa.Function, v ssa.Value) int {
	for i, p := range fn.Params {
		if p == v {
			return i
		}
	}
	return -1
}

func (a *effAnalysis) roots(fn *ssa.Function, v ssa.Value, loaded bool, seen map[ssa.Value]bool, out *[]effRoot) {
	if seen[v] {
		return
	}
	seen[v] = true
	switch x := v.(type) {
	case *ssa.Parameter:
		*out = append(*out, effRoot{param: paramIndex(fn, x), loaded: loaded})
	case *ssa.FieldAddr:
		a.roots(fn, x.X, true, seen, out)
	case *ssa.Field:
		a.roots(fn, x.X, true, seen, out)
	case *ssa.IndexAddr:
		a.roots(fn, x.X, true, seen, out)
	case *ssa.Index:
		a.roots(fn, x.X, true, seen, out)
	case *ssa.Lookup:
		a.roots(fn, x.X, true, seen, out)
	case *ssa.Extract:
		a.roots(fn, x.Tuple, loaded, seen, out)
	case *ssa.UnOp:
		a.roots(fn, x.X, true, seen, out)
	case *ssa.Phi:
		for _, e := range x.Edges {
			a.roots(fn, e, loaded, seen, out)
		}
	case *ssa.ChangeType:
		a.roots(fn, x.X, loaded, seen, out)
	case *ssa.Convert:
		a.roots(fn, x.X, loaded, seen, out)
	case *ssa.MakeInterface:
		a.roots(fn, x.X, loaded, seen, out)
	case *ssa.TypeAssert:
		a.roots(fn, x.X, loaded, seen, out)
	case *ssa.Slice:
		a.roots(fn, x.X, true, seen, out)
	case *ssa.Next:
		a.roots(fn, x.Iter, true, seen, out)
	case *ssa.Range:
		a.roots(fn, x.X, true, seen, out)
	case *ssa.Alloc:
		found := false
		if refs := x.Referrers(); refs != nil {
			for _, r := range *refs {
				if st, ok := r.(*ssa.Store); ok && st.Addr == x {
					a.roots(fn, st.Val, loaded, seen, out)
					found = true
				}
			}
		}
		if !found {
			*out = append(*out, effRoot{param: -1})
		}
	case *ssa.Call:
		if callee := x.Call.StaticCallee(); callee != nil {
			if s := a.sums[callee]; s != nil {
				for pi := range s.RetAlias {
					if pi < len(x.Call.Args) {
						a.roots(fn, x.Call.Args[pi], true, seen, out)
					}
				}
			}
		}
		*out = append(*out, effRoot{param: -1})
	default:
		*out = append(*out, effRoot{param: -1})
	}
}

func pointerLike(t types.Type) bool {
	switch t.Underlying().(type) {
	case *types.Pointer, *types.Map, *types.Slice, *types.Interface, *types.Chan, *types.Signature:
		return true
	}
	return false
}

func structFieldName(t types.Type, i int) string {
	if p, ok := t.Underlying().(*types.Pointer); ok {
		t = p.Elem()
	}
	if s, ok := t.Underlying().(*types.Struct); ok && i < s.NumFields() {
		return core.RefName(s.Field(i))
	}
	return "?"
}

func (a *effAnalysis) analyse(fn *ssa.Function, inPkg func(*ssa.Function) bool) *EffSummary {
	s := &EffSummary{Writes: map[int]bool{}, AliasInto: map[[2]int]bool{}, RetAlias: map[int]bool{}, FieldReads: map[int]map[string]bool{}, FieldWrites: map[int]map[string]bool{}}
	rootsOf := func(v ssa.Value) []effRoot {
		var out []effRoot
		a.roots(fn, v, false, map[ssa.Value]bool{}, &out)
		return out
	}
	addField := func(m map[int]map[string]bool, p int, f string) {
		if m[p] == nil {
			m[p] = map[string]bool{}
		}
		m[p][f] = true
	}
	markWrite := func(target ssa.Value) []int {
		var into []int
		for _, r := range rootsOf(target) {
			if r.param >= 0 {
				s.Writes[r.param] = true
				into = append(into, r.param)
			}
		}
		// field being written
		if fa, ok := target.(*ssa.FieldAddr); ok {
			for _, r := range rootsOf(fa.X) {
				if r.param >= 0 {
					addField(s.FieldWrites, r.param, structFieldName(fa.X.Type(), fa.Field))
				}
			}
		}
		return into
	}
	// holds: local (non-parameter) objects into whose structure a pointer reachable from a parameter was stored
	holds := map[ssa.Value]map[int]bool{}
	var bases func(v ssa.Value, seen map[ssa.Value]bool, out *[]ssa.Value)
	bases = func(v ssa.Value, seen map[ssa.Value]bool, out *[]ssa.Value) {
		if seen[v] {
			return
		}
		seen[v] = true
		switch x := v.(type) {
		case *ssa.FieldAddr:
			bases(x.X, seen, out)
		case *ssa.IndexAddr:
			bases(x.X, seen, out)
		case *ssa.UnOp:
			bases(x.X, seen, out)
		case *ssa.Lookup:
			bases(x.X, seen, out)
		case *ssa.Phi:
			for _, e := range x.Edges {
				bases(e, seen, out)
			}
		case *ssa.Extract:
			bases(x.Tuple, seen, out)
		case *ssa.MakeInterface:
			bases(x.X, seen, out)
		case *ssa.ChangeType:
			bases(x.X, seen, out)
		case *ssa.Alloc:
			*out = append(*out, x)
			if refs := x.Referrers(); refs != nil {
				for _, rf := range *refs {
					if st, ok := rf.(*ssa.Store); ok && st.Addr == x {
						bases(st.Val, seen, out)
					}
				}
			}
		case *ssa.Call, *ssa.MakeMap, *ssa.MakeSlice:
			*out = append(*out, v)
		}
	}
	markAlias := func(val ssa.Value, into []int) {
		if !pointerLike(val.Type()) {
			return
		}
		for _, r := range rootsOf(val) {
			if r.param >= 0 {
				for _, t := range into {
					if t != r.param {
						s.AliasInto[[2]int{r.param, t}] = true
					}
				}
			}
		}
	}
	markHold := func(target, val ssa.Value) {
		if !pointerLike(val.Type()) {
			return
		}
		var ps []int
		for _, r := range rootsOf(val) {
			if r.param >= 0 && r.loaded {
				ps = append(ps, r.param)
			}
		}
		if len(ps) == 0 {
			return
		}
		var bs []ssa.Value
		bases(target, map[ssa.Value]bool{}, &bs)
		for _, b := range bs {
			if holds[b] == nil {
				holds[b] = map[int]bool{}
			}
			for _, pi := range ps {
				holds[b][pi] = true
			}
		}
	}
	for _, b := range fn.Blocks {
		for _, in := range b.Instrs {
			switch x := in.(type) {
			case *ssa.Store:
				if _, isAlloc := x.Addr.(*ssa.Alloc); isAlloc {
					continue
				}
				into := markWrite(x.Addr)
				markAlias(x.Val, into)
				markHold(x.Addr, x.Val)
			case *ssa.MapUpdate:
				into := markWrite(x.Map)
				markAlias(x.Value, into)
				markHold(x.Map, x.Value)
			case *ssa.FieldAddr:
				for _, r := range rootsOf(x.X) {
					if r.param >= 0 && !r.loaded {
						addField(s.FieldReads, r.param, structFieldName(x.X.Type(), x.Field))
					}
				}
			case *ssa.Field:
				for _, r := range rootsOf(x.X) {
					if r.param >= 0 && !r.loaded {
						addField(s.FieldReads, r.param, structFieldName(x.X.Type(), x.Field))
					}
				}
			case *ssa.Return:
				for _, res := range x.Results {
					if !pointerLike(res.Type()) {
						continue
					}
					for _, r := range rootsOf(res) {
						if r.param >= 0 {
							s.RetAlias[r.param] = true
						}
					}
					var bs []ssa.Value
					bases(res, map[ssa.Value]bool{}, &bs)
					for _, b := range bs {
						for pi := range holds[b] {
							s.RetAlias[pi] = true
						}
					}
				}
			case ssa.CallInstruction:
				c := x.Common()
				if bi, ok := c.Value.(*ssa.Builtin); ok {
					if bi.Name() == "delete" {
						markWrite(c.Args[0])
					}
					continue
				}
				callee := c.StaticCallee()
				if callee == nil {
					continue
				}
				if cs := a.sums[callee]; cs != nil && inPkg(callee) {
					for pi := range cs.Writes {
						if pi < len(c.Args) {
							markWrite(c.Args[pi])
						}
					}
					for al := range cs.AliasInto {
						if al[0] < len(c.Args) && al[1] < len(c.Args) {
							var into []int
							for _, r := range rootsOf(c.Args[al[1]]) {
								if r.param >= 0 {
									into = append(into, r.param)
								}
							}
							markAlias(c.Args[al[0]], into)
						}
					}
					for pi, fs := range cs.FieldReads {
						if pi < len(c.Args) {
							for _, r := range rootsOf(c.Args[pi]) {
								if r.param >= 0 && !r.loaded {
									for f := range fs {
										addField(s.FieldReads, r.param, f)
									}
								}
							}
						}
					}
				} else if !inPkg(callee) && libWritesRecv[callee.Name()] && len(c.Args) > 0 && callee.Signature.Recv() != nil {
					markWrite(c.Args[0])
				}
			}
		}
	}
	return s
}

// Effects computes the summaries of all functions of one package to a fixpoint.
func Effects(p *core.Program, pkgPath string) map[*types.Func]*EffSummary {
	a := &effAnalysis{sums: map[*ssa.Function]*EffSummary{}}
	var fns []*ssa.Function
	byObj := map[*ssa.Function]*types.Func{}
	for _, fd := range p.FuncsIn(pkgPath) {
		if sf := p.SSAFunc(fd); sf != nil && sf.Blocks != nil {
			fns = append(fns, sf)
			byObj[sf] = fd.Obj
		}
	}
	inPkg := func(f *ssa.Function) bool { return f.Pkg != nil && f.Pkg.Pkg.Path() == pkgPath }
	for iter := 0; iter < 8; iter++ {
		for _, fn := range fns {
			a.sums[fn] = a.analyse(fn, inPkg)
		}
	}
	out := map[*types.Func]*EffSummary{}
	for sf, obj := range byObj {
		out[obj] = a.sums[sf]
	}
	return out
}

func setNames(m map[string]bool) string {
	var ns []string
	for n := range m {
		ns = append(ns, n)
	}
	sort.Strings(ns)
	return strings.Join(ns, ",")
}

func paramName(fn *types.Func, i int) string {
	sig := fn.Type().(*types.Signature)
	if sig.Recv() != nil {
		if i == 0 {
			return "receiver"
		}
		i--
	}
	if i < sig.Params().Len() {
		return "parameter " + core.RefName(sig.Params().At(i))
	}
	return fmt.Sprintf("parameter #%d", i)
}

// SetAlgebraEffects is C11-a/-b/-d: receiver-only effects, no aliasing, deep
// Copy and operand field coverage of the connection-set algebra.
func SetAlgebraEffects(p *core.Program, r *core.Report) {
	setAlgebraEffects(p, r, "C11", true)
}

// AccumulatorPurity emits the effect (-a) and aliasing (-b) obligations of the
// set operations under another rule prefix: the order-independence argument
// of E1 treats Union/AddConnection/... as commutative accumulators, which
// holds only if they neither modify nor keep a pointer into their operands.
func AccumulatorPurity(p *core.Program, r *core.Report, prefix string) {
	setAlgebraEffects(p, r, prefix, false)
}

func setAlgebraEffects(p *core.Program, r *core.Report, pre string, withD bool) {
	sums := Effects(p, core.PkgCommon)
	types_ := []string{"ConnectionSet", "PortSet"}
	nMethods := 0
	for _, tn := range types_ {
		nt := p.LookupType(core.PkgCommon, tn)
		if nt == nil {
			r.Lost(pre+"-a", "type common."+tn)
			continue
		}
		allFields := map[string]bool{}
		st := nt.Underlying().(*types.Struct)
		for i := 0; i < st.NumFields(); i++ {
			allFields[core.RefName(st.Field(i))] = true
		}
		for _, m := range p.Methods(core.PkgCommon, tn) {
			s := sums[m.Obj]
			if s == nil {
				continue
			}
			nMethods++
			sig := m.Obj.Type().(*types.Signature)
			pos := p.Pos(m.Decl.Pos())
			key := m.Key()
			// C11-a effects: methods with results are read-only, methods without results mutate the receiver only
			var w []string
			for i := range s.Writes {
				w = append(w, paramName(m.Obj, i))
			}
			sort.Strings(w)
			if sig.Results().Len() > 0 {
				r.Check(len(s.Writes) == 0, pre+"-a", key+": read-only operation writes nothing", pos,
					"no store, map update or mutating call on the receiver or an operand",
					"an operation that returns a value (query/copy/print) writes to "+strings.Join(w, ", ")+": operands of set operations must not be modified")
			} else {
				onlyRecv := true
				for i := range s.Writes {
					if i != 0 {
						onlyRecv = false
					}
				}
				r.Check(onlyRecv, pre+"-a", key+": mutator writes its receiver only", pos,
					"effects confined to the receiver", "a mutating set operation writes to "+strings.Join(w, ", ")+": operands other than the updated one must not be modified")
			}
			// C11-b aliasing
			var al []string
			for k := range s.AliasInto {
				al = append(al, paramName(m.Obj, k[0])+" -> "+paramName(m.Obj, k[1]))
			}
			sort.Strings(al)
			r.Check(len(al) == 0, pre+"-b", key+": no operand pointer stored into another object", pos,
				"every stored pointer is fresh (Copy(), constructor or library operation returning a fresh set)",
				"a pointer/map reachable from one object is stored into another ("+strings.Join(al, "; ")+"): a later update of one silently changes the other")
			if sig.Results().Len() > 0 {
				var ra []string
				for i := range s.RetAlias {
					ra = append(ra, paramName(m.Obj, i))
				}
				sort.Strings(ra)
				// accessors that hand out scalars are fine; pointer-like results must be fresh
				r.Check(len(ra) == 0, pre+"-b", key+": result does not alias an operand", pos,
					"pointer-like results are fresh", "the result aliases the structure of "+strings.Join(ra, ", "))
			}
			// C11-b deep copy: Copy reads every field of its receiver
			if core.RefName(m.Obj) == "Copy" {
				got := s.FieldReads[0]
				missing := []string{}
				for f := range allFields {
					if !got[f] {
						missing = append(missing, f)
					}
				}
				sort.Strings(missing)
				r.Check(len(missing) == 0, pre+"-b", key+": Copy covers every field", pos,
					"reads "+setNames(got), "Copy does not read field(s) "+strings.Join(missing, ",")+" of the receiver: the copy loses or shares that part")
			}
		}
	}
	r.RuleCounts[pre+"-methods"] = nMethods
	r.Floor(pre+"-methods", 20) // today 32; single-caller helpers get inlined, the exported operations (about 25) stay

	if !withD {
		return
	}
	// C11-d operand field coverage of the binary PortSet operations
	want := map[string][2][]string{ // method -> {fields of receiver, fields of operand}
		"Equal":        {{"Ports", "NamedPorts", "ExcludedNamedPorts"}, {"Ports", "NamedPorts", "ExcludedNamedPorts"}},
		"Union":        {{"Ports", "NamedPorts", "ExcludedNamedPorts"}, {"Ports", "NamedPorts", "ExcludedNamedPorts"}},
		"ContainedIn":  {{"Ports", "NamedPorts"}, {"Ports", "NamedPorts"}},
		"subtract":     {{"Ports", "NamedPorts"}, {"Ports", "NamedPorts"}},
		"Intersection": {{"Ports", "NamedPorts"}, {"Ports", "NamedPorts"}},
	}
	var names []string
	for n := range want {
		names = append(names, n)
	}
	sort.Strings(names)
	for _, name := range names {
		m := p.Func(core.PkgCommon, "PortSet", name)
		if m == nil {
			r.Lost(pre+"-d", "(*PortSet)."+name)
			continue
		}
		s := sums[m.Obj]
		for side, label := range []string{"receiver", "operand"} {
			got := map[string]bool{}
			if s != nil {
				for f := range s.FieldReads[side] {
					got[f] = true
				}
				for f := range s.FieldWrites[side] {
					got[f] = true
				}
			}
			var missing []string
			for _, f := range want[name][side] {
				if !got[f] {
					missing = append(missing, f)
				}
			}
			r.Check(len(missing) == 0, pre+"-d", fmt.Sprintf("%s: consults %s of its %s", m.Key(), strings.Join(want[name][side], "+"), label), p.Pos(m.Decl.Pos()),
				"reads/updates "+setNames(got),
				fmt.Sprintf("the operation never consults %s of its %s, so two port sets differing only there are treated alike (a named port is a (protocol, name) point of the set)", strings.Join(missing, ","), label))
		}
	}
	r.Floor(pre+"-d", 10)
}
