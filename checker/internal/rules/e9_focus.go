package rules

import (
	"fmt"
	"go/ast"
	"go/token"
	"go/types"
	"sort"
	"strings"

	"npverif/internal/core"
	"npverif/internal/facts"
)

// FocusFilter is C16.
func FocusFilter(p *core.Program, r *core.Report, rule string) {
	fld := p.Field(core.PkgConnlist, "ConnlistAnalyzer", "focusWorkload")
	pred := p.Func(core.PkgConnlist, "ConnlistAnalyzer", "isPeerFocusWorkload")
	incl := p.Func(core.PkgConnlist, "ConnlistAnalyzer", "includePairOfWorkloads")
	if fld == nil || pred == nil || incl == nil {
		r.Lost(rule, "ConnlistAnalyzer.focusWorkload / isPeerFocusWorkload / includePairOfWorkloads")
		return
	}
	// who-may-read the option: the filter predicate, the existence check (which builds the warning text) and the option
	// setter read its value; every other function may only test whether an option was given at all (a comparison with
	// the empty string) - wherever such a test is written, it cannot make the computed connections depend on the name
	fullReaders := map[*types.Func]string{pred.Obj: "the filter predicate"}
	if ex := p.Func(core.PkgConnlist, "ConnlistAnalyzer", "existsFocusWorkload"); ex != nil {
		fullReaders[ex.Obj] = "existence check for the warning"
	}
	if st := p.Func(core.PkgConnlist, "", "WithFocusWorkload"); st != nil {
		fullReaders[st.Obj] = "option setter"
	}
	for _, fd := range p.Funcs {
		info := fd.Pkg.TypesInfo
		pos := token.NoPos
		bad := ""
		var parents []ast.Node
		ast.Inspect(fd.Decl.Body, func(n ast.Node) bool {
			if n == nil {
				parents = parents[:len(parents)-1]
				return true
			}
			if se, ok := n.(*ast.SelectorExpr); ok && core.FieldOf(info, se) == fld {
				if !pos.IsValid() {
					pos = se.Pos()
				}
				par := parents[len(parents)-1]
				if pe, isP := par.(*ast.ParenExpr); isP && len(parents) >= 2 {
					_ = pe
					par = parents[len(parents)-2]
				}
				be, ok := par.(*ast.BinaryExpr)
				if !ok || (be.Op != token.EQL && be.Op != token.NEQ) {
					bad = "used in " + core.ExprStr(par)
				} else {
					other := be.Y
					if ast.Unparen(be.Y) == ast.Expr(se) {
						other = be.X
					}
					if v, isC := core.ConstString(info, other); !isC || v != "" {
						bad = "compared with " + core.ExprStr(other)
					}
				}
			}
			parents = append(parents, n)
			return true
		})
		if !pos.IsValid() {
			continue
		}
		if why, ok := fullReaders[fd.Obj]; ok {
			r.OK(rule+"-read", fd.Key()+": reads the focus-workload option", p.Pos(pos), why)
			continue
		}
		// a function literal of the setter (`func(c *ConnlistAnalyzer) { c.focusWorkload = w }`) writes, it does not read
		r.Check(bad == "", rule+"-read", fd.Key()+": only tests whether a focus workload was given", p.Pos(pos), "compared with \"\" only", "the focus option is "+bad+" outside the filter predicate and the existence check: the computed connections could depend on it (it must be a pure filter of the full report)")
	}
	r.Floor(rule+"-read", 3)
	// the focus-filtered peers list is read only for the dot output and the existence check
	if pl := p.Field(core.PkgConnlist, "ConnlistAnalyzer", "peersList"); pl != nil {
		plReaders := map[string]string{"getFormatter": "handed to the dot formatter", "existsFocusWorkload": "existence check", "getConnectionsList": "builds the list (self-append)"}
		for _, fd := range p.Funcs {
			info := fd.Pkg.TypesInfo
			pos := token.NoPos
			ast.Inspect(fd.Decl.Body, func(n ast.Node) bool {
				if se, ok := n.(*ast.SelectorExpr); ok && core.FieldOf(info, se) == pl && !pos.IsValid() {
					pos = se.Pos()
				}
				return true
			})
			if !pos.IsValid() {
				continue
			}
			why, ok := plReaders[core.RefName(fd.Obj)]
			if core.RefName(fd.Obj) == "getConnectionsList" {
				// only `ca.peersList = ...` and `ca.peersList = append(ca.peersList, ...)`
				allowed := map[ast.Node]bool{}
				ast.Inspect(fd.Decl.Body, func(n ast.Node) bool {
					if as, isAs := n.(*ast.AssignStmt); isAs && len(as.Lhs) == 1 {
						if se, isSe := ast.Unparen(as.Lhs[0]).(*ast.SelectorExpr); isSe && core.FieldOf(info, se) == pl {
							allowed[se] = true
							if c, isC := ast.Unparen(as.Rhs[0]).(*ast.CallExpr); isC && core.IsBuiltinCall(info, c, "append") {
								allowed[ast.Unparen(c.Args[0])] = true
							}
						}
					}
					return true
				})
				ast.Inspect(fd.Decl.Body, func(n ast.Node) bool {
					if se, isSe := n.(*ast.SelectorExpr); isSe && core.FieldOf(info, se) == pl && !allowed[se] {
						ok = false
						pos = se.Pos()
					}
					return true
				})
			}
			r.Check(ok, rule+"-read", fd.Key()+": uses the focus-filtered peers list", p.Pos(pos), why, "the focus-filtered peers list is used outside the dot formatter and the existence check: connections would be computed over the filtered peers")
		}
	} else {
		r.Lost(rule, "ConnlistAnalyzer.peersList")
	}
	// where the predicate is consulted: anywhere rows are selected, but never as a condition for feeding the policy
	// engine or the ingress analyzer - no call that writes their state may be control-dependent on the predicate
	// (decided on the path condition at each such call, in every function that mentions the predicate)
	engineTypes := map[*types.Named]bool{}
	if nt := p.LookupType(core.PkgEval, "PolicyEngine"); nt != nil {
		engineTypes[nt] = true
	}
	if nt := p.LookupType(core.PkgIngress, "IngressAnalyzer"); nt != nil {
		engineTypes[nt] = true
	}
	writerMemo := map[*types.Func]bool{}
	writesEngine := func(fn *types.Func) bool {
		if v, ok := writerMemo[fn]; ok {
			return v
		}
		res := false
		if fn.Pkg() != nil && (fn.Pkg().Path() == core.PkgEval || fn.Pkg().Path() == core.PkgIngress) {
			fns := []*types.Func{fn}
			for g := range p.Reachable(fn) {
				fns = append(fns, g)
			}
			for _, g := range fns {
				gd := p.ByObj[g]
				if gd == nil || res {
					continue
				}
				ginfo := gd.Pkg.TypesInfo
				ownerIsEngine := func(e ast.Expr) bool {
					for {
						switch x := ast.Unparen(e).(type) {
						case *ast.IndexExpr:
							e = x.X
							continue
						case *ast.StarExpr:
							e = x.X
							continue
						case *ast.SelectorExpr:
							if core.FieldOf(ginfo, x) != nil {
								t := ginfo.TypeOf(x.X)
								if pt, isP := t.Underlying().(*types.Pointer); isP {
									t = pt.Elem()
								}
								if nt := core.NamedOf(t); nt != nil && engineTypes[nt] {
									return true
								}
							}
							e = x.X
							continue
						}
						return false
					}
				}
				ast.Inspect(gd.Decl.Body, func(n ast.Node) bool {
					switch x := n.(type) {
					case *ast.AssignStmt:
						for _, l := range x.Lhs {
							if ownerIsEngine(l) {
								res = true
							}
						}
					case *ast.CallExpr:
						if core.IsBuiltinCall(ginfo, x, "delete") && ownerIsEngine(x.Args[0]) {
							res = true
						}
					}
					return !res
				})
			}
		}
		writerMemo[fn] = res
		return res
	}
	nUses := 0
	for _, fd := range p.Funcs {
		info := fd.Pkg.TypesInfo
		uses := false
		ast.Inspect(fd.Decl.Body, func(n ast.Node) bool {
			if id, ok := n.(*ast.Ident); ok && info.Uses[id] == types.Object(pred.Obj) {
				uses = true
				nUses++
			}
			return true
		})
		if !uses {
			continue
		}
		bad := ""
		w := facts.NewWalker(info)
		w.OnExpr = func(e ast.Expr, f facts.Formula) {
			c, ok := e.(*ast.CallExpr)
			if !ok || bad != "" {
				return
			}
			fn := core.Callee(info, c)
			if fn == nil || !writesEngine(fn) {
				return
			}
			for _, a := range facts.Atoms(f) {
				if strings.Contains(a, "."+core.RefName(pred.Obj)) && (facts.Entails(f, facts.Atom(a)) || facts.Entails(f, facts.Not{X: facts.Atom(a)})) {
					bad = "the call of " + core.FuncKey(fn) + " at " + p.Pos(c.Pos()) + " runs only under " + facts.StripVersions(a)
				}
			}
		}
		w.WalkBody(fd.Decl.Body, nil)
		r.Check(bad == "", rule+"-call", fd.Key()+": consults the focus predicate, but not to decide what the policy engine or the ingress analyzer is fed", p.Pos(fd.Decl.Pos()), "",
			"the focus predicate decides whether the engine is fed ("+bad+"): the filter must be applied only where rows are selected, never where connections are computed")
	}
	r.RuleCounts[rule+"-call"] = nUses
	r.Floor(rule+"-call", 1)
	// the predicate: no focus, or exact name, or exact namespace/name. Decided on every exit of the predicate: under
	// the exit's path condition its answer is equivalent to (none | name | nsname), whatever the shape (one
	// expression, guard clauses, a switch). The three tests are canonical atoms built by what is compared with the
	// focus option; any other test that involves the option has an atom of its own and breaks the equivalence.
	{
		info := pred.Pkg.TypesInfo
		sig := pred.Obj.Type().(*types.Signature)
		var peer *types.Var
		if sig.Params().Len() == 1 {
			peer = sig.Params().At(0)
		}
		isFocus := func(e ast.Expr) bool { return FieldBehind(pred, e) == fld }
		nsNameFn := func(fn *types.Func) bool {
			d := p.ByObj[fn]
			if d == nil {
				return false
			}
			ns, nm := false, false
			ast.Inspect(d.Decl.Body, func(n ast.Node) bool {
				if se, ok := n.(*ast.SelectorExpr); ok {
					ns = ns || se.Sel.Name == "Namespace"
					nm = nm || se.Sel.Name == "Name"
				}
				return true
			})
			return ns && nm
		}
		w := facts.NewWalker(info)
		w.Inline = true
		w.Atomize = func(w *facts.Walker, e ast.Expr) facts.Formula {
			be, ok := e.(*ast.BinaryExpr)
			if !ok || (be.Op != token.EQL && be.Op != token.NEQ) {
				if c, isC := e.(*ast.CallExpr); isC {
					// a non-equality test that involves the focus option (HasSuffix, Contains, ...)
					for _, a := range c.Args {
						if isFocus(a) {
							return facts.Atom("focus:other:" + core.Stable(info, e))
						}
					}
				}
				return nil
			}
			l, rr := ast.Unparen(be.X), ast.Unparen(be.Y)
			if isFocus(rr) {
				l, rr = rr, l
			}
			if !isFocus(l) {
				return nil
			}
			var at facts.Formula
			if v, isC := core.ConstString(info, rr); isC && v == "" {
				at = facts.Atom("focus:none")
			} else if c, isC := rr.(*ast.CallExpr); isC {
				if se, isSe := ast.Unparen(c.Fun).(*ast.SelectorExpr); isSe && se.Sel.Name == "Name" && len(c.Args) == 0 {
					if id, isId := ast.Unparen(se.X).(*ast.Ident); isId && peer != nil && info.ObjectOf(id) == types.Object(peer) {
						at = facts.Atom("focus:name")
					}
				} else if fn := core.Callee(info, c); fn != nil && len(c.Args) == 1 && nsNameFn(fn) {
					if id, isId := ast.Unparen(c.Args[0]).(*ast.Ident); isId && peer != nil && info.ObjectOf(id) == types.Object(peer) {
						at = facts.Atom("focus:nsname")
					}
				}
			}
			if at == nil && peer != nil {
				// the namespace/name text built in place: an expression over both peer.Namespace() and peer.Name()
				ns, nm := false, false
				ast.Inspect(rr, func(n ast.Node) bool {
					if c, isC := n.(*ast.CallExpr); isC && len(c.Args) == 0 {
						if se, isSe := ast.Unparen(c.Fun).(*ast.SelectorExpr); isSe {
							if id, isId := ast.Unparen(se.X).(*ast.Ident); isId && info.ObjectOf(id) == types.Object(peer) {
								ns = ns || se.Sel.Name == "Namespace"
								nm = nm || se.Sel.Name == "Name"
							}
						}
					}
					return true
				})
				if ns && nm {
					at = facts.Atom("focus:nsname")
				}
			}
			if at == nil {
				at = facts.Atom("focus:other:" + core.Stable(info, e))
			}
			if be.Op == token.NEQ {
				return facts.MkNot(at)
			}
			return at
		}
		nExit := 0
		bad := ""
		w.OnExit = func(st int, ret *ast.ReturnStmt, f facts.Formula) {
			if w.FuncLitDepth > 0 || ret == nil || len(ret.Results) != 1 || !facts.Satisfiable(f) {
				return
			}
			nExit++
			none := facts.Formula(facts.Atom("focus:none"))
			for _, a := range facts.Atoms(f) {
				if strings.HasPrefix(a, "empty:") && strings.HasSuffix(facts.StripVersions(a), "."+core.RefName(fld)) {
					none = facts.Or{L: none, R: facts.Atom(a)}
				}
			}
			ans := w.Cond(ret.Results[0])
			for _, a := range facts.Atoms(ans) {
				if strings.HasPrefix(a, "empty:") && strings.HasSuffix(facts.StripVersions(a), "."+core.RefName(fld)) {
					none = facts.Or{L: none, R: facts.Atom(a)}
				}
			}
			want := facts.Or{L: none, R: facts.Or{L: facts.Atom("focus:name"), R: facts.Atom("focus:nsname")}}
			if !facts.Equivalent(f, ans, want) && bad == "" {
				bad = "`return " + core.ExprStr(ret.Results[0]) + "` at " + p.Pos(ret.Pos()) + " under " + facts.StripVersions(facts.String(f))
			}
		}
		w.WalkBody(pred.Decl.Body, nil)
		r.Check(nExit > 0 && bad == "", rule+"-pred", pred.Key()+": matches iff no focus is given, or the name equals it, or namespace/name equals it", p.Pos(pred.Decl.Pos()), fmt.Sprintf("%d exits, each equivalent to (no focus | name == focus | namespace/name == focus) under its path", nExit),
			"the focus predicate is not the disjunction of the three exact equalities (focus == \"\", peer.Name() == focus, namespace/name == focus): "+bad+" - prefix/suffix/substring matching selects other workloads' entries and makes an absent name match")
	}
	// the pair filter: on every exit that is not the constant `false` (those are the exclusions of C05-a / C07-g), the
	// answer is equivalent to pred(src) | pred(dst) under the exit's path condition
	{
		info := incl.Pkg.TypesInfo
		sig := incl.Obj.Type().(*types.Signature)
		src, dst := sig.Params().At(sig.Params().Len()-2), sig.Params().At(sig.Params().Len()-1)
		w := facts.NewWalker(info)
		w.Inline = true
		w.NoInline = func(in *types.Info, c *ast.CallExpr) bool { return core.Callee(in, c) == pred.Obj }
		nExit := 0
		bad := ""
		w.OnExit = func(st int, ret *ast.ReturnStmt, f facts.Formula) {
			if w.FuncLitDepth > 0 || ret == nil || len(ret.Results) != 1 || !facts.Satisfiable(f) {
				return
			}
			if v, isC := core.ConstString(info, ret.Results[0]); isC && v == "false" {
				// an exclusion - unless it is reached because of the focus predicate
				for _, a := range facts.Atoms(f) {
					if strings.Contains(a, "."+core.RefName(pred.Obj)+"(") && (facts.Entails(f, facts.Atom(a)) || facts.Entails(f, facts.Not{X: facts.Atom(a)})) {
						goto judged
					}
				}
				return
			}
		judged:
			nExit++
			var ps, pd facts.Formula = facts.False{}, facts.False{}
			ans := w.Cond(ret.Results[0])
			for _, a := range append(facts.Atoms(f), facts.Atoms(ans)...) {
				if strings.HasPrefix(a, "b:") && strings.HasSuffix(a, "."+core.RefName(pred.Obj)+"("+w.PathOfVar(src)+")") {
					ps = facts.Atom(a)
				}
				if strings.HasPrefix(a, "b:") && strings.HasSuffix(a, "."+core.RefName(pred.Obj)+"("+w.PathOfVar(dst)+")") {
					pd = facts.Atom(a)
				}
			}
			// the atom of the end that is not consulted still exists as a proposition: same call, other argument
			if a, isA := ps.(facts.Atom); isA {
				if _, has := pd.(facts.Atom); !has {
					pd = facts.Atom(strings.TrimSuffix(string(a), "("+w.PathOfVar(src)+")") + "(" + w.PathOfVar(dst) + ")")
				}
			} else if a, isA := pd.(facts.Atom); isA {
				ps = facts.Atom(strings.TrimSuffix(string(a), "("+w.PathOfVar(dst)+")") + "(" + w.PathOfVar(src) + ")")
			}
			if !facts.Equivalent(f, ans, facts.Or{L: ps, R: pd}) && bad == "" {
				bad = "`return " + core.ExprStr(ret.Results[0]) + "` at " + p.Pos(ret.Pos()) + " under " + facts.StripVersions(facts.String(f))
			}
		}
		w.WalkBody(incl.Decl.Body, nil)
		r.Check(nExit > 0 && bad == "", rule+"-pred", incl.Key()+": a pair is kept iff its source OR its destination is the focus workload", p.Pos(incl.Decl.Pos()), "every non-exclusion exit answers isPeerFocusWorkload(src) || isPeerFocusWorkload(dst)",
			"the pair filter does not answer isPeerFocusWorkload(src) || isPeerFocusWorkload(dst) ("+bad+"): entries whose two ends both match (or only one) can be dropped")
	}
	// absent workload: warning, no error. The existence check is found by its call (whatever the local that holds its
	// answer is called, and whether the reaction sits in getConnectionsList or in a helper it delegates to): where the
	// answer is known to be negative a warning is appended, and getConnectionsList returns (nil, _, nil) there.
	if fd := p.Func(core.PkgConnlist, "ConnlistAnalyzer", "getConnectionsList"); fd != nil {
		exists := p.Func(core.PkgConnlist, "ConnlistAnalyzer", "existsFocusWorkload")
		var okWarn, okRet bool
		var helper *core.FuncDecl
		if exists != nil {
			for _, g := range p.FuncsIn(core.PkgConnlist) {
				ginfo := g.Pkg.TypesInfo
				var existVars []*types.Var
				ast.Inspect(g.Decl.Body, func(nd ast.Node) bool {
					as, ok := nd.(*ast.AssignStmt)
					if !ok || len(as.Rhs) != 1 {
						return true
					}
					if c, isC := ast.Unparen(as.Rhs[0]).(*ast.CallExpr); isC && core.Callee(ginfo, c) == exists.Obj && g.Obj != exists.Obj {
						if id, isId := as.Lhs[0].(*ast.Ident); isId {
							if v, isV := ginfo.ObjectOf(id).(*types.Var); isV {
								existVars = append(existVars, v)
							}
						}
					}
					return true
				})
				if len(existVars) == 0 {
					continue
				}
				if g != fd {
					helper = g
				}
				w := facts.NewWalker(ginfo)
				notFound := func(f facts.Formula) bool {
					for _, v := range existVars {
						if facts.Entails(f, facts.MkNot(facts.Atom("b:"+w.PathOfVar(v)))) {
							return true
						}
					}
					return false
				}
				w.OnStmt = func(s ast.Stmt, f facts.Formula) {
					if !notFound(f) {
						return
					}
					switch x := s.(type) {
					case *ast.AssignStmt:
						if len(x.Rhs) == 1 {
							if c, ok := ast.Unparen(x.Rhs[0]).(*ast.CallExpr); ok && core.IsBuiltinCall(ginfo, c, "append") && len(c.Args) == 2 {
								if n, _ := callName(ginfo, ResolveLocal(ginfo, g.Decl.Body, c.Args[1])); n == "newConnlistAnalyzerWarning" {
									okWarn = true
								}
							}
						}
					case *ast.ReturnStmt:
						if g == fd && len(x.Results) == 3 && core.IsNil(ginfo, x.Results[2]) && core.IsNil(ginfo, x.Results[0]) {
							okRet = true
						}
					}
				}
				w.WalkBody(g.Decl.Body, nil)
			}
		}
		if helper != nil && !okRet {
			// getConnectionsList returns (nil, _, nil) where the helper's answer is known
			info := fd.Pkg.TypesInfo
			w := facts.NewWalker(info)
			w.OnStmt = func(s ast.Stmt, f facts.Formula) {
				x, ok := s.(*ast.ReturnStmt)
				if !ok || len(x.Results) != 3 || !core.IsNil(info, x.Results[2]) || !core.IsNil(info, x.Results[0]) {
					return
				}
				for _, a := range facts.Atoms(f) {
					if strings.HasPrefix(a, "b:") && strings.Contains(a, "."+core.RefName(helper.Obj)+"(") && (facts.Entails(f, facts.Atom(a)) || facts.Entails(f, facts.MkNot(facts.Atom(a)))) {
						okRet = true
					}
				}
			}
			w.WalkBody(fd.Decl.Body, nil)
		}
		r.Check(okWarn && okRet, rule+"-absent", fd.Key()+": a focus workload that matches nothing yields an empty result with a warning, not an error", p.Pos(fd.Decl.Pos()), "warning appended, nil error returned", "the not-found branch no longer records a warning and returns (nil, nil, nil)")
	}
}

func flattenOr(e ast.Expr) []ast.Expr {
	e = ast.Unparen(e)
	if be, ok := e.(*ast.BinaryExpr); ok && be.Op == token.LOR {
		return append(flattenOr(be.X), flattenOr(be.Y)...)
	}
	return []ast.Expr{e}
}

// ---------------------------------------------------------------- C17

// WorkloadExpansion is C17-a/-b/-d.
func WorkloadExpansion(p *core.Program, r *core.Report, rule string) {
	fd := p.Func(core.PkgK8s, "", "PodsFromWorkloadObject")
	if fd == nil {
		r.Lost(rule, "k8s.PodsFromWorkloadObject")
		return
	}
	info := fd.Pkg.TypesInfo
	sig := fd.Obj.Type().(*types.Signature)
	obj := func(e ast.Expr) types.Object {
		if id, ok := ast.Unparen(e).(*ast.Ident); ok {
			return info.ObjectOf(id)
		}
		return nil
	}
	// ---- roles of the locals, found by how the generated pods are built (not by what they are called). The pod may
	// be built in place or in a constructor helper called from the loop: then the roles are found among the helper's
	// parameters and carried back to the arguments of the call.
	var podVar, nsVar, nameVar, apiVar, kindVar, templateVar, numVar, replicasVar types.Object
	var nameInFd, kindInFd, apiInFd bool
	okLabels, okPorts := false, false
	hasPodLit := func(g *core.FuncDecl) bool {
		found := false
		ast.Inspect(g.Decl.Body, func(n ast.Node) bool {
			if cl, isCl := n.(*ast.CompositeLit); isCl {
				if nt := core.NamedOf(g.Pkg.TypesInfo.TypeOf(cl)); nt != nil && nt.Obj().Name() == "Pod" {
					found = true
				}
			}
			return !found
		})
		return found
	}
	ctor := fd
	var ctorCall *ast.CallExpr
	if !hasPodLit(fd) {
		ast.Inspect(fd.Decl.Body, func(n ast.Node) bool {
			c, ok := n.(*ast.CallExpr)
			if !ok || ctorCall != nil {
				return true
			}
			if hd := p.ByObj[core.Callee(info, c)]; hd != nil && hd.Pkg.PkgPath == core.PkgK8s && hasPodLit(hd) {
				ctor, ctorCall = hd, c
			}
			return true
		})
	}
	cinfo := ctor.Pkg.TypesInfo
	cobj := func(e ast.Expr) types.Object {
		if id, ok := ast.Unparen(e).(*ast.Ident); ok {
			return cinfo.ObjectOf(id)
		}
		return nil
	}
	ast.Inspect(fd.Decl.Body, func(n ast.Node) bool {
		if c, isC := n.(*ast.CallExpr); isC && core.IsBuiltinCall(info, c, "make") && len(c.Args) == 2 {
			if sl, isSl := info.TypeOf(c).Underlying().(*types.Slice); isSl && core.TypeIs(sl.Elem(), core.PkgK8s, "Pod") {
				numVar = obj(c.Args[1])
			}
		}
		return true
	})
	ast.Inspect(ctor.Decl.Body, func(n ast.Node) bool {
		as, ok := n.(*ast.AssignStmt)
		if !ok || len(as.Lhs) != 1 || len(as.Rhs) != 1 {
			return true
		}
		rhs := ast.Unparen(as.Rhs[0])
		if ue, isU := rhs.(*ast.UnaryExpr); isU && ue.Op == token.AND {
			rhs = ast.Unparen(ue.X)
		}
		if cl, isCl := rhs.(*ast.CompositeLit); isCl {
			if nt := core.NamedOf(cinfo.TypeOf(cl)); nt != nil && nt.Obj().Name() == "Pod" && podVar == nil {
				podVar = cobj(as.Lhs[0])
			}
		}
		return true
	})
	if podVar != nil {
		ast.Inspect(ctor.Decl.Body, func(n ast.Node) bool {
			switch x := n.(type) {
			case *ast.AssignStmt:
				if len(x.Lhs) != 1 || len(x.Rhs) != 1 {
					return true
				}
				se, ok := ast.Unparen(x.Lhs[0]).(*ast.SelectorExpr)
				if !ok || cobj(se.X) != podVar {
					return true
				}
				switch se.Sel.Name {
				case "Namespace":
					nsVar = cobj(x.Rhs[0])
				case "Owner":
					// the owner literal: written here, held in a local, or handed in by the caller of the constructor
					var lit *ast.CompositeLit
					litInFd := ctor == fd
					var find func(g *core.FuncDecl, e ast.Expr, depth int)
					find = func(g *core.FuncDecl, e ast.Expr, depth int) {
						ginfo := g.Pkg.TypesInfo
						e = ast.Unparen(e)
						if cl, isCl := e.(*ast.CompositeLit); isCl {
							lit, litInFd = cl, g == fd
							return
						}
						id, isId := e.(*ast.Ident)
						if !isId || depth > 3 {
							return
						}
						if g == ctor && ctorCall != nil {
							csig := ctor.Obj.Type().(*types.Signature)
							for k := 0; k < csig.Params().Len() && k < len(ctorCall.Args); k++ {
								if ginfo.ObjectOf(id) == types.Object(csig.Params().At(k)) {
									find(fd, ctorCall.Args[k], depth+1)
									return
								}
							}
						}
						if d, _ := defOf(g, id); d != nil {
							find(g, d, depth+1)
						}
					}
					find(ctor, x.Rhs[0], 0)
					if lit != nil {
						lobj := cobj
						if litInFd {
							lobj = obj
						}
						for _, el := range lit.Elts {
							if kv, isKV := el.(*ast.KeyValueExpr); isKV {
								switch core.ExprStr(kv.Key) {
								case "Name":
									nameVar, nameInFd = lobj(kv.Value), litInFd
								case "Kind":
									kindVar, kindInFd = lobj(kv.Value), litInFd
								case "APIVersion":
									apiVar, apiInFd = lobj(kv.Value), litInFd
								}
							}
						}
					}
				case "Labels":
					// pod.Labels = <copy helper>(<template>.Labels): a function of the module that is handed the template's labels
					if c, isC := ast.Unparen(x.Rhs[0]).(*ast.CallExpr); isC && len(c.Args) == 1 && p.ByObj[core.Callee(cinfo, c)] != nil {
						if sl, isS := ast.Unparen(c.Args[0]).(*ast.SelectorExpr); isS && sl.Sel.Name == "Labels" {
							if root := core.RootIdent(sl); root != nil && (templateVar == nil || cinfo.ObjectOf(root) == templateVar) {
								templateVar = cinfo.ObjectOf(root)
								okLabels = true
							}
						}
					}
				case "Ports":
					// pod.Ports = <collecting helper>(<template>.Spec.Containers)
					if c, isC := ast.Unparen(x.Rhs[0]).(*ast.CallExpr); isC && len(c.Args) == 1 && p.ByObj[core.Callee(cinfo, c)] != nil {
						if strings.HasSuffix(core.ExprStr(c.Args[0]), ".Spec.Containers") {
							if root := core.RootIdent(c.Args[0]); root != nil && (templateVar == nil || cinfo.ObjectOf(root) == templateVar) {
								templateVar = cinfo.ObjectOf(root)
								okPorts = true
							}
						}
					}
					// pod.Ports = append(pod.Ports, <template>.Spec.Containers[i].Ports...)
					if c, isC := ast.Unparen(x.Rhs[0]).(*ast.CallExpr); isC && core.IsBuiltinCall(cinfo, c, "append") && len(c.Args) == 2 {
						if strings.Contains(core.ExprStr(c.Args[1]), ".Spec.Containers[") && strings.HasSuffix(core.ExprStr(c.Args[1]), ".Ports") {
							if root := core.RootIdent(c.Args[1]); root != nil && (templateVar == nil || cinfo.ObjectOf(root) == templateVar) {
								templateVar = cinfo.ObjectOf(root)
								okPorts = true
							}
						}
					}
				}
			case *ast.ExprStmt:
				// maps.Copy(pod.Labels, <template>.Labels)
				if c, isC := x.X.(*ast.CallExpr); isC && len(c.Args) == 2 {
					if fn := core.Callee(cinfo, c); fn != nil && fn.Pkg() != nil && fn.Pkg().Path() == "maps" && fn.Name() == "Copy" {
						d, isD := ast.Unparen(c.Args[0]).(*ast.SelectorExpr)
						sl, isS := ast.Unparen(c.Args[1]).(*ast.SelectorExpr)
						if isD && isS && d.Sel.Name == "Labels" && cobj(d.X) == podVar && sl.Sel.Name == "Labels" {
							if root := core.RootIdent(sl); root != nil && (templateVar == nil || cinfo.ObjectOf(root) == templateVar) {
								templateVar = cinfo.ObjectOf(root)
								okLabels = true
							}
						}
					}
				}
			case *ast.RangeStmt:
				// for k, v := range <template>.Labels { pod.Labels[k] = v }
				if se, ok := ast.Unparen(x.X).(*ast.SelectorExpr); ok && se.Sel.Name == "Labels" {
					writes := false
					ast.Inspect(x.Body, func(m ast.Node) bool {
						if as, isAs := m.(*ast.AssignStmt); isAs && len(as.Lhs) == 1 {
							if ix, isIx := ast.Unparen(as.Lhs[0]).(*ast.IndexExpr); isIx {
								if se2, isSe := ast.Unparen(ix.X).(*ast.SelectorExpr); isSe && se2.Sel.Name == "Labels" && cobj(se2.X) == podVar {
									writes = true
								}
							}
						}
						return true
					})
					if writes {
						if root := core.RootIdent(se); root != nil && (templateVar == nil || cinfo.ObjectOf(root) == templateVar) {
							templateVar = cinfo.ObjectOf(root)
							okLabels = true
						}
					}
				}
			}
			return true
		})
	}
	if ctorCall != nil {
		// carry the roles from the constructor's parameters back to the arguments of the call
		csig := ctor.Obj.Type().(*types.Signature)
		back := func(o types.Object) types.Object {
			if o == nil {
				return nil
			}
			for k := 0; k < csig.Params().Len() && k < len(ctorCall.Args); k++ {
				if types.Object(csig.Params().At(k)) == o {
					a := ast.Unparen(ctorCall.Args[k])
					if ue, isU := a.(*ast.UnaryExpr); isU && ue.Op == token.AND {
						a = ast.Unparen(ue.X)
					}
					return obj(a)
				}
			}
			return nil
		}
		nsVar, templateVar = back(nsVar), back(templateVar)
		if !nameInFd {
			nameVar = back(nameVar)
		}
		if !kindInFd {
			kindVar = back(kindVar)
		}
		if !apiInFd {
			apiVar = back(apiVar)
		}
	}
	// the replica count: the variable compared with 1 in the statement that raises the number of generated pods, or the
	// argument of the helper that computes that number
	var countHelper *core.FuncDecl
	ast.Inspect(fd.Decl.Body, func(n ast.Node) bool {
		switch x := n.(type) {
		case *ast.IfStmt:
			if numVar == nil {
				return true
			}
			assignsNum := false
			for _, st := range x.Body.List {
				if as, isAs := st.(*ast.AssignStmt); isAs && len(as.Lhs) == 1 && obj(as.Lhs[0]) == numVar {
					assignsNum = true
				}
			}
			if be, isBE := ast.Unparen(x.Cond).(*ast.BinaryExpr); isBE && assignsNum {
				replicasVar = obj(be.X)
			}
		case *ast.AssignStmt:
			if numVar == nil || len(x.Lhs) != 1 || len(x.Rhs) != 1 || obj(x.Lhs[0]) != numVar {
				return true
			}
			if c, isC := ast.Unparen(x.Rhs[0]).(*ast.CallExpr); isC && len(c.Args) == 1 {
				if hd := p.ByObj[core.Callee(info, c)]; hd != nil && returnsPositiveConstants(p, info, c) {
					replicasVar = obj(c.Args[0])
					countHelper = hd
				}
			}
		}
		return true
	})
	kindParam := types.Object(sig.Params().At(1))
	if podVar == nil || nsVar == nil || nameVar == nil || apiVar == nil || templateVar == nil || numVar == nil || replicasVar == nil {
		r.Add(rule, fd.Key()+": the generated pods are built from (name, namespace, API version, template, replica count) variables", p.Pos(fd.Decl.Pos()), core.Undecided, fmt.Sprintf("the construction of the generated pods was restructured: the roles of the locals could not be recovered (pod %v ns %v name %v api %v template %v count %v replicas %v), re-anchor the rule", podVar != nil, nsVar != nil, nameVar != nil, apiVar != nil, templateVar != nil, numVar != nil, replicasVar != nil))
		return
	}
	r.Check(kindVar == kindParam, rule+"-template", fd.Key()+": generated pods carry the workload's namespace and an owner made of the workload's name, kind and API version", p.Pos(fd.Decl.Pos()), "", "the owner of the generated pods is not built from the workload's name, the kind parameter and the API version")
	r.Check(okLabels && okPorts, rule+"-template", fd.Key()+": generated pods copy labels and container ports from the pod template", p.Pos(fd.Decl.Pos()), "", "labels or ports of the generated pods no longer come from the pod template")
	// ---- sibling cases
	var sw *ast.SwitchStmt
	ast.Inspect(fd.Decl.Body, func(n ast.Node) bool {
		if s, ok := n.(*ast.SwitchStmt); ok && sw == nil && s.Tag != nil && obj(s.Tag) == kindParam {
			sw = s
		}
		return true
	})
	if sw == nil {
		r.Bad(rule, fd.Key()+": dispatches on the workload kind", p.Pos(fd.Decl.Pos()), "no switch on the kind parameter")
		return
	}
	type want struct {
		role string
		v    types.Object
		sufs []string
	}
	wants := []want{{"name", nameVar, []string{".Name"}}, {"namespace", nsVar, []string{".Namespace"}}, {"API version", apiVar, []string{".APIVersion"}},
		{"template", templateVar, []string{".Spec.Template", ".Spec.JobTemplate.Spec.Template"}}}
	for _, cc := range sw.Body.List {
		cl := cc.(*ast.CaseClause)
		if cl.List == nil {
			continue
		}
		kind := kindConst(info, cl.List[0])
		got := map[types.Object]string{}
		var objName string
		var collect func(list []ast.Stmt)
		collect = func(list []ast.Stmt) {
			for _, st := range list {
				switch x := st.(type) {
				case *ast.AssignStmt:
					if len(x.Lhs) != 1 || len(x.Rhs) != 1 {
						continue
					}
					if x.Tok == token.DEFINE {
						if objName == "" {
							objName = core.ExprStr(x.Lhs[0])
						}
						continue
					}
					if o := obj(x.Lhs[0]); o != nil {
						got[o] = core.ExprStr(x.Rhs[0])
					}
				case *ast.IfStmt:
					collect(x.Body.List) // the template may be assigned under a nil guard
				}
			}
		}
		collect(cl.Body)
		var bad []string
		for _, wv := range wants {
			val := strings.TrimPrefix(got[wv.v], "*")
			okv := false
			for _, sfx := range wv.sufs {
				if val == objName+sfx {
					okv = true
				}
			}
			if !okv {
				bad = append(bad, fmt.Sprintf("%s = %s", wv.role, got[wv.v]))
			}
		}
		rep := got[replicasVar]
		okRep := rep == "1"
		if c, isC := func() (*ast.CallExpr, bool) {
			for _, st := range cl.Body {
				if as, isAs := st.(*ast.AssignStmt); isAs && len(as.Lhs) == 1 && obj(as.Lhs[0]) == replicasVar {
					c, ok := ast.Unparen(as.Rhs[0]).(*ast.CallExpr)
					return c, ok
				}
			}
			return nil, false
		}(); isC && len(c.Args) == 1 {
			if fn := core.Callee(info, c); fn != nil && core.RefName(fn) == "getReplicas" {
				a := core.ExprStr(c.Args[0])
				okRep = a == objName+".Spec.Replicas" || a == objName+".Spec.Parallelism"
			}
		}
		if !okRep {
			bad = append(bad, "replica count = "+rep)
		}
		sort.Strings(bad)
		r.Check(len(bad) == 0, rule+"-case", fmt.Sprintf("%s: case %s takes name, namespace, template, API version and replica count from the same-named fields of its object", fd.Key(), kind), p.Pos(cl.Pos()), "",
			"the case assigns "+strings.Join(bad, "; ")+": the same pod template expressed as this kind would be analysed differently from the other kinds")
	}
	r.Floor(rule+"-case", 7)
	// ---- replica non-interference: the replica count is read only in `<count> > 1`
	{
		bad := ""
		lhs := map[*ast.Ident]bool{}
		ast.Inspect(fd.Decl.Body, func(n ast.Node) bool {
			if as, ok := n.(*ast.AssignStmt); ok {
				for _, l := range as.Lhs {
					if id, ok := l.(*ast.Ident); ok {
						lhs[id] = true
					}
				}
			}
			return true
		})
		var parents []ast.Node
		ast.Inspect(fd.Decl.Body, func(n ast.Node) bool {
			if n == nil {
				parents = parents[:len(parents)-1]
				return true
			}
			if id, ok := n.(*ast.Ident); ok && info.ObjectOf(id) == replicasVar && !lhs[id] {
				par := parents[len(parents)-1]
				if _, isVS := par.(*ast.ValueSpec); !isVS {
					be, isBE := par.(*ast.BinaryExpr)
					if !isBE || be.Op != token.GTR || core.ExprStr(be.Y) != "1" {
						if c, isC := par.(*ast.CallExpr); !isC || countHelper == nil || core.Callee(info, c) != countHelper.Obj {
							bad = core.ExprStr(par)
						}
					}
				}
			}
			parents = append(parents, n)
			return true
		})
		if countHelper != nil {
			// inside the helper the count is read only in `count > 1` as well
			hinfo := countHelper.Pkg.TypesInfo
			prm := countHelper.Obj.Type().(*types.Signature).Params().At(0)
			var hp []ast.Node
			ast.Inspect(countHelper.Decl.Body, func(n ast.Node) bool {
				if n == nil {
					hp = hp[:len(hp)-1]
					return true
				}
				if id, ok := n.(*ast.Ident); ok && hinfo.ObjectOf(id) == types.Object(prm) {
					be, isBE := hp[len(hp)-1].(*ast.BinaryExpr)
					if !isBE || be.Op != token.GTR || core.ExprStr(be.Y) != "1" {
						bad = core.ExprStr(hp[len(hp)-1]) + " in " + countHelper.Key()
					}
				}
				hp = append(hp, n)
				return true
			})
		}
		r.Check(bad == "", rule+"-replicas", fd.Key()+": the replica count only decides between one and two generated pods", p.Pos(fd.Decl.Pos()), "read only in `count > 1`", "the replica count flows into "+bad+": connectivity must not depend on the number of replicas")
	}
	// owner of a bare pod: only from an ownerReference whose controller flag is TRUE. Anchored by the EFFECT, not by a
	// function name: every assignment `<pod>.Owner.Name = <ref>.Name` with <ref> an OwnerReference, wherever it is
	// written (in PodFromCoreObject, in a helper it calls, after inlining), runs where `*<ref>.Controller` is known -
	// on its own path, or at every call of the helper that receives the reference, or because the reference is the
	// non-nil answer of a search helper that returns only such references.
	{
		isOwnerRef := func(t types.Type) bool {
			if pt, ok := t.Underlying().(*types.Pointer); ok {
				t = pt.Elem()
			}
			nt := core.NamedOf(t)
			return nt != nil && nt.Obj().Name() == "OwnerReference"
		}
		controllerKnown := func(g *core.FuncDecl, at ast.Node, ref ast.Expr) bool {
			fm, paths, found := FactsAtWith(g, at, nil, []ast.Expr{ref})
			if !found || len(paths) != 1 {
				return false
			}
			pth := strings.TrimPrefix(paths[0], "&")
			return facts.Entails(fm, facts.Atom("b:*"+pth+".Controller"))
		}
		fromSearchHelper := func(g *core.FuncDecl, ref ast.Expr) bool {
			ginfo := g.Pkg.TypesInfo
			id, isId := ast.Unparen(ref).(*ast.Ident)
			if !isId {
				return false
			}
			d, _ := defOf(g, id)
			if d == nil {
				return false
			}
			hc, isC := ast.Unparen(d).(*ast.CallExpr)
			if !isC {
				return false
			}
			hd := p.ByObj[core.Callee(ginfo, hc)]
			if hd == nil {
				return false
			}
			hinfo := hd.Pkg.TypesInfo
			hw := facts.NewWalker(hinfo)
			nAns, okAll := 0, true
			hw.OnExit = func(st int, ret *ast.ReturnStmt, hf facts.Formula) {
				if hw.FuncLitDepth > 0 || ret == nil || len(ret.Results) == 0 || core.IsNil(hinfo, ret.Results[0]) {
					return
				}
				nAns++
				res := ast.Unparen(ret.Results[0])
				if ue, isU := res.(*ast.UnaryExpr); isU && ue.Op == token.AND {
					res = ast.Unparen(ue.X)
				}
				if !facts.Entails(hf, facts.Atom("b:*"+hw.Path(res)+".Controller")) {
					okAll = false
				}
			}
			hw.WalkBody(hd.Decl.Body, nil)
			return nAns > 0 && okAll
		}
		nSites := 0
		for _, g := range p.FuncsIn(core.PkgK8s) {
			ginfo := g.Pkg.TypesInfo
			for _, fw := range FieldWrites(ginfo, g.Decl.Body) {
				if fw.Owner != "Owner" || core.RefName(fw.Field) != "Name" {
					continue
				}
				rse, ok := ast.Unparen(fw.Value).(*ast.SelectorExpr)
				if !ok || rse.Sel.Name != "Name" || !isOwnerRef(ginfo.TypeOf(rse.X)) {
					continue
				}
				nSites++
				ref := rse.X
				// the statement that holds the write (the literal's element sits inside an assignment)
				var as ast.Node = fw.At
				if st := enclosingStmt(g.Decl.Body, fw.At.Pos()); st != nil {
					as = st
				}
				okSite := controllerKnown(g, as, ref) || fromSearchHelper(g, ref)
				if !okSite {
					// the reference is a parameter: every call site establishes it
					if id, isId := ast.Unparen(ref).(*ast.Ident); isId {
						sig := g.Obj.Type().(*types.Signature)
						for k := 0; k < sig.Params().Len(); k++ {
							if ginfo.ObjectOf(id) != types.Object(sig.Params().At(k)) {
								continue
							}
							sites := CallsTo(p, g.Obj)
							okSite = len(sites) > 0
							for _, cs := range sites {
								if k >= len(cs.Call.Args) {
									okSite = false
									continue
								}
								arg := ast.Unparen(cs.Call.Args[k])
								if ue, isU := arg.(*ast.UnaryExpr); isU && ue.Op == token.AND {
									arg = ast.Unparen(ue.X)
								}
								if !controllerKnown(cs.In, cs.Call, arg) && !fromSearchHelper(cs.In, arg) {
									okSite = false
								}
							}
						}
					}
				}
				r.Check(okSite, rule+"-owner", g.Key()+": a pod's workload is the ownerReference whose controller flag is true", p.Pos(as.Pos()), "the owner's name is taken from a reference whose *Controller is known to be true", "the owner is taken from an ownerReference without requiring controller: true: pods are grouped under a non-controlling owner, or pods of different controllers collapse into one peer")
			}
		}
		if nSites == 0 {
			r.Bad(rule+"-owner", "k8s: a pod's workload is the ownerReference whose controller flag is true", "-", "no assignment of a pod's owner name from an ownerReference was found in package k8s: re-anchor the rule")
		}
	}
	// peer key: namespace, owner-or-pod name, kind
	// what a method of WorkloadPeer is built from: the fields of the pod and of its owner it reads and the methods it calls,
	// followed through the methods and helpers of package k8s (so p.Namespace() and pod.Namespace are the same ingredient)
	ingredients := func(root *core.FuncDecl) map[string]bool {
		out := map[string]bool{}
		seen := map[*core.FuncDecl]bool{}
		var visit func(g *core.FuncDecl, depth int)
		visit = func(g *core.FuncDecl, depth int) {
			if g == nil || seen[g] || depth > 2 || g.Pkg.PkgPath != core.PkgK8s {
				return
			}
			seen[g] = true
			ginfo := g.Pkg.TypesInfo
			ast.Inspect(g.Decl.Body, func(n ast.Node) bool {
				switch x := n.(type) {
				case *ast.SelectorExpr:
					if f := core.FieldOf(ginfo, x); f != nil {
						t := ginfo.TypeOf(x.X)
						if pt, isPtr := t.Underlying().(*types.Pointer); isPtr {
							t = pt.Elem()
						}
						if nt := core.NamedOf(t); nt != nil && (nt.Obj().Name() == "Pod" || nt.Obj().Name() == "Owner") {
							out[nt.Obj().Name()+"."+core.RefName(f)] = true
						}
					}
				case *ast.CallExpr:
					if fn := core.Callee(ginfo, x); fn != nil && p.IsModuleFunc(fn) {
						visit(p.ByObj[fn], depth+1)
					}
				}
				return true
			})
		}
		visit(root, 0)
		return out
	}
	if sfd := p.Func(core.PkgK8s, "WorkloadPeer", "String"); sfd != nil {
		in := ingredients(sfd)
		r.Check(in["Pod.Namespace"] && in["Owner.Name"] && in["Pod.Name"] && in["Owner.Kind"], rule+"-key", sfd.Key()+": the peer string is built from namespace, name (owner or pod) and kind", p.Pos(sfd.Decl.Pos()), fmt.Sprintf("%v", sortedKeys(in)), "the peer key no longer includes namespace, name and kind: distinct workloads can shadow each other")
	}
	if nfd := p.Func(core.PkgK8s, "WorkloadPeer", "Name"); nfd != nil {
		in := ingredients(nfd)
		r.Check(in["Owner.Name"] && in["Pod.Name"], rule+"-key", nfd.Key()+": owner name, or the pod's own name without owner", p.Pos(nfd.Decl.Pos()), "", "the workload name is no longer owner-or-pod")
	}
	if cfd := p.Func(core.PkgEval, "PolicyEngine", "createPodOwnersMap"); cfd != nil {
		cinfo := cfd.Pkg.TypesInfo
		ok := false
		ast.Inspect(cfd.Decl.Body, func(n ast.Node) bool {
			if as, isAs := n.(*ast.AssignStmt); isAs && len(as.Lhs) == 1 {
				if ix, isIx := ast.Unparen(as.Lhs[0]).(*ast.IndexExpr); isIx {
					if c, isC := ast.Unparen(ix.Index).(*ast.CallExpr); isC {
						if fn := core.Callee(cinfo, c); fn != nil && core.RefName(fn) == "String" {
							if se, isSe := ast.Unparen(c.Fun).(*ast.SelectorExpr); isSe && core.ExprStr(se.X) == core.ExprStr(as.Rhs[0]) {
								ok = true
							}
						}
					}
				}
			}
			return true
		})
		r.Check(ok, rule+"-key", cfd.Key()+": workloads are keyed by their own peer string", p.Pos(cfd.Decl.Pos()), "res[w.String()] = w", "the owners map is not keyed by the stored peer's own String()")
	}
	r.Floor(rule+"-key", 3)
}

// WorkloadIdentity is C17-identity: wherever the engine identifies an owner (a comparison, a map key, a joined key)
// by Owner.Name it must also use Owner.Kind, and the key under which the pods generated for a workload are stored
// must contain the kind - the peer string does (namespace/name[kind]), so anything coarser lets two workloads that
// differ in kind only replace each other.
func WorkloadIdentity(p *core.Program, r *core.Report, rule string) {
	n := 0
	for _, fd := range p.Funcs {
		info := fd.Pkg.TypesInfo
		nameUse, kindUse := false, false
		var pos token.Pos
		var parents []ast.Node
		ast.Inspect(fd.Decl.Body, func(nd ast.Node) bool {
			if nd == nil {
				parents = parents[:len(parents)-1]
				return true
			}
			// a map keyed by <peer>.Name() identifies a workload by its name alone (the peer string has the kind)
			if ix, ok := nd.(*ast.IndexExpr); ok {
				if c, isCall := ast.Unparen(ix.Index).(*ast.CallExpr); isCall && len(c.Args) == 0 {
					if fn := core.Callee(info, c); fn != nil && core.RefName(fn) == "Name" {
						if cs, isSel := ast.Unparen(c.Fun).(*ast.SelectorExpr); isSel {
							if t := info.TypeOf(cs.X); t != nil && (strings.HasSuffix(t.String(), "eval.Peer") || strings.HasSuffix(t.String(), "k8s.Peer") || core.TypeIs(t, core.PkgK8s, "WorkloadPeer")) {
								if _, isMap := info.TypeOf(ix.X).Underlying().(*types.Map); isMap {
									nameUse = true
									if !pos.IsValid() {
										pos = ix.Pos()
									}
								}
							}
						}
					}
				}
			}
			if se, ok := nd.(*ast.SelectorExpr); ok {
				isName := fieldPathEndsWith(info, se, "Owner", "Name")
				isKind := fieldPathEndsWith(info, se, "Owner", "Kind")
				if isName || isKind {
					// identity use: operand of ==/!=, an index, or an element of a slice literal (joined key)
					id := false
					for i := len(parents) - 1; i >= 0 && i >= len(parents)-3; i-- {
						switch x := parents[i].(type) {
						case *ast.BinaryExpr:
							if x.Op == token.EQL || x.Op == token.NEQ {
								if v, isC := core.ConstString(info, x.Y); !(isC && v == "") {
									id = true
								}
							}
							if x.Op == token.ADD {
								continue
							}
						case *ast.IndexExpr:
							if x.Index == parents[min(i+1, len(parents)-1)] || x.Index == ast.Expr(se) {
								id = true
							}
						case *ast.CompositeLit:
							if _, isSlice := info.TypeOf(x).Underlying().(*types.Slice); isSlice {
								id = true
							}
						}
						break
					}
					if id && isName {
						nameUse = true
						if !pos.IsValid() {
							pos = se.Pos()
						}
					}
					if id && isKind {
						kindUse = true
					}
				}
			}
			parents = append(parents, nd)
			return true
		})
		if !nameUse {
			continue
		}
		n++
		const what = ": identifies an owner by name together with its kind"
		r.Check(kindUse, rule, fd.Key()+what, p.Pos(pos), "Owner.Name and Owner.Kind are both part of the comparison / key",
			"an owner is identified by its name (and namespace) without its kind: two workloads of different kinds with the same name are taken for one, so one of them is dropped from the report or their pods are rejected as inconsistent")
		for _, owner := range SiteOwners(p, fd) {
			r.Alias(rule, fd.Key()+what, owner+what)
		}
	}
	r.RuleCounts[rule+"-sites"] = n
	r.Floor(rule+"-sites", 2)
	// the key of the pods generated for a workload
	iw := p.Func(core.PkgEval, "PolicyEngine", "insertWorkload")
	pw := p.Func(core.PkgK8s, "", "PodsFromWorkloadObject")
	if iw == nil || pw == nil {
		r.Lost(rule, "(*PolicyEngine).insertWorkload / k8s.PodsFromWorkloadObject")
		return
	}
	info := iw.Pkg.TypesInfo
	kindP := iw.Obj.Type().(*types.Signature).Params().At(1)
	keyHasKind := false
	var keyPos token.Pos
	ast.Inspect(iw.Decl.Body, func(nd ast.Node) bool {
		as, ok := nd.(*ast.AssignStmt)
		if !ok || len(as.Lhs) != 1 {
			return true
		}
		ix, ok := ast.Unparen(as.Lhs[0]).(*ast.IndexExpr)
		if !ok {
			return true
		}
		if f := core.FieldOf(info, ix.X); f == nil || core.RefName(f) != "podsMap" {
			return true
		}
		keyPos = as.Pos()
		// the key expression, following one local definition
		exprs := []ast.Expr{ix.Index}
		if id := core.RootIdent(ix.Index); id != nil {
			if d, _ := defOf(iw, id); d != nil {
				exprs = append(exprs, d)
			}
		}
		for _, e := range exprs {
			ast.Inspect(e, func(m ast.Node) bool {
				if id, ok := m.(*ast.Ident); ok && info.ObjectOf(id) == kindP {
					keyHasKind = true
				}
				if se, ok := m.(*ast.SelectorExpr); ok && fieldPathEndsWith(info, se, "Owner", "Kind") {
					keyHasKind = true
				}
				return true
			})
		}
		return true
	})
	// or the generated pod name itself contains the kind
	pinfo := pw.Pkg.TypesInfo
	kindP2 := pw.Obj.Type().(*types.Signature).Params().At(1)
	nameHasKind := false
	ast.Inspect(pw.Decl.Body, func(nd ast.Node) bool {
		as, ok := nd.(*ast.AssignStmt)
		if !ok || len(as.Lhs) != 1 || core.ExprStr(as.Lhs[0]) != "pod.Name" {
			return true
		}
		ast.Inspect(as.Rhs[0], func(m ast.Node) bool {
			if id, ok := m.(*ast.Ident); ok && pinfo.ObjectOf(id) == kindP2 {
				nameHasKind = true
			}
			return true
		})
		return true
	})
	r.Check(keyHasKind || nameHasKind, rule, iw.Key()+": the pods generated for a workload are stored under a key that contains the workload's kind", p.Pos(keyPos), "",
		"the pods generated for a workload are called <name>-<i> and stored under namespace/<name>-<i>: a Deployment and a StatefulSet (or any two kinds) with the same name, or a Pod resource called <name>-1, replace each other in the pods map, and the replaced workload silently disappears from the report")
}
