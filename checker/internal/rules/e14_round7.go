package rules

// Rules added after seeding round 7 (two-site changes and feature additions).

import (
	"go/ast"
	"go/token"
	"go/types"
	"sort"
	"strings"

	"npverif/internal/core"
)

// apiObjectParam returns the parameter of fd whose type is a pointer to a named struct declared outside the module
// (a Kubernetes API object), if fd has exactly one such parameter.
func apiObjectParam(p *core.Program, fd *core.FuncDecl) *types.Var {
	sig := fd.Obj.Type().(*types.Signature)
	var found *types.Var
	for i := 0; i < sig.Params().Len(); i++ {
		v := sig.Params().At(i)
		pt, ok := v.Type().(*types.Pointer)
		if !ok {
			continue
		}
		nt, ok := pt.Elem().(*types.Named)
		if !ok || nt.Obj().Pkg() == nil || strings.HasPrefix(nt.Obj().Pkg().Path(), core.ModPath) {
			continue
		}
		if _, isStruct := nt.Underlying().(*types.Struct); !isStruct {
			continue
		}
		if found != nil {
			return nil
		}
		found = v
	}
	return found
}

// identityComponent says which identity component of an API object a selector denotes: "Namespace" or "Name" of its
// ObjectMeta (promoted or spelled out), "" otherwise. root must be the object parameter.
func identityComponent(info *types.Info, e ast.Expr, root *types.Var) string {
	sel, ok := ast.Unparen(e).(*ast.SelectorExpr)
	if !ok {
		return ""
	}
	if sel.Sel.Name != "Namespace" && sel.Sel.Name != "Name" {
		return ""
	}
	f := core.FieldOf(info, sel)
	if f == nil || f.Pkg() == nil || !strings.HasSuffix(f.Pkg().Path(), "apimachinery/pkg/apis/meta/v1") {
		return ""
	}
	// the base must be the parameter itself, or its ObjectMeta
	x := ast.Unparen(sel.X)
	if s2, ok := x.(*ast.SelectorExpr); ok && s2.Sel.Name == "ObjectMeta" {
		x = ast.Unparen(s2.X)
	}
	id, ok := x.(*ast.Ident)
	if !ok || info.ObjectOf(id) != root {
		return ""
	}
	return sel.Sel.Name
}

// identityDefaults collects the constants that a function substitutes for an identity component of its API-object
// parameter: `obj.Namespace = K`, `v := obj.Namespace; ...; v = K`, `v := helper(obj.Namespace)` where the module
// function helper has a `return K`, and the same one call level down where the object itself is handed on.
// The result maps "Namespace=default" style entries to the position of the defaulting statement.
func identityDefaults(p *core.Program, fd *core.FuncDecl, obj *types.Var, depth int) map[string]token.Pos {
	out := map[string]token.Pos{}
	info := fd.Pkg.TypesInfo
	// locals that name an identity component
	derived := map[types.Object]string{}
	constOf := func(e ast.Expr) (string, bool) {
		if s, ok := core.ConstString(info, e); ok {
			return s, true
		}
		return "", false
	}
	var helperConsts func(call *ast.CallExpr) (comp string, ks []string)
	helperConsts = func(call *ast.CallExpr) (string, []string) {
		fn := core.Callee(info, call)
		if fn == nil || !p.IsModuleFunc(fn) {
			return "", nil
		}
		comp := ""
		for _, a := range call.Args {
			if c := identityComponent(info, a, obj); c != "" {
				comp = c
			} else if id, ok := ast.Unparen(a).(*ast.Ident); ok && derived[info.ObjectOf(id)] != "" {
				comp = derived[info.ObjectOf(id)]
			}
		}
		if comp == "" {
			return "", nil
		}
		h := p.ByObj[fn]
		if h == nil {
			return "", nil
		}
		var ks []string
		hinfo := h.Pkg.TypesInfo
		ast.Inspect(h.Decl.Body, func(n ast.Node) bool {
			if rs, ok := n.(*ast.ReturnStmt); ok {
				for _, x := range rs.Results {
					if s, ok := core.ConstString(hinfo, x); ok && s != "" {
						ks = append(ks, s)
					}
				}
			}
			return true
		})
		return comp, ks
	}
	for pass := 0; pass < 2; pass++ { // two passes: a local may be defined after textual use in a closure; cheap fixpoint
		ast.Inspect(fd.Decl.Body, func(n ast.Node) bool {
			switch x := n.(type) {
			case *ast.AssignStmt:
				if len(x.Lhs) != len(x.Rhs) {
					return true
				}
				for i, l := range x.Lhs {
					rhs := ast.Unparen(x.Rhs[i])
					// what the left side names
					comp := identityComponent(info, l, obj)
					var lobj types.Object
					if id, ok := ast.Unparen(l).(*ast.Ident); ok {
						lobj = info.ObjectOf(id)
						if comp == "" {
							comp = derived[lobj]
						}
					}
					// definitions of derived locals
					if lobj != nil {
						if c := identityComponent(info, rhs, obj); c != "" {
							derived[lobj] = c
							comp = c
						} else if call, ok := rhs.(*ast.CallExpr); ok {
							if c, ks := helperConsts(call); c != "" {
								derived[lobj] = c
								for _, k := range ks {
									if _, seen := out[c+"="+k]; !seen {
										out[c+"="+k] = x.Pos()
									}
								}
							}
						}
					}
					if comp == "" {
						continue
					}
					if k, ok := constOf(rhs); ok && k != "" {
						if _, seen := out[comp+"="+k]; !seen {
							out[comp+"="+k] = x.Pos()
						}
					}
				}
			case *ast.CallExpr:
				// the component handed to a defaulting helper whose result is used in place (map index, argument)
				if c, ks := helperConsts(x); c != "" {
					for _, k := range ks {
						if _, seen := out[c+"="+k]; !seen {
							out[c+"="+k] = x.Pos()
						}
					}
				}
				// the object itself handed on to a module function: its defaults count as ours
				if depth > 0 {
					if fn := core.Callee(info, x); fn != nil && p.IsModuleFunc(fn) {
						if h := p.ByObj[fn]; h != nil {
							sig := fn.Type().(*types.Signature)
							for i, a := range x.Args {
								if id, ok := ast.Unparen(a).(*ast.Ident); ok && info.ObjectOf(id) == obj && i < sig.Params().Len() {
									for k := range identityDefaults(p, h, sig.Params().At(i), depth-1) {
										if _, seen := out[k]; !seen {
											out[k] = x.Pos()
										}
									}
								}
							}
						}
					}
				}
			}
			return true
		})
	}
	return out
}

// ObjectIdentityAgreement is C15-ident (found as defects F23 and F24, repaired). InsertObject and DeleteObject each
// dispatch on the type of the API object to a method of the engine that receives the object. What DeleteObject removes
// must be what InsertObject stored for an EQUAL object - a watch or a caller's own bookkeeping hands DeleteObject another
// pointer with the same metadata, not the pointer that was inserted (which InsertObject may even have rewritten). Two
// necessary conditions, decided for every pair of methods that take the same API type:
//
//	(a) the constants that the insert side substitutes for an identity component of the object (an empty namespace
//	    becomes "default") are substituted by the delete side too, and the reverse: otherwise the two sides look under
//	    different keys for one and the same object;
//	(b) the delete side never recognises the stored object by comparing pointers with its argument.
func ObjectIdentityAgreement(p *core.Program, r *core.Report, rule string) {
	ins := p.Func(core.PkgEval, "PolicyEngine", "InsertObject")
	del := p.Func(core.PkgEval, "PolicyEngine", "DeleteObject")
	if ins == nil || del == nil {
		r.Lost(rule, "(*PolicyEngine).InsertObject / DeleteObject")
		return
	}
	// callee per API type, from the calls inside the two dispatchers
	dispatch := func(fd *core.FuncDecl) map[string]*core.FuncDecl {
		out := map[string]*core.FuncDecl{}
		info := fd.Pkg.TypesInfo
		ast.Inspect(fd.Decl.Body, func(n ast.Node) bool {
			c, ok := n.(*ast.CallExpr)
			if !ok {
				return true
			}
			fn := core.Callee(info, c)
			if fn == nil || !p.IsModuleFunc(fn) {
				return true
			}
			h := p.ByObj[fn]
			if h == nil {
				return true
			}
			if v := apiObjectParam(p, h); v != nil {
				out[types.TypeString(v.Type(), nil)] = h
			}
			return true
		})
		return out
	}
	insBy, delBy := dispatch(ins), dispatch(del)
	var tys []string
	for t := range delBy {
		if insBy[t] != nil {
			tys = append(tys, t)
		}
	}
	sort.Strings(tys)
	n := 0
	for _, t := range tys {
		fi, fdel := insBy[t], delBy[t]
		short := t[strings.LastIndex(t, "/")+1:]
		n++
		di := identityDefaults(p, fi, apiObjectParam(p, fi), 1)
		dd := identityDefaults(p, fdel, apiObjectParam(p, fdel), 1)
		var miss []string
		pos := fdel.Decl.Pos()
		for k := range di {
			if _, ok := dd[k]; !ok {
				miss = append(miss, core.RefName(fi.Obj)+" substitutes "+k+", "+core.RefName(fdel.Obj)+" does not")
			}
		}
		for k, at := range dd {
			if _, ok := di[k]; !ok {
				miss = append(miss, core.RefName(fdel.Obj)+" substitutes "+k+", "+core.RefName(fi.Obj)+" does not")
				pos = at
			}
		}
		sort.Strings(miss)
		r.Check(len(miss) == 0, rule, fdel.Key()+": looks the object up under the identity that the insert side stored it under ("+short+")", p.Pos(pos),
			"both sides substitute the same constants for the identity components of the object",
			strings.Join(miss, "; ")+": an equal object (another pointer, as a watch delivers it) is stored under one key and looked up for deletion under another, so the delete removes nothing and the object goes on deciding CheckIfAllowed")
		// (b) pointer identity with the argument
		obj := apiObjectParam(p, fdel)
		info := fdel.Pkg.TypesInfo
		fromObj := func(e ast.Expr) bool {
			e = ast.Unparen(ResolveLocal(info, fdel.Decl.Body, e))
			if c, ok := e.(*ast.CallExpr); ok && core.IsConversion(info, c) && len(c.Args) == 1 {
				e = ast.Unparen(ResolveLocal(info, fdel.Decl.Body, c.Args[0]))
			}
			id, ok := e.(*ast.Ident)
			return ok && info.ObjectOf(id) == obj
		}
		bad := token.NoPos
		ast.Inspect(fdel.Decl.Body, func(nd ast.Node) bool {
			be, ok := nd.(*ast.BinaryExpr)
			if !ok || (be.Op != token.EQL && be.Op != token.NEQ) {
				return true
			}
			if core.IsNil(info, be.X) || core.IsNil(info, be.Y) {
				return true
			}
			if _, isPtr := info.TypeOf(be.X).Underlying().(*types.Pointer); !isPtr {
				return true
			}
			if (fromObj(be.X) || fromObj(be.Y)) && bad == token.NoPos {
				bad = be.Pos()
			}
			return true
		})
		at := fdel.Decl.Pos()
		if bad != token.NoPos {
			at = bad
		}
		r.Check(bad == token.NoPos, rule, fdel.Key()+": recognises the stored object by its identity attributes, not by the pointer it is given ("+short+")", p.Pos(at),
			"no comparison of a stored pointer with the argument",
			"a stored object is compared with the argument by pointer: an equal object that is another pointer is not found, the delete removes nothing (or only part of the object's state) and the object goes on deciding CheckIfAllowed")
	}
	r.RuleCounts[rule] = n
	r.Floor(rule, 4)
}
