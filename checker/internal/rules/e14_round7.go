package rules

// Rules added after seeding round 7 (two-site changes and feature additions).

import (
	"fmt"
	"go/ast"
	"go/token"
	"go/types"
	"sort"
	"strings"

	"npverif/internal/core"
	"npverif/internal/facts"
)

// apiObjectParam returns the parameter of fd whose type is a pointer to a named struct declared outside the module
// (a Kubernetes API object), if fd has exactly one such parameter.
func apiObjectParam(p *core.Program, fd *core.FuncDecl) *types.Var {
	sig := fd.Obj.Type().(*types.Signature)
	var found *types.Var
	for i := 0; i < sig.Params().Len(); i++ {
		v := sig.Params().At(i)
		pt, ok := v.Type().(*types.Pointer)
		if !ok {
			continue
		}
		nt, ok := pt.Elem().(*types.Named)
		if !ok || nt.Obj().Pkg() == nil || strings.HasPrefix(nt.Obj().Pkg().Path(), core.ModPath) {
			continue
		}
		if _, isStruct := nt.Underlying().(*types.Struct); !isStruct {
			continue
		}
		if found != nil {
			return nil
		}
		found = v
	}
	return found
}

// identityComponent says which identity component of an API object a selector denotes: "Namespace" or "Name" of its
// ObjectMeta (promoted or spelled out), "" otherwise. root must be the object parameter.
func identityComponent(info *types.Info, e ast.Expr, root *types.Var) string {
	sel, ok := ast.Unparen(e).(*ast.SelectorExpr)
	if !ok {
		return ""
	}
	if sel.Sel.Name != "Namespace" && sel.Sel.Name != "Name" {
		return ""
	}
	f := core.FieldOf(info, sel)
	if f == nil || f.Pkg() == nil || !strings.HasSuffix(f.Pkg().Path(), "apimachinery/pkg/apis/meta/v1") {
		return ""
	}
	// the base must be the parameter itself, or its ObjectMeta
	x := ast.Unparen(sel.X)
	if s2, ok := x.(*ast.SelectorExpr); ok && s2.Sel.Name == "ObjectMeta" {
		x = ast.Unparen(s2.X)
	}
	id, ok := x.(*ast.Ident)
	if !ok || info.ObjectOf(id) != root {
		return ""
	}
	return sel.Sel.Name
}

// identityDefaults collects the constants that a function substitutes for an identity component of its API-object
// parameter: `obj.Namespace = K`, `v := obj.Namespace; ...; v = K`, `v := helper(obj.Namespace)` where the module
// function helper has a `return K`, and the same one call level down where the object itself is handed on.
// The result maps "Namespace=default" style entries to the position of the defaulting statement.
func identityDefaults(p *core.Program, fd *core.FuncDecl, obj *types.Var, depth int) map[string]token.Pos {
	out := map[string]token.Pos{}
	info := fd.Pkg.TypesInfo
	// locals that name an identity component
	derived := map[types.Object]string{}
	constOf := func(e ast.Expr) (string, bool) {
		if s, ok := core.ConstString(info, e); ok {
			return s, true
		}
		return "", false
	}
	var helperConsts func(call *ast.CallExpr) (comp string, ks []string)
	helperConsts = func(call *ast.CallExpr) (string, []string) {
		fn := core.Callee(info, call)
		if fn == nil || !p.IsModuleFunc(fn) {
			return "", nil
		}
		comp := ""
		for _, a := range call.Args {
			if c := identityComponent(info, a, obj); c != "" {
				comp = c
			} else if id, ok := ast.Unparen(a).(*ast.Ident); ok && derived[info.ObjectOf(id)] != "" {
				comp = derived[info.ObjectOf(id)]
			}
		}
		if comp == "" {
			return "", nil
		}
		h := p.ByObj[fn]
		if h == nil {
			return "", nil
		}
		var ks []string
		hinfo := h.Pkg.TypesInfo
		ast.Inspect(h.Decl.Body, func(n ast.Node) bool {
			if rs, ok := n.(*ast.ReturnStmt); ok {
				for _, x := range rs.Results {
					if s, ok := core.ConstString(hinfo, x); ok && s != "" {
						ks = append(ks, s)
					}
				}
			}
			return true
		})
		return comp, ks
	}
	for pass := 0; pass < 2; pass++ { // two passes: a local may be defined after textual use in a closure; cheap fixpoint
		ast.Inspect(fd.Decl.Body, func(n ast.Node) bool {
			switch x := n.(type) {
			case *ast.AssignStmt:
				if len(x.Lhs) != len(x.Rhs) {
					return true
				}
				for i, l := range x.Lhs {
					rhs := ast.Unparen(x.Rhs[i])
					// what the left side names
					comp := identityComponent(info, l, obj)
					var lobj types.Object
					if id, ok := ast.Unparen(l).(*ast.Ident); ok {
						lobj = info.ObjectOf(id)
						if comp == "" {
							comp = derived[lobj]
						}
					}
					// definitions of derived locals
					if lobj != nil {
						if c := identityComponent(info, rhs, obj); c != "" {
							derived[lobj] = c
							comp = c
						} else if rid, isID := rhs.(*ast.Ident); isID && derived[info.ObjectOf(rid)] != "" {
							derived[lobj] = derived[info.ObjectOf(rid)] // a copy of a local that names the component
							comp = derived[lobj]
						} else if call, ok := rhs.(*ast.CallExpr); ok {
							if c, ks := helperConsts(call); c != "" {
								derived[lobj] = c
								for _, k := range ks {
									if _, seen := out[c+"="+k]; !seen {
										out[c+"="+k] = x.Pos()
									}
								}
							}
						}
					}
					if comp == "" {
						continue
					}
					if k, ok := constOf(rhs); ok && k != "" {
						if _, seen := out[comp+"="+k]; !seen {
							out[comp+"="+k] = x.Pos()
						}
					}
				}
			case *ast.CallExpr:
				// the component handed to a defaulting helper whose result is used in place (map index, argument)
				if c, ks := helperConsts(x); c != "" {
					for _, k := range ks {
						if _, seen := out[c+"="+k]; !seen {
							out[c+"="+k] = x.Pos()
						}
					}
				}
				// the object itself handed on to a module function: its defaults count as ours
				if depth > 0 {
					if fn := core.Callee(info, x); fn != nil && p.IsModuleFunc(fn) {
						if h := p.ByObj[fn]; h != nil {
							sig := fn.Type().(*types.Signature)
							for i, a := range x.Args {
								if id, ok := ast.Unparen(a).(*ast.Ident); ok && info.ObjectOf(id) == obj && i < sig.Params().Len() {
									for k := range identityDefaults(p, h, sig.Params().At(i), depth-1) {
										if _, seen := out[k]; !seen {
											out[k] = x.Pos()
										}
									}
								}
							}
						}
					}
				}
			}
			return true
		})
	}
	return out
}

// ObjectIdentityAgreement is C15-ident (found as defects F23 and F24, repaired). InsertObject and DeleteObject each
// dispatch on the type of the API object to a method of the engine that receives the object. What DeleteObject removes
// must be what InsertObject stored for an EQUAL object - a watch or a caller's own bookkeeping hands DeleteObject another
// pointer with the same metadata, not the pointer that was inserted (which InsertObject may even have rewritten). Two
// necessary conditions, decided for every pair of methods that take the same API type:
//
//	(a) the constants that the insert side substitutes for an identity component of the object (an empty namespace
//	    becomes "default") are substituted by the delete side too, and the reverse: otherwise the two sides look under
//	    different keys for one and the same object;
//	(b) the delete side never recognises the stored object by comparing pointers with its argument.
func ObjectIdentityAgreement(p *core.Program, r *core.Report, rule string) {
	ins := p.Func(core.PkgEval, "PolicyEngine", "InsertObject")
	del := p.Func(core.PkgEval, "PolicyEngine", "DeleteObject")
	if ins == nil || del == nil {
		r.Lost(rule, "(*PolicyEngine).InsertObject / DeleteObject")
		return
	}
	// callee per API type, from the calls inside the two dispatchers
	dispatch := func(fd *core.FuncDecl) map[string]*core.FuncDecl {
		out := map[string]*core.FuncDecl{}
		info := fd.Pkg.TypesInfo
		ast.Inspect(fd.Decl.Body, func(n ast.Node) bool {
			c, ok := n.(*ast.CallExpr)
			if !ok {
				return true
			}
			fn := core.Callee(info, c)
			if fn == nil || !p.IsModuleFunc(fn) {
				return true
			}
			h := p.ByObj[fn]
			if h == nil {
				return true
			}
			if v := apiObjectParam(p, h); v != nil {
				out[types.TypeString(v.Type(), nil)] = h
			}
			return true
		})
		return out
	}
	insBy, delBy := dispatch(ins), dispatch(del)
	var tys []string
	for t := range delBy {
		if insBy[t] != nil {
			tys = append(tys, t)
		}
	}
	sort.Strings(tys)
	n := 0
	for _, t := range tys {
		fi, fdel := insBy[t], delBy[t]
		short := t[strings.LastIndex(t, "/")+1:]
		n++
		di := identityDefaults(p, fi, apiObjectParam(p, fi), 1)
		dd := identityDefaults(p, fdel, apiObjectParam(p, fdel), 1)
		var miss []string
		pos := fdel.Decl.Pos()
		for k := range di {
			if _, ok := dd[k]; !ok {
				miss = append(miss, core.RefName(fi.Obj)+" substitutes "+k+", "+core.RefName(fdel.Obj)+" does not")
			}
		}
		for k, at := range dd {
			if _, ok := di[k]; !ok {
				miss = append(miss, core.RefName(fdel.Obj)+" substitutes "+k+", "+core.RefName(fi.Obj)+" does not")
				pos = at
			}
		}
		sort.Strings(miss)
		r.Check(len(miss) == 0, rule, fdel.Key()+": looks the object up under the identity that the insert side stored it under ("+short+")", p.Pos(pos),
			"both sides substitute the same constants for the identity components of the object",
			strings.Join(miss, "; ")+": an equal object (another pointer, as a watch delivers it) is stored under one key and looked up for deletion under another, so the delete removes nothing and the object goes on deciding CheckIfAllowed")
		// (b) pointer identity with the argument
		obj := apiObjectParam(p, fdel)
		info := fdel.Pkg.TypesInfo
		fromObj := func(e ast.Expr) bool {
			e = ast.Unparen(ResolveLocal(info, fdel.Decl.Body, e))
			if c, ok := e.(*ast.CallExpr); ok && core.IsConversion(info, c) && len(c.Args) == 1 {
				e = ast.Unparen(ResolveLocal(info, fdel.Decl.Body, c.Args[0]))
			}
			id, ok := e.(*ast.Ident)
			return ok && info.ObjectOf(id) == obj
		}
		bad := token.NoPos
		ast.Inspect(fdel.Decl.Body, func(nd ast.Node) bool {
			be, ok := nd.(*ast.BinaryExpr)
			if !ok || (be.Op != token.EQL && be.Op != token.NEQ) {
				return true
			}
			if core.IsNil(info, be.X) || core.IsNil(info, be.Y) {
				return true
			}
			if _, isPtr := info.TypeOf(be.X).Underlying().(*types.Pointer); !isPtr {
				return true
			}
			if (fromObj(be.X) || fromObj(be.Y)) && bad == token.NoPos {
				bad = be.Pos()
			}
			return true
		})
		at := fdel.Decl.Pos()
		if bad != token.NoPos {
			at = bad
		}
		r.Check(bad == token.NoPos, rule, fdel.Key()+": recognises the stored object by its identity attributes, not by the pointer it is given ("+short+")", p.Pos(at),
			"no comparison of a stored pointer with the argument",
			"a stored object is compared with the argument by pointer: an equal object that is another pointer is not found, the delete removes nothing (or only part of the object's state) and the object goes on deciding CheckIfAllowed")
	}
	r.RuleCounts[rule] = n
	r.Floor(rule, 4)
}

// isAPIPackage: packages whose struct types are decoded Kubernetes API objects.
func isAPIPackage(path string) bool {
	return strings.HasPrefix(path, "k8s.io/api/") || strings.HasPrefix(path, "sigs.k8s.io/network-policy-api/") ||
		strings.HasPrefix(path, "github.com/openshift/api/") || strings.HasSuffix(path, "apimachinery/pkg/apis/meta/v1") ||
		strings.HasSuffix(path, "apimachinery/pkg/util/intstr")
}

// ObjectsEvaluatedAsDecoded is C01-asdecoded (also a condition of C14 and C03). The report is about the manifests the
// user gave: what a policy, a workload or a service SAYS is what the decoder produced from its document. A production
// function that assigns to a field of a decoded API object (a struct type of k8s.io/api, network-policy-api, openshift
// api, meta/v1 or intstr) rewrites the input before it is evaluated - a "normalisation" of ports, policyTypes, selectors
// or labels then decides the semantics instead of the evaluator, for every later reader, and only on the path that runs
// it (list from files vs objects inserted through the API). The one reviewed rewrite is the namespace default
// (metadata.namespace "" -> "default"). Objects a function builds itself (a local defined by a composite literal or new
// in the same function, e.g. the pods generated from a workload template) are its own.
func ObjectsEvaluatedAsDecoded(p *core.Program, r *core.Report, rule string) {
	n := 0
	for _, fd := range p.Funcs {
		if strings.Contains(fd.Pkg.PkgPath, "/testutils") {
			continue
		}
		info := fd.Pkg.TypesInfo
		for _, fw := range FieldWrites(info, fd.Decl.Body) {
			as, ok := fw.At.(*ast.AssignStmt)
			if !ok || fw.Field.Pkg() == nil || !isAPIPackage(fw.Field.Pkg().Path()) {
				continue
			}
			// the object written through: root identifier of the left side
			var lhs ast.Expr
			for i, l := range as.Lhs {
				if i < len(as.Rhs) && as.Rhs[i] == fw.Value {
					lhs = l
				}
			}
			if lhs == nil {
				continue
			}
			root := core.RootIdent(lhs)
			if root == nil {
				continue
			}
			if v, isVar := info.ObjectOf(root).(*types.Var); isVar && !v.IsField() && v.Parent() != v.Pkg().Scope() {
				if definedFresh(fd, info, root) || declaredAsValue(fd, info, v) {
					continue // the function's own object
				}
			}
			n++
			c := fd.Key() + ": assigns " + fw.Owner + "." + fw.Field.Name() + " of an API object it did not build"
			if fw.Field.Name() == "Namespace" && strings.HasSuffix(fw.Field.Pkg().Path(), "meta/v1") {
				r.Add(rule, c, p.Pos(as.Pos()), core.Excepted, "the documented namespace default: an object without metadata.namespace is an object of the default namespace")
				continue
			}
			if why, ok := asDecodedExceptions[core.RefName(fd.Obj)+":"+fw.Owner+"."+fw.Field.Name()]; ok {
				r.Add(rule, c, p.Pos(as.Pos()), core.Excepted, why)
				continue
			}
			r.Bad(rule, c, p.Pos(as.Pos()), "a decoded API object is rewritten before it is evaluated: what the report is computed from is no longer what the manifest says (and only on the path that runs this rewrite - objects handed to the library directly keep the other form), so the evaluated semantics is decided here and not by the evaluator",
				"write: "+core.ExprStr(as))
		}
	}
	// element stores: `rule.Ports[i] = NetworkPolicyPort{...}` replaces a decoded element as a whole
	for _, fd := range p.Funcs {
		if strings.Contains(fd.Pkg.PkgPath, "/testutils") {
			continue
		}
		info := fd.Pkg.TypesInfo
		ast.Inspect(fd.Decl.Body, func(nd ast.Node) bool {
			as, ok := nd.(*ast.AssignStmt)
			if !ok || as.Tok != token.ASSIGN {
				return true
			}
			for _, l := range as.Lhs {
				var target ast.Expr
				switch x := ast.Unparen(l).(type) {
				case *ast.IndexExpr:
					if _, isMap := info.TypeOf(x.X).Underlying().(*types.Map); !isMap {
						target = x
					}
				case *ast.StarExpr:
					target = x
				}
				if target == nil {
					continue
				}
				nt := core.NamedOf(info.TypeOf(target))
				if pt, isPtr := info.TypeOf(target).Underlying().(*types.Pointer); isPtr {
					nt = core.NamedOf(pt.Elem())
				}
				if nt == nil || nt.Obj().Pkg() == nil || !isAPIPackage(nt.Obj().Pkg().Path()) {
					continue
				}
				if _, isStruct := nt.Underlying().(*types.Struct); !isStruct {
					continue
				}
				root := core.RootIdent(target)
				if root == nil {
					continue
				}
				if v, isVar := info.ObjectOf(root).(*types.Var); isVar && !v.IsField() && v.Parent() != v.Pkg().Scope() {
					if definedFresh(fd, info, root) {
						continue
					}
				}
				n++
				r.Bad(rule, fd.Key()+": replaces an element of type "+nt.Obj().Name()+" of an API object it did not build", p.Pos(as.Pos()),
					"a decoded API object is rewritten before it is evaluated: what the report is computed from is no longer what the manifest says (and only on the path that runs this rewrite), so the evaluated semantics is decided here and not by the evaluator",
					"write: "+core.ExprStr(as))
			}
			return true
		})
	}
	r.RuleCounts[rule] = n
	r.Floor(rule, 0)
}

// asDecodedExceptions: reviewed rewrites of decoded objects, keyed by function and field.
var asDecodedExceptions = map[string]string{
	"checkAndUpdatePodStatusIPsFields:PodStatus.HostIP": "a Pod manifest without status.hostIP gets the loopback placeholder: the engine needs an address to build the peer; documented in the function, and no policy semantics depends on the placeholder (node-IP rule: loopback is never a pod's peer address)",
	"checkAndUpdatePodStatusIPsFields:PodStatus.PodIPs": "a Pod manifest without status.podIPs gets the loopback placeholder: the engine needs an address to build the peer; pods are matched by labels, never by address",
}

// declaredAsValue: the variable is a local struct VALUE (not a pointer, not a parameter): `var x T` / `x := T{}` / a range
// copy - writing its fields cannot reach the caller's object.
func declaredAsValue(fd *core.FuncDecl, info *types.Info, v *types.Var) bool {
	if _, isPtr := v.Type().Underlying().(*types.Pointer); isPtr {
		return false
	}
	if _, isStruct := v.Type().Underlying().(*types.Struct); !isStruct {
		return false
	}
	sig := fd.Obj.Type().(*types.Signature)
	for i := 0; i < sig.Params().Len(); i++ {
		if sig.Params().At(i) == v {
			return true // a struct passed by value is a copy too
		}
	}
	if sig.Recv() == v {
		return false
	}
	return true
}

// isSelectorMatches: a call of the Matches method of the apimachinery label-selector interface.
func isSelectorMatches(info *types.Info, c *ast.CallExpr) bool {
	fn := core.Callee(info, c)
	return fn != nil && fn.Name() == "Matches" && fn.Pkg() != nil && strings.HasSuffix(fn.Pkg().Path(), "apimachinery/pkg/labels")
}

// SelectionOwnedByEngine is C03-sel-owner (who-may-call; also a condition of C02). Which pods and namespaces a policy
// selects is decided by label-selector matching inside the policy engine (packages eval and eval/internal/k8s; the ingress
// analyzer matches Service selectors). A second place that matches selectors - a pre-filter of the objects given to
// `eval`, a relevance test in the parser or in connlist - decides selection on its own view of the labels (e.g. without
// the kubernetes.io/metadata.name label the engine adds to a namespace that has no Namespace object) and then disagrees
// with the engine about the same policy: one command drops a policy that the other one applies.
func SelectionOwnedByEngine(p *core.Program, r *core.Report, rule string) {
	owners := map[string]string{
		core.PkgEval: "the policy engine",
		core.PkgK8s:  "the policy engine's policy types",
		core.ModPath + "/pkg/netpol/connlist/internal/ingressanalyzer": "Service selectors -> workloads",
	}
	n := 0
	for _, fd := range p.Funcs {
		if strings.Contains(fd.Pkg.PkgPath, "/testutils") {
			continue
		}
		info := fd.Pkg.TypesInfo
		ast.Inspect(fd.Decl.Body, func(nd ast.Node) bool {
			c, ok := nd.(*ast.CallExpr)
			if !ok || !isSelectorMatches(info, c) {
				return true
			}
			n++
			_, isOwner := owners[fd.Pkg.PkgPath]
			if strings.HasPrefix(fd.Pkg.PkgPath, core.PkgEval+"/") {
				isOwner = true // a package inside the engine (a helper package split off eval or eval/internal/k8s)
			}
			r.Check(isOwner, rule, fd.Key()+": label selectors are matched inside the policy engine only", p.Pos(c.Pos()), "a package that owns selection",
				"a label selector is matched outside the policy engine: a second implementation of `which objects does this policy select` works on its own view of the labels and can disagree with the engine (list and eval, or CLI and API, then apply different policy sets to the same pods)")
			return true
		})
	}
	r.RuleCounts[rule] = n
	r.Floor(rule, 5)
}

// SelectorsMatchObjectLabels is C17-labels (also a condition of C08 and C19). Pods of one owner are reported as ONE
// workload represented by one of them - whichever the map iteration leaves - which is sound because the engine rejects
// owners whose pods differ in their LABELS (C19-labels) and the verdict cache is keyed by the hash of the LABELS. Both
// cover the field Labels and nothing else. So the label set a selector is matched against must be the Labels field of a
// pod or namespace object (or a parameter / local that names such a value); a set computed from further per-pod state
// (identity labels kept apart, annotations, a merged map) makes selection depend on which replica represents the
// workload.
func SelectorsMatchObjectLabels(p *core.Program, r *core.Report, rule string) {
	n := 0
	var okSource func(fd *core.FuncDecl, e ast.Expr, depth int) (bool, string)
	okSource = func(fd *core.FuncDecl, e ast.Expr, depth int) (bool, string) {
		info := fd.Pkg.TypesInfo
		e = ast.Unparen(ResolveLocal(info, fd.Decl.Body, e))
		// labels.Set(x) conversion
		if c, ok := e.(*ast.CallExpr); ok && core.IsConversion(info, c) && len(c.Args) == 1 {
			return okSource(fd, c.Args[0], depth)
		}
		switch x := e.(type) {
		case *ast.SelectorExpr:
			if f := core.FieldOf(info, x); f != nil && (f.Name() == "Labels" || f.Name() == "MatchLabels") {
				return true, ""
			}
			return false, "the field " + x.Sel.Name
		case *ast.Ident:
			if v, ok := info.ObjectOf(x).(*types.Var); ok {
				sig := fd.Obj.Type().(*types.Signature)
				for i := 0; i < sig.Params().Len(); i++ {
					if sig.Params().At(i) == v {
						return true, "" // handed in by the caller: judged at the call sites that pass a field
					}
				}
			}
			return false, "the computed value " + x.Name
		case *ast.CallExpr:
			fn := core.Callee(info, x)
			if fn != nil && p.IsModuleFunc(fn) && depth > 0 {
				if h := p.ByObj[fn]; h != nil {
					all, why := true, ""
					ast.Inspect(h.Decl.Body, func(nd ast.Node) bool {
						if _, isLit := nd.(*ast.FuncLit); isLit {
							return false
						}
						if rs, ok := nd.(*ast.ReturnStmt); ok && len(rs.Results) > 0 {
							if ok2, w := okSource(h, rs.Results[0], depth-1); !ok2 {
								all, why = false, w+" returned by "+core.RefName(fn)
							}
						}
						return true
					})
					return all, why
				}
			}
			return false, "the result of " + core.ExprStr(x.Fun)
		}
		return false, core.ExprStr(e)
	}
	for _, fd := range p.Funcs {
		if strings.Contains(fd.Pkg.PkgPath, "/testutils") {
			continue
		}
		info := fd.Pkg.TypesInfo
		ast.Inspect(fd.Decl.Body, func(nd ast.Node) bool {
			c, ok := nd.(*ast.CallExpr)
			if !ok || !isSelectorMatches(info, c) || len(c.Args) != 1 {
				return true
			}
			n++
			good, why := okSource(fd, c.Args[0], 2)
			r.Check(good, rule, fd.Key()+": a selector is matched against the Labels of an object", p.Pos(c.Pos()), "the matched set is a Labels field (or a parameter naming one)",
				"the label set matched here is "+why+", not the Labels field of the pod / namespace: the same-owner consistency check and the cache key cover Labels only, so pods of one owner may now be selected differently and the workload's connectivity depends on which replica represents it")
			return true
		})
	}
	r.RuleCounts[rule] = n
	r.Floor(rule, 5)
}

// AccumulatorsHandedBack is C07-acc-return (a general shape rule, armed for packages eval and eval/internal/k8s). A
// function that takes a slice and hands back a slice of the same type that is, on some exit, built from the one it was
// given (append(acc, ...), acc itself, a reslice) is an accumulator step: its caller continues with the result. Every
// exit that can be a success (the error result is not known to be non-nil) must then hand back a value built from the
// parameter: `return nil, err` on a path where err may be nil throws away what earlier steps collected - the selectors of
// the earlier rules of a policy, and with them the exposure of the pods they name.
func AccumulatorsHandedBack(p *core.Program, r *core.Report, rule string) {
	n := 0
	for _, pkg := range []string{core.PkgK8s, core.PkgEval} {
		for _, fd := range p.FuncsIn(pkg) {
			sig := fd.Obj.Type().(*types.Signature)
			if sig.Results().Len() == 0 {
				continue
			}
			rt := sig.Results().At(0).Type()
			if _, isSlice := rt.Underlying().(*types.Slice); !isSlice {
				continue
			}
			var acc *types.Var
			for i := 0; i < sig.Params().Len(); i++ {
				if types.Identical(sig.Params().At(i).Type(), rt) {
					if acc != nil {
						acc = nil
						break
					}
					acc = sig.Params().At(i)
				}
			}
			if acc == nil {
				continue
			}
			info := fd.Pkg.TypesInfo
			// locals that hold a value built from the accumulator
			derived := map[types.Object]bool{acc: true}
			var fromAcc func(e ast.Expr) bool
			fromAcc = func(e ast.Expr) bool {
				switch x := ast.Unparen(e).(type) {
				case *ast.Ident:
					return derived[info.ObjectOf(x)]
				case *ast.SliceExpr:
					return fromAcc(x.X)
				case *ast.CallExpr:
					if core.IsBuiltinCall(info, x, "append") && len(x.Args) > 0 {
						return fromAcc(x.Args[0])
					}
					// a callee that is itself an accumulator step for this value
					if fn := core.Callee(info, x); fn != nil && p.IsModuleFunc(fn) {
						for _, a := range x.Args {
							if types.Identical(info.TypeOf(a), rt) && fromAcc(a) {
								return true
							}
						}
					}
				}
				return false
			}
			for changed := true; changed; {
				changed = false
				ast.Inspect(fd.Decl.Body, func(nd ast.Node) bool {
					if as, ok := nd.(*ast.AssignStmt); ok {
						for i, l := range as.Lhs {
							id, isID := ast.Unparen(l).(*ast.Ident)
							if !isID {
								continue
							}
							var rhs ast.Expr
							if len(as.Rhs) == len(as.Lhs) {
								rhs = as.Rhs[i]
							} else if len(as.Rhs) == 1 && i == 0 {
								rhs = as.Rhs[0]
							}
							if rhs != nil && fromAcc(rhs) && !derived[info.ObjectOf(id)] && types.Identical(info.TypeOf(id), rt) {
								derived[info.ObjectOf(id)] = true
								changed = true
							}
						}
					}
					return true
				})
			}
			// is it an accumulator step at all? some return hands back a value built from the parameter (other than the bare parameter)
			isStep := false
			var rets []*ast.ReturnStmt
			ast.Inspect(fd.Decl.Body, func(nd ast.Node) bool {
				if _, isLit := nd.(*ast.FuncLit); isLit {
					return false
				}
				if ret, ok := nd.(*ast.ReturnStmt); ok && len(ret.Results) == sig.Results().Len() {
					rets = append(rets, ret)
					if fromAcc(ret.Results[0]) {
						if id, isID := ast.Unparen(ret.Results[0]).(*ast.Ident); !isID || info.ObjectOf(id) != acc {
							isStep = true
						}
					}
				}
				return true
			})
			if !isStep {
				continue
			}
			w := facts.NewWalker(info)
			w.OnExit = func(st int, ret *ast.ReturnStmt, f facts.Formula) {
				if w.FuncLitDepth > 0 || ret == nil || len(ret.Results) != sig.Results().Len() {
					return
				}
				n++
				c := fd.Key() + ": `return " + exprList(ret.Results) + "` hands back what was accumulated so far"
				if fromAcc(ret.Results[0]) {
					r.OK(rule, c, p.Pos(ret.Pos()), "built from the accumulator parameter")
					return
				}
				if IsErrorReturn(p, w, fd.Obj, ret, f) {
					r.OK(rule, c, p.Pos(ret.Pos()), "an error return: the caller stops")
					return
				}
				r.Bad(rule, c, p.Pos(ret.Pos()), "an exit that can be a success hands back a value that is not built from the accumulator "+acc.Name()+": what the earlier steps collected is thrown away (for the exposure pre-scan: the selectors of the earlier rules of the policy, so no representative peer is generated for them and their exposure is not reported)")
			}
			w.WalkBody(fd.Decl.Body, nil)
			_ = rets
		}
	}
	r.RuleCounts[rule] = n
	r.Floor(rule, 0)
}

// FormattersKeepTheirInput is C09-readonly. A report value (the rows of a connection list, the four lists of a diff) can
// be rendered more than once - ConnectionsListToString / ConnectivityDiffToString are library calls, and the accessors
// of a diff hand out its lists - so rendering must leave it as it was. A function of the formatting layer that REWRITES
// the elements of a slice parameter (the in-place filter `out := in[:0]; out = append(out, x)`, an element store
// `in[i] = x`, copy(in, ...)), directly or through a callee, may only ever be handed a slice that was built for the
// occasion: a call site that hands it a struct field, or the result of a function that returns a field or a parameter
// as it is, lets one rendering destroy the rows of the next (the first output is right, every later one has lost or
// duplicated rows). Sorting in place keeps the rows and is not a rewrite in this sense.
func FormattersKeepTheirInput(p *core.Program, r *core.Report, rule string) {
	fns := formatterFuncs(p)
	inLayer := map[*types.Func]*core.FuncDecl{}
	for _, fd := range fns {
		inLayer[fd.Obj] = fd
	}
	isSlice := func(t types.Type) bool {
		if t == nil {
			return false
		}
		_, ok := t.Underlying().(*types.Slice)
		return ok
	}
	// rewrites[fn][i]: parameter i of fn is rewritten in place (position of the witness)
	rewrites := map[*types.Func]map[int]token.Pos{}
	paramIndex := func(fd *core.FuncDecl) map[types.Object]int {
		m := map[types.Object]int{}
		sig := fd.Obj.Type().(*types.Signature)
		for i := 0; i < sig.Params().Len(); i++ {
			if isSlice(sig.Params().At(i).Type()) {
				m[sig.Params().At(i)] = i
			}
		}
		return m
	}
	mark := func(fn *types.Func, i int, at token.Pos) bool {
		if rewrites[fn] == nil {
			rewrites[fn] = map[int]token.Pos{}
		}
		if _, ok := rewrites[fn][i]; ok {
			return false
		}
		rewrites[fn][i] = at
		return true
	}
	for changed := true; changed; {
		changed = false
		for _, fd := range fns {
			info := fd.Pkg.TypesInfo
			pidx := paramIndex(fd)
			if len(pidx) == 0 {
				continue
			}
			// aliases: locals that share the backing array of a parameter (p, p[:k], alias of those)
			alias := map[types.Object]int{}
			for o, i := range pidx {
				alias[o] = i
			}
			var root func(e ast.Expr) (int, bool)
			root = func(e ast.Expr) (int, bool) {
				switch x := ast.Unparen(e).(type) {
				case *ast.Ident:
					i, ok := alias[info.ObjectOf(x)]
					return i, ok
				case *ast.SliceExpr:
					return root(x.X)
				}
				return 0, false
			}
			for grow := true; grow; {
				grow = false
				ast.Inspect(fd.Decl.Body, func(nd ast.Node) bool {
					if as, ok := nd.(*ast.AssignStmt); ok && len(as.Lhs) == len(as.Rhs) {
						for k, l := range as.Lhs {
							id, isID := ast.Unparen(l).(*ast.Ident)
							if !isID {
								continue
							}
							// only a RESLICE (or plain copy of the header) keeps the array; append(x, ...) is handled below
							if _, isSl := ast.Unparen(as.Rhs[k]).(*ast.SliceExpr); isSl {
								if i, ok := root(as.Rhs[k]); ok {
									if _, seen := alias[info.ObjectOf(id)]; !seen {
										alias[info.ObjectOf(id)] = i
										grow = true
									}
								}
							}
						}
					}
					return true
				})
			}
			resliced := func(e ast.Expr) (int, bool) { // a value that is a reslice of a parameter (not the bare parameter)
				switch x := ast.Unparen(e).(type) {
				case *ast.SliceExpr:
					return root(x.X)
				case *ast.Ident:
					if _, isParam := pidx[info.ObjectOf(x)]; isParam {
						return 0, false
					}
					i, ok := alias[info.ObjectOf(x)]
					return i, ok
				}
				return 0, false
			}
			ast.Inspect(fd.Decl.Body, func(nd ast.Node) bool {
				switch x := nd.(type) {
				case *ast.AssignStmt:
					for _, l := range x.Lhs {
						if ix, ok := ast.Unparen(l).(*ast.IndexExpr); ok && isSlice(info.TypeOf(ix.X)) {
							if i, ok := root(ix.X); ok && mark(fd.Obj, i, x.Pos()) {
								changed = true
							}
						}
					}
				case *ast.CallExpr:
					if core.IsBuiltinCall(info, x, "append") && len(x.Args) > 0 {
						if i, ok := resliced(x.Args[0]); ok && mark(fd.Obj, i, x.Pos()) {
							changed = true
						}
					}
					if core.IsBuiltinCall(info, x, "copy") && len(x.Args) == 2 {
						if i, ok := root(x.Args[0]); ok && mark(fd.Obj, i, x.Pos()) {
							changed = true
						}
					}
					if fn := core.Callee(info, x); fn != nil && rewrites[fn] != nil {
						for ai, a := range x.Args {
							if _, rw := rewrites[fn][ai]; rw {
								if i, ok := root(a); ok && mark(fd.Obj, i, x.Pos()) {
									changed = true
								}
							}
						}
					}
				}
				return true
			})
		}
	}
	// freshness of what a function returns: every returned slice is a local built in the function (make / literal / nil
	// grown by append), never a field or a parameter
	var returnsFresh func(fn *types.Func, depth int) bool
	returnsFresh = func(fn *types.Func, depth int) bool {
		fd := p.ByObj[fn]
		if fd == nil && depth <= 2 {
			// a method of an interface: every implementation of the module
			impls := 0
			for _, g := range p.Impls(fn) {
				if g == fn || p.ByObj[g] == nil {
					continue
				}
				impls++
				if !returnsFresh(g, depth+1) {
					return false
				}
			}
			return impls > 0
		}
		if fd == nil || depth > 2 {
			return false
		}
		info := fd.Pkg.TypesInfo
		fresh := true
		ast.Inspect(fd.Decl.Body, func(nd ast.Node) bool {
			if _, isLit := nd.(*ast.FuncLit); isLit {
				return false
			}
			ret, ok := nd.(*ast.ReturnStmt)
			if !ok {
				return true
			}
			for _, res := range ret.Results {
				if !isSlice(info.TypeOf(res)) {
					continue
				}
				switch x := ast.Unparen(res).(type) {
				case *ast.Ident:
					v, isVar := info.ObjectOf(x).(*types.Var)
					if !isVar || v.IsField() {
						fresh = false
						break
					}
					sig := fn.Type().(*types.Signature)
					for i := 0; i < sig.Params().Len(); i++ {
						if sig.Params().At(i) == v {
							fresh = false
						}
					}
					if v.Parent() == v.Pkg().Scope() {
						fresh = false
					}
				case *ast.CallExpr:
					if core.IsBuiltinCall(info, x, "make") || core.IsBuiltinCall(info, x, "append") {
						break
					}
					if g := core.Callee(info, x); g == nil || !returnsFresh(g, depth+1) {
						fresh = false
					}
				case *ast.CompositeLit:
				default:
					fresh = false
				}
			}
			return true
		})
		return fresh
	}
	n := 0
	for _, fd := range fns {
		info := fd.Pkg.TypesInfo
		pidx := paramIndex(fd)
		ast.Inspect(fd.Decl.Body, func(nd ast.Node) bool {
			c, ok := nd.(*ast.CallExpr)
			if !ok {
				return true
			}
			fn := core.Callee(info, c)
			if fn == nil || rewrites[fn] == nil {
				return true
			}
			for ai, a := range c.Args {
				if _, rw := rewrites[fn][ai]; !rw {
					continue
				}
				n++
				construct := fd.Key() + ": " + core.RefName(fn) + " rewrites its slice argument #" + fmt.Sprint(ai) + " in place and is handed a slice built for the occasion"
				x := ast.Unparen(ResolveLocal(info, fd.Decl.Body, a))
				bad := ""
				switch y := x.(type) {
				case *ast.Ident:
					if _, isParam := pidx[info.ObjectOf(y)]; isParam {
						continue // the caller's own parameter: judged at ITS call sites (it is marked as rewriting too)
					}
					if v, isVar := info.ObjectOf(y).(*types.Var); isVar && v.Pkg() != nil && v.Parent() == v.Pkg().Scope() {
						bad = "a package variable"
					}
				case *ast.SelectorExpr:
					if core.FieldOf(info, y) != nil {
						bad = "the field " + core.ExprStr(y)
					}
				case *ast.CallExpr:
					if core.IsBuiltinCall(info, y, "make") || core.IsBuiltinCall(info, y, "append") {
						break
					}
					if g := core.Callee(info, y); g == nil || !returnsFresh(g, 0) {
						bad = "the result of " + core.ExprStr(y.Fun) + ", which can hand out a field or a parameter as it is"
					}
				}
				r.Check(bad == "", rule, construct, p.Pos(c.Pos()), "a fresh slice",
					core.RefName(fn)+" rewrites the elements of the slice it is given (witness at "+p.Pos(rewrites[fn][ai])+") and is handed "+bad+": rendering a report rewrites the report itself, so the first output is right and every later rendering (another format, the accessors of the diff) has lost or duplicated rows")
			}
			return true
		})
	}
	// an entry of the layer must not rewrite what the API user hands in
	for _, fd := range fns {
		if !fd.Obj.Exported() || rewrites[fd.Obj] == nil {
			continue
		}
		for i, at := range rewrites[fd.Obj] {
			n++
			r.Bad(rule, fd.Key()+": an exported rendering function leaves the slice it is given as it was", p.Pos(at), fmt.Sprintf("parameter #%d of an exported function of the formatting layer is rewritten in place: the caller's report is changed by rendering it", i))
		}
	}
	r.RuleCounts[rule] = n
	r.Extra[rule+"_functions_in_layer"] = len(fns)
	r.RuleCounts[rule+"-fns"] = len(fns)
	r.Floor(rule+"-fns", 30)
	r.Floor(rule, 0)
}

// splitFormMatchesLayout decides the split-and-compare form of the owner scan (C15-inv-match) against the layout of the
// cache key: `fields := strings.Split(cacheKey, SEP)`, removal under a disjunction of
// `strings.Join(fields[a:b], SEP) == ownerKey`. It agrees with the layout iff (1) SEP is the separator getPodOwnerKey
// joins with, (2) the compared groups include [0:n] and [n:2n], n being the number of parts of an owner key, and (3) no
// part of an owner key can contain the separator: namespace and owner name are Kubernetes names (assumption), the label
// variant must come out of an encoder whose alphabet excludes the separator (hex). Returns (reason, true) when it agrees,
// (reason, false) when the form is recognised but disagrees, ("", false) when it is not this form at all.
func splitFormMatchesLayout(p *core.Program, m *core.FuncDecl, rs *ast.RangeStmt, rc *ast.CallExpr) (string, bool) {
	info := m.Pkg.TypesInfo
	loopVar, _ := rs.Value.(*ast.Ident)
	if loopVar == nil {
		return "", false
	}
	var guard *ast.IfStmt
	ast.Inspect(rs.Body, func(nd ast.Node) bool {
		if ifs, ok := nd.(*ast.IfStmt); ok && ifs.Body.Pos() <= rc.Pos() && rc.End() <= ifs.Body.End() {
			guard = ifs
		}
		return true
	})
	if guard == nil {
		return "", false
	}
	constText := func(ti *types.Info, scope ast.Node, e ast.Expr) (string, bool) {
		e = ast.Unparen(ResolveLocal(ti, scope, e))
		if c, ok := e.(*ast.CallExpr); ok && core.IsConversion(ti, c) && len(c.Args) == 1 {
			e = ast.Unparen(c.Args[0])
		}
		if tv, ok := ti.Types[e]; ok && tv.Value != nil {
			return tv.Value.ExactString(), true
		}
		return "", false
	}
	isStrings := func(ti *types.Info, c *ast.CallExpr, name string) bool {
		fn := core.Callee(ti, c)
		return fn != nil && fn.Pkg() != nil && fn.Pkg().Path() == "strings" && fn.Name() == name
	}
	type group struct{ lo, hi int64 }
	var groups []group
	sepUsed := ""
	recognised := true
	recv := m.Obj.Type().(*types.Signature).Recv()
	var disj func(e ast.Expr)
	disj = func(e ast.Expr) {
		be, ok := ast.Unparen(e).(*ast.BinaryExpr)
		if !ok {
			recognised = false
			return
		}
		if be.Op == token.LOR {
			disj(be.X)
			disj(be.Y)
			return
		}
		if be.Op != token.EQL {
			recognised = false
			return
		}
		for _, side := range [][2]ast.Expr{{be.X, be.Y}, {be.Y, be.X}} {
			j, ok := ast.Unparen(ResolveLocal(info, m.Decl.Body, side[0])).(*ast.CallExpr)
			if !ok || !isStrings(info, j, "Join") || len(j.Args) != 2 {
				continue
			}
			sl, ok := ast.Unparen(j.Args[0]).(*ast.SliceExpr)
			if !ok {
				continue
			}
			sp, ok := ast.Unparen(ResolveLocal(info, m.Decl.Body, sl.X)).(*ast.CallExpr)
			if !ok || !isStrings(info, sp, "Split") || len(sp.Args) != 2 {
				continue
			}
			if id, isID := ast.Unparen(sp.Args[0]).(*ast.Ident); !isID || info.ObjectOf(id) != info.ObjectOf(loopVar) {
				continue
			}
			s1, ok1 := constText(info, m.Decl.Body, j.Args[1])
			s2, ok2 := constText(info, m.Decl.Body, sp.Args[1])
			if !ok1 || !ok2 || s1 != s2 {
				continue
			}
			var lo, hi int64 = 0, -1
			good := true
			if sl.Low != nil {
				if v, isC := constInt64(info, sl.Low); isC {
					lo = v
				} else {
					good = false
				}
			}
			if sl.High != nil {
				if v, isC := constInt64(info, sl.High); isC {
					hi = v
				} else {
					good = false
				}
			}
			if !good {
				continue
			}
			if id, isID := ast.Unparen(ResolveLocal(info, m.Decl.Body, side[1])).(*ast.Ident); isID {
				if v, isVar := info.ObjectOf(id).(*types.Var); isVar && isParamOrRecv(m, info, id) && v != recv {
					sepUsed = s1
					groups = append(groups, group{lo, hi})
					return
				}
			}
		}
		recognised = false
	}
	disj(guard.Cond)
	if !recognised || len(groups) == 0 {
		return "", false
	}
	ok := p.Func(core.PkgEval, "", "getPodOwnerKey")
	if ok == nil {
		return "getPodOwnerKey not found", false
	}
	var nParts int64
	sepKey := ""
	oinfo := ok.Pkg.TypesInfo
	ast.Inspect(ok.Decl.Body, func(nd ast.Node) bool {
		if c, isC := nd.(*ast.CallExpr); isC && len(c.Args) == 2 && isStrings(oinfo, c, "Join") {
			if cl, isCL := ast.Unparen(c.Args[0]).(*ast.CompositeLit); isCL {
				nParts = int64(len(cl.Elts))
			}
			if t, has := constText(oinfo, ok.Decl.Body, c.Args[1]); has {
				sepKey = t
			}
		}
		return true
	})
	if nParts == 0 || sepKey == "" {
		return "the owner key is not a strings.Join of a literal list with a constant separator", false
	}
	if sepUsed != sepKey {
		return "the key is split at " + sepUsed + " but joined with " + sepKey, false
	}
	have := map[group]bool{}
	for _, g := range groups {
		have[g] = true
	}
	if !have[group{0, nParts}] || !have[group{nParts, 2 * nParts}] {
		return fmt.Sprintf("the compared field groups %v do not include the source owner key [0:%d] and the destination owner key [%d:%d]", groups, nParts, nParts, 2*nParts), false
	}
	vf := p.Func(core.PkgK8s, "", "variantFromLabelsMap")
	if vf == nil {
		return "variantFromLabelsMap not found", false
	}
	vinfo := vf.Pkg.TypesInfo
	sepFree := true
	nRet := 0
	ast.Inspect(vf.Decl.Body, func(nd ast.Node) bool {
		ret, isRet := nd.(*ast.ReturnStmt)
		if !isRet || len(ret.Results) != 1 {
			return true
		}
		nRet++
		c, isC := ast.Unparen(ResolveLocal(vinfo, vf.Decl.Body, ret.Results[0])).(*ast.CallExpr)
		if !isC {
			sepFree = false
			return true
		}
		fn := core.Callee(vinfo, c)
		if fn == nil || fn.Pkg() == nil || !(fn.Pkg().Path() == "encoding/hex" && fn.Name() == "EncodeToString") {
			sepFree = false
		}
		return true
	})
	if !sepFree || nRet == 0 {
		return "the label variant of an owner key is not produced by a hex encoder, so it may contain the separator (a label key with a prefix does): the fields of the split key shift and no entry of that owner is ever found", false
	}
	return fmt.Sprintf("split at the key's separator and compared with the owner key as a whole on the field groups [0:%d] and [%d:%d]; the variant is hex text, namespace and owner name are Kubernetes names (no separator)", nParts, nParts, 2*nParts), true
}

// PairFilterExclusions is C06-pairs (also a condition of C08 and C16). Exposure data of a pod are computed lazily, as a
// side effect of evaluating the pairs the pod takes part in, and the bookkeeping of connlist reads them at the FIRST pair
// in which the pod is the destination - which is a pair with an IP block as source, because GetPeersList puts the IP
// peers first (C06-order) and the pair filter keeps every (IP block, workload) pair of a reported workload. A new reason
// to exclude pairs (an option that drops the pairs with an IP end, or all pairs but those with one named peer) makes the
// first pair of a workload one whose source may be restricted, the ingress side is then never evaluated there, and the
// report says `not protected` or `entire cluster` for a pod that a policy governs - or says so in some runs only,
// depending on map order. So every constant `false` exit of the pair filter is taken on a path whose condition entails
// one of the reviewed reasons: both ends are IP blocks; the two ends are the same peer (equal String()); an exclusion
// under the exposure option (judged by C07-g); neither end is the focus workload.
func PairFilterExclusions(p *core.Program, r *core.Report, rule string) {
	fd := p.Func(core.PkgConnlist, "ConnlistAnalyzer", "includePairOfWorkloads")
	if fd == nil {
		r.Lost(rule, "(*ConnlistAnalyzer).includePairOfWorkloads")
		return
	}
	info := fd.Pkg.TypesInfo
	sig := fd.Obj.Type().(*types.Signature)
	var peers []*types.Var
	for i := 0; i < sig.Params().Len(); i++ {
		if strings.HasSuffix(sig.Params().At(i).Type().String(), "connlist.Peer") || strings.HasSuffix(sig.Params().At(i).Type().String(), "eval.Peer") {
			peers = append(peers, sig.Params().At(i))
		}
	}
	if len(peers) != 2 {
		r.Add(rule, fd.Key()+": (src, dst) peer parameters", p.Pos(fd.Decl.Pos()), core.Undecided, "the pair filter no longer takes exactly two peers")
		return
	}
	n := 0
	w := facts.NewWalker(info)
	w.Inline = true // one-line boolean helpers (areBothPeersIPType, isSelfLoopedPair, ...) are read through
	w.NoInline = func(in *types.Info, c *ast.CallExpr) bool {
		fn := core.Callee(in, c)
		return fn != nil && (core.RefName(fn) == "isPeerFocusWorkload" || core.RefName(fn) == "includePairWithRepresentativePeer")
	}
	w.OnExit = func(st int, ret *ast.ReturnStmt, f facts.Formula) {
		if w.FuncLitDepth > 0 || ret == nil || len(ret.Results) != 1 {
			return
		}
		if v, _ := core.ConstString(info, ret.Results[0]); v != "false" {
			return
		}
		n++
		src, dst := w.PathOfVar(peers[0]), w.PathOfVar(peers[1])
		known := func(a string, val bool) bool {
			if val {
				return facts.Entails(f, facts.Atom(a))
			}
			return facts.Entails(f, facts.MkNot(facts.Atom(a)))
		}
		reason := ""
		var ipSrc, ipDst bool
		notFocus := 0
		for _, a := range facts.Atoms(f) {
			sa := facts.StripVersions(a)
			switch {
			case strings.HasSuffix(sa, ".IsPeerIPType()") && known(a, true):
				if strings.Contains(a, src+".") {
					ipSrc = true
				}
				if strings.Contains(a, dst+".") {
					ipDst = true
				}
			case strings.Contains(sa, ".String()") && strings.Contains(a, src+".") && strings.Contains(a, dst+".") && known(a, true):
				reason = "the two ends are the same peer"
			case strings.HasSuffix(sa, ".exposureAnalysis") && known(a, true):
				reason = "an exclusion under the exposure option (its cases are judged by C07-g)"
			case strings.Contains(sa, "isPeerFocusWorkload(") && known(a, false):
				notFocus++
			}
		}
		if ipSrc && ipDst {
			reason = "both ends are IP blocks"
		}
		if notFocus >= 2 {
			reason = "neither end is the focus workload"
		}
		r.Check(reason != "", rule, fd.Key()+": `return false` "+fmt.Sprint(n)+" excludes a pair for a reviewed reason only", p.Pos(ret.Pos()), reason,
			"the pair filter excludes pairs under "+facts.StripVersions(facts.String(f))+", which entails none of the reviewed reasons (both ends IP blocks; the same peer; an exclusion under the exposure option; neither end the focus workload): the exposure data of a pod are read at the first pair in which it is the destination, and that pair must be one whose source is an unrestricted IP block - with other pairs excluded the report says `not protected` / `entire cluster` for a governed pod, in some runs or in all")
	}
	w.WalkBody(fd.Decl.Body, nil)
	r.RuleCounts[rule] = n
	r.Floor(rule, 1)
}

// OwnerLabelsAlwaysCompared is C19-labels-always. The check that rejects pods of one owner with different labels accepts
// a pod without comparing in two cases only: the pod has no owner, or it is the first pod of its owner (the lookup of
// the owner's representative failed). Every other `return nil` comes after the label comparison ran. Equality of a
// digest or of the cache-key variant is not a comparison - it has collisions, and where it has them two pods with
// different labels are accepted as one workload.
func OwnerLabelsAlwaysCompared(p *core.Program, r *core.Report, rule string) {
	fd := p.Func(core.PkgEval, "PolicyEngine", "checkConsistentLabelsForPodsOfSameOwner")
	cmp := p.Func(core.PkgEval, "", "diffBetweenPodsLabels")
	if fd == nil || cmp == nil {
		r.Lost(rule, "(*PolicyEngine).checkConsistentLabelsForPodsOfSameOwner / diffBetweenPodsLabels")
		return
	}
	if fd == cmp {
		r.Add(rule, fd.Key()+": every acceptance follows the comparison of the two label maps", p.Pos(fd.Decl.Pos()), core.Discharged, "the comparison was inlined into the check: judged by C19-labels")
		r.RuleCounts[rule] = 1
		return
	}
	info := fd.Pkg.TypesInfo
	// ok-variables of comma-ok map lookups
	okVars := map[types.Object]bool{}
	ast.Inspect(fd.Decl.Body, func(nd ast.Node) bool {
		if as, isAs := nd.(*ast.AssignStmt); isAs && len(as.Lhs) == 2 && len(as.Rhs) == 1 {
			if _, isIx := ast.Unparen(as.Rhs[0]).(*ast.IndexExpr); isIx {
				if id, isID := as.Lhs[1].(*ast.Ident); isID {
					okVars[info.ObjectOf(id)] = true
				}
			}
		}
		return true
	})
	n := 0
	w := facts.NewWalker(info)
	w.Transfer = func(st int, nd ast.Node, f facts.Formula) int {
		if c, ok := nd.(*ast.CallExpr); ok && core.Callee(info, c) == cmp.Obj {
			return 1
		}
		return st
	}
	w.OnExit = func(st int, ret *ast.ReturnStmt, f facts.Formula) {
		if w.FuncLitDepth > 0 || ret == nil || len(ret.Results) != 1 || !core.IsNil(info, ret.Results[0]) {
			return
		}
		n++
		c := fd.Key() + ": acceptance #" + fmt.Sprint(n) + " follows the comparison of the two label maps, or the pod has no owner / is its owner's first pod"
		if st == 1 {
			r.OK(rule, c, p.Pos(ret.Pos()), "after diffBetweenPodsLabels")
			return
		}
		// the reasons for accepting without a comparison, as formulas over the atoms of the path condition; the exit is fine
		// when its condition entails their disjunction
		var reasons facts.Formula = facts.False{}
		why := ""
		variantUsed, injective := false, false
		for _, a := range facts.Atoms(f) {
			sa := facts.StripVersions(a)
			switch {
			case strings.HasPrefix(sa, "eq:") && strings.Contains(sa, ".Owner.Name==\"\""):
				reasons = facts.MkOr(reasons, facts.Atom(a)) // the pod has no owner
			case strings.HasPrefix(sa, "b:"):
				for o := range okVars {
					if v, isVar := o.(*types.Var); isVar && facts.StripVersions("b:"+w.PathOfVar(v)) == sa {
						reasons = facts.MkOr(reasons, facts.MkNot(facts.Atom(a))) // the first pod of its owner
					}
				}
			case strings.HasPrefix(sa, "eq:") && strings.Count(sa, ".Owner.Variant") == 2:
				// equality of the label VARIANT of the two pods stands for equality of the label maps exactly when the
				// variant is an injective encoding of the whole map - the condition C15-d-key decides for the cache key
				variantUsed = true
				sub := core.NewReport("C19")
				CacheKeyShape(p, sub, "variant")
				for _, o := range sub.Obs {
					if strings.Contains(o.Construct, "entry-delimited encoding of the whole label map") {
						injective = o.Status == core.Discharged
					}
				}
				if injective {
					reasons = facts.MkOr(reasons, facts.Atom(a))
				}
			case strings.HasPrefix(sa, "eq:") && !strings.Contains(sa, ".") && !strings.Contains(sa, "\""):
				// the two pods are one and the same object (pointer equality of two plain variables)
				reasons = facts.MkOr(reasons, facts.Atom(a))
			}
		}
		if facts.Entails(f, reasons) {
			why = "no owner, the owner's first pod, the same pod object, or equal variants under an injective variant encoding"
		} else if variantUsed && !injective {
			r.Bad(rule, c, p.Pos(ret.Pos()), "a pod is accepted because its label variant equals that of its owner's representative, but the variant is not an injective encoding of the label map (see C15-d-key): label sets that collide are accepted as equal, and pods of one owner with different labels are reported as one workload")
			return
		}
		r.Check(why != "", rule, c, p.Pos(ret.Pos()), why,
			"a pod is accepted under "+facts.StripVersions(facts.String(f))+" without its labels having been compared with those of its owner's representative: equality of a digest or variant has collisions, and pods of one owner with different labels are then reported as one workload with the labels of whichever pod comes first")
	}
	w.WalkBody(fd.Decl.Body, nil)
	r.RuleCounts[rule] = n
	r.Floor(rule, 2)
}

// NamespaceObjectOnlyNilForRepresentatives is E2-N3-ns, the premise of two tabled exceptions of E2-N3: the admin-policy
// matchers dereference `peer.GetPeerNamespace()` without a nil test, which is sound because (1) IP peers are excluded
// before (C02-d), (2) representative peers never meet admin policies, and (3) every other pod peer is given a namespace
// object - the functions of package eval that supply it (result types *k8s.Namespace, error) answer `nil, nil` only for
// a representative pod. A further `nil, nil` (for the fake ingress-controller pod, for a namespace that is not in the
// engine, ...) lets a real pod reach those dereferences with a nil namespace object.
func NamespaceObjectOnlyNilForRepresentatives(p *core.Program, r *core.Report, rule string) {
	n, fns := 0, 0
	for _, fd := range p.FuncsIn(core.PkgEval) {
		sig := fd.Obj.Type().(*types.Signature)
		if sig.Results().Len() != 2 || !core.IsErrorType(sig.Results().At(1).Type()) {
			continue
		}
		pt, isPtr := sig.Results().At(0).Type().(*types.Pointer)
		if !isPtr || !core.TypeIs(pt.Elem(), core.PkgK8s, "Namespace") {
			continue
		}
		fns++
		info := fd.Pkg.TypesInfo
		w := facts.NewWalker(info)
		w.OnExit = func(st int, ret *ast.ReturnStmt, f facts.Formula) {
			if w.FuncLitDepth > 0 || ret == nil || len(ret.Results) != 2 || !core.IsNil(info, ret.Results[0]) || !core.IsNil(info, ret.Results[1]) {
				return
			}
			n++
			ok := false
			for _, a := range facts.Atoms(f) {
				if strings.Contains(facts.StripVersions(a), "IsPodRepresentative()") && facts.Entails(f, facts.Atom(a)) {
					ok = true
				}
			}
			r.Check(ok, rule, fd.Key()+": answers `no namespace object, no error` for representative pods only", p.Pos(ret.Pos()), "under IsPodRepresentative()",
				"`nil, nil` is returned under "+facts.StripVersions(facts.String(f))+", which does not entail that the pod is a representative peer: a real (or the fake ingress-controller) pod gets a nil namespace object, and the admin-policy matchers dereference it without a test (exceptions of E2-N3 rest on this)")
		}
		w.WalkBody(fd.Decl.Body, nil)
	}
	r.RuleCounts[rule] = n
	r.RuleCounts[rule+"-fns"] = fns
	// the supplier may be inlined into its caller (then nothing has the signature and the rule has no instance): no floor
	r.Floor(rule+"-fns", 0)
	r.Floor(rule, 0)
}
