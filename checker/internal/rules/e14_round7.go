package rules

// Rules added after seeding round 7 (two-site changes and feature additions).

import (
	"go/ast"
	"go/token"
	"go/types"
	"sort"
	"strings"

	"npverif/internal/core"
)

// apiObjectParam returns the parameter of fd whose type is a pointer to a named struct declared outside the module
// (a Kubernetes API object), if fd has exactly one such parameter.
func apiObjectParam(p *core.Program, fd *core.FuncDecl) *types.Var {
	sig := fd.Obj.Type().(*types.Signature)
	var found *types.Var
	for i := 0; i < sig.Params().Len(); i++ {
		v := sig.Params().At(i)
		pt, ok := v.Type().(*types.Pointer)
		if !ok {
			continue
		}
		nt, ok := pt.Elem().(*types.Named)
		if !ok || nt.Obj().Pkg() == nil || strings.HasPrefix(nt.Obj().Pkg().Path(), core.ModPath) {
			continue
		}
		if _, isStruct := nt.Underlying().(*types.Struct); !isStruct {
			continue
		}
		if found != nil {
			return nil
		}
		found = v
	}
	return found
}

// identityComponent says which identity component of an API object a selector denotes: "Namespace" or "Name" of its
// ObjectMeta (promoted or spelled out), "" otherwise. root must be the object parameter.
func identityComponent(info *types.Info, e ast.Expr, root *types.Var) string {
	sel, ok := ast.Unparen(e).(*ast.SelectorExpr)
	if !ok {
		return ""
	}
	if sel.Sel.Name != "Namespace" && sel.Sel.Name != "Name" {
		return ""
	}
	f := core.FieldOf(info, sel)
	if f == nil || f.Pkg() == nil || !strings.HasSuffix(f.Pkg().Path(), "apimachinery/pkg/apis/meta/v1") {
		return ""
	}
	// the base must be the parameter itself, or its ObjectMeta
	x := ast.Unparen(sel.X)
	if s2, ok := x.(*ast.SelectorExpr); ok && s2.Sel.Name == "ObjectMeta" {
		x = ast.Unparen(s2.X)
	}
	id, ok := x.(*ast.Ident)
	if !ok || info.ObjectOf(id) != root {
		return ""
	}
	return sel.Sel.Name
}

// identityDefaults collects the constants that a function substitutes for an identity component of its API-object
// parameter: `obj.Namespace = K`, `v := obj.Namespace; ...; v = K`, `v := helper(obj.Namespace)` where the module
// function helper has a `return K`, and the same one call level down where the object itself is handed on.
// The result maps "Namespace=default" style entries to the position of the defaulting statement.
func identityDefaults(p *core.Program, fd *core.FuncDecl, obj *types.Var, depth int) map[string]token.Pos {
	out := map[string]token.Pos{}
	info := fd.Pkg.TypesInfo
	// locals that name an identity component
	derived := map[types.Object]string{}
	constOf := func(e ast.Expr) (string, bool) {
		if s, ok := core.ConstString(info, e); ok {
			return s, true
		}
		return "", false
	}
	var helperConsts func(call *ast.CallExpr) (comp string, ks []string)
	helperConsts = func(call *ast.CallExpr) (string, []string) {
		fn := core.Callee(info, call)
		if fn == nil || !p.IsModuleFunc(fn) {
			return "", nil
		}
		comp := ""
		for _, a := range call.Args {
			if c := identityComponent(info, a, obj); c != "" {
				comp = c
			} else if id, ok := ast.Unparen(a).(*ast.Ident); ok && derived[info.ObjectOf(id)] != "" {
				comp = derived[info.ObjectOf(id)]
			}
		}
		if comp == "" {
			return "", nil
		}
		h := p.ByObj[fn]
		if h == nil {
			return "", nil
		}
		var ks []string
		hinfo := h.Pkg.TypesInfo
		ast.Inspect(h.Decl.Body, func(n ast.Node) bool {
			if rs, ok := n.(*ast.ReturnStmt); ok {
				for _, x := range rs.Results {
					if s, ok := core.ConstString(hinfo, x); ok && s != "" {
						ks = append(ks, s)
					}
				}
			}
			return true
		})
		return comp, ks
	}
	for pass := 0; pass < 2; pass++ { // two passes: a local may be defined after textual use in a closure; cheap fixpoint
		ast.Inspect(fd.Decl.Body, func(n ast.Node) bool {
			switch x := n.(type) {
			case *ast.AssignStmt:
				if len(x.Lhs) != len(x.Rhs) {
					return true
				}
				for i, l := range x.Lhs {
					rhs := ast.Unparen(x.Rhs[i])
					// what the left side names
					comp := identityComponent(info, l, obj)
					var lobj types.Object
					if id, ok := ast.Unparen(l).(*ast.Ident); ok {
						lobj = info.ObjectOf(id)
						if comp == "" {
							comp = derived[lobj]
						}
					}
					// definitions of derived locals
					if lobj != nil {
						if c := identityComponent(info, rhs, obj); c != "" {
							derived[lobj] = c
							comp = c
						} else if call, ok := rhs.(*ast.CallExpr); ok {
							if c, ks := helperConsts(call); c != "" {
								derived[lobj] = c
								for _, k := range ks {
									if _, seen := out[c+"="+k]; !seen {
										out[c+"="+k] = x.Pos()
									}
								}
							}
						}
					}
					if comp == "" {
						continue
					}
					if k, ok := constOf(rhs); ok && k != "" {
						if _, seen := out[comp+"="+k]; !seen {
							out[comp+"="+k] = x.Pos()
						}
					}
				}
			case *ast.CallExpr:
				// the component handed to a defaulting helper whose result is used in place (map index, argument)
				if c, ks := helperConsts(x); c != "" {
					for _, k := range ks {
						if _, seen := out[c+"="+k]; !seen {
							out[c+"="+k] = x.Pos()
						}
					}
				}
				// the object itself handed on to a module function: its defaults count as ours
				if depth > 0 {
					if fn := core.Callee(info, x); fn != nil && p.IsModuleFunc(fn) {
						if h := p.ByObj[fn]; h != nil {
							sig := fn.Type().(*types.Signature)
							for i, a := range x.Args {
								if id, ok := ast.Unparen(a).(*ast.Ident); ok && info.ObjectOf(id) == obj && i < sig.Params().Len() {
									for k := range identityDefaults(p, h, sig.Params().At(i), depth-1) {
										if _, seen := out[k]; !seen {
											out[k] = x.Pos()
										}
									}
								}
							}
						}
					}
				}
			}
			return true
		})
	}
	return out
}

// ObjectIdentityAgreement is C15-ident (found as defects F23 and F24, repaired). InsertObject and DeleteObject each
// dispatch on the type of the API object to a method of the engine that receives the object. What DeleteObject removes
// must be what InsertObject stored for an EQUAL object - a watch or a caller's own bookkeeping hands DeleteObject another
// pointer with the same metadata, not the pointer that was inserted (which InsertObject may even have rewritten). Two
// necessary conditions, decided for every pair of methods that take the same API type:
//
//	(a) the constants that the insert side substitutes for an identity component of the object (an empty namespace
//	    becomes "default") are substituted by the delete side too, and the reverse: otherwise the two sides look under
//	    different keys for one and the same object;
//	(b) the delete side never recognises the stored object by comparing pointers with its argument.
func ObjectIdentityAgreement(p *core.Program, r *core.Report, rule string) {
	ins := p.Func(core.PkgEval, "PolicyEngine", "InsertObject")
	del := p.Func(core.PkgEval, "PolicyEngine", "DeleteObject")
	if ins == nil || del == nil {
		r.Lost(rule, "(*PolicyEngine).InsertObject / DeleteObject")
		return
	}
	// callee per API type, from the calls inside the two dispatchers
	dispatch := func(fd *core.FuncDecl) map[string]*core.FuncDecl {
		out := map[string]*core.FuncDecl{}
		info := fd.Pkg.TypesInfo
		ast.Inspect(fd.Decl.Body, func(n ast.Node) bool {
			c, ok := n.(*ast.CallExpr)
			if !ok {
				return true
			}
			fn := core.Callee(info, c)
			if fn == nil || !p.IsModuleFunc(fn) {
				return true
			}
			h := p.ByObj[fn]
			if h == nil {
				return true
			}
			if v := apiObjectParam(p, h); v != nil {
				out[types.TypeString(v.Type(), nil)] = h
			}
			return true
		})
		return out
	}
	insBy, delBy := dispatch(ins), dispatch(del)
	var tys []string
	for t := range delBy {
		if insBy[t] != nil {
			tys = append(tys, t)
		}
	}
	sort.Strings(tys)
	n := 0
	for _, t := range tys {
		fi, fdel := insBy[t], delBy[t]
		short := t[strings.LastIndex(t, "/")+1:]
		n++
		di := identityDefaults(p, fi, apiObjectParam(p, fi), 1)
		dd := identityDefaults(p, fdel, apiObjectParam(p, fdel), 1)
		var miss []string
		pos := fdel.Decl.Pos()
		for k := range di {
			if _, ok := dd[k]; !ok {
				miss = append(miss, core.RefName(fi.Obj)+" substitutes "+k+", "+core.RefName(fdel.Obj)+" does not")
			}
		}
		for k, at := range dd {
			if _, ok := di[k]; !ok {
				miss = append(miss, core.RefName(fdel.Obj)+" substitutes "+k+", "+core.RefName(fi.Obj)+" does not")
				pos = at
			}
		}
		sort.Strings(miss)
		r.Check(len(miss) == 0, rule, fdel.Key()+": looks the object up under the identity that the insert side stored it under ("+short+")", p.Pos(pos),
			"both sides substitute the same constants for the identity components of the object",
			strings.Join(miss, "; ")+": an equal object (another pointer, as a watch delivers it) is stored under one key and looked up for deletion under another, so the delete removes nothing and the object goes on deciding CheckIfAllowed")
		// (b) pointer identity with the argument
		obj := apiObjectParam(p, fdel)
		info := fdel.Pkg.TypesInfo
		fromObj := func(e ast.Expr) bool {
			e = ast.Unparen(ResolveLocal(info, fdel.Decl.Body, e))
			if c, ok := e.(*ast.CallExpr); ok && core.IsConversion(info, c) && len(c.Args) == 1 {
				e = ast.Unparen(ResolveLocal(info, fdel.Decl.Body, c.Args[0]))
			}
			id, ok := e.(*ast.Ident)
			return ok && info.ObjectOf(id) == obj
		}
		bad := token.NoPos
		ast.Inspect(fdel.Decl.Body, func(nd ast.Node) bool {
			be, ok := nd.(*ast.BinaryExpr)
			if !ok || (be.Op != token.EQL && be.Op != token.NEQ) {
				return true
			}
			if core.IsNil(info, be.X) || core.IsNil(info, be.Y) {
				return true
			}
			if _, isPtr := info.TypeOf(be.X).Underlying().(*types.Pointer); !isPtr {
				return true
			}
			if (fromObj(be.X) || fromObj(be.Y)) && bad == token.NoPos {
				bad = be.Pos()
			}
			return true
		})
		at := fdel.Decl.Pos()
		if bad != token.NoPos {
			at = bad
		}
		r.Check(bad == token.NoPos, rule, fdel.Key()+": recognises the stored object by its identity attributes, not by the pointer it is given ("+short+")", p.Pos(at),
			"no comparison of a stored pointer with the argument",
			"a stored object is compared with the argument by pointer: an equal object that is another pointer is not found, the delete removes nothing (or only part of the object's state) and the object goes on deciding CheckIfAllowed")
	}
	r.RuleCounts[rule] = n
	r.Floor(rule, 4)
}

// isAPIPackage: packages whose struct types are decoded Kubernetes API objects.
func isAPIPackage(path string) bool {
	return strings.HasPrefix(path, "k8s.io/api/") || strings.HasPrefix(path, "sigs.k8s.io/network-policy-api/") ||
		strings.HasPrefix(path, "github.com/openshift/api/") || strings.HasSuffix(path, "apimachinery/pkg/apis/meta/v1") ||
		strings.HasSuffix(path, "apimachinery/pkg/util/intstr")
}

// ObjectsEvaluatedAsDecoded is C01-asdecoded (also a condition of C14 and C03). The report is about the manifests the
// user gave: what a policy, a workload or a service SAYS is what the decoder produced from its document. A production
// function that assigns to a field of a decoded API object (a struct type of k8s.io/api, network-policy-api, openshift
// api, meta/v1 or intstr) rewrites the input before it is evaluated - a "normalisation" of ports, policyTypes, selectors
// or labels then decides the semantics instead of the evaluator, for every later reader, and only on the path that runs
// it (list from files vs objects inserted through the API). The one reviewed rewrite is the namespace default
// (metadata.namespace "" -> "default"). Objects a function builds itself (a local defined by a composite literal or new
// in the same function, e.g. the pods generated from a workload template) are its own.
func ObjectsEvaluatedAsDecoded(p *core.Program, r *core.Report, rule string) {
	n := 0
	for _, fd := range p.Funcs {
		if strings.Contains(fd.Pkg.PkgPath, "/testutils") {
			continue
		}
		info := fd.Pkg.TypesInfo
		for _, fw := range FieldWrites(info, fd.Decl.Body) {
			as, ok := fw.At.(*ast.AssignStmt)
			if !ok || fw.Field.Pkg() == nil || !isAPIPackage(fw.Field.Pkg().Path()) {
				continue
			}
			// the object written through: root identifier of the left side
			var lhs ast.Expr
			for i, l := range as.Lhs {
				if i < len(as.Rhs) && as.Rhs[i] == fw.Value {
					lhs = l
				}
			}
			if lhs == nil {
				continue
			}
			root := core.RootIdent(lhs)
			if root == nil {
				continue
			}
			if v, isVar := info.ObjectOf(root).(*types.Var); isVar && !v.IsField() && v.Parent() != v.Pkg().Scope() {
				if definedFresh(fd, info, root) || declaredAsValue(fd, info, v) {
					continue // the function's own object
				}
			}
			n++
			c := fd.Key() + ": assigns " + fw.Owner + "." + fw.Field.Name() + " of an API object it did not build"
			if fw.Field.Name() == "Namespace" && strings.HasSuffix(fw.Field.Pkg().Path(), "meta/v1") {
				r.Add(rule, c, p.Pos(as.Pos()), core.Excepted, "the documented namespace default: an object without metadata.namespace is an object of the default namespace")
				continue
			}
			if why, ok := asDecodedExceptions[core.RefName(fd.Obj)+":"+fw.Owner+"."+fw.Field.Name()]; ok {
				r.Add(rule, c, p.Pos(as.Pos()), core.Excepted, why)
				continue
			}
			r.Bad(rule, c, p.Pos(as.Pos()), "a decoded API object is rewritten before it is evaluated: what the report is computed from is no longer what the manifest says (and only on the path that runs this rewrite - objects handed to the library directly keep the other form), so the evaluated semantics is decided here and not by the evaluator",
				"write: "+core.ExprStr(as))
		}
	}
	// element stores: `rule.Ports[i] = NetworkPolicyPort{...}` replaces a decoded element as a whole
	for _, fd := range p.Funcs {
		if strings.Contains(fd.Pkg.PkgPath, "/testutils") {
			continue
		}
		info := fd.Pkg.TypesInfo
		ast.Inspect(fd.Decl.Body, func(nd ast.Node) bool {
			as, ok := nd.(*ast.AssignStmt)
			if !ok || as.Tok != token.ASSIGN {
				return true
			}
			for _, l := range as.Lhs {
				var target ast.Expr
				switch x := ast.Unparen(l).(type) {
				case *ast.IndexExpr:
					if _, isMap := info.TypeOf(x.X).Underlying().(*types.Map); !isMap {
						target = x
					}
				case *ast.StarExpr:
					target = x
				}
				if target == nil {
					continue
				}
				nt := core.NamedOf(info.TypeOf(target))
				if pt, isPtr := info.TypeOf(target).Underlying().(*types.Pointer); isPtr {
					nt = core.NamedOf(pt.Elem())
				}
				if nt == nil || nt.Obj().Pkg() == nil || !isAPIPackage(nt.Obj().Pkg().Path()) {
					continue
				}
				if _, isStruct := nt.Underlying().(*types.Struct); !isStruct {
					continue
				}
				root := core.RootIdent(target)
				if root == nil {
					continue
				}
				if v, isVar := info.ObjectOf(root).(*types.Var); isVar && !v.IsField() && v.Parent() != v.Pkg().Scope() {
					if definedFresh(fd, info, root) {
						continue
					}
				}
				n++
				r.Bad(rule, fd.Key()+": replaces an element of type "+nt.Obj().Name()+" of an API object it did not build", p.Pos(as.Pos()),
					"a decoded API object is rewritten before it is evaluated: what the report is computed from is no longer what the manifest says (and only on the path that runs this rewrite), so the evaluated semantics is decided here and not by the evaluator",
					"write: "+core.ExprStr(as))
			}
			return true
		})
	}
	r.RuleCounts[rule] = n
	r.Floor(rule, 0)
}

// asDecodedExceptions: reviewed rewrites of decoded objects, keyed by function and field.
var asDecodedExceptions = map[string]string{
	"checkAndUpdatePodStatusIPsFields:PodStatus.HostIP": "a Pod manifest without status.hostIP gets the loopback placeholder: the engine needs an address to build the peer; documented in the function, and no policy semantics depends on the placeholder (node-IP rule: loopback is never a pod's peer address)",
	"checkAndUpdatePodStatusIPsFields:PodStatus.PodIPs": "a Pod manifest without status.podIPs gets the loopback placeholder: the engine needs an address to build the peer; pods are matched by labels, never by address",
}

// declaredAsValue: the variable is a local struct VALUE (not a pointer, not a parameter): `var x T` / `x := T{}` / a range
// copy - writing its fields cannot reach the caller's object.
func declaredAsValue(fd *core.FuncDecl, info *types.Info, v *types.Var) bool {
	if _, isPtr := v.Type().Underlying().(*types.Pointer); isPtr {
		return false
	}
	if _, isStruct := v.Type().Underlying().(*types.Struct); !isStruct {
		return false
	}
	sig := fd.Obj.Type().(*types.Signature)
	for i := 0; i < sig.Params().Len(); i++ {
		if sig.Params().At(i) == v {
			return true // a struct passed by value is a copy too
		}
	}
	if sig.Recv() == v {
		return false
	}
	return true
}

// isSelectorMatches: a call of the Matches method of the apimachinery label-selector interface.
func isSelectorMatches(info *types.Info, c *ast.CallExpr) bool {
	fn := core.Callee(info, c)
	return fn != nil && fn.Name() == "Matches" && fn.Pkg() != nil && strings.HasSuffix(fn.Pkg().Path(), "apimachinery/pkg/labels")
}

// SelectionOwnedByEngine is C03-sel-owner (who-may-call; also a condition of C02). Which pods and namespaces a policy
// selects is decided by label-selector matching inside the policy engine (packages eval and eval/internal/k8s; the ingress
// analyzer matches Service selectors). A second place that matches selectors - a pre-filter of the objects given to
// `eval`, a relevance test in the parser or in connlist - decides selection on its own view of the labels (e.g. without
// the kubernetes.io/metadata.name label the engine adds to a namespace that has no Namespace object) and then disagrees
// with the engine about the same policy: one command drops a policy that the other one applies.
func SelectionOwnedByEngine(p *core.Program, r *core.Report, rule string) {
	owners := map[string]string{
		core.PkgEval: "the policy engine",
		core.PkgK8s:  "the policy engine's policy types",
		core.ModPath + "/pkg/netpol/connlist/internal/ingressanalyzer": "Service selectors -> workloads",
	}
	n := 0
	for _, fd := range p.Funcs {
		if strings.Contains(fd.Pkg.PkgPath, "/testutils") {
			continue
		}
		info := fd.Pkg.TypesInfo
		ast.Inspect(fd.Decl.Body, func(nd ast.Node) bool {
			c, ok := nd.(*ast.CallExpr)
			if !ok || !isSelectorMatches(info, c) {
				return true
			}
			n++
			_, isOwner := owners[fd.Pkg.PkgPath]
			r.Check(isOwner, rule, fd.Key()+": label selectors are matched inside the policy engine only", p.Pos(c.Pos()), "a package that owns selection",
				"a label selector is matched outside the policy engine: a second implementation of `which objects does this policy select` works on its own view of the labels and can disagree with the engine (list and eval, or CLI and API, then apply different policy sets to the same pods)")
			return true
		})
	}
	r.RuleCounts[rule] = n
	r.Floor(rule, 5)
}

// SelectorsMatchObjectLabels is C17-labels (also a condition of C08 and C19). Pods of one owner are reported as ONE
// workload represented by one of them - whichever the map iteration leaves - which is sound because the engine rejects
// owners whose pods differ in their LABELS (C19-labels) and the verdict cache is keyed by the hash of the LABELS. Both
// cover the field Labels and nothing else. So the label set a selector is matched against must be the Labels field of a
// pod or namespace object (or a parameter / local that names such a value); a set computed from further per-pod state
// (identity labels kept apart, annotations, a merged map) makes selection depend on which replica represents the
// workload.
func SelectorsMatchObjectLabels(p *core.Program, r *core.Report, rule string) {
	n := 0
	var okSource func(fd *core.FuncDecl, e ast.Expr, depth int) (bool, string)
	okSource = func(fd *core.FuncDecl, e ast.Expr, depth int) (bool, string) {
		info := fd.Pkg.TypesInfo
		e = ast.Unparen(ResolveLocal(info, fd.Decl.Body, e))
		// labels.Set(x) conversion
		if c, ok := e.(*ast.CallExpr); ok && core.IsConversion(info, c) && len(c.Args) == 1 {
			return okSource(fd, c.Args[0], depth)
		}
		switch x := e.(type) {
		case *ast.SelectorExpr:
			if f := core.FieldOf(info, x); f != nil && (f.Name() == "Labels" || f.Name() == "MatchLabels") {
				return true, ""
			}
			return false, "the field " + x.Sel.Name
		case *ast.Ident:
			if v, ok := info.ObjectOf(x).(*types.Var); ok {
				sig := fd.Obj.Type().(*types.Signature)
				for i := 0; i < sig.Params().Len(); i++ {
					if sig.Params().At(i) == v {
						return true, "" // handed in by the caller: judged at the call sites that pass a field
					}
				}
			}
			return false, "the computed value " + x.Name
		case *ast.CallExpr:
			fn := core.Callee(info, x)
			if fn != nil && p.IsModuleFunc(fn) && depth > 0 {
				if h := p.ByObj[fn]; h != nil {
					all, why := true, ""
					ast.Inspect(h.Decl.Body, func(nd ast.Node) bool {
						if _, isLit := nd.(*ast.FuncLit); isLit {
							return false
						}
						if rs, ok := nd.(*ast.ReturnStmt); ok && len(rs.Results) > 0 {
							if ok2, w := okSource(h, rs.Results[0], depth-1); !ok2 {
								all, why = false, w+" returned by "+core.RefName(fn)
							}
						}
						return true
					})
					return all, why
				}
			}
			return false, "the result of " + core.ExprStr(x.Fun)
		}
		return false, core.ExprStr(e)
	}
	for _, fd := range p.Funcs {
		if strings.Contains(fd.Pkg.PkgPath, "/testutils") {
			continue
		}
		info := fd.Pkg.TypesInfo
		ast.Inspect(fd.Decl.Body, func(nd ast.Node) bool {
			c, ok := nd.(*ast.CallExpr)
			if !ok || !isSelectorMatches(info, c) || len(c.Args) != 1 {
				return true
			}
			n++
			good, why := okSource(fd, c.Args[0], 2)
			r.Check(good, rule, fd.Key()+": a selector is matched against the Labels of an object", p.Pos(c.Pos()), "the matched set is a Labels field (or a parameter naming one)",
				"the label set matched here is "+why+", not the Labels field of the pod / namespace: the same-owner consistency check and the cache key cover Labels only, so pods of one owner may now be selected differently and the workload's connectivity depends on which replica represents it")
			return true
		})
	}
	r.RuleCounts[rule] = n
	r.Floor(rule, 5)
}
