package rules

import (
	"fmt"
	"go/types"
	"sort"
	"strings"

	"golang.org/x/tools/go/ssa"

	"npverif/internal/core"
)

// E3b — shared-set taint. Connection sets held in long-lived policy/pod state
// ("holders") are handed out on query paths (the exposure shortcut returns the
// policy's own sets). They may be the receiver of a mutating ConnectionSet
// operation, or be passed in a parameter position that a callee mutates, only
// inside the designated owner functions.

// Holder fields (type *common.ConnectionSet inside types that persist across queries).
var holderFields = map[string]bool{
	"PolicyExposureWithoutSelectors.ExternalExposure":    true,
	"PolicyExposureWithoutSelectors.ClusterWideExposure": true,
	"PodExposureInfo.ClusterWideConnection":              true,
}

// Owner functions: the only places allowed to update a holder.
var holderOwners = map[string]string{
	"netpol/eval/internal/k8s.(*NetworkPolicy).updateNetworkPolicyExposureClusterWideConns": "pre-scan of a policy at insertion: fills the policy's own exposure sets",
	"netpol/eval/internal/k8s.(*Pod).UpdatePodXgressExposureToEntireClusterData":            "folds the cluster-wide exposure of the selecting policies into the pod's own set (commutative Union)",
}

type sharedAnalysis struct {
	p        *core.Program
	mutRecv  map[*ssa.Function]bool         // ConnectionSet/PortSet methods that write their receiver
	mutParam map[*ssa.Function]map[int]bool // module functions: parameter index (SSA Params incl. receiver) that is mutated
	retHold  map[*ssa.Function]bool         // function may return a holder value
	fns      []*ssa.Function
	changed  bool
}

// chain describes the origins of a value: "param:i", "holder:T.F", "fresh", "call:<fn>", ...
func (a *sharedAnalysis) origins(fn *ssa.Function, v ssa.Value, seen map[ssa.Value]bool, out map[string]bool) {
	if seen[v] {
		return
	}
	seen[v] = true
	fieldName := func(t types.Type, i int) string {
		if p, ok := t.Underlying().(*types.Pointer); ok {
			t = p.Elem()
		}
		name := ""
		if nt, ok := t.(*types.Named); ok {
			name = nt.Obj().Name()
		}
		if s, ok := t.Underlying().(*types.Struct); ok && i < s.NumFields() {
			return name + "." + core.RefName(s.Field(i))
		}
		return name + ".?"
	}
	switch x := v.(type) {
	case *ssa.Parameter:
		for i, p := range fn.Params {
			if p == x {
				out[fmt.Sprintf("param:%d", i)] = true
			}
		}
	case *ssa.FieldAddr:
		fnm := fieldName(x.X.Type(), x.Field)
		if holderFields[fnm] {
			out["holder:"+fnm] = true
			return
		}
		// values stored into the same field of the same object in this function (field-sensitive, intra-procedural)
		if refs := x.X.Referrers(); refs != nil {
			for _, rf := range *refs {
				if fa2, ok := rf.(*ssa.FieldAddr); ok && fa2.Field == x.Field {
					if r2 := fa2.Referrers(); r2 != nil {
						for _, u := range *r2 {
							if st, ok := u.(*ssa.Store); ok && st.Addr == fa2 {
								a.origins(fn, st.Val, seen, out)
							}
						}
					}
				}
			}
		}
		// a field of a per-query object (PolicyConnections) keeps the origin of the object
		a.origins(fn, x.X, seen, out)
	case *ssa.Field:
		fnm := fieldName(x.X.Type(), x.Field)
		if holderFields[fnm] {
			out["holder:"+fnm] = true
			return
		}
		a.origins(fn, x.X, seen, out)
	case *ssa.UnOp:
		a.origins(fn, x.X, seen, out)
	case *ssa.IndexAddr:
		a.origins(fn, x.X, seen, out)
	case *ssa.Index:
		a.origins(fn, x.X, seen, out)
	case *ssa.Lookup:
		a.origins(fn, x.X, seen, out)
	case *ssa.Extract:
		a.origins(fn, x.Tuple, seen, out)
	case *ssa.Next:
		a.origins(fn, x.Iter, seen, out)
	case *ssa.Range:
		a.origins(fn, x.X, seen, out)
	case *ssa.Phi:
		for _, e := range x.Edges {
			a.origins(fn, e, seen, out)
		}
	case *ssa.ChangeType:
		a.origins(fn, x.X, seen, out)
	case *ssa.MakeInterface:
		a.origins(fn, x.X, seen, out)
	case *ssa.TypeAssert:
		a.origins(fn, x.X, seen, out)
	case *ssa.Alloc:
		found := false
		if refs := x.Referrers(); refs != nil {
			for _, r := range *refs {
				if st, ok := r.(*ssa.Store); ok && st.Addr == x {
					a.origins(fn, st.Val, seen, out)
					found = true
				}
			}
		}
		if !found {
			out["fresh"] = true
		}
	case *ssa.Call:
		if callee := x.Call.StaticCallee(); callee != nil {
			if a.retHold[callee] {
				out["holder:returned by "+callee.Name()] = true
				return
			}
		} else if x.Call.IsInvoke() {
			// interface call: any implementation returning a holder
			for _, f := range a.fns {
				if f.Name() == core.RefName(x.Call.Method) && a.retHold[f] {
					out["holder:returned by "+f.Name()] = true
					return
				}
			}
		}
		out["fresh"] = true
	case *ssa.FreeVar:
		out["freevar"] = true
	default:
		out["fresh"] = true
	}
}

// SharedSets is rule E3b (C06-a).
func SharedSets(p *core.Program, r *core.Report, rule string) {
	a := &sharedAnalysis{p: p, mutRecv: map[*ssa.Function]bool{}, mutParam: map[*ssa.Function]map[int]bool{}, retHold: map[*ssa.Function]bool{}}
	eff := Effects(p, core.PkgCommon)
	for _, fd := range p.Funcs {
		sf := p.SSAFunc(fd)
		if sf == nil || sf.Blocks == nil {
			continue
		}
		a.fns = append(a.fns, sf)
		if fd.Pkg.PkgPath == core.PkgCommon {
			if s := eff[fd.Obj]; s != nil && s.Writes[0] && fd.Obj.Type().(*types.Signature).Recv() != nil {
				a.mutRecv[sf] = true
			}
		}
	}
	sort.Slice(a.fns, func(i, j int) bool { return a.fns[i].String() < a.fns[j].String() })
	isSetType := func(t types.Type) bool {
		return core.TypeIs(t, core.PkgCommon, "ConnectionSet")
	}
	// fixpoint: which parameters does a module function mutate, which functions return a holder
	for iter := 0; iter < 12; iter++ {
		a.changed = false
		for _, fn := range a.fns {
			if fn.Pkg != nil && fn.Pkg.Pkg.Path() == core.PkgCommon {
				continue
			}
			for _, b := range fn.Blocks {
				for _, in := range b.Instrs {
					switch x := in.(type) {
					case *ssa.Return:
						for _, res := range x.Results {
							if !isSetType(res.Type()) {
								continue
							}
							o := map[string]bool{}
							a.origins(fn, res, map[ssa.Value]bool{}, o)
							for k := range o {
								if strings.HasPrefix(k, "holder:") && !a.retHold[fn] {
									a.retHold[fn] = true
									a.changed = true
								}
							}
						}
					case ssa.CallInstruction:
						c := x.Common()
						for ai, pos := range a.mutatedArgPositions(c) {
							_ = ai
							if pos >= len(c.Args) {
								continue
							}
							o := map[string]bool{}
							a.origins(fn, c.Args[pos], map[ssa.Value]bool{}, o)
							for k := range o {
								if strings.HasPrefix(k, "param:") {
									var idx int
									fmt.Sscanf(k, "param:%d", &idx)
									if a.mutParam[fn] == nil {
										a.mutParam[fn] = map[int]bool{}
									}
									if !a.mutParam[fn][idx] {
										a.mutParam[fn][idx] = true
										a.changed = true
									}
								}
							}
						}
					}
				}
			}
		}
		if !a.changed {
			break
		}
	}
	// verdicts
	nSites := 0
	for _, fn := range a.fns {
		if fn.Pkg != nil && fn.Pkg.Pkg.Path() == core.PkgCommon {
			continue
		}
		fkey := ssaKey(fn)
		for _, b := range fn.Blocks {
			for _, in := range b.Instrs {
				ci, ok := in.(ssa.CallInstruction)
				if !ok {
					continue
				}
				c := ci.Common()
				for _, pos := range a.mutatedArgPositions(c) {
					if pos >= len(c.Args) {
						continue
					}
					nSites++
					o := map[string]bool{}
					a.origins(fn, c.Args[pos], map[ssa.Value]bool{}, o)
					var holders []string
					for k := range o {
						if strings.HasPrefix(k, "holder:") {
							holders = append(holders, strings.TrimPrefix(k, "holder:"))
						}
					}
					sort.Strings(holders)
					calleeName := "?"
					if sc := c.StaticCallee(); sc != nil {
						calleeName = sc.Name()
					} else if c.IsInvoke() {
						calleeName = core.RefName(c.Method)
					}
					construct := fmt.Sprintf("%s: operand #%d of %s is not a set held in long-lived state", fkey, pos, calleeName)
					if len(holders) == 0 {
						r.OK(rule, construct, p.Pos(in.Pos()), "origins: "+strings.Join(sortedKeys(o), ", "))
						continue
					}
					if why, ok := holderOwners[fkey]; ok {
						r.Add(rule, fmt.Sprintf("%s: owner updates %s through %s", fkey, strings.Join(holders, ","), calleeName), p.Pos(in.Pos()), core.Excepted, why)
						continue
					}
					r.Bad(rule, construct, p.Pos(in.Pos()),
						fmt.Sprintf("a connection set held in long-lived state (%s) is modified in place by %s outside its owner functions: the policy's / pod's stored exposure changes as a side effect of a query, so later answers (for other pods, or without --exposure) differ", strings.Join(holders, ", "), calleeName),
						"function: "+fkey, "mutating call: "+calleeName+" at "+p.Pos(in.Pos()))
				}
			}
		}
	}
	r.RuleCounts[rule+"-sites"] = nSites
	r.Floor(rule+"-sites", 30)
	// stores INTO a holder field: the stored pointer must be fresh (constructor, Copy, library result) - a holder
	// that aliases another object's set is modified together with it by the holder's own owner function
	nStores := 0
	for _, fn := range a.fns {
		if fn.Pkg != nil && fn.Pkg.Pkg.Path() == core.PkgCommon {
			continue
		}
		fkey := ssaKey(fn)
		for _, b := range fn.Blocks {
			for _, in := range b.Instrs {
				st, ok := in.(*ssa.Store)
				if !ok {
					continue
				}
				fa, ok := st.Addr.(*ssa.FieldAddr)
				if !ok {
					continue
				}
				t := fa.X.Type()
				if pt, isP := t.Underlying().(*types.Pointer); isP {
					t = pt.Elem()
				}
				name := ""
				if nt, isN := t.(*types.Named); isN {
					name = nt.Obj().Name()
				}
				stt, isS := t.Underlying().(*types.Struct)
				if !isS || fa.Field >= stt.NumFields() {
					continue
				}
				fnm := name + "." + core.RefName(stt.Field(fa.Field))
				if !holderFields[fnm] {
					continue
				}
				nStores++
				o := map[string]bool{}
				a.origins(fn, st.Val, map[ssa.Value]bool{}, o)
				var shared []string
				for k := range o {
					if k != "fresh" {
						shared = append(shared, k)
					}
				}
				sort.Strings(shared)
				construct := fmt.Sprintf("%s: the set stored into %s is fresh", fkey, fnm)
				if len(shared) == 0 {
					r.OK(rule+"-store", construct, p.Pos(in.Pos()), "constructor / Copy / library result")
				} else {
					r.Bad(rule+"-store", construct, p.Pos(in.Pos()), fmt.Sprintf("a long-lived holder (%s) is made to point at a set that something else also holds (%s): the holder's owner function later unions into it and thereby changes the other object's exposure as well", fnm, strings.Join(shared, ", ")))
				}
			}
		}
	}
	r.RuleCounts[rule+"-stores"] = nStores
}

// mutatedArgPositions: argument positions (in SSA call args, receiver first for static method calls) that the callee mutates.
func (a *sharedAnalysis) mutatedArgPositions(c *ssa.CallCommon) []int {
	var out []int
	if callee := c.StaticCallee(); callee != nil {
		if a.mutRecv[callee] {
			out = append(out, 0)
		}
		for i := range a.mutParam[callee] {
			out = append(out, i)
		}
	} else if c.IsInvoke() {
		// interface method: c.Args exclude the receiver value (c.Value); parameters shift by one
		for _, f := range a.fns {
			if f.Name() == core.RefName(c.Method) && f.Signature.Recv() != nil {
				for i := range a.mutParam[f] {
					if i >= 1 {
						out = append(out, i-1)
					}
				}
			}
		}
	}
	sort.Ints(out)
	// dedupe
	var d []int
	for i, x := range out {
		if i == 0 || x != out[i-1] {
			d = append(d, x)
		}
	}
	return d
}

func ssaKey(fn *ssa.Function) string {
	if obj, ok := fn.Object().(*types.Func); ok && obj != nil {
		return core.FuncKey(obj)
	}
	if fn.Parent() != nil {
		return ssaKey(fn.Parent()) + "$closure"
	}
	return fn.String()
}
