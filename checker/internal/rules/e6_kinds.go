package rules

import (
	"fmt"
	"go/ast"
	"go/types"
	"sort"
	"strings"

	"npverif/internal/core"
)

// E6 — kind tables. Every switch whose case expressions are kind constants of
// package parser is a dispatcher; their case sets must agree with the master
// table (the parser's own table), and inside each case the K8sObject field
// selected / the Go type asserted must be the one of that kind.

type kindSwitch struct {
	fd    *core.FuncDecl
	sw    *ast.SwitchStmt
	cases map[string]*ast.CaseClause // kind constant name -> clause
}

func kindConst(info *types.Info, e ast.Expr) string {
	var id *ast.Ident
	switch x := ast.Unparen(e).(type) {
	case *ast.Ident:
		id = x
	case *ast.SelectorExpr:
		id = x.Sel
	}
	if id == nil {
		return ""
	}
	c, ok := info.Uses[id].(*types.Const)
	if !ok || c.Pkg() == nil || c.Pkg().Path() != core.PkgParser {
		return ""
	}
	if b, ok := c.Type().Underlying().(*types.Basic); !ok || b.Kind() != types.String {
		return ""
	}
	return c.Name()
}

func findKindSwitches(p *core.Program) []kindSwitch {
	var out []kindSwitch
	for _, fd := range p.Funcs {
		info := fd.Pkg.TypesInfo
		ast.Inspect(fd.Decl.Body, func(nd ast.Node) bool {
			sw, ok := nd.(*ast.SwitchStmt)
			if !ok || sw.Tag == nil {
				return true
			}
			ks := kindSwitch{fd: fd, sw: sw, cases: map[string]*ast.CaseClause{}}
			for _, cc := range sw.Body.List {
				cl := cc.(*ast.CaseClause)
				for _, e := range cl.List {
					if k := kindConst(info, e); k != "" {
						ks.cases[k] = cl
					}
				}
			}
			if len(ks.cases) >= 2 {
				out = append(out, ks)
			}
			return true
		})
	}
	sort.Slice(out, func(i, j int) bool { return out[i].fd.Key() < out[j].fd.Key() })
	return out
}

func kindSet(m map[string]*ast.CaseClause) []string {
	var out []string
	for k := range m {
		out = append(out, k)
	}
	sort.Strings(out)
	return out
}

// Declared subsets: dispatcher -> kinds it deliberately does not handle, with the reason.
var kindSubsets = map[string]struct {
	missing []string
	why     string
}{
	"manifests/parser.(*K8sObject).initDefaultNamespace":                     {[]string{"Namespace", "AdminNetworkPolicy", "BaselineAdminNetworkPolicy"}, "cluster-scoped kinds have no namespace to default"},
	"manifests/parser.FilterObjectsList":                                     {[]string{"ReplicaSet", "Deployment", "StatefulSet", "DaemonSet", "ReplicationController", "Job", "CronJob"}, "the eval command deals with pods, not workloads"},
	"cli.updatePolicyEngineObjectsFromDirPath":                               {[]string{"ReplicaSet", "Deployment", "StatefulSet", "DaemonSet", "ReplicationController", "Job", "CronJob", "Service", "Route", "Ingress"}, "the eval command inserts namespaces, pods and policies only (FilterObjectsList)"},
	"netpol/eval/internal/k8s.PodsFromWorkloadObject":                        {[]string{"Pod", "Namespace", "NetworkPolicy", "AdminNetworkPolicy", "BaselineAdminNetworkPolicy", "Service", "Route", "Ingress"}, "workload kinds with a pod template only"},
	"netpol/connlist/internal/ingressanalyzer.NewIngressAnalyzerWithObjects": {[]string{"Pod", "Namespace", "NetworkPolicy", "AdminNetworkPolicy", "BaselineAdminNetworkPolicy", "ReplicaSet", "Deployment", "StatefulSet", "DaemonSet", "ReplicationController", "Job", "CronJob"}, "ingress analysis consumes Service, Route and Ingress only"},
	"netpol/eval.splitPoliciesAndNamespacesAndOtherObjects":                  {nil, "two-way split with a default branch"},
}

// KindTables is C13-b / C17-c.
func KindTables(p *core.Program, r *core.Report, rule string) {
	sws := findKindSwitches(p)
	var master *kindSwitch
	for i := range sws {
		if core.RefName(sws[i].fd.Obj) == "getEmptyInitializedFieldObjByKind" {
			master = &sws[i]
		}
	}
	if master == nil {
		r.Lost(rule, "parser.(*K8sObject).getEmptyInitializedFieldObjByKind (master kind table)")
		return
	}
	all := map[string]bool{}
	for k := range master.cases {
		all[k] = true
	}
	r.Anchor(fmt.Sprintf("%s master kind table: %v", rule, kindSet(master.cases)))
	// unknown kinds yield nil (the function's final return)
	{
		info := master.fd.Pkg.TypesInfo
		n := len(master.fd.Decl.Body.List)
		okNil := false
		if ret, ok := master.fd.Decl.Body.List[n-1].(*ast.ReturnStmt); ok && len(ret.Results) == 1 && core.IsNil(info, ret.Results[0]) {
			okNil = true
		}
		hasDefault := false
		for _, cc := range master.sw.Body.List {
			if cc.(*ast.CaseClause).List == nil {
				hasDefault = true
			}
		}
		r.Check(okNil && !hasDefault, rule, master.fd.Key()+": a kind outside the table yields nil (the document is skipped)", p.Pos(master.fd.Decl.Pos()), "no default case; final return nil", "kinds the analysis does not use are no longer mapped to nil")
	}
	for _, ks := range sws {
		if ks.fd == master.fd {
			// each case fills and returns the field of its own kind
			checkCaseFields(p, r, rule, ks, true)
			continue
		}
		got := map[string]bool{}
		for k := range ks.cases {
			got[k] = true
		}
		var missing, extra []string
		for k := range all {
			if !got[k] {
				missing = append(missing, k)
			}
		}
		for k := range got {
			if !all[k] {
				extra = append(extra, k)
			}
		}
		sort.Strings(missing)
		sort.Strings(extra)
		c := ks.fd.Key() + ": dispatches on the kinds of the parser's table"
		decl, isDecl := kindSubsets[ks.fd.Key()]
		switch {
		case len(extra) > 0:
			r.Bad(rule, c, p.Pos(ks.sw.Pos()), fmt.Sprintf("handles kinds the parser never produces: %v", extra))
		case len(missing) == 0:
			r.OK(rule, c, p.Pos(ks.sw.Pos()), fmt.Sprintf("all %d kinds", len(all)))
		case isDecl && (decl.missing == nil || sameSet(missing, decl.missing)):
			r.Add(rule, c, p.Pos(ks.sw.Pos()), core.Excepted, fmt.Sprintf("declared subset (%s); not handled: %v", decl.why, missing))
		default:
			r.Bad(rule, c, p.Pos(ks.sw.Pos()), fmt.Sprintf("the dispatcher does not handle %v, which the parser produces (declared subset: %v): documents of that kind are silently ignored by this stage", missing, decl.missing))
		}
		checkCaseFields(p, r, rule, ks, false)
	}
	// the two kind sets of the parser
	for name, want := range map[string][]string{"workloadKinds": {"CronJob", "DaemonSet", "Deployment", "Job", "Pod", "ReplicaSet", "ReplicationController", "StatefulSet"}, "policyKinds": {"AdminNetworkPolicy", "BaselineAdminNetworkPolicy", "NetworkPolicy"}} {
		got := pkgMapKeys(p, core.PkgParser, name)
		r.Check(sameSet(got, want), rule, "parser."+name+" lists the "+strings.TrimSuffix(name, "Kinds")+" kinds", "-", fmt.Sprintf("%v", got), fmt.Sprintf("parser.%s is %v, expected %v: the 'no workloads / no policies found' warnings and the engine disagree on what a workload/policy is", name, got, want))
	}
	// InsertObject: the Go type of each case is inserted under the kind constant of the same name
	if fd := p.Func(core.PkgEval, "PolicyEngine", "InsertObject"); fd != nil {
		info := fd.Pkg.TypesInfo
		n := 0
		ast.Inspect(fd.Decl.Body, func(nd ast.Node) bool {
			ts, ok := nd.(*ast.TypeSwitchStmt)
			if !ok {
				return true
			}
			for _, cc := range ts.Body.List {
				cl := cc.(*ast.CaseClause)
				if len(cl.List) != 1 {
					continue
				}
				nt := core.NamedOf(info.TypeOf(cl.List[0]))
				if nt == nil {
					continue
				}
				ast.Inspect(cl, func(m ast.Node) bool {
					c, ok := m.(*ast.CallExpr)
					if !ok || len(c.Args) != 2 {
						return true
					}
					if k := kindConst(info, c.Args[1]); k != "" {
						n++
						r.Check(k == nt.Obj().Name(), rule+"-type", fmt.Sprintf("%s: *%s is inserted as kind %s", fd.Key(), nt.Obj().Name(), k), p.Pos(c.Pos()), "kind constant and Go type carry the same name", "a workload object is handed on under the kind constant of another type: PodsFromWorkloadObject asserts the wrong Go type and panics")
					}
					return true
				})
			}
			return true
		})
		r.RuleCounts[rule+"-type"] += 0
		r.Floor(rule+"-type", 7)
	} else {
		r.Lost(rule, "(*PolicyEngine).InsertObject")
	}
	r.Floor(rule, 8)
}

func sameSet(a, b []string) bool {
	if len(a) != len(b) {
		return false
	}
	x, y := append([]string{}, a...), append([]string{}, b...)
	sort.Strings(x)
	sort.Strings(y)
	for i := range x {
		if x[i] != y[i] {
			return false
		}
	}
	return true
}

func pkgMapKeys(p *core.Program, pkgPath, varName string) []string {
	pk := p.ByPath[pkgPath]
	if pk == nil {
		return nil
	}
	var out []string
	for _, f := range pk.Syntax {
		for _, d := range f.Decls {
			gd, ok := d.(*ast.GenDecl)
			if !ok {
				continue
			}
			for _, sp := range gd.Specs {
				vs, ok := sp.(*ast.ValueSpec)
				if !ok {
					continue
				}
				for i, nm := range vs.Names {
					if nm.Name != varName || i >= len(vs.Values) {
						continue
					}
					if cl, ok := vs.Values[i].(*ast.CompositeLit); ok {
						for _, el := range cl.Elts {
							if kv, ok := el.(*ast.KeyValueExpr); ok {
								if k := kindConst(pk.TypesInfo, kv.Key); k != "" {
									out = append(out, k)
								}
							}
						}
					}
				}
			}
		}
	}
	sort.Strings(out)
	return out
}

// checkCaseFields: inside the case of kind K only the K8sObject field K is selected, and only *T with T named K is asserted.
func checkCaseFields(p *core.Program, r *core.Report, rule string, ks kindSwitch, isMaster bool) {
	info := ks.fd.Pkg.TypesInfo
	k8sObj := p.LookupType(core.PkgParser, "K8sObject")
	if k8sObj == nil {
		return
	}
	st := k8sObj.Underlying().(*types.Struct)
	isObjField := map[*types.Var]bool{}
	for i := 0; i < st.NumFields(); i++ {
		if core.RefName(st.Field(i)) != "Kind" {
			isObjField[st.Field(i)] = true
		}
	}
	for _, kind := range kindSet(ks.cases) {
		cl := ks.cases[kind]
		// a clause listing several kinds cannot select a kind-specific field
		multi := len(cl.List) > 1
		bad := ""
		ast.Inspect(cl, func(nd ast.Node) bool {
			switch x := nd.(type) {
			case *ast.SelectorExpr:
				if f := core.FieldOf(info, x); f != nil && isObjField[f] {
					if core.RefName(f) != kind || multi {
						bad = "selects field " + core.RefName(f)
					}
				}
			case *ast.TypeAssertExpr:
				if x.Type != nil {
					if nt := core.NamedOf(info.TypeOf(x.Type)); nt != nil && nt.Obj().Pkg() != nil && isAPIPkg(nt.Obj().Pkg().Path()) {
						if nt.Obj().Name() != kind {
							bad = "asserts type " + nt.Obj().Name()
						}
					}
				}
			}
			return true
		})
		r.Check(bad == "", rule+"-field", fmt.Sprintf("%s: case %s uses the object of its own kind", ks.fd.Key(), kind), p.Pos(cl.Pos()), "",
			fmt.Sprintf("under case %s the code %s: the parser fills only the field matching Kind, so this reads a nil object (or asserts a type that cannot hold)", kind, bad))
	}
}
