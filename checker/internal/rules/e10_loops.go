package rules

import (
	"fmt"
	"go/ast"
	"go/token"
	"go/types"
	"strings"

	"npverif/internal/core"
)

// LoopCarriedPartialWrites: a struct-typed local that is updated field by field inside a loop must be a fresh variable
// of each iteration (declared inside the loop body) or be reset by a whole assignment at the top of the body;
// otherwise the fields an iteration does not write keep the values of an earlier element.
func LoopCarriedPartialWrites(p *core.Program, r *core.Report, rule string, pkgs ...string) {
	inPkgs := map[string]bool{}
	for _, k := range pkgs {
		inPkgs[k] = true
	}
	n := 0
	for _, fd := range p.Funcs {
		if !inPkgs[fd.Pkg.PkgPath] {
			continue
		}
		info := fd.Pkg.TypesInfo
		var loops []ast.Stmt
		var visit func(nd ast.Node)
		visit = func(nd ast.Node) {
			ast.Inspect(nd, func(m ast.Node) bool {
				switch x := m.(type) {
				case *ast.ForStmt:
					loops = append(loops, x)
					visit(x.Body)
					loops = loops[:len(loops)-1]
					return false
				case *ast.RangeStmt:
					loops = append(loops, x)
					visit(x.Body)
					loops = loops[:len(loops)-1]
					return false
				case *ast.FuncLit:
					return false
				case *ast.AssignStmt:
					if len(loops) == 0 {
						return true
					}
					for _, l := range x.Lhs {
						se, ok := ast.Unparen(l).(*ast.SelectorExpr)
						if !ok {
							continue
						}
						id, ok := ast.Unparen(se.X).(*ast.Ident)
						if !ok {
							continue
						}
						v, ok := info.ObjectOf(id).(*types.Var)
						if !ok || v.IsField() || v.Pkg() == nil || v.Parent() == v.Pkg().Scope() {
							continue
						}
						if _, isStruct := v.Type().Underlying().(*types.Struct); !isStruct {
							continue // pointers and maps are shared on purpose
						}
						loop := loops[len(loops)-1]
						var body *ast.BlockStmt
						switch lp := loop.(type) {
						case *ast.ForStmt:
							body = lp.Body
						case *ast.RangeStmt:
							body = lp.Body
						}
						n++
						construct := fmt.Sprintf("%s: %s, updated field by field in a loop, is fresh in every iteration", fd.Key(), id.Name)
						declaredInside := v.Pos() >= body.Pos() && v.Pos() < body.End()
						// range variables are fresh per iteration too
						if rs, isRs := loop.(*ast.RangeStmt); isRs && rs.Tok == token.DEFINE && (v.Pos() >= rs.Pos() && v.Pos() < rs.Body.Pos()) {
							declaredInside = true
						}
						reset := false
						if !declaredInside && len(body.List) > 0 {
							if as, isAs := body.List[0].(*ast.AssignStmt); isAs && len(as.Lhs) == 1 {
								if rid, isID := ast.Unparen(as.Lhs[0]).(*ast.Ident); isID && info.ObjectOf(rid) == v {
									reset = true
								}
							}
						}
						r.Check(declaredInside || reset, rule, construct, p.Pos(x.Pos()), "declared inside the loop body (zero value per iteration)",
							fmt.Sprintf("%s is declared outside the loop and only its field %s is written here: fields that this iteration does not set keep the value of an earlier element (a stale name or number is then used for the current one)", id.Name, se.Sel.Name))
					}
				}
				return true
			})
		}
		visit(fd.Decl.Body)
	}
	r.RuleCounts[rule] = n
}

// SeenSetKeyCompleteness: a loop that skips an element because a key derived from it was seen before
// (`if seen[k] { continue }; seen[k] = true`) treats all elements with that key alike; the key must therefore be
// built from every field of the element that the rest of the body reads.
func SeenSetKeyCompleteness(p *core.Program, r *core.Report, rule string) {
	n := 0
	for _, fd := range p.Funcs {
		info := fd.Pkg.TypesInfo
		ast.Inspect(fd.Decl.Body, func(nd ast.Node) bool {
			rs, ok := nd.(*ast.RangeStmt)
			if !ok {
				return true
			}
			// element: the value variable, or xs[i]
			var elemObj types.Object
			if id, isID := rs.Value.(*ast.Ident); isID && id.Name != "_" {
				elemObj = info.ObjectOf(id)
			}
			if elemObj == nil {
				return true
			}
			isSeenMap := func(e ast.Expr) (types.Object, ast.Expr) {
				ix, ok := ast.Unparen(e).(*ast.IndexExpr)
				if !ok {
					return nil, nil
				}
				id, ok := ast.Unparen(ix.X).(*ast.Ident)
				if !ok {
					return nil, nil
				}
				mt, ok := info.TypeOf(id).Underlying().(*types.Map)
				if !ok {
					return nil, nil
				}
				switch vt := mt.Elem().Underlying().(type) {
				case *types.Basic:
					if vt.Kind() != types.Bool {
						return nil, nil
					}
				case *types.Struct:
					if vt.NumFields() != 0 {
						return nil, nil
					}
				default:
					return nil, nil
				}
				return info.ObjectOf(id), ix.Index
			}
			// guard: an if in the body (top level) whose condition consults m[K] and whose body continues
			for gi, st := range rs.Body.List {
				ifs, isIf := st.(*ast.IfStmt)
				if !isIf || len(ifs.Body.List) == 0 {
					continue
				}
				if br, isBr := ifs.Body.List[len(ifs.Body.List)-1].(*ast.BranchStmt); !isBr || br.Tok != token.CONTINUE {
					continue
				}
				var seenMap types.Object
				var key ast.Expr
				scan := func(e ast.Node) {
					ast.Inspect(e, func(m ast.Node) bool {
						if ex, isE := m.(ast.Expr); isE {
							if mo, k := isSeenMap(ex); mo != nil {
								seenMap, key = mo, k
							}
						}
						return true
					})
				}
				scan(ifs.Cond)
				if ifs.Init != nil {
					scan(ifs.Init)
				}
				if seenMap == nil {
					continue
				}
				// the key must mention the element
				mentions := false
				ast.Inspect(key, func(m ast.Node) bool {
					if id, isID := m.(*ast.Ident); isID && info.ObjectOf(id) == elemObj {
						mentions = true
					}
					return true
				})
				// and the map is marked later in the body
				marked := false
				for _, later := range rs.Body.List[gi+1:] {
					ast.Inspect(later, func(m ast.Node) bool {
						if as, isAs := m.(*ast.AssignStmt); isAs && len(as.Lhs) == 1 {
							if mo, _ := isSeenMap(as.Lhs[0]); mo == seenMap {
								marked = true
							}
						}
						return true
					})
				}
				if !mentions || !marked {
					continue
				}
				n++
				keyChains := map[string]bool{}
				ast.Inspect(key, func(m ast.Node) bool {
					if se, isSe := m.(*ast.SelectorExpr); isSe {
						if id := core.RootIdent(se); id != nil && info.ObjectOf(id) == elemObj {
							keyChains[core.ExprStr(se)] = true
							return false // maximal chains only
						}
					}
					if id, isID := m.(*ast.Ident); isID && info.ObjectOf(id) == elemObj {
						keyChains[id.Name] = true
					}
					return true
				})
				covered := func(chain string) bool {
					for k := range keyChains {
						if chain == k || strings.HasPrefix(chain, k+".") || strings.HasPrefix(k, chain+".") {
							return true
						}
					}
					return false
				}
				var uncovered []string
				seenU := map[string]bool{}
				for _, later := range rs.Body.List[gi+1:] {
					ast.Inspect(later, func(m ast.Node) bool {
						se, isSe := m.(*ast.SelectorExpr)
						if !isSe {
							return true
						}
						if _, isField := info.Selections[se]; !isField {
							return true
						}
						if id := core.RootIdent(se); id == nil || info.ObjectOf(id) != elemObj {
							return true
						}
						// only maximal chains
						chain := core.ExprStr(se)
						if !covered(chain) && !seenU[chain] {
							seenU[chain] = true
							uncovered = append(uncovered, chain)
						}
						return false
					})
				}
				r.Check(len(uncovered) == 0, rule, fmt.Sprintf("%s: elements skipped as already seen under key %s are interchangeable for the rest of the loop body", fd.Key(), core.ExprStr(key)), p.Pos(ifs.Pos()), "every element field read after the guard is part of the key",
					fmt.Sprintf("the loop skips an element whose key %s was seen before, but the rest of the body also reads %s, which the key does not cover: a later element that differs only there is silently dropped", core.ExprStr(key), strings.Join(uncovered, ", ")))
			}
			return true
		})
	}
	r.RuleCounts[rule] = n
}
