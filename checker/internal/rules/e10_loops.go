package rules

import (
	"fmt"
	"go/ast"
	"go/token"
	"go/types"
	"strings"

	"npverif/internal/core"
	"npverif/internal/facts"
)

// LoopCarriedPartialWrites: a struct-typed local that is updated field by field inside a loop must be a fresh variable
// of each iteration (declared inside the loop body) or be reset by a whole assignment at the top of the body;
// otherwise the fields an iteration does not write keep the values of an earlier element.
func LoopCarriedPartialWrites(p *core.Program, r *core.Report, rule string, pkgs ...string) {
	inPkgs := map[string]bool{}
	for _, k := range pkgs {
		inPkgs[k] = true
	}
	n := 0
	for _, fd := range p.Funcs {
		if !inPkgs[fd.Pkg.PkgPath] {
			continue
		}
		info := fd.Pkg.TypesInfo
		var loops []ast.Stmt
		var visit func(nd ast.Node)
		visit = func(nd ast.Node) {
			ast.Inspect(nd, func(m ast.Node) bool {
				switch x := m.(type) {
				case *ast.ForStmt:
					loops = append(loops, x)
					visit(x.Body)
					loops = loops[:len(loops)-1]
					return false
				case *ast.RangeStmt:
					loops = append(loops, x)
					visit(x.Body)
					loops = loops[:len(loops)-1]
					return false
				case *ast.FuncLit:
					return false
				case *ast.AssignStmt:
					if len(loops) == 0 {
						return true
					}
					for _, l := range x.Lhs {
						se, ok := ast.Unparen(l).(*ast.SelectorExpr)
						if !ok {
							continue
						}
						id, ok := ast.Unparen(se.X).(*ast.Ident)
						if !ok {
							continue
						}
						v, ok := info.ObjectOf(id).(*types.Var)
						if !ok || v.IsField() || v.Pkg() == nil || v.Parent() == v.Pkg().Scope() {
							continue
						}
						if _, isStruct := v.Type().Underlying().(*types.Struct); !isStruct {
							continue // pointers and maps are shared on purpose
						}
						loop := loops[len(loops)-1]
						var body *ast.BlockStmt
						switch lp := loop.(type) {
						case *ast.ForStmt:
							body = lp.Body
						case *ast.RangeStmt:
							body = lp.Body
						}
						n++
						construct := fmt.Sprintf("%s: %s, updated field by field in a loop, is fresh in every iteration", fd.Key(), id.Name)
						declaredInside := v.Pos() >= body.Pos() && v.Pos() < body.End()
						// range variables are fresh per iteration too
						if rs, isRs := loop.(*ast.RangeStmt); isRs && rs.Tok == token.DEFINE && (v.Pos() >= rs.Pos() && v.Pos() < rs.Body.Pos()) {
							declaredInside = true
						}
						reset := false
						if !declaredInside && len(body.List) > 0 {
							if as, isAs := body.List[0].(*ast.AssignStmt); isAs && len(as.Lhs) == 1 {
								if rid, isID := ast.Unparen(as.Lhs[0]).(*ast.Ident); isID && info.ObjectOf(rid) == v {
									reset = true
								}
							}
						}
						r.Check(declaredInside || reset, rule, construct, p.Pos(x.Pos()), "declared inside the loop body (zero value per iteration)",
							fmt.Sprintf("%s is declared outside the loop and only its field %s is written here: fields that this iteration does not set keep the value of an earlier element (a stale name or number is then used for the current one)", id.Name, se.Sel.Name))
					}
				}
				return true
			})
		}
		visit(fd.Decl.Body)
	}
	r.RuleCounts[rule] = n
}

// SeenSetKeyCompleteness: a loop that skips an element because a key derived from it was seen before
// (`if seen[k] { continue }; seen[k] = true`) treats all elements with that key alike; the key must therefore be
// built from every field of the element that the rest of the body reads.
func SeenSetKeyCompleteness(p *core.Program, r *core.Report, rule string) {
	n := 0
	for _, fd := range p.Funcs {
		info := fd.Pkg.TypesInfo
		ast.Inspect(fd.Decl.Body, func(nd ast.Node) bool {
			rs, ok := nd.(*ast.RangeStmt)
			if !ok {
				return true
			}
			// element: the value variable, or xs[i]
			var elemObj types.Object
			if id, isID := rs.Value.(*ast.Ident); isID && id.Name != "_" {
				elemObj = info.ObjectOf(id)
			}
			if elemObj == nil {
				return true
			}
			isSeenMap := func(e ast.Expr) (types.Object, ast.Expr) {
				ix, ok := ast.Unparen(e).(*ast.IndexExpr)
				if !ok {
					return nil, nil
				}
				id, ok := ast.Unparen(ix.X).(*ast.Ident)
				if !ok {
					return nil, nil
				}
				mt, ok := info.TypeOf(id).Underlying().(*types.Map)
				if !ok {
					return nil, nil
				}
				switch vt := mt.Elem().Underlying().(type) {
				case *types.Basic:
					if vt.Kind() != types.Bool {
						return nil, nil
					}
				case *types.Struct:
					if vt.NumFields() != 0 {
						return nil, nil
					}
				default:
					return nil, nil
				}
				return info.ObjectOf(id), ix.Index
			}
			// guard: an if in the body (top level) whose condition consults m[K] and whose body continues
			for gi, st := range rs.Body.List {
				ifs, isIf := st.(*ast.IfStmt)
				if !isIf || len(ifs.Body.List) == 0 {
					continue
				}
				if br, isBr := ifs.Body.List[len(ifs.Body.List)-1].(*ast.BranchStmt); !isBr || br.Tok != token.CONTINUE {
					continue
				}
				var seenMap types.Object
				var key ast.Expr
				scan := func(e ast.Node) {
					ast.Inspect(e, func(m ast.Node) bool {
						if ex, isE := m.(ast.Expr); isE {
							if mo, k := isSeenMap(ex); mo != nil {
								seenMap, key = mo, k
							}
						}
						return true
					})
				}
				scan(ifs.Cond)
				if ifs.Init != nil {
					scan(ifs.Init)
				}
				if seenMap == nil {
					continue
				}
				// the key must mention the element
				mentions := false
				ast.Inspect(key, func(m ast.Node) bool {
					if id, isID := m.(*ast.Ident); isID && info.ObjectOf(id) == elemObj {
						mentions = true
					}
					return true
				})
				// and the map is marked later in the body
				marked := false
				for _, later := range rs.Body.List[gi+1:] {
					ast.Inspect(later, func(m ast.Node) bool {
						if as, isAs := m.(*ast.AssignStmt); isAs && len(as.Lhs) == 1 {
							if mo, _ := isSeenMap(as.Lhs[0]); mo == seenMap {
								marked = true
							}
						}
						return true
					})
				}
				if !mentions || !marked {
					continue
				}
				n++
				keyChains := map[string]bool{}
				ast.Inspect(key, func(m ast.Node) bool {
					if se, isSe := m.(*ast.SelectorExpr); isSe {
						if id := core.RootIdent(se); id != nil && info.ObjectOf(id) == elemObj {
							keyChains[core.ExprStr(se)] = true
							return false // maximal chains only
						}
					}
					if id, isID := m.(*ast.Ident); isID && info.ObjectOf(id) == elemObj {
						keyChains[id.Name] = true
					}
					return true
				})
				covered := func(chain string) bool {
					for k := range keyChains {
						if chain == k || strings.HasPrefix(chain, k+".") || strings.HasPrefix(k, chain+".") {
							return true
						}
					}
					return false
				}
				var uncovered []string
				seenU := map[string]bool{}
				for _, later := range rs.Body.List[gi+1:] {
					ast.Inspect(later, func(m ast.Node) bool {
						se, isSe := m.(*ast.SelectorExpr)
						if !isSe {
							return true
						}
						if _, isField := info.Selections[se]; !isField {
							return true
						}
						if id := core.RootIdent(se); id == nil || info.ObjectOf(id) != elemObj {
							return true
						}
						// only maximal chains
						chain := core.ExprStr(se)
						if !covered(chain) && !seenU[chain] {
							seenU[chain] = true
							uncovered = append(uncovered, chain)
						}
						return false
					})
				}
				r.Check(len(uncovered) == 0, rule, fmt.Sprintf("%s: elements skipped as already seen under key %s are interchangeable for the rest of the loop body", fd.Key(), core.ExprStr(key)), p.Pos(ifs.Pos()), "every element field read after the guard is part of the key",
					fmt.Sprintf("the loop skips an element whose key %s was seen before, but the rest of the body also reads %s, which the key does not cover: a later element that differs only there is silently dropped", core.ExprStr(key), strings.Join(uncovered, ", ")))
			}
			return true
		})
	}
	r.RuleCounts[rule] = n
}

// LoopCarriedDefaults: a variable that is given its default value BEFORE a loop, is overwritten inside the loop only
// under a condition that depends on the current element, is read later in the same iteration, and is never read
// after the loop, is iteration-local state declared in the wrong place: an element for which the condition is false
// inherits the value chosen for an earlier element instead of the default. (Accumulators, flags and results are read
// after the loop and are not meant.)
func LoopCarriedDefaults(p *core.Program, r *core.Report, rule string) {
	n := 0
	for _, fd := range p.Funcs {
		info := fd.Pkg.TypesInfo
		var loops []ast.Stmt
		ast.Inspect(fd.Decl.Body, func(nd ast.Node) bool {
			switch nd.(type) {
			case *ast.ForStmt, *ast.RangeStmt:
				loops = append(loops, nd.(ast.Stmt))
			}
			return true
		})
		for _, loop := range loops {
			var body *ast.BlockStmt
			var elems []types.Object
			switch lp := loop.(type) {
			case *ast.ForStmt:
				body = lp.Body
				if as, ok := lp.Init.(*ast.AssignStmt); ok {
					for _, l := range as.Lhs {
						if id, isID := l.(*ast.Ident); isID {
							elems = append(elems, info.ObjectOf(id))
						}
					}
				}
			case *ast.RangeStmt:
				body = lp.Body
				for _, e := range []ast.Expr{lp.Key, lp.Value} {
					if id, isID := e.(*ast.Ident); isID && id.Name != "_" {
						elems = append(elems, info.ObjectOf(id))
					}
				}
			}
			if body == nil || len(elems) == 0 {
				continue
			}
			mentionsElem := func(e ast.Node) bool {
				found := false
				ast.Inspect(e, func(m ast.Node) bool {
					if id, ok := m.(*ast.Ident); ok {
						for _, el := range elems {
							if info.ObjectOf(id) == el {
								found = true
							}
						}
						// a variable declared inside the loop body is per-iteration state: what it holds was computed for the
						// current element
						if v, isVar := info.ObjectOf(id).(*types.Var); isVar && !v.IsField() && v.Pos() >= body.Pos() && v.Pos() < body.End() {
							found = true
						}
					}
					return true
				})
				return found
			}
			// candidate variables: assigned (plain `=`) somewhere in the body
			type cand struct {
				v           *types.Var
				condAssign  bool // assigned under an if inside the body
				plainAssign bool // assigned unconditionally at the top level of the body
				assignPos   token.Pos
				elemDep     bool
				inIf        []ast.Node // the if / case bodies that contain a conditional assignment
			}
			cands := map[*types.Var]*cand{}
			var curIf ast.Node
			var walk func(st ast.Stmt, underIf, condElem bool)
			walk = func(st ast.Stmt, underIf, condElem bool) {
				switch x := st.(type) {
				case *ast.AssignStmt:
					if x.Tok != token.ASSIGN {
						return
					}
					for i, l := range x.Lhs {
						id, ok := ast.Unparen(l).(*ast.Ident)
						if !ok {
							continue
						}
						v, ok := info.ObjectOf(id).(*types.Var)
						if !ok || v.IsField() || v.Pkg() == nil || v.Parent() == v.Pkg().Scope() {
							continue
						}
						if v.Pos() >= body.Pos() && v.Pos() < body.End() {
							continue // declared inside the loop
						}
						if v.Pos() >= loop.Pos() && v.Pos() < body.Pos() {
							continue // the loop's own variables
						}
						c := cands[v]
						if c == nil {
							c = &cand{v: v}
							cands[v] = c
						}
						var rhs ast.Expr
						if len(x.Rhs) == len(x.Lhs) {
							rhs = x.Rhs[i]
						} else if len(x.Rhs) == 1 {
							rhs = x.Rhs[0]
						}
						// self-referencing updates are accumulators
						selfRef := false
						if rhs != nil {
							ast.Inspect(rhs, func(m ast.Node) bool {
								if rid, isID := m.(*ast.Ident); isID && info.ObjectOf(rid) == v {
									selfRef = true
								}
								return true
							})
						}
						if selfRef {
							c.plainAssign = true // treat as accumulator: never reported
							continue
						}
						if underIf {
							c.condAssign = true
							c.assignPos = x.Pos()
							c.inIf = append(c.inIf, curIf)
							if (rhs != nil && mentionsElem(rhs)) || condElem {
								c.elemDep = true
							}
						} else {
							c.plainAssign = true
						}
					}
				case *ast.IfStmt:
					ce := condElem || mentionsElem(x.Cond)
					saved := curIf
					if !underIf {
						curIf = x // the outermost conditional statement of the loop body that holds the assignment
					}
					for _, s := range x.Body.List {
						walk(s, true, ce)
					}
					if x.Else != nil {
						walk(x.Else, true, ce)
					}
					curIf = saved
				case *ast.BlockStmt:
					for _, s := range x.List {
						walk(s, underIf, condElem)
					}
				case *ast.SwitchStmt:
					for _, cc := range x.Body.List {
						cl := cc.(*ast.CaseClause)
						ce := condElem || (x.Tag != nil && mentionsElem(x.Tag))
						for _, e := range cl.List {
							if mentionsElem(e) {
								ce = true
							}
						}
						saved := curIf
						if !underIf {
							curIf = x
						}
						for _, s := range cl.Body {
							walk(s, true, ce)
						}
						curIf = saved
					}
				case *ast.TypeSwitchStmt:
					for _, cc := range x.Body.List {
						saved := curIf
						if !underIf {
							curIf = x
						}
						for _, s := range cc.(*ast.CaseClause).Body {
							walk(s, true, condElem)
						}
						curIf = saved
					}
				}
			}
			for _, s := range body.List {
				walk(s, false, false)
			}
			for v, c := range cands {
				if !c.condAssign || c.plainAssign || !c.elemDep {
					continue
				}
				// a variable that the body tests against its default and leaves the loop (or the function) when the test
				// fails is back at the default whenever an iteration starts: nothing is carried (the error idiom
				// `err = f(x) ...; if err != nil { return err }`)
				// decided on paths: every way into the next iteration (the end of the body, a continue) knows v == nil
				resetByExit := false
				{
					rw := facts.NewWalker(info)
					okAll, seen := true, false
					atStart := ""
					var first ast.Stmt
					if len(body.List) > 0 {
						first = body.List[0]
					}
					rw.OnStmt = func(st ast.Stmt, f facts.Formula) {
						if st == first {
							atStart = rw.PathOfVar(v) // the value the iteration starts with (nil, by induction over the back edges)
						}
					}
					judge := func(f facts.Formula) {
						if !facts.Satisfiable(f) {
							return
						}
						seen = true
						cur := rw.PathOfVar(v)
						if cur != atStart && !facts.Entails(f, facts.Atom("nil:"+cur)) {
							okAll = false
						}
					}
					rw.OnLoopBodyEnd = func(l ast.Stmt, states uint64, f facts.Formula) {
						if l == loop {
							judge(f)
						}
					}
					rw.OnBranch = func(b *ast.BranchStmt, states uint64, f facts.Formula) {
						if b.Tok == token.CONTINUE && len(rw.Loops) > 0 && rw.Loops[len(rw.Loops)-1] == loop {
							judge(f)
						}
					}
					rw.WalkBody(fd.Decl.Body, nil)
					resetByExit = seen && okAll
				}
				if resetByExit {
					continue
				}
				// read inside the body, never read after the loop
				readIn, readAfter := false, false
				ast.Inspect(fd.Decl.Body, func(m ast.Node) bool {
					id, ok := m.(*ast.Ident)
					if !ok || info.Uses[id] != v {
						return true
					}
					if id.Pos() >= body.Pos() && id.Pos() < body.End() {
						readIn = true
					} else if id.Pos() >= loop.End() {
						readAfter = true
					}
					return true
				})
				// assignments are Uses too: count reads only (exclude pure LHS occurrences)
				lhs := map[token.Pos]bool{}
				ast.Inspect(fd.Decl.Body, func(m ast.Node) bool {
					if as, ok := m.(*ast.AssignStmt); ok {
						for _, l := range as.Lhs {
							if id, isID := ast.Unparen(l).(*ast.Ident); isID && info.ObjectOf(id) == v {
								lhs[id.Pos()] = true
							}
						}
					}
					return true
				})
				readIn, readAfter = false, false
				insideAssignIf := func(pos token.Pos) bool {
					for _, n := range c.inIf {
						if n != nil && pos >= n.Pos() && pos < n.End() {
							return true
						}
					}
					return false
				}
				ast.Inspect(fd.Decl.Body, func(m ast.Node) bool {
					id, ok := m.(*ast.Ident)
					if !ok || info.Uses[id] != v || lhs[id.Pos()] {
						return true
					}
					if id.Pos() >= body.Pos() && id.Pos() < body.End() {
						// a read inside the conditional statement that assigns sees the fresh value, not a carried one
						if !insideAssignIf(id.Pos()) {
							readIn = true
						}
					} else if id.Pos() >= loop.End() {
						readAfter = true
					}
					return true
				})
				if !readIn || readAfter {
					continue
				}
				n++
				r.Bad(rule, fmt.Sprintf("%s: %s (a %s) is reset to its default for every element of the loop", fd.Key(), describeVar(v), types.TypeString(v.Type(), func(pk *types.Package) string { return pk.Name() })), p.Pos(c.assignPos),
					fmt.Sprintf("`%s` gets its default before the loop, is overwritten inside it only when the current element says so, is used later in the same iteration and never after the loop: an element that does not set it inherits the value of an earlier element instead of the default (a port entry without protocol takes the previous entry's protocol; a peer without namespaceSelector taints the next peer), so the result depends on the order of the list", core.RefName(v)))
			}
		}
	}
	r.RuleCounts[rule+"-reports"] = n
}

// describeVar names a local in a way that survives renaming: its type and the function-relative order of declaration
// are not available cheaply here, so the declared name is used for the message only; the construct carries the type.
func describeVar(v *types.Var) string {
	return "the per-element variable"
}
