package rules

import (
	"fmt"
	"go/ast"
	"go/constant"
	"go/token"
	"go/types"
	"strings"

	"npverif/internal/core"
	"npverif/internal/facts"
)

// FullRangeTests is C11-e: "covers every port number" is decided by equality
// with the full interval, never from the bounds of the set (a set with holes
// has the same Min and Max as the full range).
func FullRangeTests(p *core.Program, r *core.Report, rule string) {
	var isFullD func(info *types.Info, e ast.Expr, depth int) bool
	isFull := func(info *types.Info, e ast.Expr) bool { return isFullD(info, e, 0) }
	isFullD = func(info *types.Info, e ast.Expr, depth int) bool {
		// interval.New(minPort, maxPort).ToSet()  |  MakePortSet(true)[.Ports]  |  a parameterless helper of the module that returns one of these
		found := false
		ast.Inspect(e, func(n ast.Node) bool {
			c, ok := n.(*ast.CallExpr)
			if !ok {
				return true
			}
			fn := core.Callee(info, c)
			if fn == nil {
				return true
			}
			if hd := p.ByObj[fn]; hd != nil && len(c.Args) == 0 && depth < 2 && len(hd.Decl.Body.List) == 1 {
				if ret, isRet := hd.Decl.Body.List[0].(*ast.ReturnStmt); isRet && len(ret.Results) == 1 && isFullD(hd.Pkg.TypesInfo, ret.Results[0], depth+1) {
					found = true
				}
			}
			if core.RefName(fn) == "New" && len(c.Args) == 2 {
				lo, hi := info.Types[c.Args[0]].Value, info.Types[c.Args[1]].Value
				if lo != nil && hi != nil {
					l, _ := constant.Int64Val(lo)
					h, _ := constant.Int64Val(hi)
					if l == 1 && h == 65535 {
						found = true
					}
				}
			}
			if core.RefName(fn) == "MakePortSet" && len(c.Args) == 1 && core.ExprStr(c.Args[0]) == "true" {
				found = true
			}
			return true
		})
		return found
	}
	nIdiom := 0
	for _, fd := range p.Funcs {
		if fd.Pkg.PkgPath != core.PkgCommon && fd.Pkg.PkgPath != core.PkgK8s && fd.Pkg.PkgPath != core.PkgEval {
			continue
		}
		info := fd.Pkg.TypesInfo
		ast.Inspect(fd.Decl.Body, func(n ast.Node) bool {
			switch x := n.(type) {
			case *ast.CallExpr:
				if fn := core.Callee(info, x); fn != nil && core.RefName(fn) == "Equal" && len(x.Args) == 1 && isFull(info, x.Args[0]) {
					nIdiom++
					r.OK(rule, fmt.Sprintf("%s: full-range test by equality with the full interval", fd.Key()), p.Pos(x.Pos()), core.ExprStr(x))
				}
			case *ast.BinaryExpr:
				if x.Op != token.EQL && x.Op != token.LEQ && x.Op != token.GEQ && x.Op != token.LSS && x.Op != token.GTR {
					return true
				}
				for _, pr := range [][2]ast.Expr{{x.X, x.Y}, {x.Y, x.X}} {
					c, ok := ast.Unparen(pr[0]).(*ast.CallExpr)
					if !ok {
						continue
					}
					fn := core.Callee(info, c)
					if fn == nil || (core.RefName(fn) != "Min" && core.RefName(fn) != "Max") || fn.Pkg() == nil || fn.Pkg().Path() == core.PkgCommon {
						continue
					}
					v := info.Types[pr[1]].Value
					if v == nil {
						continue
					}
					k, _ := constant.Int64Val(v)
					if k == 1 || k == 65535 {
						r.Bad(rule, fmt.Sprintf("%s: decides port coverage from the bounds of a set (%s)", fd.Key(), core.ExprStr(x)), p.Pos(x.Pos()),
							"Min() == 1 and Max() == 65535 do not imply that the set is the full range: a set with holes (1-79,81-65535) has the same bounds, so a named port (which may stand for any number) is wrongly treated as covered")
					}
				}
			}
			return true
		})
	}
	r.RuleCounts[rule+"-idiom"] = nIdiom
	r.Floor(rule+"-idiom", 1)
	// ContainedIn: the flag that excuses a missing named port is such an equality on the operand's ports
	fd := p.Func(core.PkgCommon, "PortSet", "ContainedIn")
	if fd == nil {
		r.Lost(rule, "(*PortSet).ContainedIn")
		return
	}
	// Decided on the path condition of every negative answer given inside a loop over the receiver's named ports, in
	// ContainedIn or in a method of the type it delegates to: the path must entail that the operand's numbered ports
	// are NOT the full range (canonical atom full:<operand>.Ports, built from an interval-set equality with the full
	// interval wherever it is written: in place, in a boolean local, in a one-line helper).
	ok := false
	nLoops := 0
	why := "no loop over the receiver's named ports with a full-range excuse"
	var analyse func(g *core.FuncDecl, depth int)
	analyse = func(g *core.FuncDecl, depth int) {
		info := g.Pkg.TypesInfo
		sig := g.Obj.Type().(*types.Signature)
		w := facts.NewWalker(info)
		w.Inline = true
		w.Atomize = func(w *facts.Walker, e ast.Expr) facts.Formula {
			c, isC := e.(*ast.CallExpr)
			if !isC || len(c.Args) != 1 {
				return nil
			}
			fn := core.Callee(w.Info, c)
			se, isSe := ast.Unparen(c.Fun).(*ast.SelectorExpr)
			if fn == nil || !isSe || core.RefName(fn) != "Equal" || !isFull(w.Info, c.Args[0]) {
				return nil
			}
			if rs := fn.Type().(*types.Signature).Recv(); rs != nil && core.TypeIs(rs.Type(), core.PkgCommon, "PortSet") {
				return facts.Atom("fullset:" + w.Path(se.X)) // compares the named ports too
			}
			return facts.Atom("full:" + w.Path(se.X))
		}
		inNamedLoop := func() bool {
			for _, l := range w.Loops {
				if rs, isRs := l.(*ast.RangeStmt); isRs {
					if f := core.FieldOf(info, rs.X); f != nil && core.RefName(f) == "NamedPorts" {
						if root := core.RootIdent(rs.X); root != nil && sig.Recv() != nil && info.ObjectOf(root) == types.Object(sig.Recv()) {
							return true
						}
					}
				}
			}
			return false
		}
		w.OnStmt = func(st ast.Stmt, f facts.Formula) {
			if rs, isRs := st.(*ast.RangeStmt); isRs {
				if fl := core.FieldOf(info, rs.X); fl != nil && core.RefName(fl) == "NamedPorts" {
					nLoops++
				}
			}
			ret, isRet := st.(*ast.ReturnStmt)
			if !isRet || len(ret.Results) != 1 || !inNamedLoop() {
				return
			}
			if v, isC := core.ConstString(info, ret.Results[0]); !isC || v != "false" {
				return
			}
			excused := false
			for _, a := range facts.Atoms(f) {
				if !strings.HasPrefix(a, "full:") || !strings.HasSuffix(facts.StripVersions(a), ".Ports") {
					continue
				}
				root := strings.TrimSuffix(strings.TrimPrefix(facts.StripVersions(a), "full:"), ".Ports")
				isOperand := false
				for k := 0; k < sig.Params().Len(); k++ {
					if core.RefName(sig.Params().At(k)) == root {
						isOperand = true
					}
				}
				if isOperand && facts.Entails(f, facts.MkNot(facts.Atom(a))) {
					excused = true
				}
			}
			if excused {
				if why == "no loop over the receiver's named ports with a full-range excuse" {
					ok = true
				}
				return
			}
			ok = false
			why = "a named port missing from the operand makes the answer negative on a path (" + facts.StripVersions(facts.String(f)) + ") that does not establish that the operand's numbered ports differ from the full range: the excuse is not equality of the operand's ports with the full interval (IsAll / PortSet.Equal compare the named ports too; bounds do not imply fullness)"
		}
		w.WalkBody(g.Decl.Body, nil)
		if depth >= 1 {
			return
		}
		for _, callee := range p.CalleesOf(g) {
			hd := p.ByObj[callee]
			if hd == nil || hd == g {
				continue
			}
			if rs := callee.Type().(*types.Signature).Recv(); rs != nil && core.TypeIs(rs.Type(), core.PkgCommon, "PortSet") {
				hasLoop := false
				ast.Inspect(hd.Decl.Body, func(n ast.Node) bool {
					if _, isRs := n.(*ast.RangeStmt); isRs {
						hasLoop = true
					}
					return true
				})
				if hasLoop {
					analyse(hd, depth+1)
				}
			}
		}
	}
	analyse(fd, 0)
	if nLoops == 0 {
		ok = false
	}
	r.Check(ok, rule, fd.Key()+": a named port missing from the operand is excused only when the operand's ports equal the full range", p.Pos(fd.Decl.Pos()), "", why)
}

// PortSetEncapsulation is C11-g: the components of a PortSet (Ports, NamedPorts, ExcludedNamedPorts) are read only by
// PortSet's own methods; everything else goes through its API (IsEmpty, ContainedIn, Equal, ...), which accounts for
// numbered and named ports together. One reviewed reader outside the type is listed.
var portSetOutsideReaders = map[string]string{
	"netpol/internal/common.(*ConnectionSet).ProtocolsAndPortsMap | Ports": "renders the numeric intervals of a connection between two real peers; named ports are resolved against the destination pod before such a set is built (C05-b)",
}

func PortSetEncapsulation(p *core.Program, r *core.Report, rule string) {
	nt := p.LookupType(core.PkgCommon, "PortSet")
	if nt == nil {
		r.Lost(rule, "type common.PortSet")
		return
	}
	st := nt.Underlying().(*types.Struct)
	fields := map[*types.Var]bool{}
	for i := 0; i < st.NumFields(); i++ {
		fields[st.Field(i)] = true
	}
	n := 0
	for _, fd := range p.Funcs {
		sig := fd.Obj.Type().(*types.Signature)
		if sig.Recv() != nil && core.TypeIs(sig.Recv().Type(), core.PkgCommon, "PortSet") {
			continue
		}
		if core.RefName(fd.Obj) == "MakePortSet" && fd.Pkg.PkgPath == core.PkgCommon {
			continue
		}
		info := fd.Pkg.TypesInfo
		seen := map[string]bool{}
		ast.Inspect(fd.Decl.Body, func(nd ast.Node) bool {
			se, ok := nd.(*ast.SelectorExpr)
			if !ok {
				return true
			}
			f := core.FieldOf(info, se)
			if f == nil || !fields[f] {
				return true
			}
			key := fd.Key() + " | " + core.RefName(f)
			if seen[key] {
				return true
			}
			seen[key] = true
			n++
			construct := fmt.Sprintf("%s: reads PortSet.%s directly", fd.Key(), core.RefName(f))
			if why, ok := portSetOutsideReaders[key]; ok {
				r.Add(rule, construct, p.Pos(se.Pos()), core.Excepted, why)
				return true
			}
			r.Bad(rule, construct, p.Pos(se.Pos()), "a component of a port set is consulted outside PortSet's own methods: a test on "+core.RefName(f)+" alone (is it empty? does it contain? is it full?) forgets the other components - numbered and named ports together are the set")
			return true
		})
	}
	r.RuleCounts[rule] = n
	r.Floor(rule, 1)
}
