package rules

import (
	"fmt"
	"go/ast"
	"go/constant"
	"go/token"
	"go/types"

	"npverif/internal/core"
)

// FullRangeTests is C11-e: "covers every port number" is decided by equality
// with the full interval, never from the bounds of the set (a set with holes
// has the same Min and Max as the full range).
func FullRangeTests(p *core.Program, r *core.Report, rule string) {
	isFull := func(info *types.Info, e ast.Expr) bool {
		// interval.New(minPort, maxPort).ToSet()  |  MakePortSet(true)[.Ports]
		found := false
		ast.Inspect(e, func(n ast.Node) bool {
			c, ok := n.(*ast.CallExpr)
			if !ok {
				return true
			}
			fn := core.Callee(info, c)
			if fn == nil {
				return true
			}
			if fn.Name() == "New" && len(c.Args) == 2 {
				lo, hi := info.Types[c.Args[0]].Value, info.Types[c.Args[1]].Value
				if lo != nil && hi != nil {
					l, _ := constant.Int64Val(lo)
					h, _ := constant.Int64Val(hi)
					if l == 1 && h == 65535 {
						found = true
					}
				}
			}
			if fn.Name() == "MakePortSet" && len(c.Args) == 1 && core.ExprStr(c.Args[0]) == "true" {
				found = true
			}
			return true
		})
		return found
	}
	nIdiom := 0
	for _, fd := range p.Funcs {
		if fd.Pkg.PkgPath != core.PkgCommon && fd.Pkg.PkgPath != core.PkgK8s && fd.Pkg.PkgPath != core.PkgEval {
			continue
		}
		info := fd.Pkg.TypesInfo
		ast.Inspect(fd.Decl.Body, func(n ast.Node) bool {
			switch x := n.(type) {
			case *ast.CallExpr:
				if fn := core.Callee(info, x); fn != nil && fn.Name() == "Equal" && len(x.Args) == 1 && isFull(info, x.Args[0]) {
					nIdiom++
					r.OK(rule, fmt.Sprintf("%s: full-range test by equality with the full interval", fd.Key()), p.Pos(x.Pos()), core.ExprStr(x))
				}
			case *ast.BinaryExpr:
				if x.Op != token.EQL && x.Op != token.LEQ && x.Op != token.GEQ && x.Op != token.LSS && x.Op != token.GTR {
					return true
				}
				for _, pr := range [][2]ast.Expr{{x.X, x.Y}, {x.Y, x.X}} {
					c, ok := ast.Unparen(pr[0]).(*ast.CallExpr)
					if !ok {
						continue
					}
					fn := core.Callee(info, c)
					if fn == nil || (fn.Name() != "Min" && fn.Name() != "Max") || fn.Pkg() == nil || fn.Pkg().Path() == core.PkgCommon {
						continue
					}
					v := info.Types[pr[1]].Value
					if v == nil {
						continue
					}
					k, _ := constant.Int64Val(v)
					if k == 1 || k == 65535 {
						r.Bad(rule, fmt.Sprintf("%s: decides port coverage from the bounds of a set (%s)", fd.Key(), core.ExprStr(x)), p.Pos(x.Pos()),
							"Min() == 1 and Max() == 65535 do not imply that the set is the full range: a set with holes (1-79,81-65535) has the same bounds, so a named port (which may stand for any number) is wrongly treated as covered")
					}
				}
			}
			return true
		})
	}
	r.RuleCounts[rule+"-idiom"] = nIdiom
	r.Floor(rule+"-idiom", 1)
	// ContainedIn: the flag that excuses a missing named port is such an equality on the operand's ports
	fd := p.Func(core.PkgCommon, "PortSet", "ContainedIn")
	if fd == nil {
		r.Lost(rule, "(*PortSet).ContainedIn")
		return
	}
	info := fd.Pkg.TypesInfo
	other := fd.Obj.Type().(*types.Signature).Params().At(0)
	ok := false
	why := "no loop over the receiver's named ports with a full-range excuse"
	ast.Inspect(fd.Decl.Body, func(n ast.Node) bool {
		rs, isRs := n.(*ast.RangeStmt)
		if !isRs {
			return true
		}
		ast.Inspect(rs.Body, func(m ast.Node) bool {
			ifs, isIf := m.(*ast.IfStmt)
			if !isIf {
				return true
			}
			for _, cj := range flattenAnd(ifs.Cond) {
				ue, isU := ast.Unparen(cj).(*ast.UnaryExpr)
				if !isU || ue.Op != token.NOT {
					continue
				}
				e := ast.Unparen(ue.X)
				if id, isID := e.(*ast.Ident); isID {
					if d, _ := defOf(fd, id); d != nil {
						e = ast.Unparen(d)
					}
				}
				c, isC := e.(*ast.CallExpr)
				if !isC {
					continue
				}
				fn := core.Callee(info, c)
				if fn == nil {
					continue
				}
				root := core.RootIdent(c.Fun)
				onOther := root != nil && info.ObjectOf(root) == other
				switch {
				case fn.Name() == "Equal" && len(c.Args) == 1 && isFull(info, c.Args[0]) && onOther:
					ok = true
				case fn.Name() == "IsAll" && onOther:
					why = "the excuse for a missing named port is `" + core.ExprStr(e) + "`: IsAll compares the named ports too, so an operand with the full range AND a named port of its own is not recognised as covering every number"
				default:
					if _, isIdx := ast.Unparen(ue.X).(*ast.IndexExpr); !isIdx {
						why = "the excuse for a missing named port is `" + core.ExprStr(e) + "`, not equality of the operand's ports with the full range"
					}
				}
			}
			return true
		})
		return true
	})
	r.Check(ok, rule, fd.Key()+": a named port missing from the operand is excused only when the operand's ports equal the full range", p.Pos(fd.Decl.Pos()), "", why)
}

// PortSetEncapsulation is C11-g: the components of a PortSet (Ports, NamedPorts, ExcludedNamedPorts) are read only by
// PortSet's own methods; everything else goes through its API (IsEmpty, ContainedIn, Equal, ...), which accounts for
// numbered and named ports together. One reviewed reader outside the type is listed.
var portSetOutsideReaders = map[string]string{
	"netpol/internal/common.(*ConnectionSet).ProtocolsAndPortsMap | Ports": "renders the numeric intervals of a connection between two real peers; named ports are resolved against the destination pod before such a set is built (C05-b)",
}

func PortSetEncapsulation(p *core.Program, r *core.Report, rule string) {
	nt := p.LookupType(core.PkgCommon, "PortSet")
	if nt == nil {
		r.Lost(rule, "type common.PortSet")
		return
	}
	st := nt.Underlying().(*types.Struct)
	fields := map[*types.Var]bool{}
	for i := 0; i < st.NumFields(); i++ {
		fields[st.Field(i)] = true
	}
	n := 0
	for _, fd := range p.Funcs {
		sig := fd.Obj.Type().(*types.Signature)
		if sig.Recv() != nil && core.TypeIs(sig.Recv().Type(), core.PkgCommon, "PortSet") {
			continue
		}
		if fd.Obj.Name() == "MakePortSet" && fd.Pkg.PkgPath == core.PkgCommon {
			continue
		}
		info := fd.Pkg.TypesInfo
		seen := map[string]bool{}
		ast.Inspect(fd.Decl.Body, func(nd ast.Node) bool {
			se, ok := nd.(*ast.SelectorExpr)
			if !ok {
				return true
			}
			f := core.FieldOf(info, se)
			if f == nil || !fields[f] {
				return true
			}
			key := fd.Key() + " | " + f.Name()
			if seen[key] {
				return true
			}
			seen[key] = true
			n++
			construct := fmt.Sprintf("%s: reads PortSet.%s directly", fd.Key(), f.Name())
			if why, ok := portSetOutsideReaders[key]; ok {
				r.Add(rule, construct, p.Pos(se.Pos()), core.Excepted, why)
				return true
			}
			r.Bad(rule, construct, p.Pos(se.Pos()), "a component of a port set is consulted outside PortSet's own methods: a test on "+f.Name()+" alone (is it empty? does it contain? is it full?) forgets the other components - numbered and named ports together are the set")
			return true
		})
	}
	r.RuleCounts[rule] = n
	r.Floor(rule, 1)
}
