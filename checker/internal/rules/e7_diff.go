package rules

import (
	"fmt"
	"go/ast"
	"go/token"
	"go/types"
	"regexp"
	"strings"

	"npverif/internal/core"
	"npverif/internal/facts"
)

// defOf returns the single definition expression of a local identifier in fd (nil if none or several).
func defOf(fd *core.FuncDecl, id *ast.Ident) (ast.Expr, int) {
	info := fd.Pkg.TypesInfo
	o := info.ObjectOf(id)
	var def ast.Expr
	idx := 0
	n := 0
	ast.Inspect(fd.Decl.Body, func(nd ast.Node) bool {
		as, ok := nd.(*ast.AssignStmt)
		if !ok {
			return true
		}
		for i, l := range as.Lhs {
			if lid, ok := l.(*ast.Ident); ok && info.ObjectOf(lid) == o {
				n++
				if len(as.Rhs) == len(as.Lhs) {
					def, idx = as.Rhs[i], 0
				} else if len(as.Rhs) == 1 {
					def, idx = as.Rhs[0], i
				}
			}
		}
		return true
	})
	if n != 1 {
		return nil, 0
	}
	return def, idx
}

func callName(info *types.Info, e ast.Expr) (string, *ast.CallExpr) {
	c, ok := ast.Unparen(e).(*ast.CallExpr)
	if !ok {
		return "", nil
	}
	if fn := core.Callee(info, c); fn != nil {
		return core.RefName(fn), c
	}
	return "", c
}

// DiffSameRefinement is C04-a.
func DiffSameRefinement(p *core.Program, r *core.Report, rule string) {
	fd := p.Func(core.PkgDiff, "DiffAnalyzer", "computeDiffFromConnlistResults")
	if fd == nil {
		r.Lost(rule, "(*DiffAnalyzer).computeDiffFromConnlistResults")
		return
	}
	info := fd.Pkg.TypesInfo
	sig := fd.Obj.Type().(*types.Signature)
	if sig.Params().Len() < 4 {
		r.Add(rule, fd.Key()+": signature", p.Pos(fd.Decl.Pos()), core.Undecided, "expected (conns1, conns2, workloads1, workloads2)")
		return
	}
	c1, c2 := sig.Params().At(0), sig.Params().At(1)
	var refines []*ast.CallExpr
	var final *ast.CallExpr
	ast.Inspect(fd.Decl.Body, func(n ast.Node) bool {
		if c, ok := n.(*ast.CallExpr); ok {
			if fn := core.Callee(info, c); fn != nil {
				switch core.RefName(fn) {
				case "RefineConnListByDisjointPeers":
					refines = append(refines, c)
				case "diffConnectionsLists":
					final = c
				}
			}
		}
		return true
	})
	ok := len(refines) == 2 && final != nil
	why := ""
	if ok {
		// same map, defined by DisjointPeerIPMap(ips(conns1), ips(conns2))
		m0, ok0 := ast.Unparen(refines[0].Args[1]).(*ast.Ident)
		m1, ok1 := ast.Unparen(refines[1].Args[1]).(*ast.Ident)
		if !ok0 || !ok1 || info.ObjectOf(m0) != info.ObjectOf(m1) {
			ok, why = false, "the two refinements use different maps"
		} else {
			def, _ := defOf(fd, m0)
			name, call := callName(info, def)
			if name != "DisjointPeerIPMap" || len(call.Args) != 2 {
				ok, why = false, "the refinement map is not the result of eval.DisjointPeerIPMap"
			} else {
				for i, want := range []*types.Var{c1, c2} {
					a, isID := ast.Unparen(call.Args[i]).(*ast.Ident)
					if !isID {
						ok, why = false, "DisjointPeerIPMap arguments are not the IP peers of conns1 and conns2"
						break
					}
					d, _ := defOf(fd, a)
					n2, c2call := callName(info, d)
					if n2 != "getIPblocksFromConnList" || len(c2call.Args) != 1 || core.RootIdent(c2call.Args[0]) == nil || info.ObjectOf(core.RootIdent(c2call.Args[0])) != want {
						ok, why = false, fmt.Sprintf("argument %d of DisjointPeerIPMap is not getIPblocksFromConnList(conns%d)", i+1, i+1)
					}
				}
			}
		}
	}
	if ok {
		// refine(conns1, m) and refine(conns2, m); results passed in order, with the peers sets in order
		for i, want := range []*types.Var{c1, c2} {
			if id := core.RootIdent(refines[i].Args[0]); id == nil || info.ObjectOf(id) != want {
				ok, why = false, fmt.Sprintf("refinement %d is not applied to conns%d", i+1, i+1)
			}
		}
		if len(final.Args) == 4 {
			for i := 0; i < 2; i++ {
				id, isID := ast.Unparen(final.Args[i]).(*ast.Ident)
				if !isID {
					ok, why = false, "diffConnectionsLists is not given the refined lists"
					break
				}
				d, _ := defOf(fd, id)
				if ast.Unparen(d) != ast.Expr(refines[i]) {
					ok, why = false, fmt.Sprintf("argument %d of diffConnectionsLists is not the refinement of conns%d", i+1, i+1)
				}
			}
			// peers sets: names derived from workloads1 / workloads2 in order
			for i := 2; i < 4; i++ {
				id, isID := ast.Unparen(final.Args[i]).(*ast.Ident)
				if !isID {
					ok, why = false, "peers sets are not passed as computed"
					break
				}
				d, _ := defOf(fd, id)
				_, dc := callName(info, d)
				if dc == nil || len(dc.Args) != 1 || core.RootIdent(dc.Args[0]) == nil || info.ObjectOf(core.RootIdent(dc.Args[0])) != sig.Params().At(i) {
					ok, why = false, fmt.Sprintf("peers set %d is not derived from workloads%d", i-1, i-1)
				}
			}
		} else {
			ok, why = false, "diffConnectionsLists arity"
		}
	}
	r.Check(ok, rule, fd.Key()+": both lists are refined by the one map DisjointPeerIPMap(ips(conns1), ips(conns2)) and diffed in order", p.Pos(fd.Decl.Pos()),
		"value identity of the refinement map and of the refined lists", "the two reports are not refined against one common IP partition, or are passed on in the wrong order: "+why)
}

// DiffClassification is C04-b/-c.
func DiffClassification(p *core.Program, r *core.Report, rule string) {
	fd := p.Func(core.PkgDiff, "", "diffConnectionsLists")
	if fd == nil {
		r.Lost(rule, "diff.diffConnectionsLists")
		return
	}
	info := fd.Pkg.TypesInfo
	sig := fd.Obj.Type().(*types.Signature)
	peers1, peers2 := sig.Params().At(2), sig.Params().At(3)
	w := facts.NewWalker(info)
	// path state per iteration: last diffType constant assigned and last updateNewOrLostFields call
	lastType := map[int]string{}
	_ = lastType
	type rowInfo struct {
		typ   string
		flags string
	}
	cur := rowInfo{}
	rows := map[string]bool{}
	w.OnStmt = func(s ast.Stmt, f facts.Formula) {
		switch x := s.(type) {
		case *ast.AssignStmt:
			// d.diffType = XType
			if len(x.Lhs) == 1 {
				if fl := core.FieldOf(info, x.Lhs[0]); fl != nil && core.RefName(fl) == "diffType" {
					cur = rowInfo{typ: constName(info, x.Rhs[0])}
					return
				}
			}
			// res.xConns = append(res.xConns, d)
			if len(x.Rhs) == 1 {
				c, ok := ast.Unparen(x.Rhs[0]).(*ast.CallExpr)
				if !ok || !core.IsBuiltinCall(info, c, "append") {
					return
				}
				fl := core.FieldOf(info, x.Lhs[0])
				if fl == nil || !strings.HasSuffix(core.RefName(fl), "Conns") {
					return
				}
				list := core.RefName(fl)
				first, second, eq := nilAtomFor(f, ".firstConn"), nilAtomFor(f, ".secondConn"), callAtomFor(f, "equalConns(")
				firstNN := first != "" && facts.Entails(f, facts.Not{X: facts.Atom(first)})
				firstNil := first != "" && facts.Entails(f, facts.Atom(first))
				secondNN := second != "" && facts.Entails(f, facts.Not{X: facts.Atom(second)})
				secondNil := second != "" && facts.Entails(f, facts.Atom(second))
				isEq := eq != "" && facts.Entails(f, facts.Atom(eq))
				notEq := eq != "" && facts.Entails(f, facts.Not{X: facts.Atom(eq)})
				want := map[string]struct {
					ok    bool
					typ   string
					flags string
					cond  string
				}{
					"changedConns":   {firstNN && secondNN && notEq, "ChangedType", "", "both sides present and not equal"},
					"unchangedConns": {firstNN && secondNN && isEq, "UnchangedType", "", "both sides present and equal"},
					"removedConns":   {firstNN && secondNil, "RemovedType", "true," + core.RefName(peers2), "first side only"},
					"addedConns":     {firstNil && secondNN, "AddedType", "false," + core.RefName(peers1), "second side only"},
				}
				wnt, known := want[list]
				if !known {
					return
				}
				rows[list] = true
				c2 := fmt.Sprintf("%s: an entry is classified %s exactly for: %s", fd.Key(), strings.TrimSuffix(list, "Conns"), wnt.cond)
				switch {
				case !wnt.ok:
					r.Bad(rule, c2, p.Pos(x.Pos()), "the entry is appended to "+list+" outside its row of the classification table (path condition: "+facts.StripVersions(facts.String(f))+")")
				case cur.typ != wnt.typ:
					r.Bad(rule, c2, p.Pos(x.Pos()), "the entry appended to "+list+" was given the type "+cur.typ+" instead of "+wnt.typ)
				case cur.flags != wnt.flags:
					r.Bad(rule, c2, p.Pos(x.Pos()), "new/lost flags computed with ("+cur.flags+") instead of ("+wnt.flags+"): a removed entry's workloads must be looked up in the second set, an added entry's in the first")
				default:
					r.OK(rule, c2, p.Pos(x.Pos()), "path condition, type constant and new/lost lookup agree with the table")
				}
			}
		case *ast.ExprStmt:
			if c, ok := x.X.(*ast.CallExpr); ok {
				if fn := core.Callee(info, c); fn != nil && core.RefName(fn) == "updateNewOrLostFields" && len(c.Args) == 2 {
					v, _ := core.ConstString(info, c.Args[0])
					cur.flags = v + "," + core.ExprStr(c.Args[1])
				}
			}
		}
	}
	w.WalkBody(fd.Decl.Body, nil)
	for _, l := range []string{"changedConns", "unchangedConns", "removedConns", "addedConns"} {
		if !rows[l] {
			r.Bad(rule, fd.Key()+": classification has the row "+strings.TrimSuffix(l, "Conns"), p.Pos(fd.Decl.Pos()), "no append to "+l)
		}
	}
	// inputs: conns1 entered with isFirst=true, conns2 with false
	{
		okIn := 0
		ast.Inspect(fd.Decl.Body, func(n ast.Node) bool {
			rs, ok := n.(*ast.RangeStmt)
			if !ok {
				return true
			}
			xid, ok := ast.Unparen(rs.X).(*ast.Ident)
			if !ok {
				return true
			}
			var want string
			switch info.ObjectOf(xid) {
			case sig.Params().At(0):
				want = "true"
			case sig.Params().At(1):
				want = "false"
			default:
				return true
			}
			ast.Inspect(rs.Body, func(m ast.Node) bool {
				if c, ok := m.(*ast.CallExpr); ok {
					if fn := core.Callee(info, c); fn != nil && core.RefName(fn) == "update" && len(c.Args) == 3 {
						if v, _ := core.ConstString(info, c.Args[1]); v == want {
							okIn++
						}
					}
				}
				return true
			})
			return true
		})
		r.Check(okIn == 2, rule, fd.Key()+": the first report fills the first side, the second report the second side", p.Pos(fd.Decl.Pos()), "update(key, true, c) over conns1 and update(key, false, c) over conns2", "the two reports are not entered as first/second side respectively")
	}
	// accessors of connectivityDiff return their own list; IsEmpty ignores only the unchanged list
	for acc, fld := range map[string]string{"RemovedConnections": "removedConns", "AddedConnections": "addedConns", "ChangedConnections": "changedConns", "UnchangedConnections": "unchangedConns"} {
		m := p.Func(core.PkgDiff, "connectivityDiff", acc)
		if m == nil {
			r.Lost(rule, "connectivityDiff."+acc)
			continue
		}
		reads := map[string]bool{}
		ast.Inspect(m.Decl.Body, func(n ast.Node) bool {
			if se, ok := n.(*ast.SelectorExpr); ok {
				if f := core.FieldOf(m.Pkg.TypesInfo, se); f != nil {
					reads[core.RefName(f)] = true
				}
			}
			return true
		})
		r.Check(len(reads) == 1 && reads[fld], rule, m.Key()+": returns the "+fld+" list", p.Pos(m.Decl.Pos()), "", fmt.Sprintf("the accessor reads %v", sortedKeys(reads)))
	}
	if m := p.Func(core.PkgDiff, "connectivityDiff", "IsEmpty"); m != nil {
		reads := map[string]bool{}
		ast.Inspect(m.Decl.Body, func(n ast.Node) bool {
			if se, ok := n.(*ast.SelectorExpr); ok {
				if f := core.FieldOf(m.Pkg.TypesInfo, se); f != nil {
					reads[core.RefName(f)] = true
				}
			}
			return true
		})
		r.Check(reads["removedConns"] && reads["addedConns"] && reads["changedConns"], rule, m.Key()+": empty iff no added, removed or changed entry", p.Pos(m.Decl.Pos()), "", "IsEmpty does not consult all three difference lists")
	}
	// connsPair accessors
	// decided on the path condition of every return: under diffType == <constant> the result is built from `under` (a side
	// of the pair, or neither: the empty connection), otherwise from `other` - whatever the shape (guard clause, if/else, switch)
	accTable := []struct{ name, constant, under, other, what string }{
		{"Src", "AddedType", "secondConn", "firstConn", "the second side's source for an added entry"}, {"Dst", "AddedType", "secondConn", "firstConn", "the second side's destination for an added entry"},
		{"Ref1Connectivity", "AddedType", "", "firstConn", "an empty first connection for an added entry"}, {"Ref2Connectivity", "RemovedType", "", "secondConn", "an empty second connection for a removed entry"},
	}
	for _, a := range accTable {
		m := p.Func(core.PkgDiff, "connsPair", a.name)
		if m == nil {
			r.Lost(rule, "connsPair."+a.name)
			continue
		}
		minfo := m.Pkg.TypesInfo
		constVal := ""
		if pk := p.ByPath[core.PkgDiff]; pk != nil {
			if c, ok := pk.Types.Scope().Lookup(a.constant).(*types.Const); ok {
				constVal = c.Val().ExactString()
			}
		}
		okAcc := constVal != ""
		nRet := 0
		w := facts.NewWalker(minfo)
		w.OnStmt = func(st ast.Stmt, f facts.Formula) {
			ret, isRet := st.(*ast.ReturnStmt)
			if !isRet || w.FuncLitDepth > 0 || len(ret.Results) != 1 || !facts.Satisfiable(f) {
				return
			}
			nRet++
			var is, isNot bool
			for _, at := range facts.Atoms(f) {
				sa := facts.StripVersions(at)
				if strings.HasPrefix(sa, "eq:") && strings.HasSuffix(sa, ".diffType=="+constVal) {
					is = is || facts.Entails(f, facts.Atom(at))
					isNot = isNot || facts.Entails(f, facts.MkNot(facts.Atom(at)))
				}
			}
			sides := map[string]bool{}
			ast.Inspect(ResolveLocal(minfo, m.Decl.Body, ret.Results[0]), func(n ast.Node) bool {
				if se, ok := n.(*ast.SelectorExpr); ok {
					if fl := core.FieldOf(minfo, se); fl != nil && (core.RefName(fl) == "firstConn" || core.RefName(fl) == "secondConn") {
						sides[core.RefName(fl)] = true
					}
				}
				return true
			})
			want := a.other
			switch {
			case is:
				want = a.under
			case !isNot:
				okAcc = false // the return does not know which kind of entry it answers for
				return
			}
			if (want == "" && len(sides) != 0) || (want != "" && !(len(sides) == 1 && sides[want])) {
				okAcc = false
			}
		}
		w.WalkBody(m.Decl.Body, nil)
		if nRet < 2 {
			okAcc = false
		}
		// the other branch reads the mirror side
		r.Check(okAcc, rule, m.Key()+": yields "+a.what, p.Pos(m.Decl.Pos()), "special-cases diffType == "+a.constant, "the accessor no longer special-cases "+a.constant)
	}
	// updateNewOrLostFields: side selection and membership test
	if m := p.Func(core.PkgDiff, "connsPair", "updateNewOrLostFields"); m != nil {
		minfo := m.Pkg.TypesInfo
		msig := m.Obj.Type().(*types.Signature)
		mw := facts.NewWalker(minfo)
		mw.Inline = true
		okSide, okFlags := true, 0
		mw.OnStmt = func(s ast.Stmt, f facts.Formula) {
			as, ok := s.(*ast.AssignStmt)
			if !ok {
				return
			}
			first := facts.Atom("b:" + mw.PathOfVar(msig.Params().At(0)))
			for i, l := range as.Lhs {
				if fl := core.FieldOf(minfo, l); fl != nil && strings.HasPrefix(core.RefName(fl), "newOrLost") {
					// set to true only under !peersSet[x.String()]
					v, _ := core.ConstString(minfo, as.Rhs[i])
					member := false
					for _, a := range facts.Atoms(f) {
						if strings.HasPrefix(a, "b:"+mw.PathOfVar(msig.Params().At(1))+"[") && facts.Entails(f, facts.Not{X: facts.Atom(a)}) {
							member = true
						}
					}
					if v == "true" && member {
						okFlags++
					}
				}
			}
			if len(as.Rhs) == 2 && len(as.Lhs) == 2 {
				rhs := core.ExprStr(as.Rhs[0])
				switch {
				case strings.Contains(rhs, "firstConn"):
					okSide = okSide && facts.Entails(f, first)
				case strings.Contains(rhs, "secondConn"):
					okSide = okSide && facts.Entails(f, facts.Not{X: first})
				}
			}
		}
		mw.WalkBody(m.Decl.Body, nil)
		r.Check(okSide && okFlags == 2, rule, m.Key()+": a workload is new/lost iff it is absent from the other report's peers", p.Pos(m.Decl.Pos()), "side chosen by isFirst; flags set under !peersSet[peer.String()]", "the new/lost flags are not set exactly for peers missing from the given set, or the wrong side is consulted")
	}
	r.Floor(rule, 12)
}

func nilAtomFor(f facts.Formula, suffix string) string {
	for _, a := range facts.Atoms(f) {
		if strings.HasPrefix(a, "nil:") && strings.HasSuffix(a, suffix) {
			return a
		}
	}
	return ""
}

func callAtomFor(f facts.Formula, part string) string {
	for _, a := range facts.Atoms(f) {
		if strings.HasPrefix(a, "b:") && strings.Contains(a, part) {
			return a
		}
	}
	return ""
}

// DiffMergeKey is C04-d/-e.
func DiffMergeKey(p *core.Program, r *core.Report, rule string) {
	// equality by value through the shared ConnectionSet
	if fd := p.Func(core.PkgDiff, "", "equalConns"); fd == nil {
		r.Lost(rule, "diff.equalConns")
	} else {
		info := fd.Pkg.TypesInfo
		sig := fd.Obj.Type().(*types.Signature)
		ok := false
		ast.Inspect(fd.Decl.Body, func(n ast.Node) bool {
			ret, isRet := n.(*ast.ReturnStmt)
			if !isRet || len(ret.Results) != 1 {
				return true
			}
			name, call := callName(info, ret.Results[0])
			if name != "Equal" || len(call.Args) != 1 {
				return true
			}
			fn := core.Callee(info, call)
			if core.RecvTypeName(fn.Type().(*types.Signature)) != "ConnectionSet" {
				return true
			}
			se := ast.Unparen(call.Fun).(*ast.SelectorExpr)
			sides := []ast.Expr{se.X, call.Args[0]}
			got := 0
			for i, e := range sides {
				id, isID := ast.Unparen(e).(*ast.Ident)
				if !isID {
					continue
				}
				d, _ := defOf(fd, id)
				n2, c2 := callName(info, d)
				if n2 == "GetConnectionSetFromP2PConnection" && len(c2.Args) == 1 {
					if aid, isA := ast.Unparen(c2.Args[0]).(*ast.Ident); isA && info.ObjectOf(aid) == sig.Params().At(i) {
						got++
					}
				}
			}
			ok = got == 2
			return true
		})
		r.Check(ok, rule, fd.Key()+": two rows are equal iff their rebuilt ConnectionSets are Equal", p.Pos(fd.Decl.Pos()), "GetConnectionSetFromP2PConnection on both rows, ConnectionSet.Equal", "equality of two rows is no longer decided by ConnectionSet.Equal on the sets rebuilt from both rows: a private comparison can disagree with the algebra (C11)")
	}
	// pair key
	if fd := p.Func(core.PkgDiff, "", "getKeyFromP2PConn"); fd != nil {
		parts := concatParts(fd, nil)
		ok := len(parts) == 3 && strings.HasSuffix(parts[0], ".String()") && parts[1] == "keyElemSep" && strings.HasSuffix(parts[2], ".String()")
		r.Check(ok, rule, fd.Key()+": the pair key is src.String() + separator + dst.String()", p.Pos(fd.Decl.Pos()), strings.Join(parts, " + "), "the (src,dst) key is not the separator-joined pair of peer strings: "+strings.Join(parts, " + "))
	} else {
		r.Lost(rule, "diff.getKeyFromP2PConn")
	}
	// merge key
	add := p.Func(core.PkgDiff, "mapListConnPairs", "addConnsPair")
	if add == nil {
		r.Lost(rule, "mapListConnPairs.addConnsPair")
		return
	}
	info := add.Pkg.TypesInfo
	var keyID *ast.Ident
	ast.Inspect(add.Decl.Body, func(n ast.Node) bool {
		if ix, ok := n.(*ast.IndexExpr); ok {
			if _, isMap := info.TypeOf(ix.X).Underlying().(*types.Map); isMap {
				if id, ok := ast.Unparen(ix.Index).(*ast.Ident); ok {
					keyID = id
				}
			}
		}
		return true
	})
	okKey := false
	desc := ""
	var keyPeer types.Object
	if keyID != nil {
		def, _ := defOf(add, keyID)
		parts := flattenConcat(def)
		if len(parts) > 0 {
			if id0, isID := ast.Unparen(parts[0]).(*ast.Ident); isID {
				keyPeer = info.ObjectOf(id0)
			}
		}
		var ps []string
		for _, e := range parts {
			ps = append(ps, core.ExprStr(e))
		}
		desc = strings.Join(ps, " + ")
		if len(parts) == 5 && ps[1] == "keyElemSep" && ps[3] == "keyElemSep" {
			// parts 2 and 4 are the two connection strings of the pair, part 0 the non-IP end's string
			c1, i1 := defOfExpr(add, parts[2])
			c2, i2 := defOfExpr(add, parts[4])
			n1, _ := callName(info, c1)
			n2, _ := callName(info, c2)
			okKey = n1 == "getConnStringsFromConnsPair" && n2 == "getConnStringsFromConnsPair" && i1 == 0 && i2 == 1
		}
	}
	r.Check(okKey, rule, add.Key()+": the grouping key is nonIPend + sep + conn1 + sep + conn2", p.Pos(add.Decl.Pos()), desc,
		"the key under which IP ranges are grouped for merging is not the separator-joined triple (non-IP end, first connection, second connection): ranges with different connections - or an added and a removed range - can share a group and be merged under one member's connections ("+desc+")")
	// non-IP end opposite to the IP end
	{
		w := facts.NewWalker(info)
		sig := add.Obj.Type().(*types.Signature)
		flag := sig.Params().At(1)
		okEnd, n := true, 0
		w.OnStmt = func(s ast.Stmt, f facts.Formula) {
			as, ok := s.(*ast.AssignStmt)
			if !ok || len(as.Lhs) != 1 {
				return
			}
			id, ok := as.Lhs[0].(*ast.Ident)
			if !ok || keyPeer == nil || info.ObjectOf(id) != keyPeer {
				return
			}
			n++
			fa := facts.Atom("b:" + w.PathOfVar(flag))
			rhs := core.ExprStr(as.Rhs[0])
			switch {
			case facts.Entails(f, fa):
				okEnd = okEnd && strings.Contains(rhs, ".Dst()")
			case facts.Entails(f, facts.Not{X: fa}):
				okEnd = okEnd && strings.Contains(rhs, ".Src()")
			default:
				okEnd = false
			}
		}
		w.WalkBody(add.Decl.Body, nil)
		r.Check(okEnd && n == 2, rule, add.Key()+": the key's peer is the end that is not the IP", p.Pos(add.Decl.Pos()), "Dst when the source is the IP, Src otherwise", "the grouping key is built from the IP end itself")
	}
	// everything read from the group's representative is an input of the key; mirror re-insertion
	merge := p.Func(core.PkgDiff, "mapListConnPairs", "mergeBySrcOrDstIPPeers")
	if merge == nil {
		r.Lost(rule, "mapListConnPairs.mergeBySrcOrDstIPPeers")
		return
	}
	minfo := merge.Pkg.TypesInfo
	msig := merge.Obj.Type().(*types.Signature)
	mflag := msig.Params().At(0)
	mw := facts.NewWalker(minfo)
	bad := ""
	nReads, nEnds := 0, 0
	// reads of the representative's connection: written in place, or in a helper the connection is handed to (then
	// the helper's own path condition on the parameter that receives the flag decides which end may be read)
	classify := func(method string, f facts.Formula, fa facts.Formula, where string) {
		nReads++
		switch method {
		case "AllProtocolsAndPorts", "ProtocolsAndPorts":
		case "Src":
			nEnds++
			if (fa == nil || !facts.Entails(f, fa)) && bad == "" {
				bad = "the representative's source is read" + where + " although the source may be the merged IP end"
			}
		case "Dst":
			nEnds++
			if (fa == nil || !facts.Entails(f, facts.MkNot(fa))) && bad == "" {
				bad = "the representative's destination is read" + where + " although the destination may be the merged IP end"
			}
		default:
			if bad == "" {
				bad = "attribute " + method + "() of the group's representative is read" + where + " but is not part of the grouping key"
			}
		}
	}
	repRe := regexp.MustCompile(`\[0\]\.\w+$`)
	isRep := func(e ast.Expr) bool {
		if _, isSel := ast.Unparen(e).(*ast.SelectorExpr); !isSel {
			if _, isId := ast.Unparen(e).(*ast.Ident); !isId {
				return false
			}
		}
		t := minfo.TypeOf(e)
		if t == nil || !strings.HasSuffix(t.String(), "connlist.Peer2PeerConnection") {
			return false
		}
		return repRe.MatchString(Unfold(minfo, merge.Decl.Body, e))
	}
	mw.OnExpr = func(e ast.Expr, f facts.Formula) {
		c, ok := e.(*ast.CallExpr)
		if !ok {
			return
		}
		if se, isSe := ast.Unparen(c.Fun).(*ast.SelectorExpr); isSe && isRep(se.X) {
			classify(se.Sel.Name, f, facts.Atom("b:"+mw.PathOfVar(mflag)), "")
			return
		}
		// handed to a module helper
		fn := core.Callee(minfo, c)
		hd := p.ByObj[fn]
		if hd == nil {
			return
		}
		hsig := fn.Type().(*types.Signature)
		var connParam, flagParam *types.Var
		for k, a := range c.Args {
			if k >= hsig.Params().Len() {
				break
			}
			if isRep(a) {
				connParam = hsig.Params().At(k)
			}
			if id, isId := ast.Unparen(a).(*ast.Ident); isId && minfo.ObjectOf(id) == types.Object(mflag) {
				flagParam = hsig.Params().At(k)
			}
		}
		if connParam == nil {
			return
		}
		hinfo := hd.Pkg.TypesInfo
		hw := facts.NewWalker(hinfo)
		hw.OnExpr = func(he ast.Expr, hf facts.Formula) {
			hc, isC := he.(*ast.CallExpr)
			if !isC {
				return
			}
			hse, isSe := ast.Unparen(hc.Fun).(*ast.SelectorExpr)
			if !isSe {
				return
			}
			if id, isId := ast.Unparen(hse.X).(*ast.Ident); isId && hinfo.ObjectOf(id) == types.Object(connParam) {
				var fa facts.Formula
				if flagParam != nil {
					fa = facts.Atom("b:" + hw.PathOfVar(flagParam))
				}
				classify(hse.Sel.Name, hf, fa, " in "+hd.Key())
			}
		}
		hw.WalkBody(hd.Decl.Body, nil)
	}
	// mirror: update(..., true, X) with X built from firstConn, false from secondConn
	mw.OnStmt = func(s ast.Stmt, f facts.Formula) {
		es, ok := s.(*ast.ExprStmt)
		if !ok {
			return
		}
		c, ok := es.X.(*ast.CallExpr)
		if !ok || len(c.Args) != 3 {
			return
		}
		if fn := core.Callee(minfo, c); fn == nil || core.RefName(fn) != "update" {
			return
		}
		v, _ := core.ConstString(minfo, c.Args[1])
		first := nilAtomFor(f, ".firstConn")
		second := nilAtomFor(f, ".secondConn")
		switch v {
		case "true":
			if (first == "" || !facts.Entails(f, facts.Not{X: facts.Atom(first)})) && bad == "" {
				bad = "a first-side row is re-inserted where the representative's first connection may be absent"
			}
		case "false":
			if (second == "" || !facts.Entails(f, facts.Not{X: facts.Atom(second)})) && bad == "" {
				bad = "a second-side row is re-inserted where the representative's second connection may be absent"
			}
		}
	}
	mw.WalkBody(merge.Decl.Body, nil)
	r.Check(bad == "" && nReads >= 4 && nEnds >= 2, rule, merge.Key()+": only key attributes are read from a group's representative, and sides are re-inserted as they were", p.Pos(merge.Decl.Pos()),
		"reads the non-IP end and the two connections only; first side re-inserted under firstConn != nil with isFirst=true, second under secondConn != nil with false", bad)
	r.Floor(rule, 5)
}

func flattenConcat(e ast.Expr) []ast.Expr {
	e = ast.Unparen(e)
	if be, ok := e.(*ast.BinaryExpr); ok && be.Op == token.ADD {
		return append(flattenConcat(be.X), flattenConcat(be.Y)...)
	}
	if e == nil {
		return nil
	}
	return []ast.Expr{e}
}

// concatParts: the parts of the string concatenation returned by fd (following one local definition per identifier).
func concatParts(fd *core.FuncDecl, _ interface{}) []string {
	var out []string
	ast.Inspect(fd.Decl.Body, func(n ast.Node) bool {
		ret, ok := n.(*ast.ReturnStmt)
		if !ok || len(ret.Results) != 1 {
			return true
		}
		for _, part := range flattenConcat(ret.Results[0]) {
			s := core.ExprStr(part)
			if call, ok := ast.Unparen(part).(*ast.CallExpr); ok {
				if se, ok := ast.Unparen(call.Fun).(*ast.SelectorExpr); ok {
					if id, ok := ast.Unparen(se.X).(*ast.Ident); ok {
						if d, _ := defOf(fd, id); d != nil {
							s = core.ExprStr(d) + "." + se.Sel.Name + "()"
						}
					}
				}
			}
			out = append(out, s)
		}
		return true
	})
	return out
}

func defOfExpr(fd *core.FuncDecl, e ast.Expr) (ast.Expr, int) {
	id, ok := ast.Unparen(e).(*ast.Ident)
	if !ok {
		return nil, 0
	}
	return defOf(fd, id)
}
