package rules

import (
	"fmt"
	"go/ast"
	"go/types"
	"sort"

	"npverif/internal/core"
)

// E3p — query-path write discipline. Functions reachable from the query
// entries (connectivity queries, peer listing, ingress analysis) may write
// long-lived state (engine, policies, pods, namespaces, analyzers,
// package-level variables) only at the sites frozen in the table below, each
// with the reason why the write cannot make an answer depend on earlier
// queries or on iteration order. A new write - typically a memo table with an
// incomplete key or without invalidation - is reported.

var longLived = map[string]bool{
	"netpol/eval.PolicyEngine": true, "netpol/eval.evalCache": true,
	"netpol/eval/internal/k8s.NetworkPolicy": true, "netpol/eval/internal/k8s.Pod": true, "netpol/eval/internal/k8s.Namespace": true,
	"netpol/eval/internal/k8s.PodExposureInfo": true, "netpol/eval/internal/k8s.PolicyExposureWithoutSelectors": true,
	"netpol/eval/internal/k8s.AdminNetworkPolicy": true, "netpol/eval/internal/k8s.BaselineAdminNetworkPolicy": true,
	"netpol/connlist/internal/ingressanalyzer.IngressAnalyzer": true,
	"netpol/connlist.ConnlistAnalyzer":                         true, "netpol/diff.DiffAnalyzer": true,
}

// allowed: "function key | Type.field" -> reason
var queryWriteAllowed = map[string]string{
	"netpol/eval.(*evalCache).hasConnectionResult | evalCache.cacheHitsCount":                                            "debug counter, never read by the analysis",
	"netpol/eval.(*evalCache).clear | evalCache.ownerToPods":                                                             "the result cache's own bookkeeping; invalidation discipline is rule E4a",
	"netpol/eval.(*PolicyEngine).insertNamespace | PolicyEngine.namespacesMap":                                           "reached from getPeer through resolveSingleMissingNamespace: inserts the default namespace object for a pod whose Namespace manifest is missing, exactly what the bulk loader does; idempotent and followed by a cache clear (E4a)",
	"netpol/eval/internal/k8s.(*Pod).UpdatePodXgressProtectedFlag | PodExposureInfo.IsProtected":                         "exposure analysis: monotone flag (only ever set to true), set from the policies selecting the pod, independent of the other peer (C06-c)",
	"netpol/eval.(*PolicyEngine).checkConsistentLabelsForPodsOfSameOwner | PolicyEngine.podOwnersToRepresentativePodMap": "remembers the first pod seen per (namespace, owner) only to report inconsistent labels; all candidates are equivalent unless the error is returned (C19)",
	"netpol/eval.(*PolicyEngine).AddPodByNameAndNamespace | PolicyEngine.podsMap":                                        "adds the fake ingress-controller pod once per list run (not cached: no owner); not reachable from CheckIfAllowed",
}

// QueryEntries are the read-only API entries of the engine and the ingress analyzer.
func QueryEntries(p *core.Program) []*types.Func {
	mutators := map[string]bool{"InsertObject": true, "DeleteObject": true, "SetResources": true, "ClearResources": true, "AddObjectsForExposureAnalysis": true, "AddPodByNameAndNamespace": true}
	var out []*types.Func
	for _, m := range p.Methods(core.PkgEval, "PolicyEngine") {
		if m.Obj.Exported() && !mutators[core.RefName(m.Obj)] {
			out = append(out, m.Obj)
		}
	}
	for _, n := range []string{"allAllowedConnections", "checkIfAllowedNew"} {
		if fd := p.Func(core.PkgEval, "PolicyEngine", n); fd != nil {
			out = append(out, fd.Obj)
		}
	}
	if fd := p.Func(core.PkgIngress, "IngressAnalyzer", "AllowedIngressConnections"); fd != nil {
		out = append(out, fd.Obj)
	}
	if fd := p.Func(core.PkgEval, "", "GetPeerExposedTCPConnections"); fd != nil {
		out = append(out, fd.Obj)
	}
	return out
}

func longLivedFieldIn(info *types.Info, e ast.Expr) string {
	found := ""
	for {
		switch x := ast.Unparen(e).(type) {
		case *ast.SelectorExpr:
			if sel := info.Selections[x]; sel != nil && sel.Kind() == types.FieldVal {
				owner := core.ShortPkg(core.FieldOwnerName(sel))
				if nt := core.NamedOf(sel.Recv()); nt != nil && nt.Obj().Pkg() != nil && found == "" {
					// the static type the field is selected from (covers fields promoted from embedded API objects)
					ro := core.ShortPkg(nt.Obj().Pkg().Path()) + "." + nt.Obj().Name()
					if longLived[ro] {
						owner = ro
					}
				}
				if i := lastDot(owner); i >= 0 && isAPIPkg(owner[:i]) && found == "" {
					found = "decoded manifest object " + owner[i+1:] + "." + x.Sel.Name
				}
				if longLived[owner] && found == "" {
					t := owner
					if i := lastDot(t); i >= 0 {
						t = t[i+1:]
					}
					found = t + "." + x.Sel.Name
				}
			}
			e = x.X
		case *ast.IndexExpr:
			e = x.X
		case *ast.StarExpr:
			e = x.X
		case *ast.SliceExpr:
			e = x.X
		case *ast.Ident:
			if v, ok := info.ObjectOf(x).(*types.Var); ok && found == "" && v.Pkg() != nil && v.Parent() == v.Pkg().Scope() {
				return "package variable " + x.Name
			}
			return found
		default:
			return found
		}
	}
}

func lastDot(s string) int {
	for i := len(s) - 1; i >= 0; i-- {
		if s[i] == '.' {
			return i
		}
	}
	return -1
}

// QueryPathWrites is rule E3p.
func QueryPathWrites(p *core.Program, r *core.Report, rule string) {
	roots := QueryEntries(p)
	if len(roots) < 5 {
		r.Lost(rule, "query entries of PolicyEngine / IngressAnalyzer")
		return
	}
	var fns []*core.FuncDecl
	for fn := range p.Reachable(roots...) {
		if fd := p.ByObj[fn]; fd != nil {
			fns = append(fns, fd)
		}
	}
	sort.Slice(fns, func(i, j int) bool { return fns[i].Key() < fns[j].Key() })
	n := 0
	for _, fd := range fns {
		info := fd.Pkg.TypesInfo
		isLocalFresh := func(e ast.Expr) bool {
			// writes through a local that was allocated in this function are not long-lived writes
			id := core.RootIdent(e)
			if id == nil {
				return false
			}
			return !isParamOrRecv(fd, info, id) && !isPkgVar(info, id) && definedFresh(fd, info, id)
		}
		report := func(target ast.Expr, at ast.Node, kind string) {
			what := longLivedFieldIn(info, target)
			if what == "" || isLocalFresh(target) {
				return
			}
			n++
			key := fd.Key() + " | " + what
			c := fmt.Sprintf("%s: %s of %s on a query path", fd.Key(), kind, what)
			if why, ok := queryWriteAllowed[key]; ok {
				r.Add(rule, c, p.Pos(at.Pos()), core.Excepted, why)
				return
			}
			path := ""
			for _, root := range roots {
				if cp := p.CallPath(root, fd.Obj); cp != nil {
					path = fmt.Sprint(cp)
					break
				}
			}
			r.Bad(rule, c, p.Pos(at.Pos()),
				"a function reachable from a read-only query entry writes long-lived state that is not in the reviewed table: answers may now depend on earlier queries, on the order in which peers are visited, or on a memo key that does not cover everything the stored value depends on",
				"write: "+core.ExprStr(at), "reached via: "+path)
		}
		ast.Inspect(fd.Decl.Body, func(nd ast.Node) bool {
			switch x := nd.(type) {
			case *ast.AssignStmt:
				for _, l := range x.Lhs {
					if _, isID := ast.Unparen(l).(*ast.Ident); isID {
						if id := ast.Unparen(l).(*ast.Ident); isPkgVar(info, id) && x.Tok.String() != ":=" {
							report(l, x, "assignment")
						}
						continue
					}
					report(l, x, "store")
				}
			case *ast.IncDecStmt:
				report(x.X, x, "update")
			case *ast.CallExpr:
				if core.IsBuiltinCall(info, x, "delete") && len(x.Args) == 2 {
					report(x.Args[0], x, "delete")
				}
			}
			return true
		})
	}
	r.Extra[rule+"_functions_on_query_paths"] = len(fns)
	// vacuity guard: the number of functions found on the query paths, not the number of reviewed writes among them -
	// a query that stops writing state (e.g. no longer records a resolved namespace in the engine) is a legitimate edit
	r.RuleCounts[rule+"-fns"] = len(fns)
	r.Floor(rule+"-fns", 120)
	r.Floor(rule, 0)
}

func isPkgVar(info *types.Info, id *ast.Ident) bool {
	v, ok := info.ObjectOf(id).(*types.Var)
	return ok && v.Pkg() != nil && v.Parent() == v.Pkg().Scope()
}

// definedFresh: the local is defined from a composite literal, new(), make() or a constructor call returning a fresh object.
func definedFresh(fd *core.FuncDecl, info *types.Info, id *ast.Ident) bool {
	o := info.ObjectOf(id)
	fresh := false
	ast.Inspect(fd.Decl.Body, func(n ast.Node) bool {
		as, ok := n.(*ast.AssignStmt)
		if !ok {
			return true
		}
		for i, l := range as.Lhs {
			lid, ok := l.(*ast.Ident)
			if !ok || info.ObjectOf(lid) != o || i >= len(as.Rhs) {
				continue
			}
			switch rx := ast.Unparen(as.Rhs[i]).(type) {
			case *ast.CompositeLit:
				fresh = true
			case *ast.UnaryExpr:
				if _, ok := rx.X.(*ast.CompositeLit); ok {
					fresh = true
				}
			case *ast.CallExpr:
				if core.IsBuiltinCall(info, rx, "make") || core.IsBuiltinCall(info, rx, "new") {
					fresh = true
				}
			}
		}
		return true
	})
	return fresh
}
