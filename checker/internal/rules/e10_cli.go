package rules

import (
	"fmt"
	"go/ast"
	"go/constant"
	"go/token"
	"go/types"
	"sort"
	"strings"

	"golang.org/x/tools/go/ssa"

	"npverif/internal/core"
	"npverif/internal/facts"
)

// E10 — the CLI as a thin shell over the library (C18).

type cliSpec struct {
	run, toString, ctor, opts string
	analyses                  []string // library entry methods whose first result is rendered
	pathGlobals               map[string][]string
}

var cliSpecs = []cliSpec{
	{"runListCommand", "ConnectionsListToString", "NewConnlistAnalyzer", "getConnlistOptions", []string{"ConnlistFromDirPath", "ConnlistFromK8sCluster"},
		map[string][]string{"ConnlistFromDirPath": {"dirPath"}, "ConnlistFromK8sCluster": {"clientset"}}},
	{"runDiffCommand", "ConnectivityDiffToString", "NewDiffAnalyzer", "getDiffOptions", []string{"ConnDiffFromDirPaths"},
		map[string][]string{"ConnDiffFromDirPaths": {"dir1", "dir2"}}},
}

func ssaCalleeName(c *ssa.CallCommon) (pkg, name string) {
	if f := c.StaticCallee(); f != nil {
		if f.Pkg != nil {
			pkg = f.Pkg.Pkg.Path()
		} else if o := f.Object(); o != nil && o.Pkg() != nil {
			pkg = o.Pkg().Path()
		}
		if o, ok := f.Object().(*types.Func); ok && o != nil {
			return pkg, core.RefName(o)
		}
		return pkg, f.Name()
	}
	if c.IsInvoke() {
		return "", core.RefName(c.Method)
	}
	return "", ""
}

func stripIface(v ssa.Value) ssa.Value {
	for {
		switch x := v.(type) {
		case *ssa.MakeInterface:
			v = x.X
		case *ssa.ChangeType:
			v = x.X
		default:
			return v
		}
	}
}

// varargValues returns the values stored into the implicit varargs slice v.
func varargValues(v ssa.Value) []ssa.Value {
	sl, ok := v.(*ssa.Slice)
	if !ok {
		return nil
	}
	al, ok := sl.X.(*ssa.Alloc)
	if !ok {
		return nil
	}
	var out []ssa.Value
	for _, ref := range *al.Referrers() {
		if ia, ok := ref.(*ssa.IndexAddr); ok {
			for _, r2 := range *ia.Referrers() {
				if st, ok := r2.(*ssa.Store); ok && st.Addr == ia {
					out = append(out, st.Val)
				}
			}
		}
	}
	return out
}

func globalLoad(v ssa.Value) string {
	if u, ok := v.(*ssa.UnOp); ok && u.Op == token.MUL {
		if g, ok := u.X.(*ssa.Global); ok {
			if o := g.Object(); o != nil {
				return core.RefName(o)
			}
			return g.Name()
		}
	}
	return ""
}

func isStdoutWrite(c *ssa.CallCommon) (is bool, how string) {
	pkg, name := ssaCalleeName(c)
	if pkg == "fmt" {
		switch name {
		case "Print", "Printf", "Println":
			return true, "fmt." + name
		case "Fprint", "Fprintf", "Fprintln":
			if len(c.Args) > 0 {
				if g := globalLoad(stripIface(c.Args[0])); g == "Stdout" {
					return true, "fmt." + name + "(os.Stdout)"
				}
			}
		}
	}
	if f := c.StaticCallee(); f == nil && !c.IsInvoke() {
		if b, ok := c.Value.(*ssa.Builtin); ok && (b.Name() == "print" || b.Name() == "println") {
			return false, "" // builtin print writes to stderr
		}
	}
	return false, ""
}

// CLIPrintIdentity is C18-print: the single value written to stdout (and to
// the -f file) is result #0 of <analyzer>.XToString applied to result #0 of
// the library entry point called on the same analyzer with the flag globals.
func CLIPrintIdentity(p *core.Program, r *core.Report, rule string) {
	for _, sp := range cliSpecs {
		fd := p.Func(core.PkgCLI, "", sp.run)
		if fd == nil {
			r.Lost(rule, "cli."+sp.run)
			continue
		}
		sf := p.SSAFunc(fd)
		if sf == nil || sf.Blocks == nil {
			r.Lost(rule, "SSA of cli."+sp.run)
			continue
		}
		key := fd.Key()
		var prints []ssa.CallInstruction
		var fileWrites []ssa.CallInstruction
		calls := map[string][]*ssa.Call{}
		// the output step (print, then -f) is in the command itself or in one helper of package cli the command hands the
		// rendered string to; stdout writes are counted over the command and its direct cli callees together
		var emitFn *ssa.Function
		var emitCall *ssa.Call
		scanOut := func(f *ssa.Function) (pr, fw []ssa.CallInstruction) {
			for _, b := range f.Blocks {
				for _, in := range b.Instrs {
					ci, ok := in.(ssa.CallInstruction)
					if !ok {
						continue
					}
					if is, _ := isStdoutWrite(ci.Common()); is {
						pr = append(pr, ci)
					}
					if callee := ci.Common().StaticCallee(); callee != nil && callee.Pkg != nil && callee.Pkg.Pkg.Path() == core.PkgCLI && opensFile(p, callee) {
						fw = append(fw, ci)
					}
				}
			}
			return
		}
		for _, b := range sf.Blocks {
			for _, in := range b.Instrs {
				ci, ok := in.(ssa.CallInstruction)
				if !ok {
					continue
				}
				_, name := ssaCalleeName(ci.Common())
				if c, ok := in.(*ssa.Call); ok {
					calls[name] = append(calls[name], c)
				}
			}
		}
		prints, fileWrites = scanOut(sf)
		for _, b := range sf.Blocks {
			for _, in := range b.Instrs {
				c, ok := in.(*ssa.Call)
				if !ok {
					continue
				}
				callee := c.Common().StaticCallee()
				if callee == nil || callee.Pkg == nil || callee.Pkg.Pkg.Path() != core.PkgCLI || callee.Blocks == nil {
					continue
				}
				hp, hf := scanOut(callee)
				if len(hp) == 0 {
					continue
				}
				if len(prints) == 0 && emitFn == nil {
					emitFn, emitCall = callee, c
					prints, fileWrites = hp, hf
				} else {
					prints = append(prints, hp...) // a second print site: counted, and rejected below
				}
			}
		}
		// a value of the helper seen from the command: the argument its parameter receives
		outer := func(v ssa.Value) ssa.Value {
			if emitFn == nil || v == nil {
				return v
			}
			if prm, ok := v.(*ssa.Parameter); ok {
				for k, fp := range emitFn.Params {
					if fp == prm && k < len(emitCall.Call.Args) {
						return stripIface(emitCall.Call.Args[k])
					}
				}
			}
			return v
		}
		// 1. exactly one stdout write, of exactly one string, verbatim
		c1 := key + ": writes exactly one value to stdout, verbatim"
		var printed ssa.Value
		if len(prints) != 1 {
			r.Bad(rule, c1, p.Pos(fd.Decl.Pos()), fmt.Sprintf("%d stdout writes in the command (expected the single print of the rendered report)", len(prints)))
		} else {
			cc := prints[0].Common()
			_, name := ssaCalleeName(cc)
			var vals []ssa.Value
			okShape := false
			switch name {
			case "Printf":
				if k, isK := cc.Args[0].(*ssa.Const); isK && k.Value != nil && constant.StringVal(k.Value) == "%s" {
					vals = varargValues(cc.Args[1])
					okShape = len(vals) == 1
				}
			case "Print":
				vals = varargValues(cc.Args[0])
				okShape = len(vals) == 1
			}
			if okShape {
				printed = stripIface(vals[0])
				r.OK(rule, c1, p.Pos(prints[0].Pos()), "fmt."+name+" of one value")
			} else {
				r.Bad(rule, c1, p.Pos(prints[0].Pos()), "stdout is written by fmt."+name+" in a shape other than Printf(\"%s\", v) / Print(v): the bytes on stdout are not exactly the library's string")
			}
		}
		// 1b. no successful return without the print: every `return nil` of the command is dominated by the output step
		if len(prints) == 1 {
			outBlock := prints[0].Block()
			if emitCall != nil {
				outBlock = emitCall.Block()
			}
			badRet := ""
			for _, b := range sf.Blocks {
				for _, in := range b.Instrs {
					ret, ok := in.(*ssa.Return)
					if !ok || len(ret.Results) == 0 {
						continue
					}
					k, isK := ret.Results[len(ret.Results)-1].(*ssa.Const)
					if !isK || !k.IsNil() {
						continue
					}
					if !outBlock.Dominates(b) {
						badRet = p.Pos(ret.Pos())
					}
				}
			}
			r.Check(badRet == "", rule, key+": every successful return follows the print", p.Pos(fd.Decl.Pos()), "each `return nil` is dominated by the output step",
				"the command can return success without printing (return at "+badRet+"): for that input the CLI's stdout (and -f file) is empty while the library returns a report - an exposure section, dot nodes, a csv/md header or json `[]`")
		}
		// 2. the printed value is result #0 of analyzer.ToString(...)
		c2 := key + ": the printed value is the string returned by " + sp.toString
		var toStr *ssa.Call
		if printed != nil {
			if ex, ok := outer(printed).(*ssa.Extract); ok && ex.Index == 0 {
				if c, ok := ex.Tuple.(*ssa.Call); ok {
					if _, n := ssaCalleeName(c.Common()); n == sp.toString {
						toStr = c
					}
				}
			}
			if emitFn != nil {
				// the helper's result (the -f error) is what the command returns
				retd := false
				for _, ref := range *emitCall.Referrers() {
					if _, ok := ref.(*ssa.Return); ok {
						retd = true
					}
				}
				r.Check(retd, rule, key+": returns the result of the output step", p.Pos(emitCall.Pos()), "", "the error of the output helper is not returned by the command")
			}
			r.Check(toStr != nil, rule, c2, p.Pos(prints[0].Pos()), "", "the value printed on stdout is not (exactly) result #0 of "+sp.toString+": it was transformed, or comes from somewhere else")
		}
		// 3. rendered value = result #0 of the library entry, same analyzer, flag globals as arguments
		if toStr != nil {
			recv := toStr.Call.Args[0]
			var leaves []ssa.Value
			var walk func(v ssa.Value, seen map[ssa.Value]bool)
			walk = func(v ssa.Value, seen map[ssa.Value]bool) {
				if seen[v] {
					return
				}
				seen[v] = true
				if ph, ok := v.(*ssa.Phi); ok {
					for _, e := range ph.Edges {
						walk(e, seen)
					}
					return
				}
				leaves = append(leaves, v)
			}
			walk(toStr.Call.Args[1], map[ssa.Value]bool{})
			bad := ""
			seenEntries := map[string]bool{}
			for _, lv := range leaves {
				ex, ok := lv.(*ssa.Extract)
				if !ok || ex.Index != 0 {
					bad = "a rendered value that is not result #0 of a library entry point (" + lv.String() + ")"
					continue
				}
				c, ok := ex.Tuple.(*ssa.Call)
				if !ok {
					bad = "a rendered value of unknown origin"
					continue
				}
				_, n := ssaCalleeName(c.Common())
				want, isEntry := sp.pathGlobals[n]
				if !isEntry {
					// the analysis step extracted into a helper of package cli: every value the helper returns as its first
					// result is result #0 of a library entry point called on the helper's analyzer parameter (which is our
					// analyzer) with the flag variables in order
					if callee := c.Call.StaticCallee(); callee != nil && callee.Pkg == sf.Pkg && callee.Blocks != nil {
						hb := ""
						nRet := 0
						for _, b := range callee.Blocks {
							for _, ins := range b.Instrs {
								ret, isRet := ins.(*ssa.Return)
								if !isRet || len(ret.Results) == 0 {
									continue
								}
								nRet++
								var hl []ssa.Value
								var hw func(v ssa.Value, seen map[ssa.Value]bool)
								hw = func(v ssa.Value, seen map[ssa.Value]bool) {
									if seen[v] {
										return
									}
									seen[v] = true
									if ph, ok := v.(*ssa.Phi); ok {
										for _, e := range ph.Edges {
											hw(e, seen)
										}
										return
									}
									hl = append(hl, v)
								}
								hw(ret.Results[0], map[ssa.Value]bool{})
								for _, v := range hl {
									if k, isK := v.(*ssa.Const); isK && k.IsNil() {
										continue // the zero value declared before the branches
									}
									ex2, ok := v.(*ssa.Extract)
									if !ok || ex2.Index != 0 {
										hb = "a value returned by " + n + " is not result #0 of a library entry point"
										continue
									}
									c2, ok := ex2.Tuple.(*ssa.Call)
									if !ok {
										hb = "a value returned by " + n + " has an unknown origin"
										continue
									}
									_, n2 := ssaCalleeName(c2.Common())
									want2, isEntry2 := sp.pathGlobals[n2]
									if !isEntry2 {
										hb = "a value returned by " + n + " comes from " + n2 + ", not from a library entry point"
										continue
									}
									seenEntries[n2] = true
									prm, isPrm := c2.Call.Args[0].(*ssa.Parameter)
									pi := -1
									if isPrm {
										for i, fp := range callee.Params {
											if fp == prm {
												pi = i
											}
										}
									}
									if pi < 0 || pi >= len(c.Call.Args) || c.Call.Args[pi] != recv {
										hb = n2 + " (in " + n + ") and " + sp.toString + " are called on different analyzers (options differ)"
									}
									for i, g := range want2 {
										if i+1 >= len(c2.Call.Args) || globalLoad(c2.Call.Args[i+1]) != g {
											hb = fmt.Sprintf("argument #%d of %s is not the flag variable %s", i+1, n2, g)
										}
									}
								}
							}
						}
						if nRet == 0 {
							hb = n + " returns nothing"
						}
						if hb != "" {
							bad = hb
						}
						continue
					}
					bad = "the rendered value comes from " + n + ", not from a library entry point"
					continue
				}
				seenEntries[n] = true
				if c.Call.Args[0] != recv {
					bad = n + " and " + sp.toString + " are called on different analyzers (options differ)"
				}
				for i, g := range want {
					if i+1 >= len(c.Call.Args) || globalLoad(c.Call.Args[i+1]) != g {
						bad = fmt.Sprintf("argument #%d of %s is not the flag variable %s", i+1, n, g)
					}
				}
			}
			for _, e := range sp.analyses {
				if !seenEntries[e] && bad == "" && e != "ConnlistFromK8sCluster" {
					bad = "the library entry point " + e + " no longer feeds the rendered value"
				}
			}
			r.Check(bad == "", rule, key+": the rendered value is result #0 of the library entry point, called on the same analyzer with the flag variables in order", p.Pos(toStr.Pos()), strings.Join(sortedKeys(seenEntries), ","), bad)
			// analyzer = ctor(opts(...)...)
			okCtor := false
			if c, ok := recv.(*ssa.Call); ok {
				if _, n := ssaCalleeName(c.Common()); n == sp.ctor && len(c.Call.Args) == 1 {
					if oc, ok := c.Call.Args[0].(*ssa.Call); ok {
						if _, on := ssaCalleeName(oc.Common()); on == sp.opts {
							okCtor = true
						}
					}
				}
			}
			r.Check(okCtor, rule, key+": the analyzer is built from the options derived from the flags", p.Pos(fd.Decl.Pos()), sp.ctor+"("+sp.opts+"(...)...)", "the analyzer is not constructed as "+sp.ctor+"("+sp.opts+"(logger)...): flags no longer reach the library")
		}
		// 4. -f: the same value, under outFile != "", after the print, error returned
		c4 := key + ": -f writes the printed value, exactly when a file was named, and returns the write error"
		if len(fileWrites) == 0 {
			r.Add(rule, c4, p.Pos(fd.Decl.Pos()), core.Undecided, "no call of a file-writing helper of package cli found in the command (the -f path was restructured: the rule has to be re-anchored)")
		} else if len(fileWrites) > 1 {
			r.Bad(rule, c4, p.Pos(fileWrites[1].Pos()), "more than one file write in the command")
		} else if printed != nil {
			fw := fileWrites[0]
			cc := fw.Common()
			bad := ""
			if len(cc.Args) != 2 || globalLoad(cc.Args[0]) != "outFile" {
				bad = "the file written is not the one named by -f (outFile)"
			} else {
				v := cc.Args[1]
				if cv, ok := v.(*ssa.Convert); ok {
					v = cv.X
				}
				if stripIface(v) != printed {
					bad = "the bytes written to the file are not the value printed on stdout"
				}
			}
			// guarded by outFile != "" only, and after the print
			wb, pb := fw.Block(), prints[0].Block()
			if bad == "" {
				if !pb.Dominates(wb) {
					bad = "the file write is not preceded by the stdout print on every path"
				} else if idom := wb.Idom(); idom != pb {
					bad = "the file write depends on a condition other than `outFile != \"\"`"
				} else if iff, ok := pb.Instrs[len(pb.Instrs)-1].(*ssa.If); !ok {
					bad = "the file write is not guarded by `outFile != \"\"`"
				} else if bo, ok := iff.Cond.(*ssa.BinOp); !ok || globalLoad(bo.X) != "outFile" || !((bo.Op == token.NEQ && pb.Succs[0] == wb) || (bo.Op == token.EQL && pb.Succs[1] == wb)) {
					// `if outFile != "" { write }` or the guard clause `if outFile == "" { return nil }; write`
					bad = "the file write is not guarded by `outFile != \"\"`"
				} else if k, ok := bo.Y.(*ssa.Const); !ok || k.Value == nil || constant.StringVal(k.Value) != "" {
					bad = "the file write is not guarded by `outFile != \"\"`"
				}
			}
			// error returned
			if bad == "" {
				retd := false
				if val, ok := fw.(*ssa.Call); ok {
					for _, ref := range *val.Referrers() {
						if _, ok := ref.(*ssa.Return); ok {
							retd = true
						}
					}
				}
				if !retd {
					bad = "the error of the file write is not returned"
				}
			}
			r.Check(bad == "", rule, c4, p.Pos(fw.Pos()), "", bad)
		}
	}
	r.Floor(rule, 8)
}

// opensFile: the cli function (transitively within package cli and the module's shared internal helpers) calls os.Create / os.OpenFile / os.WriteFile.
func opensFile(p *core.Program, f *ssa.Function) bool {
	seen := map[*ssa.Function]bool{}
	var rec func(f *ssa.Function) bool
	rec = func(f *ssa.Function) bool {
		if seen[f] || f.Blocks == nil {
			return false
		}
		seen[f] = true
		for _, b := range f.Blocks {
			for _, in := range b.Instrs {
				if ci, ok := in.(ssa.CallInstruction); ok {
					pkg, name := ssaCalleeName(ci.Common())
					if pkg == "os" && (name == "Create" || name == "OpenFile" || name == "WriteFile") {
						return true
					}
					// within package cli, and one step into a shared writer of the module (pkg/internal/...)
					if cal := ci.Common().StaticCallee(); cal != nil && cal.Pkg != nil && (cal.Pkg.Pkg.Path() == core.PkgCLI || strings.HasPrefix(cal.Pkg.Pkg.Path(), core.ModPath+"/pkg/internal/")) && rec(cal) {
						return true
					}
				}
			}
		}
		return false
	}
	return rec(f)
}

// CLIFileWriter is C18-file: the -f helper truncates/creates the file and writes the whole buffer.
func CLIFileWriter(p *core.Program, r *core.Report, rule string) {
	fd := p.Func(core.PkgCLI, "", "writeBufToFile")
	if fd == nil {
		r.Add(rule, "cli.writeBufToFile: file writer", "", core.Undecided, "the -f helper was renamed or removed: re-anchor the rule")
		return
	}
	info := fd.Pkg.TypesInfo
	sig := fd.Obj.Type().(*types.Signature)
	if sig.Params().Len() != 2 {
		r.Add(rule, fd.Key()+": (path, bytes) signature", p.Pos(fd.Decl.Pos()), core.Undecided, "unexpected signature")
		return
	}
	pathP, bufP := sig.Params().At(0), sig.Params().At(1)
	key := fd.Key()
	// the helper may hand its two parameters on to a shared file writer of the module: that function is then the one
	// that creates the file and writes the buffer (the delegating call's error has to be returned)
	for hop := 0; hop < 2; hop++ {
		var deleg *ast.CallExpr
		var dfd *core.FuncDecl
		var pi, bi int
		hasOS := false
		ast.Inspect(fd.Decl.Body, func(n ast.Node) bool {
			c, ok := n.(*ast.CallExpr)
			if !ok {
				return true
			}
			fn := core.Callee(info, c)
			if fn == nil || fn.Pkg() == nil {
				return true
			}
			if fn.Pkg().Path() == "os" {
				hasOS = true
			}
			if h := p.ByObj[fn]; h != nil && p.IsModuleFunc(fn) {
				a, b := -1, -1
				for i, arg := range c.Args {
					x := ast.Unparen(arg)
					if cv, isCv := x.(*ast.CallExpr); isCv && core.IsConversion(info, cv) && len(cv.Args) == 1 {
						x = ast.Unparen(cv.Args[0])
					}
					if id, isID := x.(*ast.Ident); isID {
						if info.ObjectOf(id) == pathP {
							a = i
						}
						if info.ObjectOf(id) == bufP {
							b = i
						}
					}
				}
				hs := fn.Type().(*types.Signature)
				if a >= 0 && b >= 0 && a < hs.Params().Len() && b < hs.Params().Len() {
					deleg, dfd, pi, bi = c, h, a, b
				}
			}
			return true
		})
		if hasOS || deleg == nil {
			break
		}
		ok, why := propagates(p, fd, deleg)
		r.Check(ok, rule, fd.Key()+": the error of the shared file writer is returned", p.Pos(deleg.Pos()), why, "the error of the write is lost ("+why+"): exit status 0 with an incomplete file")
		hs := dfd.Obj.Type().(*types.Signature)
		fd, info, sig = dfd, dfd.Pkg.TypesInfo, hs
		pathP, bufP = hs.Params().At(pi), hs.Params().At(bi)
	}
	osConst := func(name string) int64 {
		for _, imp := range fd.Pkg.Types.Imports() {
			if imp.Path() == "os" {
				if c, ok := imp.Scope().Lookup(name).(*types.Const); ok {
					v, _ := constant.Int64Val(c.Val())
					return v
				}
			}
		}
		return -1
	}
	isParam := func(e ast.Expr, v *types.Var) bool {
		e = ast.Unparen(e)
		if c, ok := e.(*ast.CallExpr); ok && core.IsConversion(info, c) && len(c.Args) == 1 {
			e = ast.Unparen(c.Args[0])
		}
		id, ok := e.(*ast.Ident)
		return ok && info.ObjectOf(id) == v
	}
	openOK, openWhy := false, "no os.Create / os.OpenFile / os.WriteFile call"
	writeOK := false
	var writeCall *ast.CallExpr
	ast.Inspect(fd.Decl.Body, func(n ast.Node) bool {
		c, ok := n.(*ast.CallExpr)
		if !ok {
			return true
		}
		fn := core.Callee(info, c)
		if fn == nil || fn.Pkg() == nil {
			return true
		}
		full := fn.Pkg().Path() + "." + core.RefName(fn)
		switch full {
		case "os.Create":
			openOK = isParam(c.Args[0], pathP)
			openWhy = "os.Create of another path"
		case "os.WriteFile":
			openOK = isParam(c.Args[0], pathP) && isParam(c.Args[1], bufP)
			writeOK = openOK
			writeCall = c
			openWhy = "os.WriteFile of another path or buffer"
		case "os.OpenFile":
			tv := info.Types[c.Args[1]]
			if tv.Value == nil {
				openWhy = "os.OpenFile with non-constant flags"
				return true
			}
			fl, _ := constant.Int64Val(tv.Value)
			trunc, creat, app, wr, rw := osConst("O_TRUNC"), osConst("O_CREATE"), osConst("O_APPEND"), osConst("O_WRONLY"), osConst("O_RDWR")
			switch {
			case !isParam(c.Args[0], pathP):
				openWhy = "os.OpenFile of another path"
			case fl&trunc == 0:
				openWhy = "os.OpenFile without O_TRUNC: an existing longer file keeps its tail, so the file is not the bytes of stdout"
			case fl&creat == 0:
				openWhy = "os.OpenFile without O_CREATE"
			case fl&app != 0:
				openWhy = "os.OpenFile with O_APPEND: output is appended to previous content"
			case fl&wr == 0 && fl&rw == 0:
				openWhy = "os.OpenFile read-only"
			default:
				openOK = true
			}
		}
		if sel, ok := ast.Unparen(c.Fun).(*ast.SelectorExpr); ok && fn.Pkg().Path() == "os" && (core.RefName(fn) == "Write" || core.RefName(fn) == "WriteString") {
			_ = sel
			if len(c.Args) == 1 && isParam(c.Args[0], bufP) {
				writeOK = true
				writeCall = c
			}
		}
		return true
	})
	r.Check(openOK, rule, key+": the file named by its first parameter is created or truncated for writing", p.Pos(fd.Decl.Pos()), "os.Create / O_TRUNC|O_CREATE / os.WriteFile", openWhy)
	r.Check(writeOK, rule, key+": the whole buffer parameter is written", p.Pos(fd.Decl.Pos()), "Write(buf)", "the helper does not write its whole buffer parameter (sliced, transformed, or not written)")
	if writeCall != nil {
		ok, why := propagates(p, fd, writeCall)
		r.Check(ok, rule, key+": a write error is returned", p.Pos(writeCall.Pos()), why, "the error of the write is lost ("+why+"): exit status 0 with an incomplete file")
	}
}

// StdoutPurity is C18-stdout: nothing reachable from the list/diff commands writes to stdout, except the single print.
func StdoutPurity(p *core.Program, r *core.Report, rule string) {
	var roots []*types.Func
	for _, sp := range cliSpecs {
		if fd := p.Func(core.PkgCLI, "", sp.run); fd != nil {
			roots = append(roots, fd.Obj)
		}
	}
	if len(roots) != 2 {
		r.Lost(rule, "cli.runListCommand / cli.runDiffCommand")
		return
	}
	reach := p.Reachable(roots...)
	n := 0
	for _, fd := range p.Funcs {
		sf := p.SSAFunc(fd)
		if sf == nil {
			continue
		}
		var fns []*ssa.Function
		fns = append(fns, sf)
		fns = append(fns, sf.AnonFuncs...)
		for _, f := range fns {
			for _, b := range f.Blocks {
				for _, in := range b.Instrs {
					// any reference to os.Stdout
					how := ""
					if ci, ok := in.(ssa.CallInstruction); ok {
						if is, h := isStdoutWrite(ci.Common()); is {
							how = h
						}
					}
					if how == "" {
						if u, ok := in.(*ssa.UnOp); ok && globalLoad(u) == "Stdout" {
							if g := u.X.(*ssa.Global); g.Pkg != nil && g.Pkg.Pkg.Path() == "os" {
								how = "os.Stdout"
							}
						}
					}
					if how == "" {
						continue
					}
					n++
					construct := fmt.Sprintf("%s: %s", fd.Key(), how)
					pos := p.Pos(in.Pos())
					isRun := false
					for _, sp := range cliSpecs {
						if core.RefName(fd.Obj) == sp.run && fd.Pkg.PkgPath == core.PkgCLI {
							isRun = true
						}
						// a helper of package cli that a command calls directly: part of the command's own output step,
						// whose stdout writes C18-print counts together with the command's
						if run := p.Func(core.PkgCLI, "", sp.run); run != nil && fd.Pkg.PkgPath == core.PkgCLI {
							for _, callee := range p.CalleesOf(run) {
								if callee == fd.Obj {
									isRun = true
								}
							}
						}
					}
					switch {
					case isRun:
						r.OK(rule, construct+" (the command's own print; shape decided by C18-print)", pos, "designated print site")
					case !reach[fd.Obj]:
						r.OK(rule, construct+" is not reachable from list/diff", pos, "not in the call-graph closure of runListCommand/runDiffCommand")
					default:
						ok, why := stdoutSiteUnreachable(p, fd, in)
						r.Check(ok, rule, construct+" cannot execute on the list/diff path", pos, why, "a library function on the list/diff path writes to stdout: the CLI's stdout is no longer exactly the library's string ("+why+")")
					}
				}
			}
		}
	}
	r.RuleCounts[rule+"-sites"] = n
	r.Floor(rule+"-sites", 3)
}

// stdoutSiteUnreachable recognises the two reviewed situations in which a print on the list path cannot run.
func stdoutSiteUnreachable(p *core.Program, fd *core.FuncDecl, in ssa.Instruction) (bool, string) {
	switch core.RefName(fd.Obj) {
	case "addObjectsByKind":
		// the print is in the default branch of the kind switch, which covers the parser's whole kind table
		sws := findKindSwitches(p)
		var master, mine *kindSwitch
		for i := range sws {
			if core.RefName(sws[i].fd.Obj) == "getEmptyInitializedFieldObjByKind" {
				master = &sws[i]
			}
			if sws[i].fd == fd {
				mine = &sws[i]
			}
		}
		if master == nil || mine == nil {
			return false, "kind switch not found"
		}
		if !sameSet(kindSet(master.cases), kindSet(mine.cases)) {
			return false, "the kind switch does not cover the parser's kind table, so its default branch (which prints) is reachable"
		}
		// the print must be inside the default clause
		for _, cc := range mine.sw.Body.List {
			cl := cc.(*ast.CaseClause)
			if cl.List == nil && cl.Pos() <= in.Pos() && in.Pos() < cl.End() {
				return true, "default branch of a kind switch that covers the parser's whole kind table"
			}
		}
		return false, "the print is outside the default branch"
	case "newEvalCacheWithSize":
		// printed only when the size argument is out of range; every production caller passes an in-range constant
		info := fd.Pkg.TypesInfo
		lo, hi := int64(-1), int64(-1)
		for _, nm := range []string{"minCacheSize", "maxCacheSize"} {
			if c, ok := fd.Pkg.Types.Scope().Lookup(nm).(*types.Const); ok {
				v, _ := constant.Int64Val(c.Val())
				if nm == "minCacheSize" {
					lo = v
				} else {
					hi = v
				}
			}
		}
		if lo < 0 || hi < 0 {
			return false, "cache size bounds not found"
		}
		// on every path to the print the size is known to be outside [min, max] (path condition; any shape of the test)
		var rangeTest ast.Expr
		var printCall *ast.CallExpr
		ast.Inspect(fd.Decl.Body, func(n ast.Node) bool {
			switch x := n.(type) {
			case *ast.BinaryExpr:
				if core.Stable(info, x) == "‹int› >= minCacheSize && ‹int› <= maxCacheSize" {
					rangeTest = x
				}
			case *ast.CallExpr:
				if x.Lparen == in.Pos() || x.Pos() == in.Pos() {
					printCall = x
				}
			}
			return true
		})
		if rangeTest == nil || printCall == nil {
			return false, "the range test size >= minCacheSize && size <= maxCacheSize (or the print) was not found"
		}
		fm, fw, found := FactsAt(fd, printCall, nil)
		if !found || !facts.Entails(fm, facts.MkNot(fw.Cond(rangeTest))) {
			return false, "the print is not in the out-of-range branch"
		}
		_ = info
		for _, cs := range CallsTo(p, fd.Obj) {
			tv := cs.In.Pkg.TypesInfo.Types[cs.Call.Args[0]]
			if tv.Value == nil {
				return false, "caller " + cs.In.Key() + " passes a non-constant size"
			}
			v, _ := constant.Int64Val(tv.Value)
			if v < lo || v > hi {
				return false, fmt.Sprintf("caller %s passes %d, outside [%d,%d]", cs.In.Key(), v, lo, hi)
			}
		}
		return true, "out-of-range branch; every production caller passes a constant inside the range"
	}
	return false, "unreviewed print site"
}

// CLIExitChain is C18-exit.
func CLIExitChain(p *core.Program, r *core.Report, rule string) {
	// (a) inside the run functions every error-returning call is propagated, and every non-nil return is such an error
	for _, sp := range cliSpecs {
		fd := p.Func(core.PkgCLI, "", sp.run)
		if fd == nil {
			r.Lost(rule, "cli."+sp.run)
			continue
		}
		info := fd.Pkg.TypesInfo
		errVars := map[types.Object]bool{}
		ast.Inspect(fd.Decl.Body, func(n ast.Node) bool {
			if fl, ok := n.(*ast.FuncLit); ok {
				_ = fl
				return false
			}
			c, ok := n.(*ast.CallExpr)
			if !ok || core.IsConversion(info, c) {
				return true
			}
			tv, ok := info.Types[c]
			if !ok {
				return true
			}
			var last types.Type
			switch t := tv.Type.(type) {
			case *types.Tuple:
				if t.Len() > 0 {
					last = t.At(t.Len() - 1).Type()
				}
			default:
				last = t
			}
			if last == nil || !core.IsErrorType(last) {
				return true
			}
			name, _ := callName(info, c)
			if fn := core.Callee(info, c); fn == nil || !p.IsModuleFunc(fn) {
				return true // errors of fmt/os calls are not the library's answer
			}
			ok2, why := propagates(p, fd, c)
			r.Check(ok2, rule, fmt.Sprintf("%s: the error of %s reaches the command's result", fd.Key(), name), p.Pos(c.Pos()), why, "an error of "+name+" is lost ("+why+"): the command exits 0 although the library call failed")
			if as, isAs := enclosingStmt(fd.Decl.Body, c.Pos()).(*ast.AssignStmt); isAs {
				if id, isID := as.Lhs[len(as.Lhs)-1].(*ast.Ident); isID {
					errVars[info.ObjectOf(id)] = true
				}
			}
			return true
		})
		// returns: nil | err variable of a call | direct call | wrapped error under err != nil
		bad := ""
		w := facts.NewWalker(info)
		w.OnExit = func(st int, ret *ast.ReturnStmt, f facts.Formula) {
			if w.FuncLitDepth > 0 {
				return
			}
			if ret == nil || len(ret.Results) == 0 {
				return
			}
			e := ast.Unparen(ret.Results[len(ret.Results)-1])
			if core.IsNil(info, e) {
				return
			}
			if id, ok := e.(*ast.Ident); ok && errVars[info.ObjectOf(id)] {
				return
			}
			if c, ok := e.(*ast.CallExpr); ok {
				// a helper of package cli that returns its own error (the -f writer), or a wrap of a tested error
				if fn := core.Callee(info, c); fn != nil && fn.Pkg() != nil && fn.Pkg().Path() == core.PkgCLI {
					return
				}
				for _, a := range c.Args {
					if id, ok := ast.Unparen(a).(*ast.Ident); ok && errVars[info.ObjectOf(id)] && facts.Entails(f, facts.Not{X: facts.Atom("nil:" + w.Path(id))}) {
						return
					}
				}
			}
			bad = p.Pos(ret.Pos()) + ": returns " + core.ExprStr(e)
		}
		w.WalkBody(fd.Decl.Body, nil)
		r.Check(bad == "", rule, fd.Key()+": a non-nil result is always an error of a library (or file) call", p.Pos(fd.Decl.Pos()), "", "the command fabricates an error that no library call returned ("+bad+"): non-zero exit although the library succeeded")
	}
	// (b) deferred closures in package cli never overwrite an outer error unconditionally
	nDefer := 0
	for _, fd := range p.FuncsIn(core.PkgCLI) {
		info := fd.Pkg.TypesInfo
		ast.Inspect(fd.Decl.Body, func(n ast.Node) bool {
			ds, ok := n.(*ast.DeferStmt)
			if !ok {
				return true
			}
			nDefer++
			fl, ok := ast.Unparen(ds.Call.Fun).(*ast.FuncLit)
			if !ok {
				return true
			}
			w := facts.NewWalker(info)
			w.OnStmt = func(s ast.Stmt, f facts.Formula) {
				as, ok := s.(*ast.AssignStmt)
				if !ok || as.Tok == token.DEFINE {
					return
				}
				for _, l := range as.Lhs {
					id, ok := l.(*ast.Ident)
					if !ok {
						continue
					}
					v, _ := info.ObjectOf(id).(*types.Var)
					if v == nil || !core.IsErrorType(v.Type()) || (v.Pos() >= fl.Pos() && v.Pos() < fl.End()) {
						continue
					}
					okG := facts.Entails(f, facts.Atom("nil:"+w.Path(id)))
					r.Check(okG, rule, fmt.Sprintf("%s: deferred closure assigns the outer error %s only when it is nil", fd.Key(), id.Name), p.Pos(as.Pos()), "guarded by "+id.Name+" == nil", "a deferred closure overwrites the function's error result unconditionally: an error returned by the library call is replaced (by nil when the deferred operation succeeds), so the command exits 0 on failure")
				}
			}
			w.WalkBody(fl.Body, nil)
			return true
		})
	}
	r.RuleCounts[rule+"-defers"] = nDefer
	// (c) RunE of list and diff return the run function's error
	for _, sp := range cliSpecs {
		ctorName := map[string]string{"runListCommand": "newCommandList", "runDiffCommand": "newCommandDiff"}[sp.run]
		fd := p.Func(core.PkgCLI, "", ctorName)
		runFd := p.Func(core.PkgCLI, "", sp.run)
		if fd == nil || runFd == nil {
			r.Lost(rule, "cli."+ctorName)
			continue
		}
		info := fd.Pkg.TypesInfo
		var runE *ast.FuncLit
		// (in the literal of the command or assigned to its field afterwards)
		for _, fw := range FieldWrites(info, fd.Decl.Body) {
			if fw.Field.Name() == "RunE" {
				runE, _ = ast.Unparen(fw.Value).(*ast.FuncLit)
			}
		}
		construct := fd.Key() + ": RunE returns the error of " + sp.run
		if runE == nil {
			r.Bad(rule, construct, p.Pos(fd.Decl.Pos()), "no RunE function literal")
			continue
		}
		var call *ast.CallExpr
		ast.Inspect(runE.Body, func(n ast.Node) bool {
			if c, ok := n.(*ast.CallExpr); ok && core.Callee(info, c) == runFd.Obj {
				call = c
			}
			return true
		})
		if call == nil {
			// the command function handed to a runner as a value: RunE returns runner(..., runX), and the runner calls its
			// function parameter and propagates that call's error
			if ok, why, at := runsThroughHelper(p, info, runE.Body, runFd.Obj); at != token.NoPos {
				r.Check(ok, rule, construct, p.Pos(at), why, "RunE drops the command's error ("+why+"): exit status 0 on failure")
				continue
			}
			r.Bad(rule, construct, p.Pos(runE.Pos()), "RunE does not call "+sp.run)
			continue
		}
		ok, why := propagatesIn(p, info, runE.Body, call)
		r.Check(ok, rule, construct, p.Pos(call.Pos()), why, "RunE drops the command's error ("+why+"): exit status 0 on failure")
	}
	// (d) Execute: os.Exit(non-zero) iff the root command returned an error; nobody else exits
	if fd := p.Func(core.PkgCLI, "", "Execute"); fd != nil {
		info := fd.Pkg.TypesInfo
		var exitCall, execCall *ast.CallExpr
		ast.Inspect(fd.Decl.Body, func(n ast.Node) bool {
			if c, ok := n.(*ast.CallExpr); ok {
				if fn := core.Callee(info, c); fn != nil && fn.Pkg() != nil {
					if fn.Pkg().Path() == "os" && core.RefName(fn) == "Exit" {
						exitCall = c
					}
					if core.RefName(fn) == "Execute" && strings.HasSuffix(fn.Pkg().Path(), "spf13/cobra") {
						execCall = c
					}
				}
			}
			return true
		})
		construct := fd.Key() + ": exits non-zero exactly when the root command returned an error"
		bad := ""
		if exitCall == nil || execCall == nil {
			bad = "no os.Exit / rootCmd.Execute call"
		} else {
			as, _ := enclosingStmt(fd.Decl.Body, execCall.Pos()).(*ast.AssignStmt)
			if as == nil {
				bad = "the result of rootCmd.Execute() is not bound"
			} else {
				errID := as.Lhs[len(as.Lhs)-1].(*ast.Ident)
				tv := info.Types[exitCall.Args[0]]
				if tv.Value == nil {
					bad = "exit code is not a constant"
				} else if v, _ := constant.Int64Val(tv.Value); v == 0 || v > 255 || v < 0 || v%256 == 0 {
					bad = "exit code is zero (mod 256)"
				}
				fm, paths, found := FactsAtWith(fd, exitCall, nil, []ast.Expr{errID})
				if bad == "" && (!found || !facts.Entails(fm, facts.Not{X: facts.Atom("nil:" + paths[0])})) {
					bad = "os.Exit is not guarded by err != nil"
				}
				if bad == "" {
					// every normal exit has err == nil
					w := facts.NewWalker(info)
					w.OnExit = func(st int, ret *ast.ReturnStmt, f facts.Formula) {
						if w.FuncLitDepth > 0 {
							return
						}
						if !facts.Entails(f, facts.Atom("nil:"+w.Path(errID))) {
							bad = "the function can return normally (exit status 0) with a non-nil error"
						}
					}
					w.WalkBody(fd.Decl.Body, nil)
				}
			}
		}
		r.Check(bad == "", rule, construct, p.Pos(fd.Decl.Pos()), "", bad)
	} else {
		r.Lost(rule, "cli.Execute")
	}
	// nobody else terminates the process
	for _, fd := range p.Funcs {
		info := fd.Pkg.TypesInfo
		ast.Inspect(fd.Decl.Body, func(n ast.Node) bool {
			if c, ok := n.(*ast.CallExpr); ok {
				if fn := core.Callee(info, c); fn != nil && fn.Pkg() != nil {
					full := fn.Pkg().Path() + "." + core.RefName(fn)
					switch full {
					case "os.Exit", "log.Fatal", "log.Fatalf", "log.Fatalln", "syscall.Exit", "runtime.Goexit":
						ok := fd.Pkg.PkgPath == core.PkgCLI && core.RefName(fd.Obj) == "Execute"
						r.Check(ok, rule, fd.Key()+": calls "+full, p.Pos(c.Pos()), "the CLI's single exit point", "the process is terminated outside cli.Execute: the exit status no longer reflects the library's error result")
					}
				}
			}
			return true
		})
	}
	// main calls cli.Execute
	if mfd := p.Func(core.ModPath+"/cmd/netpolicy", "", "main"); mfd != nil {
		s := core.ExprStr(mfd.Decl.Body)
		r.Check(strings.Contains(s, "cli.Execute()"), rule, mfd.Key()+": main is cli.Execute()", p.Pos(mfd.Decl.Pos()), "", "main does not call cli.Execute()")
	} else {
		r.Lost(rule, "cmd/netpolicy.main")
	}
	r.Floor(rule, 12)
}

// propagatesIn is propagates for a function literal body: `if err := f(); err != nil { ...; return err }; return nil`.
func propagatesIn(p *core.Program, info *types.Info, body *ast.BlockStmt, call *ast.CallExpr) (bool, string) {
	as, ok := enclosingStmt(body, call.Pos()).(*ast.AssignStmt)
	if !ok {
		if _, isRet := enclosingStmt(body, call.Pos()).(*ast.ReturnStmt); isRet {
			return true, "returned directly"
		}
		return false, "the call's error is not bound"
	}
	id, ok := as.Lhs[len(as.Lhs)-1].(*ast.Ident)
	if !ok || id.Name == "_" {
		return false, "the error is assigned to _"
	}
	ev := info.ObjectOf(id)
	w := facts.NewWalker(info)
	bad := ""
	seen := false
	w.Transfer = func(s int, n ast.Node, f facts.Formula) int {
		if n == ast.Node(as) {
			seen = true
			return 1
		}
		return s
	}
	w.OnExit = func(s int, ret *ast.ReturnStmt, f facts.Formula) {
		if s != 1 || w.FuncLitDepth > 0 {
			return
		}
		if facts.Entails(f, facts.Atom("nil:"+w.Path(id))) {
			return
		}
		if ret != nil && len(ret.Results) > 0 {
			if rid, ok := ast.Unparen(ret.Results[len(ret.Results)-1]).(*ast.Ident); ok && info.ObjectOf(rid) == ev {
				return
			}
		}
		bad = "a return without the error while it may be non-nil"
	}
	w.WalkBody(body, nil)
	if !seen {
		return false, "call not found by the walker"
	}
	if bad != "" {
		return false, bad
	}
	return true, "bound to " + id.Name + " and returned when non-nil"
}

// CLIFlagWiring is C18-flags: flag name -> variable -> library option.
func CLIFlagWiring(p *core.Program, r *core.Report, rule string) {
	// 1. flag bindings
	type bind struct{ ctor, flag, short, variable string }
	binds := []bind{
		{"newCommandList", "focusworkload", "", "focusWorkload"},
		{"newCommandList", "exposure", "", "exposureAnalysis"},
		{"newCommandList", "output", "o", "output"},
		{"newCommandList", "file", "f", "outFile"},
		{"newCommandDiff", "dir1", "", "dir1"},
		{"newCommandDiff", "dir2", "", "dir2"},
		{"newCommandDiff", "output", "o", "outFormat"},
		{"newCommandDiff", "file", "f", "outFile"},
		{"newCommandRoot", "dirpath", "", "dirPath"},
		{"newCommandRoot", "quiet", "q", "quiet"},
		{"newCommandRoot", "verbose", "v", "verbose"},
		{"newCommandRoot", "fail", "", "stopOnFirstError"},
	}
	found := map[string]string{} // ctor/flag -> variable
	shorts := map[string]string{}
	defaults := map[string]string{}
	for _, ctor := range []string{"newCommandList", "newCommandDiff", "newCommandRoot"} {
		fd := p.Func(core.PkgCLI, "", ctor)
		if fd == nil {
			r.Lost(rule, "cli."+ctor)
			continue
		}
		info := fd.Pkg.TypesInfo
		ast.Inspect(fd.Decl.Body, func(n ast.Node) bool {
			c, ok := n.(*ast.CallExpr)
			if !ok {
				return true
			}
			fn := core.Callee(info, c)
			if fn == nil || !(strings.HasSuffix(core.RefName(fn), "VarP") || strings.HasSuffix(core.RefName(fn), "Var")) || len(c.Args) < 3 {
				return true
			}
			ue, ok := ast.Unparen(c.Args[0]).(*ast.UnaryExpr)
			if !ok || ue.Op != token.AND {
				return true
			}
			name, okN := core.ConstString(info, c.Args[1])
			if !okN {
				return true
			}
			found[ctor+"/"+name] = core.ExprStr(ue.X)
			if strings.HasSuffix(core.RefName(fn), "VarP") {
				s, _ := core.ConstString(info, c.Args[2])
				shorts[ctor+"/"+name] = s
				if tv := info.Types[c.Args[3]]; tv.Value != nil {
					defaults[ctor+"/"+name] = tv.Value.ExactString()
				}
			}
			return true
		})
	}
	for _, b := range binds {
		k := b.ctor + "/" + b.flag
		got, ok := found[k]
		r.Check(ok && got == b.variable && shorts[k] == b.short, rule, fmt.Sprintf("cli.%s: flag --%s (-%s) is bound to variable %s", b.ctor, b.flag, b.short, b.variable), "", "", fmt.Sprintf("flag --%s is bound to %q with short %q", b.flag, got, shorts[k]))
	}
	// boolean switches default to false, focus/file to ""
	for _, k := range []string{"newCommandList/exposure", "newCommandRoot/quiet", "newCommandRoot/verbose", "newCommandRoot/fail"} {
		r.Check(defaults[k] == "false", rule, "cli: switch "+k+" defaults to false", "", "", "default is "+defaults[k])
	}
	for _, k := range []string{"newCommandList/focusworkload", "newCommandList/file", "newCommandDiff/file"} {
		r.Check(defaults[k] == `""`, rule, "cli: flag "+k+" defaults to the empty string", "", "", "default is "+defaults[k])
	}
	// 2. options: variable -> With* call (unconditional or guarded by exactly its boolean)
	type opt struct{ getter, with, arg, guard string }
	opts := []opt{
		{"getConnlistOptions", "WithLogger", "param#0", ""},
		{"getConnlistOptions", "WithFocusWorkload", "focusWorkload", ""},
		{"getConnlistOptions", "WithOutputFormat", "output", ""},
		{"getConnlistOptions", "WithStopOnError", "", "stopOnFirstError"},
		{"getConnlistOptions", "WithExposureAnalysis", "", "exposureAnalysis"},
		{"getDiffOptions", "WithLogger", "param#0", ""},
		{"getDiffOptions", "WithOutputFormat", "outFormat", ""},
		{"getDiffOptions", "WithArgNames", "dir1Arg, dir2Arg", ""},
		{"getDiffOptions", "WithStopOnError", "", "stopOnFirstError"},
	}
	for _, o := range opts {
		fd := p.Func(core.PkgCLI, "", o.getter)
		if fd == nil {
			r.Lost(rule, "cli."+o.getter)
			continue
		}
		info := fd.Pkg.TypesInfo
		var call *ast.CallExpr
		cnt := 0
		ast.Inspect(fd.Decl.Body, func(n ast.Node) bool {
			if c, ok := n.(*ast.CallExpr); ok {
				if fn := core.Callee(info, c); fn != nil && core.RefName(fn) == o.with {
					call = c
					cnt++
				}
			}
			return true
		})
		construct := fmt.Sprintf("%s: passes %s(%s)%s", fd.Key(), o.with, o.arg, map[bool]string{true: " exactly when " + o.guard, false: ""}[o.guard != ""])
		if call == nil || cnt != 1 {
			r.Bad(rule, construct, p.Pos(fd.Decl.Pos()), fmt.Sprintf("%d calls of %s", cnt, o.with))
			continue
		}
		var args []string
		for _, a := range call.Args {
			s := core.ExprStr(a)
			// the getter's own parameter (the logger) is named by its position, not by its name
			if id, isID := ast.Unparen(a).(*ast.Ident); isID {
				sig := fd.Obj.Type().(*types.Signature)
				for i := 0; i < sig.Params().Len(); i++ {
					if info.ObjectOf(id) == sig.Params().At(i) {
						s = fmt.Sprintf("param#%d", i)
					}
				}
			}
			args = append(args, s)
		}
		bad := ""
		if strings.Join(args, ", ") != o.arg {
			bad = "argument is " + strings.Join(args, ", ")
		}
		fm, _, okF := FactsAt(fd, call, nil)
		if !okF {
			bad = "call not reached by the walker"
		} else if o.guard == "" {
			if len(facts.Atoms(fm)) != 0 {
				bad = "the option is conditional: " + facts.StripVersions(facts.String(fm))
			}
		} else {
			at := facts.Atoms(fm)
			if len(at) != 1 || facts.StripVersions(at[0]) != "b:"+o.guard || !facts.Entails(fm, facts.Atom(at[0])) {
				bad = "the option is passed under " + facts.StripVersions(facts.String(fm)) + ", not exactly under " + o.guard
			}
		}
		// the result must contain the call: either element of the literal or appended to the returned slice
		r.Check(bad == "", rule, construct, p.Pos(call.Pos()), "", bad)
	}
	// the getters return the slice they build
	for _, g := range []string{"getConnlistOptions", "getDiffOptions"} {
		fd := p.Func(core.PkgCLI, "", g)
		if fd == nil {
			continue
		}
		info := fd.Pkg.TypesInfo
		bad := ""
		var resVar types.Object
		ast.Inspect(fd.Decl.Body, func(n ast.Node) bool {
			if ret, ok := n.(*ast.ReturnStmt); ok {
				id, isID := ast.Unparen(ret.Results[0]).(*ast.Ident)
				if !isID {
					bad = "returns " + core.ExprStr(ret.Results[0])
				} else {
					resVar = info.ObjectOf(id)
				}
			}
			return true
		})
		if resVar != nil {
			ast.Inspect(fd.Decl.Body, func(n ast.Node) bool {
				if as, ok := n.(*ast.AssignStmt); ok && len(as.Lhs) == 1 {
					if id, isID := as.Lhs[0].(*ast.Ident); isID && info.ObjectOf(id) == resVar && as.Tok == token.ASSIGN {
						c, isC := ast.Unparen(as.Rhs[0]).(*ast.CallExpr)
						if !isC || !core.IsBuiltinCall(info, c, "append") || core.ExprStr(c.Args[0]) != id.Name {
							bad = "the options slice is reassigned by " + core.ExprStr(as.Rhs[0])
						}
					}
				}
				return true
			})
		}
		r.Check(bad == "" && resVar != nil, rule, fd.Key()+": returns the options slice it accumulated (only self-appends)", p.Pos(fd.Decl.Pos()), "", bad)
	}
	// 3. option setters: With* stores its parameter in the designated field
	type setter struct{ pkg, fn, field, val string }
	setters := []setter{
		{core.PkgConnlist, "WithFocusWorkload", "focusWorkload", "param"},
		{core.PkgConnlist, "WithOutputFormat", "outputFormat", "param"},
		{core.PkgConnlist, "WithExposureAnalysis", "exposureAnalysis", "true"},
		{core.PkgConnlist, "WithStopOnError", "stopOnError", "true"},
		{core.PkgConnlist, "WithLogger", "logger", "param"},
		{core.PkgDiff, "WithOutputFormat", "outputFormat", "param"},
		{core.PkgDiff, "WithStopOnError", "stopOnError", "true"},
		{core.PkgDiff, "WithLogger", "logger", "param"},
		{core.PkgDiff, "WithArgNames", "ref1Name", "param0"},
		{core.PkgDiff, "WithArgNames", "ref2Name", "param1"},
	}
	for _, s := range setters {
		fd := p.Func(s.pkg, "", s.fn)
		if fd == nil {
			r.Lost(rule, core.ShortPkg(s.pkg)+"."+s.fn)
			continue
		}
		info := fd.Pkg.TypesInfo
		sig := fd.Obj.Type().(*types.Signature)
		got := ""
		ast.Inspect(fd.Decl.Body, func(n ast.Node) bool {
			if as, ok := n.(*ast.AssignStmt); ok && len(as.Lhs) == 1 {
				if f := core.FieldOf(info, as.Lhs[0]); f != nil && core.RefName(f) == s.field {
					rhs := ast.Unparen(as.Rhs[0])
					if id, isID := rhs.(*ast.Ident); isID {
						for i := 0; i < sig.Params().Len(); i++ {
							if info.ObjectOf(id) == sig.Params().At(i) {
								got = fmt.Sprintf("param%d", i)
								if sig.Params().Len() == 1 {
									got = "param"
								}
							}
						}
						if id.Name == "true" {
							got = "true"
						}
					}
					if got == "" {
						got = core.ExprStr(rhs)
					}
				}
			}
			return true
		})
		r.Check(got == s.val, rule, fmt.Sprintf("%s: sets %s from %s", fd.Key(), s.field, s.val), p.Pos(fd.Decl.Pos()), "", "the option stores "+got+" in "+s.field)
	}
	// 4. -q / -v select verbosity only
	if fd := p.Func(core.PkgCLI, "", "determineLogVerbosity"); fd != nil {
		s := core.ExprStr(fd.Decl.Body)
		_ = s
		for _, v := range []string{"quiet", "verbose"} {
			// readers of the variable: determineLogVerbosity and the root pre-run check
			var rd []string
			for _, f2 := range p.FuncsIn(core.PkgCLI) {
				info := f2.Pkg.TypesInfo
				hit := false
				ast.Inspect(f2.Decl.Body, func(n ast.Node) bool {
					if id, ok := n.(*ast.Ident); ok && id.Name == v {
						if gv, isV := info.Uses[id].(*types.Var); isV && gv.Parent() == f2.Pkg.Types.Scope() {
							hit = true
						}
					}
					return true
				})
				if hit {
					rd = append(rd, core.RefName(f2.Obj))
				}
			}
			sort.Strings(rd)
			r.Check(strings.Join(rd, ",") == "determineLogVerbosity,newCommandRoot", rule, "cli: -"+v[:1]+" only selects the log verbosity", "", strings.Join(rd, ","), "the "+v+" switch is read by "+strings.Join(rd, ",")+": it may influence the printed result")
		}
	}
	r.Floor(rule, 35)
}

// DirAPIForwardsToInfosAPI is C18-api.
func DirAPIForwardsToInfosAPI(p *core.Program, r *core.Report, rule string) {
	type spec struct {
		pkg, recv, dirFn, infoFn string
		nScan                    int
	}
	for _, sp := range []spec{{core.PkgConnlist, "ConnlistAnalyzer", "ConnlistFromDirPath", "ConnlistFromResourceInfos", 1}, {core.PkgDiff, "DiffAnalyzer", "ConnDiffFromDirPaths", "ConnDiffFromResourceInfos", 2}} {
		fd := p.Func(sp.pkg, sp.recv, sp.dirFn)
		if fd == nil {
			r.Lost(rule, sp.recv+"."+sp.dirFn)
			continue
		}
		info := fd.Pkg.TypesInfo
		sig := fd.Obj.Type().(*types.Signature)
		// scanned infos: `infosK, errsK := fsscanner.GetResourceInfosFromDirPath([]string{dirPathK}, true, x.stopOnError)`
		var infoVars []types.Object
		var scanBad string
		ast.Inspect(fd.Decl.Body, func(n ast.Node) bool {
			as, ok := n.(*ast.AssignStmt)
			if !ok || len(as.Rhs) != 1 {
				return true
			}
			c, ok := ast.Unparen(as.Rhs[0]).(*ast.CallExpr)
			if !ok {
				return true
			}
			if nm, _ := callName(info, c); nm != "GetResourceInfosFromDirPath" {
				return true
			}
			k := len(infoVars)
			if id, isID := as.Lhs[0].(*ast.Ident); isID {
				infoVars = append(infoVars, info.ObjectOf(id))
			}
			if k < sig.Params().Len() {
				want := "[]string{" + core.RefName(sig.Params().At(k)) + "}"
				if core.ExprStr(c.Args[0]) != want {
					scanBad = fmt.Sprintf("scan #%d reads %s, not %s", k+1, core.ExprStr(c.Args[0]), want)
				}
			}
			return true
		})
		construct := fd.Key() + ": scans exactly its directory parameter(s), in order"
		r.Check(len(infoVars) == sp.nScan && scanBad == "", rule, construct, p.Pos(fd.Decl.Pos()), "", fmt.Sprintf("%d scans; %s", len(infoVars), scanBad))
		// the scanned infos are never reassigned
		reassigned := ""
		ast.Inspect(fd.Decl.Body, func(n ast.Node) bool {
			if as, ok := n.(*ast.AssignStmt); ok && as.Tok == token.ASSIGN {
				for _, l := range as.Lhs {
					if id, isID := ast.Unparen(l).(*ast.Ident); isID {
						for _, v := range infoVars {
							if info.ObjectOf(id) == v {
								reassigned = id.Name
							}
						}
					}
					if ix, isIx := ast.Unparen(l).(*ast.IndexExpr); isIx {
						if id := core.RootIdent(ix.X); id != nil {
							for _, v := range infoVars {
								if info.ObjectOf(id) == v {
									reassigned = id.Name + "[...]"
								}
							}
						}
					}
				}
			}
			return true
		})
		// every return: forward of infoFn(infos in order) | (zero..., non-nil error)
		bad := reassigned
		if bad != "" {
			bad = "the scanned infos are modified (" + bad + ") before being analysed"
		}
		nFwd := 0
		w := facts.NewWalker(info)
		w.OnExit = func(st int, ret *ast.ReturnStmt, f facts.Formula) {
			if w.FuncLitDepth > 0 || ret == nil {
				return
			}
			if len(ret.Results) == 1 {
				c, ok := ast.Unparen(ret.Results[0]).(*ast.CallExpr)
				if ok {
					if fn := core.Callee(info, c); fn != nil && core.RefName(fn) == sp.infoFn && len(c.Args) == len(infoVars) {
						okArgs := true
						for i, a := range c.Args {
							id, isID := ast.Unparen(a).(*ast.Ident)
							if !isID || info.ObjectOf(id) != infoVars[i] {
								okArgs = false
							}
						}
						if se, isSe := ast.Unparen(c.Fun).(*ast.SelectorExpr); isSe {
							if rid, isID := ast.Unparen(se.X).(*ast.Ident); !isID || info.ObjectOf(rid) != sig.Recv() {
								okArgs = false
							}
						}
						if okArgs {
							nFwd++
							return
						}
					}
				}
				bad = p.Pos(ret.Pos()) + ": returns " + core.ExprStr(ret.Results[0])
				return
			}
			if IsErrorReturn(p, w, fd.Obj, ret, f) {
				for _, e := range ret.Results[:len(ret.Results)-1] {
					if !core.IsNil(info, e) {
						bad = p.Pos(ret.Pos()) + ": an error return carries a non-nil result"
					}
				}
				return
			}
			bad = p.Pos(ret.Pos()) + ": a success return that does not forward " + sp.infoFn
		}
		w.WalkBody(fd.Decl.Body, nil)
		if nFwd == 0 && bad == "" {
			bad = "no return forwards " + sp.infoFn
		}
		r.Check(bad == "", rule, fd.Key()+": every successful return is "+sp.infoFn+"(scanned infos) on the same analyzer", p.Pos(fd.Decl.Pos()), fmt.Sprintf("%d forwarding returns", nFwd), "the directory API no longer answers with what the resource-info API returns on the scanned infos: "+bad)
	}
	r.Floor(rule, 4)
}

// runsThroughHelper: body calls a module function with the function run as an argument; that function calls the
// parameter, and both calls propagate their error (propagatesIn). at is the position of the outer call (NoPos: no such call).
func runsThroughHelper(p *core.Program, info *types.Info, body *ast.BlockStmt, run *types.Func) (ok bool, why string, at token.Pos) {
	var outer *ast.CallExpr
	idx := -1
	ast.Inspect(body, func(n ast.Node) bool {
		c, isC := n.(*ast.CallExpr)
		if !isC {
			return true
		}
		for i, a := range c.Args {
			if id, isID := ast.Unparen(a).(*ast.Ident); isID && info.ObjectOf(id) == run {
				outer, idx = c, i
			}
		}
		return true
	})
	if outer == nil {
		return false, "", token.NoPos
	}
	at = outer.Pos()
	fn := core.Callee(info, outer)
	if fn == nil || !p.IsModuleFunc(fn) || p.ByObj[fn] == nil {
		return false, "the command function is handed to a function outside the module", at
	}
	h := p.ByObj[fn]
	sig := fn.Type().(*types.Signature)
	if idx >= sig.Params().Len() {
		return false, "variadic runner", at
	}
	param := sig.Params().At(idx)
	hinfo := h.Pkg.TypesInfo
	var inner *ast.CallExpr
	ast.Inspect(h.Decl.Body, func(n ast.Node) bool {
		if c, isC := n.(*ast.CallExpr); isC {
			if id, isID := ast.Unparen(c.Fun).(*ast.Ident); isID && hinfo.ObjectOf(id) == param {
				inner = c
			}
		}
		return true
	})
	if inner == nil {
		return false, core.RefName(fn) + " does not call the command function it is given", at
	}
	if ok1, why1 := propagatesIn(p, hinfo, h.Decl.Body, inner); !ok1 {
		return false, "in " + core.RefName(fn) + ": " + why1, at
	}
	ok2, why2 := propagatesIn(p, info, body, outer)
	return ok2, why2 + " (through " + core.RefName(fn) + ", which returns the error of the command function it is given)", at
}
