package rules

import (
	"go/ast"
	"go/types"
	"strings"

	"npverif/internal/core"
)

// IntervalCanonicity is C05-d: PortSet.Ports has the library type
// *interval.CanonicalSet (unexported representation in another module) and is
// assigned only from that library's constructors and operations, so
// sortedness, disjointness and non-adjacency of the port ranges are the
// library's invariant, not this module's.
func IntervalCanonicity(p *core.Program, r *core.Report, rule string) {
	fld := p.Field(core.PkgCommon, "PortSet", "Ports")
	if fld == nil {
		r.Lost(rule, "common.PortSet.Ports")
		return
	}
	isLib := func(t types.Type) bool {
		return strings.Contains(t.String(), "np-guard/models/pkg/interval.CanonicalSet")
	}
	r.Check(isLib(fld.Type()), rule, "common.PortSet.Ports has the library's canonical interval-set type", p.Pos(fld.Pos()), fld.Type().String(), "the port representation is no longer the library's CanonicalSet: canonicity would be this module's obligation")
	var curBody *ast.BlockStmt
	var fromLibD func(info *types.Info, e ast.Expr, depth int) bool
	fromLibD = func(info *types.Info, e ast.Expr, depth int) bool {
		if id, ok := ast.Unparen(e).(*ast.Ident); ok && curBody != nil && depth < 3 {
			// a local of the function every assignment of which is a library value
			o, isVar := info.ObjectOf(id).(*types.Var)
			if !isVar || o.IsField() || o.Parent() == nil || o.Pkg() == nil || o.Parent() == o.Pkg().Scope() {
				return false
			}
			nAs, good := 0, true
			ast.Inspect(curBody, func(m ast.Node) bool {
				switch x := m.(type) {
				case *ast.AssignStmt:
					for i, l := range x.Lhs {
						if lid, ok := ast.Unparen(l).(*ast.Ident); ok && info.ObjectOf(lid) == o {
							nAs++
							if len(x.Rhs) != len(x.Lhs) || !fromLibD(info, x.Rhs[i], depth+1) {
								good = false
							}
						}
					}
				case *ast.ValueSpec:
					for i, nm := range x.Names {
						if info.ObjectOf(nm) == o && i < len(x.Values) {
							nAs++
							if !fromLibD(info, x.Values[i], depth+1) {
								good = false
							}
						}
					}
				case *ast.UnaryExpr:
					if lid, ok := ast.Unparen(x.X).(*ast.Ident); ok && x.Op.String() == "&" && info.ObjectOf(lid) == o {
						good = false
					}
				case *ast.RangeStmt:
					for _, l := range []ast.Expr{x.Key, x.Value} {
						if lid, ok := l.(*ast.Ident); ok && info.ObjectOf(lid) == o {
							good = false
						}
					}
				}
				return true
			})
			return good && nAs > 0
		}
		c, ok := ast.Unparen(e).(*ast.CallExpr)
		if !ok {
			return false
		}
		fn := core.Callee(info, c)
		if fn != nil && fn.Pkg() != nil && strings.HasSuffix(fn.Pkg().Path(), "models/pkg/interval") {
			return true
		}
		// a helper of the module every return of which hands out a library value
		if hd := p.ByObj[fn]; hd != nil && depth < 3 && fn.Type().(*types.Signature).Results().Len() > 0 && isLib(fn.Type().(*types.Signature).Results().At(0).Type()) {
			saved := curBody
			curBody = hd.Decl.Body
			okAll, nRet := true, 0
			ast.Inspect(hd.Decl.Body, func(m ast.Node) bool {
				if _, isLit := m.(*ast.FuncLit); isLit {
					return false
				}
				if ret, isRet := m.(*ast.ReturnStmt); isRet && len(ret.Results) >= 1 {
					nRet++
					if !fromLibD(hd.Pkg.TypesInfo, ret.Results[0], depth+1) {
						okAll = false
					}
				}
				return true
			})
			curBody = saved
			return okAll && nRet > 0
		}
		return false
	}
	fromLib := func(info *types.Info, e ast.Expr) bool { return fromLibD(info, e, 0) }
	// a constructor that receives the port numbers as a parameter: every call site must hand it a library value
	paramFromLib := func(fd *core.FuncDecl, e ast.Expr) bool {
		id, ok := ast.Unparen(e).(*ast.Ident)
		if !ok {
			return false
		}
		sig := fd.Obj.Type().(*types.Signature)
		for i := 0; i < sig.Params().Len(); i++ {
			if fd.Pkg.TypesInfo.ObjectOf(id) != types.Object(sig.Params().At(i)) || fd.Obj.Exported() {
				continue
			}
			sites := CallsTo(p, fd.Obj)
			if len(sites) == 0 {
				return false
			}
			for _, cs := range sites {
				saved := curBody
				curBody = cs.In.Decl.Body
				good := i < len(cs.Call.Args) && fromLibD(cs.In.Pkg.TypesInfo, cs.Call.Args[i], 1)
				curBody = saved
				if !good {
					return false
				}
			}
			return true
		}
		return false
	}
	n := 0
	for _, fd := range p.Funcs {
		info := fd.Pkg.TypesInfo
		curBody = fd.Decl.Body
		ast.Inspect(fd.Decl.Body, func(nd ast.Node) bool {
			switch x := nd.(type) {
			case *ast.AssignStmt:
				for i, l := range x.Lhs {
					if core.FieldOf(info, l) == fld && i < len(x.Rhs) {
						n++
						r.Check(fromLib(info, x.Rhs[i]) || paramFromLib(fd, x.Rhs[i]), rule, fd.Key()+": PortSet.Ports assigned from an interval-library call", p.Pos(x.Pos()), core.ExprStr(x.Rhs[i]), "PortSet.Ports is assigned a value that does not come directly from a constructor or operation of the interval library")
					}
				}
			case *ast.CompositeLit:
				if core.TypeIs(info.TypeOf(x), core.PkgCommon, "PortSet") {
					for _, el := range x.Elts {
						if kv, ok := el.(*ast.KeyValueExpr); ok {
							if id, ok := kv.Key.(*ast.Ident); ok && info.ObjectOf(id) == fld {
								n++
								r.Check(fromLib(info, kv.Value) || paramFromLib(fd, kv.Value), rule, fd.Key()+": PortSet literal initialises Ports from an interval-library call", p.Pos(kv.Pos()), core.ExprStr(kv.Value), "a PortSet literal initialises Ports with a value not produced by the interval library")
							}
						}
					}
				}
			}
			return true
		})
	}
	r.Floor(rule, 5)
	_ = n
}
