package rules

import (
	"fmt"
	"go/ast"
	"go/token"
	"go/types"
	"strings"

	"npverif/internal/core"
	"npverif/internal/facts"
)

// GuardedRowConstruction is C05-a / C16-b: every construction of a result row
// (createConnectionObject) happens for a pair accepted by
// includePairOfWorkloads and for a non-empty connection set; the guards are
// looked for at the call site or, for a pass-through wrapper, at the wrapper's
// call sites (one level).
func GuardedRowConstruction(p *core.Program, r *core.Report, rule string) {
	ctor := p.Func(core.PkgConnlist, "", "createConnectionObject")
	incl := p.Func(core.PkgConnlist, "ConnlistAnalyzer", "includePairOfWorkloads")
	if ctor == nil || incl == nil {
		r.Lost(rule, "connlist.createConnectionObject / (*ConnlistAnalyzer).includePairOfWorkloads")
		return
	}
	type site struct {
		fd             *core.FuncDecl
		call           *ast.CallExpr
		conn, src, dst ast.Expr
	}
	var sites []site
	for _, cs := range CallsTo(p, ctor.Obj) {
		if len(cs.Call.Args) == 3 {
			sites = append(sites, site{cs.In, cs.Call, cs.Call.Args[0], cs.Call.Args[1], cs.Call.Args[2]})
		}
	}
	checkSite := func(s site) (okPair, okEmpty bool) {
		info := s.fd.Pkg.TypesInfo
		fm, paths, found := FactsAtWith(s.fd, s.call, nil, []ast.Expr{s.conn, s.src, s.dst})
		if !found || len(paths) != 3 {
			return false, false
		}
		// includePairOfWorkloads(pe, src, dst) true
		for _, a := range facts.Atoms(fm) {
			if strings.HasPrefix(a, "b:") && strings.Contains(a, ".includePairOfWorkloads(") && strings.HasSuffix(a, ","+paths[1]+","+paths[2]+")") && facts.Entails(fm, facts.Atom(a)) {
				okPair = true
			}
			if strings.HasPrefix(a, "b:") && strings.HasSuffix(a, ".IsEmpty()") && strings.HasPrefix(a, "b:"+paths[0]+".") && facts.Entails(fm, facts.Not{X: facts.Atom(a)}) {
				okEmpty = true
			}
		}
		_ = info
		return
	}
	n := 0
	for _, s := range sites {
		okPair, okEmpty := checkSite(s)
		if !(okPair && okEmpty) {
			// pass-through wrapper? the three arguments are parameters of the enclosing function
			info := s.fd.Pkg.TypesInfo
			pidx := func(e ast.Expr) int {
				id, ok := ast.Unparen(e).(*ast.Ident)
				if !ok {
					return -1
				}
				sig := s.fd.Obj.Type().(*types.Signature)
				for i := 0; i < sig.Params().Len(); i++ {
					if sig.Params().At(i) == info.ObjectOf(id) {
						return i
					}
				}
				return -1
			}
			ci, si, di := pidx(s.conn), pidx(s.src), pidx(s.dst)
			if ci >= 0 && si >= 0 && di >= 0 {
				callers := CallsTo(p, s.fd.Obj)
				all := len(callers) > 0
				for _, cs := range callers {
					if len(cs.Call.Args) <= ci || len(cs.Call.Args) <= si || len(cs.Call.Args) <= di {
						all = false
						continue
					}
					p2, e2 := checkSite(site{cs.In, cs.Call, cs.Call.Args[ci], cs.Call.Args[si], cs.Call.Args[di]})
					if !(p2 || okPair) || !(e2 || okEmpty) {
						all = false
					}
				}
				if all {
					okPair, okEmpty = true, true
				}
			}
		}
		n++
		c := fmt.Sprintf("%s: result row #%d is built only for an included pair and a non-empty connection", s.fd.Key(), n)
		reason := ""
		if !okPair {
			reason = "no includePairOfWorkloads(…, src, dst) == true on the same pair dominates the construction: self pairs, IP-IP pairs or pairs outside the focus workload can become rows"
		} else if !okEmpty {
			reason = "no !IsEmpty() on the same connection set dominates the construction: an empty connection can be listed"
		}
		r.Check(okPair && okEmpty, rule, c, p.Pos(s.call.Pos()), "dominated by includePairOfWorkloads(src,dst) and !conn.IsEmpty() (at the site or at every caller of the pass-through wrapper)", reason)
	}
	r.Floor(rule, 3)

	// the inclusion predicate itself: no IP-IP pairs, no self pairs
	info := incl.Pkg.TypesInfo
	sig := incl.Obj.Type().(*types.Signature)
	if sig.Params().Len() < 3 {
		r.Add(rule+"-pred", incl.Key()+": signature", p.Pos(incl.Decl.Pos()), core.Undecided, "expected (pe, src, dst)")
		return
	}
	src, dst := sig.Params().At(sig.Params().Len()-2), sig.Params().At(sig.Params().Len()-1)
	w := facts.NewWalker(info)
	w.Atomize = PeerTypeAtomizer(info)
	w.Inline = true
	sawFinal := false
	w.OnStmt = func(s ast.Stmt, f facts.Formula) {
		ret, ok := s.(*ast.ReturnStmt)
		if !ok || len(ret.Results) != 1 {
			return
		}
		if v, ok := core.ConstString(info, ret.Results[0]); ok && v == "false" {
			return
		}
		sawFinal = true
		// a possibly-true answer: not both IPs, and the two strings differ
		bothIP := facts.And{L: facts.Atom("isIP:" + w.PathOfVar(src)), R: facts.Atom("isIP:" + w.PathOfVar(dst))}
		a, b := w.PathOfVar(src)+".String()", w.PathOfVar(dst)+".String()"
		if a > b {
			a, b = b, a
		}
		same := facts.Atom("eq:" + a + "==" + b)
		r.Check(facts.Entails(f, facts.Not{X: bothIP}), rule+"-pred", incl.Key()+": never accepts a pair of two IP peers", p.Pos(ret.Pos()), "a positive answer is reachable only when not both ends are IP blocks", "a pair of two IP peers can be accepted")
		r.Check(facts.Entails(f, facts.Not{X: same}), rule+"-pred", incl.Key()+": never accepts a peer paired with itself", p.Pos(ret.Pos()), "a positive answer is reachable only when src.String() != dst.String()", "a peer can be paired with itself (the test src.String() == dst.String() no longer excludes it)")
	}
	w.WalkBody(incl.Decl.Body, nil)
	if !sawFinal {
		r.Bad(rule+"-pred", incl.Key()+": has a positive answer", p.Pos(incl.Decl.Pos()), "no non-constant return found")
	}
}

// PairLoopShape: one row per ordered pair - the pair loop is a doubly nested
// loop over the same peer list and the row is appended once per inner iteration.
func PairLoopShape(p *core.Program, r *core.Report, rule string) {
	fd := p.Func(core.PkgConnlist, "ConnlistAnalyzer", "getConnectionsBetweenPeers")
	if fd == nil {
		r.Lost(rule, "(*ConnlistAnalyzer).getConnectionsBetweenPeers")
		return
	}
	info := fd.Pkg.TypesInfo
	ok := false
	var inner *ast.RangeStmt
	ast.Inspect(fd.Decl.Body, func(n ast.Node) bool {
		outer, isR := n.(*ast.RangeStmt)
		if !isR {
			return true
		}
		for _, st := range outer.Body.List {
			if in, isR2 := st.(*ast.RangeStmt); isR2 && core.ExprStr(in.X) == core.ExprStr(outer.X) {
				ok = true
				inner = in
			}
		}
		return true
	})
	appends := 0
	nestedAppend := false
	if inner != nil {
		var visit func(n ast.Node, depth int)
		visit = func(n ast.Node, depth int) {
			ast.Inspect(n, func(m ast.Node) bool {
				if m == n {
					return true
				}
				switch x := m.(type) {
				case *ast.RangeStmt:
					visit(x.Body, depth+1)
					return false
				case *ast.ForStmt:
					visit(x.Body, depth+1)
					return false
				case *ast.CallExpr:
					if core.IsBuiltinCall(info, x, "append") && len(x.Args) >= 2 {
						if t := info.TypeOf(x.Args[0]); t != nil && strings.Contains(t.String(), "Peer2PeerConnection") {
							appends++
							if depth > 0 || x.Ellipsis != token.NoPos {
								nestedAppend = true
							}
						}
					}
				}
				return true
			})
		}
		visit(inner.Body, 0)
	}
	r.Check(ok && appends == 1 && !nestedAppend, rule, fd.Key()+": one row per ordered pair", p.Pos(fd.Decl.Pos()),
		"doubly nested loop over the same peer list; exactly one single-element append of a row per inner iteration",
		fmt.Sprintf("the pair loop is not a doubly nested loop over one list with a single row append per pair (nested=%v, appends=%d, multi=%v)", ok, appends, nestedAppend))
}

// PartitionInputsAreRanges is C05-b': every block handed to the IP partition
// is an element of a Split() result (a single contiguous range) or the full range.
func PartitionInputsAreRanges(p *core.Program, r *core.Report, rule string) {
	root := p.Func(core.PkgEval, "PolicyEngine", "getDisjointIPBlocks")
	if root == nil {
		r.Lost(rule, "(*PolicyEngine).getDisjointIPBlocks")
		return
	}
	isBlockList := func(t types.Type) bool {
		return t != nil && strings.HasSuffix(t.String(), "[]*github.com/np-guard/models/pkg/netset.IPBlock")
	}
	n := 0
	for fn := range p.Reachable(root.Obj) {
		fd := p.ByObj[fn]
		if fd == nil {
			continue
		}
		info := fd.Pkg.TypesInfo
		ast.Inspect(fd.Decl.Body, func(nd ast.Node) bool {
			c, ok := nd.(*ast.CallExpr)
			if !ok || !core.IsBuiltinCall(info, c, "append") || len(c.Args) < 2 || !isBlockList(info.TypeOf(c.Args[0])) {
				return true
			}
			for _, arg := range c.Args[1:] {
				n++
				okArg, how := false, ""
				a := ast.Unparen(ResolveLocal(info, fd.Decl.Body, arg))
				if call, ok := a.(*ast.CallExpr); ok {
					if f2 := core.Callee(info, call); f2 != nil && core.RefName(f2) == "Split" && c.Ellipsis != token.NoPos {
						okArg, how = true, "elements of a Split() result"
					}
				}
				if id, ok := a.(*ast.Ident); ok && c.Ellipsis != token.NoPos {
					// a list produced by a module function that itself satisfies the rule (checked at its own appends)
					o := info.ObjectOf(id)
					ast.Inspect(fd.Decl.Body, func(m ast.Node) bool {
						if as, ok := m.(*ast.AssignStmt); ok && len(as.Rhs) == 1 {
							if lid, ok := as.Lhs[0].(*ast.Ident); ok && info.ObjectOf(lid) == o {
								if call, ok := ast.Unparen(as.Rhs[0]).(*ast.CallExpr); ok {
									if f2 := core.Callee(info, call); f2 != nil && p.IsModuleFunc(f2) && isBlockList(firstResult(f2)) {
										okArg, how = true, "list returned by "+core.RefName(f2)+" (its own appends are checked)"
									}
								}
							}
						}
						return true
					})
				}
				r.Check(okArg, rule, fmt.Sprintf("%s: block list extended with single ranges (%s)", fd.Key(), core.Stable(info, a)), p.Pos(c.Pos()), how,
					"a block that may consist of several disjoint ranges (a CIDR minus its excepts) is handed to the partition un-split: the partition then yields an IP peer that is not one contiguous range")
			}
			return true
		})
	}
	r.Floor(rule, 2) // the engine-level append and at least one Split append (inlining the per-rule helper merges identical constructs)
	_ = n
}

func firstResult(fn *types.Func) types.Type {
	sig := fn.Type().(*types.Signature)
	if sig.Results().Len() == 0 {
		return nil
	}
	return sig.Results().At(0).Type()
}
